"""the real `asca` binary, built from /repo's working tree into the harness target directory"""
import os, subprocess
from . import core

CLI_TARGET = os.path.join(core.HARNESS, "target", "cli")
BIN = os.path.join(CLI_TARGET, "release", "asca")
ENV = dict(core.ENV, NO_COLOR="1", CLICOLOR="0")


def build_cli():
    rc, out, err, dt = core.run(["cargo", "build", "--release", "--offline", "--bin", "asca", "--target-dir", CLI_TARGET], cwd=core.REPO, timeout=3000)
    ok = rc == 0 and os.path.exists(BIN)
    return core.ob("cargo build the asca binary from /repo's working tree", "harness-build", ok, f"{dt:.1f}s" if ok else err[-2500:])


def run_bin(args, cwd, timeout=30):
    """(rc, stdout, stderr); rc 124 = killed after the timeout"""
    try:
        p = subprocess.run([BIN] + args, cwd=cwd, env=ENV, stdin=subprocess.DEVNULL, capture_output=True, timeout=timeout)
        return p.returncode, p.stdout.decode("utf-8", "replace"), p.stderr.decode("utf-8", "replace")
    except subprocess.TimeoutExpired as e:
        return 124, (e.stdout or b"").decode("utf-8", "replace"), "timeout"


def cps(text):
    return " ".join(str(ord(c)) for c in text)


def counted(text):
    return f"{len(text)} {cps(text)}".strip()


def read(path):
    with open(path, "rb") as f:
        return f.read().decode("utf-8", "replace")
