"""C02 — every call returns (DESIGN §4 C02)."""
import json, os, re, shutil
from . import core, suites
from .c04 import ops_correspondence


def enclosing_fn(path, line):
    """name of the `fn` whose body contains `line` of the Rust source file (so that known findings do not depend on line numbers)"""
    try:
        src = open(path, encoding="utf-8").read().split("\n")
    except OSError:
        return "?"
    name = "?"
    for i in range(min(line, len(src)) - 1, -1, -1):
        m = re.match(r"\s*(?:pub(?:\([a-z]+\))?\s+)?(?:const\s+)?fn\s+(\w+)", src[i])
        if m:
            name = m.group(1)
            break
    return name


def normalise(findings):
    out = []
    for kind, case in findings:
        parts = kind.split("|")
        if parts[0] == "c02-panic" and len(parts) in (3, 4):
            loc, mc = parts[1], parts[2] + (":" + parts[3] if len(parts) == 4 else "")
            m = re.match(r"(.*):(\d+)$", loc)
            if m:
                f, ln = m.group(1), int(m.group(2))
                rel = f.split("/src/", 1)[1] if "/src/" in f else os.path.basename(f)
                fn = enclosing_fn(f, ln)
                kind = f"c02-panic:{rel}::{fn}:{mc}"
            else:
                kind = f"c02-panic:{loc}:{mc}"
        elif parts[0] == "c02-hang" and len(parts) == 2:
            kind = f"c02-hang:{parts[1]}"
        out.append((kind, case))
    return out


def check(res, thorough):
    ok_t, ok_b, ok_h = core.prepare(res, "AscaVerif.Props.C02", thorough=thorough, extra_props=["AscaVerif.Props.C02Word", "AscaVerif.Props.C02Lex", "AscaVerif.Props.C02Parse", "AscaVerif.Props.C02Numbers", "AscaVerif.Props.C02ALex", "AscaVerif.Props.C02AParse", "AscaVerif.Props.C02ATotal", "AscaVerif.Props.C02Terms"])
    tier = "thorough" if thorough else "quick"
    scratch = core.scratch_dir("c02")
    try:
        if ok_h and os.path.exists(core.DRIVER_BIN):
            stats, samples, diffs = ops_correspondence(res, scratch, "interp-ops", tier, "interp-ops", 20000, extra_args=[str(res.seed)])
            res.coverage["interp_correspondence"] = stats
            res.coverage["traces_validated_against_impl"] = stats.get("interp.cases", 0)
            for cmd, minops in (("lex-ops", 30000), ("parse-ops", 30000), ("aliasp-ops", 30000)):
                st2, _, _ = ops_correspondence(res, scratch, cmd, tier, cmd, minops, extra_args=[str(res.seed)])
                res.coverage[cmd] = st2
                res.coverage["traces_validated_against_impl"] += st2.get(cmd.split("-")[0] + ".ops", 0)
        if ok_h:
            s = suites.run_suite(["c02-spec", tier, str(res.seed)], timeout=7000)
            findings = normalise(s["findings"])
            new = suites.classify(res, "C02", findings, f"asca-harness c02-spec {tier} {res.seed}")
            n = s["stats"].get("c02.cases", 0)
            known_kinds = {k["kind"] for k in core.known_for("C02")}
            res.add(core.ob(f"c02-spec: run / get_trace_string / trace_changes return Ok or Err within the step budget on {n} inputs (grammar, token mutations, noise); "
                            f"{len(findings)} panics/hangs, {new} not in known_findings.json", "impl-property", s["rc"] == 0 and new == 0 and n > 10000,
                            json.dumps([f for f in findings if f[0] not in known_kinds][:3], ensure_ascii=False) + s["err"]))
            res.evaluations = n
            res.distinct_nontrivial = s["stats"].get("c02.changed", 0) + s["stats"].get("c02.errors_returned", 0)
            res.coverage["input_distribution"] = s["stats"]
            res.coverage["findings_by_kind"] = {k: sum(1 for f in findings if f[0] == k) for k in {f[0] for f in findings}}
            res.samples = s["samples"]
        res.rule = ("four streams of rule strings, one quarter each: generated from the documented grammar (Full / Tame profiles), token-level mutations of generated "
                    "rules (delete, duplicate, swap, replace, insert a token), raw noise over the rule alphabet (incl. 20-digit numbers, escapes, tabs), short edge rules "
                    "(1-3 inputs and 0-3 outputs mixing segments, `$`, `%`, wildcards over a small inventory, on 1-3 syllable words); words: "
                    "generated, mutated, noise; every eighth case with a (de)romaniser line, a third of those noise; step budget 60k loop iterations "
                    "(words <= ~20 segments, rules <= ~40 tokens: far above |word| x |rule|); non-trivial = the call changed a word or returned an error")
        res.assumptions = ["release profile: integer overflow wraps instead of panicking (a debug build panics in more places)",
                           "stack overflow, allocation failure and wall-clock time are outside the model",
                           "the rule and alias lexers and parsers are ported (Model/Lexer, Parser, AliasLexer, AliasParser) and tied by lex-ops / parse-ops / aliasp-ops"]
    finally:
        shutil.rmtree(scratch, ignore_errors=True)
    return res.finish()


def replay(path):
    print(open(path).read())
    return 0
