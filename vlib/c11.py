from . import runnerprops
def check(res, thorough): return runnerprops.check(res, thorough, "C11")
replay = runnerprops.replay
