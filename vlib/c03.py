from . import interpprops
def check(res, thorough):
    return interpprops.check(res, thorough, "C03", "AscaVerif.Props.C03", "c03-spec", "c03.cases", "c03.changed",
        "random rules of the basic fragment over the inventory {p,t,k,a,i,n,s} x {[],C,V,O,S,P,F,N,[±voice],[±cont],[±nasal],[+son],[+high],±node} "
        "(input one element or set; output IPA/matrix/set; 0-3 environments per side-list length <= 2, exceptions <= 1, environment sets, # and $) "
        "x 12 random words each (1-6 segments, every syllabification, stress, tone); cases where two equal segments become adjacent in a syllable "
        "at any stage are skipped as the property says; non-trivial = the reference interpreter changes the word",
        ["the reference interpreter in harness/src/frag.rs is written from doc.md, independently of subrule.rs",
         "release profile; one sub-rule per rule"], level="proof", extra_props=["AscaVerif.Props.C03Complete"])
replay = interpprops.replay
