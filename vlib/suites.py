"""Helpers shared by the per-property checks: run a harness suite, collect FINDING / STAT / SAMPLE lines,
classify findings against known_findings.json."""
import json, os, re
from . import core


def run_suite(args, timeout=3000):
    rc, out, err, dt = core.harness(args, timeout=timeout)
    findings, stats, samples = [], {}, []
    for line in out.splitlines():
        if line.startswith("FINDING "):
            parts = line.split(" ", 2)
            findings.append((parts[1], parts[2] if len(parts) > 2 else ""))
        elif line.startswith("STAT "):
            body = line[5:]
            k, _, v = body.rpartition(" ")
            try:
                stats[k] = stats.get(k, 0) + int(v)
            except ValueError:
                pass
        elif line.startswith("SAMPLE "):
            samples.append(line[7:])
    return {"rc": rc, "findings": findings, "stats": stats, "samples": samples, "err": err[-1500:], "wall": dt}


def merge_stats(a, b):
    for k, v in b.items():
        a[k] = a.get(k, 0) + v


def classify(res, prop, findings, how, implies_corr_break=()):
    """Turn FINDING lines into violations; a finding whose kind is listed (status known) in known_findings.json for
    this property is reported as KNOWN-FINDING instead.  Returns number of *new* violations."""
    known = {k["kind"]: k for k in core.known_for(prop)}
    new = 0
    for kind, case in findings:
        if kind in known:
            res.violation(known[kind]["what"], {"kind": kind, "case": case, "how": how}, known_key=known[kind]["key"])
        else:
            new += 1
            res.violation(f"{kind}: the property fails on the implementation", {"kind": kind, "case": case, "how": how})
    return new
