"""C17 — errors can always be shown and point at the line that caused them."""
import json, os, shutil
from . import core, suites
from .c04 import ops_correspondence


def check(res, thorough):
    ok_t, ok_b, ok_h = core.prepare(res, "AscaVerif.Props.C17", thorough=thorough, extra_props=["AscaVerif.Props.C17Lex", "AscaVerif.Props.C17Parse", "AscaVerif.Props.C02ATotal"])
    tier = "thorough" if thorough else "quick"
    if ok_h and os.path.exists(core.DRIVER_BIN):
        scratch = core.scratch_dir("c17")
        try:
            tv = 0
            for cmd, minops in (("lex-ops", 30000), ("parse-ops", 30000), ("aliasp-ops", 30000)):
                st2, _, _ = ops_correspondence(res, scratch, cmd, tier, cmd, minops, extra_args=[str(res.seed)])
                res.coverage[cmd] = st2
                tv += st2.get(cmd.split("-")[0] + ".ops", 0)
            res.coverage["traces_validated_against_impl"] = tv
        finally:
            shutil.rmtree(scratch, ignore_errors=True)
    if ok_h:
        os.environ["NO_COLOR"] = "1"
        core.ENV["NO_COLOR"] = "1"
        s = suites.run_suite(["c17-spec", tier, str(res.seed)])
        new = suites.classify(res, "C17", s["findings"], f"NO_COLOR=1 asca-harness c17-spec {tier} {res.seed}")
        n = s["stats"].get("c17.cases", 0)
        known_kinds = {k["kind"] for k in core.known_for("C17")}
        res.add(core.ob(f"c17-spec: every error of {n} planted faults formats without panicking, names the planted (group, line) and marks a span within the line "
                        f"({len(s['findings'])} findings, {new} not in known_findings.json)", "impl-property", s["rc"] == 0 and new == 0 and n > 5000,
                        json.dumps([f for f in s["findings"] if f[0] not in known_kinds][:3], ensure_ascii=False) + s["err"]))
        res.evaluations = n
        res.distinct_nontrivial = s["stats"].get("c17.nontrivial", 0)
        res.coverage["input_distribution"] = s["stats"]
        res.coverage["findings_by_kind"] = {k: sum(1 for f in s["findings"] if f[0] == k) for k in {f[0] for f in s["findings"]}}
        res.samples = s["samples"]
    res.rule = ("valid rule-group lists (1-3 groups x 1-4 lines, blank lines included) that run cleanly on three words; at a random (group, line) one fault is planted: "
                "a syntax fault (one of 25 token-level mutations of a generated rule) or one of 32 runtime-fault rules; the error returned by run is formatted under "
                "catch_unwind, the `@ Rule g, Line l` it prints is compared with the planted position, the caret columns with [0, len(line)]; plus one bad alias line "
                "and one bad word; non-trivial = the message shows a rule line")
    res.assumptions = ["colouring and message wording are not judged", "theorems: the formatter arithmetic, and that every LEXER error is well placed (Props/C17Lex); for parser and interpreter errors well-placedness is decided by this search, "
                       "with the parser model's error spans compared with the implementation's on every generated line (parse-ops)"]
    return res.finish()


def replay(path):
    print(open(path).read())
    return 0
