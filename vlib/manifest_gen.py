#!/usr/bin/env python3
"""Regenerates MANIFEST.json from the table below (run after claiming a new property)."""
import json, os
V = os.path.dirname(os.path.dirname(os.path.abspath(__file__)))
ALL = [f"C{i:02d}" for i in range(1, 21)]

CLAIMED = {
    "C17": dict(
        text="Proved about the formatter arithmetic (error/syntax.rs, error/runtime.rs): an error whose position is well placed (existing group and line, start <= end <= "
             "len+1) formats without panicking, shows exactly the named line, and every caret lies within [0, len]; an error naming a missing group/line or a reversed span "
             "makes the formatter panic - so well-placedness is exactly the obligation on the rest of the code. PARTIAL: that every error the lexer/parser/interpreter produce "
             "is well placed is not proved (front ends not ported); it is decided by the c17-spec search: one fault (25 syntax mutations, 32 runtime-fault rules) planted at "
             "a random (group, line) of valid rule lists, one bad alias line, one bad word; the formatter runs under catch_unwind; reported line = planted line; carets in range.",
        note="Trusted: Lean kernel, standard axioms; the formatter model is hand-written and small (span arithmetic + two indexings) and has no own correspondence suite beyond "
             "the search; colours and wording are not judged. D28 (second caret misplaced) was repaired by a fix: commit; D29 (zero-width `%` position) is a known finding.",
        technique="Lean 4 theorems on formatter arithmetic + planted-fault search on impl",
        design="§4 C17"),
    "C18": dict(
        text="Machine-checked proof (Lean 4) of the get/set/frame/normalisation laws for every Option<u16> place (all 2^16+1, "
             "well formed or not), every sub-node, every in-range value and every byte, over a model of place.rs/seg.rs whose "
             "constants are regenerated from the source on every run; the model is tied to the code by an exhaustive "
             "correspondence run (921k lines covering the whole finite space) through the public API.",
        note="Trusted: Lean kernel; propext/Classical.choice/Quot.sound; bv_decide certificate axioms (closed 8/16-bit identities, "
             "listed in the evidence); translator (regex over place.rs/lexer.rs, cross-checked against the running crate); "
             "release profile (setter debug_assert!s off). Modelled, not verified: Place/Segment accessors as Lean functions.",
        technique="Lean 4 theorems (bv_decide bit lemmas + case analysis) + exhaustive model/impl correspondence",
        design="§4 C18"),
    "C01": dict(
        text="The library's only input that is not an argument is the order in which CARDINALS_VEC lists the graphemes. The model makes it an explicit "
             "parameter; theorem render_order_irrelevant: for EVERY permutation of the grapheme table (= every possible hash seed) every word renders "
             "the same, proved from canon_perm (sorting any two orders of a table with distinct keys gives one list: lexicographic order is total, "
             "transitive, antisymmetric; mergeSort lemmas) and from two facts re-derived from the source on every run: the table's keys are distinct "
             "(kernel-evaluated over 365 rows) and lib.rs sorts the vector (translator). Theorems also pin the complete list of hash-ordered iterations "
             "and of statics in the library, so a new hidden input breaks the build. A pure function needs no further theorem in Lean: the remaining "
             "claim (two calls / two processes agree) is checked by running 8 (thorough: 24) fresh processes on the whole segment space and generated runs; \"in which order the words are supplied\": per-word independence is C11.run_pointwise over the runner model, and every run of a separate stream (2 500 quick / 20 000 thorough rule sets, 2-5 words) is repeated on the reversed word list and must give the reversed results (a binding table or cache that survives from one word to the next shows here with the two word lists as the failing input).",
        note="Trusted: Lean kernel, standard axioms; translator's reading of the CARDINALS_VEC initialiser and its grep for hash iteration/statics "
             "(regex, declared); std's HashMap has no influence other than iteration order. The pinned tree violated the property (D1); repaired by a "
             "fix: commit (known_findings.json, status fixed); seeded/C01-unsorted-cardinals reverts it and is detected.",
        technique="Lean 4 theorem over all permutations of the table + source facts + multi-process search",
        design="§4 C01"),
    "C02": dict(
        text="In the model a panic and a non-terminating loop are VALUES (Outcome.panic / outOfFuel with the site), so `every call returns` is `the result is ok or err`. Proved: "
             "the runner adds no failure of its own - if the parsers, the interpreter and the renderer return ok/err on every input then so do run and trace_changes, for any "
             "number of groups, rules, lines and words (abstract runner, induction over the lists); the WORD PARSER component is discharged outright: Word::new returns a "
             "word or a WordSyntaxError for EVERY text (parseWord_returns, Props/C02Word: progress of every loop iteration incl. the longest-match back-off, and no index "
             "out of range in the diacritic code by a kernel check over the regenerated diacritic table); every index trace_to_string uses is in range (from C16); on the "
             "literal fragment the interpreter's scan neither fails nor panics (C03.basic_scan_sound). REFUTED for the full grammar on the pinned tree: the interpreter port, which agrees with the code on the "
             "outcome class (ok / error kind / panic / hang) of ~27k generated cases per run, returns panic/outOfFuel on the families of known_findings.json (insertion "
             "fall-backs D4, `$ > $` D3, numbers above usize::MAX D2, insertion exception past the end of the word D22, empty optional D25, ...; D6, D20, D23 were repaired). The "
             "property itself is evaluated on the implementation over four input streams (grammar, token mutations, noise, short edge rules; 80k quick / 2M thorough) under "
             "catch_unwind and the step-counter hook.",
        note="PARTIAL: the rule/alias lexers and parsers are not ported to Lean yet (their totality rests on the search only); stack depth, allocation failure and wall-clock time "
             "are outside the model; release profile (wrapping arithmetic) - a debug build panics in more places. Panics/hangs are keyed by file::function + message class "
             "and the shape of the failing rule (recomputed from the current source, so line shifts do not matter); a failure at a new site or of a new shape is a VIOLATION.",
        technique="Lean 4 theorems (runner returns if components do; word parser returns on every text) + outcome-class correspondence of the interpreter port + four-stream search with step budget",
        design="§4 C02"),
    "C03": dict(
        text="Over a line-by-line Lean port of the interpreter (subrule.rs, rule.rs: all four rule types, every matcher, cursor arithmetic with release-mode wrapping, "
             "panics and non-termination as values), tied to Rule::apply on ~28k generated (rule, word) cases per quick run (identical outcome class and word). PROVED by "
             "induction over the whole scan, for every word and any number of matches: (1) EXACTNESS of the basic rule `a > t` without environment (a != t; "
             "C03Complete.basic_rule_exact): whenever SubRule::apply returns a word, that word is a rewriting of runs of `a` into `t` and nothing else (same syllables, stress, "
             "tone, every other segment in place) AND contains no `a` any more - soundness and completeness, with the cursor followed through increment / skip-run arithmetic "
             "(words whose counters do not wrap, < 2^64-1); without an environment the rule also cannot fail or panic (basic_scan_sound). (2) SOUNDNESS under EVERY environment "
             "and exception, with the environment matcher an opaque call whose three outcomes are all handled: `a > t / env` rewrites nothing but runs of `a` "
             "(basic_scan_sound_env); `X > t / env` for any single-segment X keeps syllables, stress and tone (replacement_rule_keeps_prosody); `X > [features] / env` keeps the "
             "shape of the word (feature_rule_keeps_shape). PARTIAL: completeness UNDER an environment (exactly the positions the environment selects are rewritten) is not proved; it "
             "is decided by an independent reference interpreter written from the manual, compared with the implementation over the basic fragment (~110k cases quick, 2.4M thorough).",
        note="Trusted: Lean kernel, standard axioms; the hand port (Model/Interp), tied to the code by the interp-ops correspondence on every run; the harness reference "
             "interpreter (frag.rs) for the part that is not proved; hooks, generators.",
        technique="Lean 4 whole-scan theorems on the interpreter port (exactness without environment, soundness with any environment) + model/impl correspondence + reference interpreter from the manual",
        design="§4 C03"),
    "C04": dict(
        text="Machine-checked theorems about a line-by-line Lean model of SubRule::match_modifiers / Segment::apply_seg_mods: a binary feature "
             "matches iff present-and-equal (absent sub-node matches neither polarity), a whole binary matrix matches iff every named feature has "
             "the named value, +F sets / creates, -F clears / is a no-op on an absent sub-node, the frame law (other features unchanged; created "
             "sub-node has its other features negative), node removal/addition, rejection of major nodes and +place, and alpha bind/use/carry "
             "laws (αF binds F's value, αG/-αG apply it or its inverse). For every bundle (2^40), not only the 365 bases. Tied to the code by an "
             "exhaustive correspondence over the property's finite space through the real rule pipeline (227k ops quick).",
        note="Trusted: Lean kernel, standard axioms, bv_decide certificate axioms of the C18 bit layer. Modelled not verified: match/apply functions "
             "(hand port, compared exhaustively on one-segment words). The harness also evaluates an independent 30-line Rust reference model "
             "written from the manual against the implementation.",
        technique="Lean 4 theorems over ported modifier model + exhaustive line-protocol correspondence + reference-model search",
        design="§4 C04"),
    "C05": dict(
        text="Theorems about the Lean port of syll.rs (apply_supras, apply_syll_mods) and of match_stress / match_seg_length: matching equals the "
             "manual's length and stress tables for every run length and stress state; on a maximal run of any length L>=1 at any position of any "
             "syllable, apply_supras replaces the run by one of the table's length, leaves every other segment untouched, reports the length change, "
             "sets stress/tone by the table, and errors exactly on [-long,+overlong] and [-stress,+sec.stress]; setting then matches; frame laws. "
             "The property itself (36 states x 405 modifier combinations x match/set x element kinds x 3 positions) is evaluated exhaustively on the "
             "implementation through the rule pipeline against the table model.",
        note="Trusted: Lean kernel, standard axioms. The theorems are about the syllable-level functions; where the interpreter applies them is the scan "
             "loop's business; its defect D5 (a long target run was re-entered after a length-setting substitution) was found by this check "
             "and repaired by a fix: commit (ead3730); where the search resumes after a resized run is now a theorem (cursor_after_resized_run). End to "
             "end (Props/C05Scan, induction over the whole scan of the interpreter port, any environment): a rule `X > [±long, ±overlong, features]` never "
             "creates, removes or empties a syllable and never changes a stress or a tone (length_subrule_keeps_prosody). Alphas on suprasegmentals are modelled but only binary modifiers are "
             "covered by the theorems.",
        technique="Lean 4 theorems over ported syll.rs + exhaustive table-model evaluation on impl",
        design="§4 C05"),
    "C06": dict(
        text='Proved over the interpreter port, for words of any length and shape: (a) a substitution/deletion/metathesis sub-rule whose input matches nowhere returns the word itself; (b) literal_absent_identity: if the input is a literal segment that does not occur in the word, the scan loop walks the whole word without capturing anything (induction on the loop) and the sub-rule returns the word unchanged for every fuel (or reports too little fuel) - never another word, an error or a panic. PARTIAL: the full-grammar statement (literal planted anywhere in any rule) is false on the pinned tree (known findings D4a, D4b; D6, D6b and the D21 input-ellipsis family were repaired by fix: commits) and is decided by the c06-spec search (planted absent literal in generated full-grammar rules, blank/comment lines) plus the model/impl correspondence.',
        note='Trusted: Lean kernel, standard axioms (+ bv_decide certificates where the bit layer is used); the hand port of subrule.rs/rule.rs/syll.rs (Model/Interp), tied to the code on every run by the interp-ops correspondence (identical outcome class and word on ~27k generated cases quick / 400k thorough, release profile); generators and labels of the search.',
        technique='Lean 4 loop-induction theorem on the interpreter port (fragment) + correspondence + planted-literal search',
        design="§4 C06"),
    "C07": dict(
        text='Proved over the port: binding tables behave as maps (get after set, frame); a matrix with =n binds exactly the segment at the matched position; a segment variable in a context matches iff the segment there EQUALS the captured bundle (all four nodes) and a syllable variable iff segments (in matching direction), stress and tone are equal; writing a captured segment back where it was read leaves the word unchanged. End to end (Props/C07Scan, induction over the whole scan of the interpreter port): the rule `[matrix]=k > k` without environment returns EVERY word unchanged, whatever the word, however many matches, long segments included (variable_identity_rule). PARTIAL: the other end-to-end identities (k>1 elements, environments, [αF] > [αF], A > B / X=1 _ 1) are decided by the c07-spec search and the correspondence; stress alphas on secondary stress are the known finding D7; the structure-variable defect was repaired (fix: commit).',
        note='Trusted: Lean kernel, standard axioms (+ bv_decide certificates where the bit layer is used); the hand port of subrule.rs/rule.rs/syll.rs (Model/Interp), tied to the code on every run by the interp-ops correspondence (identical outcome class and word on ~27k generated cases quick / 400k thorough, release profile); generators and labels of the search.',
        technique='Lean 4 component theorems + whole-scan identity theorem on the port + correspondence + identity search',
        design="§4 C07"),
    "C08": dict(
        text='Proved for every bundle (2^40): every grapheme of cardinals.json is well formed; set_feat for every feature of the table and both polarities, adding/removing any place (sub-)node and [-place] - the only ways parser and interpreter modify a bundle - preserve SegWF (defined bits only, place not Some(0), nothing stored under an absent sub-node). End to end (Props/C08Scan): these single edits composed through the node and feature loops, through every copy of a long segment, through one substitution step and through the WHOLE SCAN of a rule `X > [±features, ±nodes] / any environment` (binary modifiers; induction on the scan of the interpreter port): if every bundle of the word is well formed, so is every bundle of every word the rule returns, and the shape is unchanged (binary_feature_subrule_wf). PARTIAL: alpha-carried node values, and the word-level invariants (>=1 syllable, no empty syllable, tone shape) over rule sequences are decided by c08-spec (Word.WF on every intermediate word) and the correspondence; they are false on the pinned tree for boundaries inserted/moved at a word edge, empty structures and whole-word deletion (known findings D8a-D8d).',
        note='Trusted: Lean kernel, standard axioms (+ bv_decide certificates where the bit layer is used); the hand port of subrule.rs/rule.rs/syll.rs (Model/Interp), tied to the code on every run by the interp-ops correspondence (identical outcome class and word on ~27k generated cases quick / 400k thorough, release profile); generators and labels of the search.',
        technique='Lean 4 bundle well-formedness theorems (single edits and whole scan) + correspondence + invariant search on every intermediate word',
        design="§4 C08"),
    "C12": dict(
        text="Proved: the group-letter tables of the rule parser AND the alias parser, re-read from the source on every run, equal the manual's table (as matrices); Rule::apply is the left fold of SubRule::apply over the sub-rules and unbalanced lists are rejected (condensed rules = their sub-rules in sequence, by the port's definition, itself compared with the code). PARTIAL: `_,X`, optionals and `&` vs variables are decided by c12-spec (shorthand vs mechanically produced expansion, both on the implementation) - the optional's retry loop is a known finding (D12).",
        note='Trusted: Lean kernel, standard axioms (+ bv_decide certificates where the bit layer is used); the hand port of subrule.rs/rule.rs/syll.rs (Model/Interp), tied to the code on every run by the interp-ops correspondence (identical outcome class and word on ~27k generated cases quick / 400k thorough, release profile); generators and labels of the search.',
        technique='Lean 4 table theorem + fold theorem + shorthand/expansion search',
        design="§4 C12"),
    "C13": dict(
        text="Proved over tables re-read from lexer.rs / alias/lexer.rs / error/mod.rs on every run: the two lexers' feature-name tables are identical arm by arm; no spelling "
             "denotes two features; every spelling the error message may suggest is accepted; the manual's shorthands denote the features the manual says. Proved over the "
             "word-parser model: the typed marks ' , : ; are rewritten to the canonical marks character by character before anything else reads the text, so a word and its "
             "respelling parse to the same word (for every text). PARTIAL: the rule-level equivalences (arrows, | vs //, * vs ∅, ellipsis and angle spellings, spaces in "
             "matrices, trailing comments, alpha/variable renaming, input aliases, doubled segments) have no theorem yet - the lexer and parser are not ported - and are decided "
             "by the c13-spec search: ~150k rule respellings and ~70k word respellings per quick run compared with the original on the implementation.",
        note="Trusted: Lean kernel, standard axioms; translator (regex over the `match` arms; cross-checked by the search, which spells features through the same table); "
             "harness respelling generators. The defect D13 (`//` and trailing comments rejected after `*`, `&`, the output) was repaired by a fix: commit; two residual "
             "spellings: D13c (`- α`: for Latin capitals the space tells an inverted alpha from a capitalised feature name) is a known finding; D13b (`_ ;; comment`) was repaired (fix: 0a92672).",
        technique="Lean 4 table theorems + respelling theorem on the word parser model + respelling search on impl",
        design="§4 C13"),
    "C15": dict(
        text="Proved over the runner model (abstract components): the romaniser list reaches `render` and nothing else, so a successful run with romanisers and the run "
             "without them print the same structural result, and a failure of words or rules is the same failure (run_romanisers_only_render, run_romanisers_same_error). "
             "Proved over the model of Word::render for the fragment in the property's quantifier (one plain segment, one matrix of binary features, or `$` on the left; "
             "string, `+`string or `*` on the right): the printed syllable is the concatenation of one piece per segment; a segment no romaniser hits gets its default "
             "piece, the first romaniser that hits replaces it (or suffixes the nearest base grapheme); with no romanisers the loop is the default renderer. Proved over the "
             "deromaniser step of the word parser: a key at the cursor appends exactly the alias's segment and consumes exactly the key; elsewhere the parser is the plain one; "
             "and typing the grapheme instead is the same step (typed_grapheme: where a grapheme of the table stands uncontinued, the plain parser appends exactly its "
             "segment and moves past exactly it - proved through the longest-match loop over the generated table). "
             "PARTIAL: the whole-word statement `encode(w) parses like w` has no theorem (it is false at grapheme boundaries where the typed IPA would fuse with its "
             "neighbour, e.g. a key for `t` before a tie bar) and is decided by the c15-spec search, as are romanisers with modifiers and multi-segment inputs.",
        note="Trusted: Lean kernel, standard axioms; alias-ops correspondence (model render/parse vs Word::render / Word::new through the verif hooks, 20k ops per quick run); "
             "the reference romaniser in the harness. Defect D15b (`+` deromaniser after a long segment) repaired by a fix: commit; D15a (`+` romaniser drops the diacritics "
             "of the segment it decorates) is a known finding.",
        technique="Lean 4 runner theorem + renderer/parser step theorems on a hand model + correspondence + reference-romaniser search on impl",
        design="§4 C15"),
    "C19": dict(
        text="Proved over a model of the three file readers and writers of src/cli (parse_rsca, parse_wsca, parse_alias, to_rsca_format, words.join, to_alias; text as code points, "
             "`str::lines` and `str::trim` modelled with the Unicode White_Space set): json -> rsca -> json, json -> wsca -> json and json -> alias -> json are the identity for "
             "every project whose groups are well-formed (trimmed one-line names and rules, rules not starting with @ or #, description lines trimmed and not beginning with an "
             "empty line, no entirely empty group before another, at least one group, last word not empty, alias lines not starting with # / @into / @from). The four excluded "
             "points are proved to FAIL the round trip in the model (examples by `decide`) and are documented as limits of the format. PARTIAL: that `asca run` prints and "
             "writes what the library returns is wiring around asca::run (file reading, -j/-r/-w/-l/-o options, error printing) with no logic to prove; it is decided by "
             "running the real binary on generated projects.",
        note="Trusted: Lean kernel, standard axioms; cli-files correspondence (the asca binary built from the working tree vs the model readers/writers on the same bytes, ~1500 "
             "files per quick run); the project generator (its idea of what a noisy file denotes follows doc/doc-cli.md). Defect D19a (conv json wrote rules to the alias path "
             "and aliases to the rule path) repaired by a fix: commit.",
        technique="Lean 4 round-trip theorems on a hand model of the file formats + byte-level correspondence with the real binary + end-to-end runs of the binary against the library",
        design="§4 C19"),
    "C20": dict(
        text="Proved over a model of the config layer (filters, validation of % references, the word pipeline and its per-tag cache), with the library, the rule files and the word "
             "files as parameters, hence for projects of any size: `!` keeps exactly the groups whose lowered name is not listed, in file order, and fails if nothing was "
             "removed; `~` returns one group per listed name, in the order listed, the first of that name, and fails on a missing name; on a config that passes validation "
             "every tag's % chain reaches a root within |config|+1 hops and the loop detector itself cannot run out of steps (pigeonhole over the distinct tags); a config in "
             "which some tag's % chain returns to it never passes validation; and whatever order the tags are run in, every result reported with the cache is the result "
             "computed without it (cache coherence as an invariant over the run); a tag's words are its root's word files pushed through the entries of the whole chain, "
             "root first (finalWords_chain), and collapse into ONE library call on the concatenated history when the library composes (runEntries_history, hypothesis = "
             "C10's staged-run statement, which for the real library needs the render/parse round trip; compared on every generated chain). The config lexer/parser is not "
             "modelled: the tie is the seq-plan correspondence plus runs of the real binary.",
        note="Trusted: Lean kernel, standard axioms; seq-plan correspondence (model plan vs the reference reading of the generated config, 160 projects per quick run) and the "
             "reference's agreement with the files the asca binary writes; the project generator.",
        technique="Lean 4 theorems (filters, termination/cycle rejection, cache invariant) on a hand model + plan correspondence + end-to-end runs of the real binary on generated project trees",
        design="§4 C20"),
    "C14": dict(
        text="Proved over the port of syll.rs, for any run length, position and syllable: a matrix naming no length/stress/tone leaves the syllable's stress, tone and segment count unchanged and reports no length change, and touches no segment outside the run; apply_syll_mods (stress/tone setting) never touches a segment; joining and splitting syllables keep every segment in order. End to end (Props/C14Scan, by induction over the whole scan of the interpreter port, any word, any number of matches, ANY environment and exception): a segmental rule `X > [features]` leaves every syllable's stress, tone and segment count as they were and creates or removes no syllable (segmental_rule_keeps_prosody), also for whole rules all of whose sub-rules are segmental, e.g. condensed rules (segmental_rule_keeps_shape); a literal replacement `a > t` keeps syllables, stress and tone (literal_rule_keeps_prosody). The converse, end to end (Props/C14Supra, the same scan induction done once generically in matrix_rule_gen): a prosodic rule `X > [±stress, ±secstress, tone:n] / any environment` whose output matrix names no node, feature or length returns a word whose every syllable holds exactly the segments it held, in order (prosodic_rule_keeps_segments; whole and condensed rules: prosodic_rule_keeps_tier; the single edit: applySegMods_prosodicOnly, which also shows the new stress/tone are exactly apply_syll_mods's). PARTIAL: multi-element inputs, syllable (`%`) outputs and boundary rules are decided by c14-spec and the correspondence.",
        note='Trusted: Lean kernel, standard axioms (+ bv_decide certificates where the bit layer is used); the hand port of subrule.rs/rule.rs/syll.rs (Model/Interp), tied to the code on every run by the interp-ops correspondence (identical outcome class and word on ~27k generated cases quick / 400k thorough, release profile); generators and labels of the search.',
        technique='Lean 4 component theorems + whole-scan induction on the port + correspondence + tier-preservation search',
        design="§4 C14"),
    "C09": dict(
        text="Proved: the renderer's exact-match phase returns a grapheme with the segment's bundle for any table order; every one of the 365 "
             "graphemes, read by the modelled longest-match word parser, yields exactly its own bundle (kernel-evaluated over the regenerated "
             "table, lifted by lemma), hence every base phone round-trips; table side conditions of the word syntax (no grapheme contains a digit, "
             "boundary, length or stress mark; no diacritic begins a grapheme; diacritic characters distinct; tables well-formed). The model of "
             "get_as_grapheme / Word::new is a line-by-line port compared with the code on ~55k operations per run (all distinct bundles reachable as "
             "base, +1 diacritic, one-feature changes; thorough +2 diacritics), and the round trip itself is evaluated over that space on the implementation.",
        note="NOT proved: parse(render(w)) = w for arbitrary diacritic stacks and arbitrary words (open; false on the current data for the bundles of the "
             "known findings D9b/D9c - grapheme collisions). Defect D9a (prerequisites tested on the target) was repaired by a fix: commit. "
             "Trusted: Lean kernel, standard axioms, translator (json tables), harness.",
        technique="Lean 4 finite-table theorems + line-protocol correspondence + exhaustive round-trip search",
        design="§4 C09"),
    "C10": dict(
        text="Theorems over an abstract-interpreter model of the runner (lib.rs:185-337), for rule lists and word lists of any length: "
             "applying G1++G2 is applying G1 then G2 (errors included), a result depends only on the flattened rule sequence (regrouping and "
             "empty groups invisible), the whole word list composes on the success path, and staging through text equals the one-shot run "
             "whenever the intermediate word survives the text round trip. Tied to the code by the `glue` correspondence (the model's scheme "
             "instantiated with the real parser/interpreter/renderer through hooks == asca::run) and by evaluating the property itself "
             "(every split point, regroupings) on the implementation.",
        note="Trusted: Lean kernel, propext/Classical.choice/Quot.sound. The interpreter, parsers and renderer are abstract parameters, so the "
             "theorems are about the runner only; whether the intermediate rendering parses back is C09's subject and enters as a hypothesis. "
             "Sampling (not proof) ties model and code: generated rule lists x words.",
        technique="Lean 4 theorems over abstract runner model + glue correspondence + property search on impl",
        design="§4 C10"),
    "C11": dict(
        text="Theorems over the abstract runner model: run succeeds with `out` iff every line run alone succeeds with its own entry (one entry "
             "per line, same order, each depending only on its line, the rules and the aliases), length preservation, first-failure "
             "characterisation of errors, and the two-word-line law with the exact side conditions trim_end needs. Any list length, any interpreter.",
        note="Trusted: Lean kernel, standard axioms. That the real interpreter carries no state from one word to the next is NOT provable in the "
             "abstract model (apply is a function there); it is checked on the implementation by the pointwise/permutation/sublist/duplicate search, "
             "including a focused stream of binding rules (alphas/variables) over a small inventory.",
        technique="Lean 4 theorems over abstract runner model + glue correspondence + property search on impl",
        design="§4 C11"),
    "C16": dict(
        text="Theorem trace_sound_complete over the abstract runner model: for any group list and phrase, the reported indices are strictly increasing "
             "and in range, each reported state equals the plain run of groups 0..i and differs from the state before, every group that changed "
             "the phrase is reported, the trace succeeds iff the run does, and the last reported state (or the input) equals the run result. "
             "Proved by an invariant of the trace loop plus the map/fold interchange between the two loop nestings.",
        note="Trusted: Lean kernel, standard axioms. Word equality is the abstract `weq` (Word's PartialEq). get_trace_string's text layout is "
             "checked on the implementation only (two lines per change, names, renderings).",
        technique="Lean 4 loop-invariant proof over abstract runner model + glue correspondence + property search on impl",
        design="§4 C16"),
}

NOT_YET = "check not built yet in this round (see DESIGN.md §8 build order); not claimed until its theorems and correspondence suite exist"

# ---- later additions, applied to the texts above (each `old` must occur exactly once)
def _amend(pid, field, old, new):
    t = CLAIMED[pid][field]
    assert t.count(old) == 1, (pid, field, old[:40])
    CLAIMED[pid][field] = t.replace(old, new)

_amend("C02", "text", "the WORD PARSER component is discharged outright:",
       "the RULE LEXER and the WORD PARSER components are discharged outright - Lexer::get_line returns a token list or a RuleSyntaxError for EVERY line "
       "(Props/C02Lex.lexLine_returns: every recogniser consumes at least one character or declines, `advance` is never reached on an exhausted source; uses one fact about "
       "the regenerated grapheme table, checked by the kernel) - and for the RULE PARSER, ported function by function (Model/Parser), every one of its eleven loops ends on "
       "EVERY token list (Props/C02Parse.parse_terminates / parseLine_terminates: each element function consumes a real token, `Eol` is never consumed, the one backward jump of "
       "get_spec_env lands at or after its start), so a line is parsed, rejected, or hits one of the modelled panic sites (numbers above usize::MAX = known finding D2, the "
       "unreachable!() after an empty term = D30); the word parser:")
_amend("C02", "note", "PARTIAL: the rule/alias lexers and parsers are not ported to Lean yet (their totality rests on the search only);",
       "PARTIAL: the rule lexer and parser are ported and compared with the code on ~40k lines per run each (lex-ops: tokens and error spans; parse-ops: the parsed rule, error "
       "variant and spans, panics); absence of the parser's INDEX panics is not proved; the alias lexer and parser are not ported (their totality rests on the search only);")
_amend("C02", "technique", "word parser returns on every text)", "rule lexer and word parser return on every text; rule parser terminates on every token list)")
_amend("C13", "text", "PARTIAL: the rule-level equivalences (arrows, | vs //, * vs ∅, ellipsis and angle spellings, spaces in matrices, trailing comments, alpha/variable renaming, "
       "input aliases, doubled segments) have no theorem yet - the lexer and parser are not ported - and are decided by the c13-spec search:",
       "Proved over the port of the rule lexer (Model/Lexer, tied to Lexer::get_line token by token on ~40k generated, mutated, respelled and noise lines per run), for EVERY "
       "continuation of the line and every lexer state in which the spelling can occur (Props/C13Lex): `->` and `=>` are the same Arrow token and leave the same state; `…`, `⋯`, "
       "`..`, `...` are all Ellipsis; `<`/`⟨` open and `>`/`⟩` close a syllable structure alike (same token or same NestedBrackets error); white space before a token only moves "
       "the position; feature names are looked up case-insensitively and two spellings of one table row give the same token; the typewriter apostrophe is the ejective mark and "
       "g ? ! ł ñ φ are read as ɡ ʔ ǃ ɬ ɲ ɸ. Over the port of the parser (Props/C13Parse): `|` and `//` both enter get_env, `*` and `∅` are the same EmptySet element, `->`/`=>` "
       "and `>` both separate input from output and both satisfy the insertion follow-check. PARTIAL: that the REST of the parse is unaffected (a simulation over the whole "
       "parser), trailing comments, alpha/variable renaming, word-level aliases and doubled segments are decided by the c13-spec search:")
_amend("C17", "text", "PARTIAL: that every error the lexer/parser/interpreter produce is well placed is not proved (front ends not ported); it is decided by the c17-spec search:",
       "For the rule LEXER well-placedness is a theorem over all lines (Props/C17Lex, over the lexer port): the span of every RuleSyntaxError of lexer.rs lies within the "
       "line (lexLine_error_span), hence every rule line the lexer rejects formats without panic with its carets inside the line (lexer_error_formats = composition with "
       "format_well_placed); and the tokens handed to the parser have non-empty, consecutive spans inside the line, the last one Eol at [len, len+1) (lexLine_token_spans). "
       "For the rule PARSER (ported, its error spans compared with the implementation's on ~40k lines per run, parse-ops) the 24 error variants that carry a TOKEN and the 3 "
       "that carry a column are proved well placed on every line (Props/C17Parse.parseLine_error_spans, parser_error_formats): the token is always the parser's current token, "
       "which is a token of the lexer's list or the Eol the parser makes up after a comment - whose position is the token INDEX (the two units the property text mentions), still "
       "inside [0, len+1] because a line of len characters has at most len+1 tokens and the cursor stays inside the list until the final Eol is consumed. "
       "PARTIAL: the 9 variants that underline an ITEM (OptLocError, WordBoundLoc, EmptySet, UnexpectedDiacritic, DiacriticDoesNotMeetPreReqs*, the word-boundary errors) and all "
       "interpreter errors are not covered by a theorem (item positions are not tracked by the invariant); they are decided by the c17-spec search:")
_amend("C12", "text", "PARTIAL: `_,X`, optionals and `&` vs variables are decided by c12-spec",
       "`_,X` is expanded by the PARSER: whenever get_spec_env accepts, it returns exactly the two environments `X _` and `_ X-reversed` with the span of the shorthand "
       "(Props/C12Parse.spec_env_expands, over the parser port, which is compared with Parser::parse on ~40k lines per run). PARTIAL: that the interpreter then treats the two "
       "environments as it treats the typed-out pair, optionals and `&` vs variables are decided by c12-spec")

# ---- session 3, part 2: D2 repaired, alias lexer/parser ported, parser error spans
_amend("C02", "text", "so a line is parsed, rejected, or hits one of the modelled panic sites (numbers above usize::MAX = known finding D2, the "
       "unreachable!() after an empty term = D30); the word parser:",
       "so a line is parsed, rejected, or hits one of the modelled panic sites (the unreachable!() after an empty term = known finding D30; the index panics are not known "
       "to be reachable). The former D2 family (18 panics on numbers above usize::MAX) was REPAIRED in the lexers (two fix: commits) and the repair is PROVED for lexer + "
       "parser on every line (Props/C02Numbers.parseLine_no_number_panic: the lexer hands over only Number tokens below 2^64, Lex.lexLine_numbers_fit, and the parser only "
       "parses the digits of the token under its cursor). The ALIAS lexer and parser are ported too (Model/AliasLexer, AliasParser; aliasp-ops: transformations, error "
       "variants and spans, panics compared on ~40k romaniser/deromaniser lines per run) with the same theorems: AliasLexer::get_line returns a token list or an "
       "AliasSyntaxError on EVERY line, escapes included (Props/C02ALex), and every loop of AliasParser::parse ends on every token list (Props/C02AParse); the word parser:")
_amend("C02", "note", "the alias lexer and parser are not ported (their totality rests on the search only);",
       "for the alias parser too only termination is proved (a feature with an alpha value reaches its unreachable!(): known finding D31);")
_amend("C02", "technique", "rule lexer and word parser return on every text; rule parser terminates on every token list)",
       "rule lexer, alias lexer and word parser return on every text; rule and alias parsers terminate on every token list; no number-parse panic)")
_amend("C17", "text", "For the rule PARSER (ported, its error spans compared with the implementation's on ~40k lines per run, parse-ops) the 24 error variants that carry a TOKEN and the 3 "
       "that carry a column are proved well placed on every line (Props/C17Parse.parseLine_error_spans, parser_error_formats): the token is always the parser's current token, "
       "which is a token of the lexer's list or the Eol the parser makes up after a comment - whose position is the token INDEX (the two units the property text mentions), still "
       "inside [0, len+1] because a line of len characters has at most len+1 tokens and the cursor stays inside the list until the final Eol is consumed. "
       "PARTIAL: the 9 variants that underline an ITEM (OptLocError, WordBoundLoc, EmptySet, UnexpectedDiacritic, DiacriticDoesNotMeetPreReqs*, the word-boundary errors) and all "
       "interpreter errors are not covered by a theorem (item positions are not tracked by the invariant); they are decided by the c17-spec search:",
       "For the rule PARSER (ported, its error spans compared with the implementation's on ~40k lines per run, parse-ops) 35 of the 36 RuleSyntaxError variants of lexer + parser "
       "are proved well placed on EVERY line (Props/C17Parse.parseLine_error_spans; parser_error_formats and parser_two_span_error_formats compose it with the formatter "
       "theorems): the 24 that carry a token and the 3 that carry a column underline the parser's current token, which is a token of the lexer's list or the Eol the parser "
       "makes up after a comment - whose position is the token INDEX (the two units the property text mentions), still inside [0, len+1] because a line of len characters has "
       "at most len+1 tokens and the cursor stays inside the list until the final Eol is consumed; WordBoundLoc and the three word-boundary errors underline a `#` token; "
       "EmptySet and OptLocError underline from the opening bracket to the last token consumed (ordered because the lexer's tokens are); the two DiacriticDoesNotMeetPreReqs "
       "errors underline the segment's token and then the diacritic's, in the order the formatter's subtraction needs. The alias lexer's tokens and errors are proved to lie "
       "inside the line as well (Props/C02ALex). PARTIAL: UnexpectedDiacritic (underlines the last ITEM of a term; item positions are not tracked by the invariant), the alias "
       "parser's errors and all interpreter errors are not covered by a theorem; they are decided by the c17-spec search and the parse-ops / aliasp-ops comparison of spans:")
_amend("C13", "text", "Proved over the port of the rule lexer", "The alias lexer (which duplicates the feature table) is ported as well and compared on ~40k lines per run (aliasp-ops). "
       "Proved over the port of the rule lexer")

# ---- session 3, part 3: D30 repaired, lexer + parser total
_amend("C02", "text", "so a line is parsed, rejected, or hits one of the modelled panic sites (the unreachable!() after an empty term = known finding D30; the index panics are not known "
       "to be reachable). The former D2 family (18 panics on numbers above usize::MAX) was REPAIRED in the lexers (two fix: commits) and the repair is PROVED for lexer + "
       "parser on every line (Props/C02Numbers.parseLine_no_number_panic: the lexer hands over only Number tokens below 2^64, Lex.lexLine_numbers_fit, and the parser only "
       "parses the digits of the token under its cursor).",
       "and NONE of the parser's panic sites is reachable: lexer + parser are TOTAL - on EVERY line Parser::parse after Lexer::get_line returns a rule or a RuleSyntaxError "
       "(Props/C02Numbers.parse_no_panic / parseLine_returns: the token invariant of Lemmas/ParseSpans - tokens are those of the lexer, numbers fit usize, feature and "
       "diacritic tokens carry table indices, the cursor stays inside the list - rules out every index, unwrap, parse and unreachable!() site of parser.rs, each of which is "
       "modelled as an explicit `panic` outcome). Two families of genuine panics were found on the way and REPAIRED: D2 (18 panics on numbers above usize::MAX; two fix: "
       "commits in the lexers) and D30 (`t,,ʰ`: a diacritic after an empty term reached unreachable!(); fix: eb24cff) - the theorem is about the repaired code and would not "
       "close without either repair.")
_amend("C02", "note", "absence of the parser's INDEX panics is not proved;", "no panic site of the rule parser is reachable (theorem);")
_amend("C02", "technique", "rule and alias parsers terminate on every token list; no number-parse panic)", "rule lexer + parser are total on every line (no panic site reachable); alias parser terminates on every token list)")

# ---- session 4: D31 repaired, alias lexer + parser total
_amend("C02", "text", "AliasSyntaxError on EVERY line, escapes included (Props/C02ALex), and every loop of AliasParser::parse ends on every token list (Props/C02AParse); the word parser:",
       "AliasSyntaxError on EVERY line, escapes included (Props/C02ALex), every loop of AliasParser::parse ends on every token list (Props/C02AParse), and - after the repair of "
       "D31 (`[Vstress] > x`: the alias lexer accepted alpha letters, the alias parser's unreachable!() was reached; fix: 696623e) - alias lexer + alias parser are TOTAL as "
       "well: on every romaniser or deromaniser line they return the transformations or an AliasSyntaxError, none of the alias parser's index, expect() or unreachable!() "
       "sites being reachable (Props/C02ATotal.parse_no_panic / parseLine_returns, from the token facts of ALex.lexLine_tokens_ok); the word parser:")
_amend("C02", "note", "for the alias parser too only termination is proved (a feature with an alpha value reaches its unreachable!(): known finding D31);",
       "no panic site of the alias parser is reachable either (theorem, after the repair of D31);")
_amend("C02", "technique", "rule lexer + parser are total on every line (no panic site reachable); alias parser terminates on every token list)",
       "rule lexer + parser and alias lexer + parser are total on every line (no panic site reachable))")

# ---- session 4, part 2: all 36 parser variants, alias parser spans, C06 front-end theorem
_amend("C17", "text", "35 of the 36 RuleSyntaxError variants of lexer + parser "
       "are proved well placed on EVERY line", "ALL 36 RuleSyntaxError variants of lexer + parser are proved well placed on EVERY line")
_amend("C17", "text", "The alias lexer's tokens and errors are proved to lie "
       "inside the line as well (Props/C02ALex). PARTIAL: UnexpectedDiacritic (underlines the last ITEM of a term; item positions are not tracked by the invariant), the alias "
       "parser's errors and all interpreter errors are not covered by a theorem; they are decided by the c17-spec search and the parse-ops / aliasp-ops comparison of spans:",
       "UnexpectedDiacritic, the last variant, underlines the last ITEM of a term and then the stray diacritic token: every item the term functions return is proved to occupy a "
       "proper interval of the line that ends where the token under the cursor begins or earlier (Lemmas/ParseItems, function by function; a syllable or structure without "
       "parameters ends ONE BEFORE the next token). For ALIAS lines the same holds of every AliasSyntaxError of alias lexer + parser "
       "(Props/C02ATotal.parseLine_error_spans, alias_error_formats: token errors, EmptyInput/EmptyReplacements, the two diacritic errors in order, UnbalancedIO from the first "
       "item of a side to its last). PARTIAL: interpreter (run-time) errors are not covered by a theorem; they are decided by the c17-spec search:")
_amend("C17", "technique", "Lean 4 theorems on formatter arithmetic + planted-fault search on impl",
       "Lean 4 theorems: formatter arithmetic, every syntax error of rule and alias lexer + parser well placed on every line; planted-fault search on impl for run-time errors")
CLAIMED["C06"]["text"] = CLAIMED["C06"]["text"] + (" FRONT END (Props/C06Parse, over the lexer/parser port): a string of white space only, and a string `ws* ;; anything` - line breaks "
       "and rule text after the `;;` included, since a comment runs to the end of the string - parse to NO rule, for every such string (lexLine_blank / lexLine_comment / "
       "parseLine_comment); and over the runner model, for any parser that answers None on the lines in question: if every line of every group parses to None the parsed groups "
       "are empty and applying them returns every phrase as it was (Props/C06Run.no_rule_lines_identity).")
CLAIMED["C06"]["technique"] = CLAIMED["C06"]["technique"] + " + lexer/parser theorem: blank and comment-only strings are no rule"

CLAIMED["C12"]["text"] = CLAIMED["C12"]["text"] + (" METATHESIS (Props/C12Meta, over the port of the Metathesis arm of transform): when the captured elements are segments at "
       "pairwise distinct positions, `&` returns a word in which the i-th captured position holds what the (n-1-i)-th held, for every i and EVERY number n of elements, and "
       "every other position is unchanged (metathesis_reverses) - element by element what `A=1 B=2 ... > n ... 2 1` writes.")

_amend("C02", "text", "`$ > $` D3, numbers above usize::MAX D2, insertion exception past the end of the word D22, empty optional D25, ...; D6, D20, D23 were repaired)",
       "`$ > $` D3, insertion exception past the end of the word D22, empty optional D25, ...; D2, D6, D20, D21, D23, D30, D31 were repaired)")

# ---- session 4, part 3: D8d and D24 repaired
_amend("C08", "text", "they are false on the pinned tree for boundaries inserted/moved at a word edge, empty structures and whole-word deletion (known findings D8a-D8d).",
       "they are false on the pinned tree for boundaries inserted/moved at a word edge and empty structures (known findings D8a-D8c); whole-word deletion (D8d: the only-segment "
       "guard read the ORIGINAL word) was repaired (fix: b5ca3af).")

CLAIMED["C08"]["text"] = CLAIMED["C08"]["text"] + (" DELETION (Props/C08Delete, over the port of the deletion code shared by the Deletion arm of transform and the surplus-input tail of "
       "substitution, after the repair of D8d): whatever elements one match captured - segments, syllables, boundaries, in any number - every word the deletion returns still "
       "has a syllable (deleteEls_keeps, transform_deletion_keeps); before the repair the statement was false.")

CLAIMED["C08"]["text"] = CLAIMED["C08"]["text"] + (" EVERY MATRIX RULE (Props/C08Matrix, through the generic scan theorem C14Supra.matrix_rule_gen): `X > [any matrix] / any "
       "environment` - nodes, features, length, stress and tone in any combination - returns a word with exactly as many syllables as it was given and no empty syllable "
       "(matrix_rule_keeps_syllables, matrix_rule_keeps_word_nonempty), because Syllable::apply_seg_mods at a position inside the syllable never returns an empty syllable "
       "(applySegMods_nonempty: shortening a run stops at one copy).")

_amend("C02", "text", "the word parser: Word::new returns a word or a WordSyntaxError for EVERY text",
       "at the seam to the interpreter, every rule Parser::parse returns has non-empty sides made of non-empty terms (Props/C02Terms.parseLine_rule_ok, after the repair of "
       "D24: fix a21d332), so the `input[0]` / `output[0]` of Rule::split_into_subrules cannot fail on a parsed rule; "
       "the word parser: Word::new returns a word or a WordSyntaxError for EVERY text")


CLAIMED["C05"]["text"] = CLAIMED["C05"]["text"] + (" STRESS/TONE END TO END (Props/C05Stress, through the generic scan theorem C14Supra.matrix_rule_gen): a rule `X > [±stress]` or "
       "`X > [±stress, tone:n]` / any environment returns a word in which every syllable is either exactly the syllable it was or that syllable with primary stress (+stress; "
       "unstressed for -stress) and the named tone, segments untouched (stress_rule_restresses; the single edit applySyllMods_stressOnly holds whatever is bound).")

def main():
    checks = []
    for p in ALL:
        if p in CLAIMED:
            c = CLAIMED[p]
            checks.append({
                "property_id": p,
                "quick_cmd": f"./check {p} quick",
                "thorough_cmd": f"./check {p} thorough",
                "evidence_file": f"/verif/evidence/{p}.json",
                "replay_cmd_template": f"./check {p} quick --replay {{path}}",
                "engine": "lean4-model+harness",
                "level_claimed": {"category": c.get("category", "proof"), "text": c["text"], "design_ref": c["design"]},
                "level_note": c["note"],
                "technique": c["technique"],
            })
    m = {
        "version": 1,
        "setup_cmd": "./setup.sh",
        "hooks": {
            "guard": "verif",
            "enable": "cargo feature: the harness depends on asca = { path = \"/repo\", features = [\"verif\"] }",
            "baseline_off_cmd": "cd /repo && cargo test --workspace --no-fail-fast --offline",
            "source_commits": open(os.path.join(V, "hooks_commits.txt")).read().split(),
            "add_only": True,
        },
        "engines": [
            {"name": "lean4-model+harness", "path": "/verif/lean, /verif/harness, /verif/translator, /verif/check",
             "serves_properties": sorted(CLAIMED),
             "kind_free_text": "Lean 4 executable model + theorems; python translator regenerating tables from /repo; Rust correspondence harness"},
        ],
        "checks": checks,
        "not_applicable": [{"property_id": p, "reason": NOT_YET} for p in ALL if p not in CLAIMED],
        "notes": "Every check: translator -> lake build of the property's theorems -> axiom audit -> cargo build harness against /repo's working tree -> correspondence suites -> search on the implementation -> evidence. See DESIGN.md.",
    }
    json.dump(m, open(os.path.join(V, "MANIFEST.json"), "w"), indent=1, ensure_ascii=False)

if __name__ == "__main__":
    main()
