#!/usr/bin/env python3
"""Regenerates MANIFEST.json from the table below (run after claiming a new property)."""
import json, os
V = os.path.dirname(os.path.dirname(os.path.abspath(__file__)))
ALL = [f"C{i:02d}" for i in range(1, 21)]

CLAIMED = {
    "C18": dict(
        text="Machine-checked proof (Lean 4) of the get/set/frame/normalisation laws for every Option<u16> place (all 2^16+1, "
             "well formed or not), every sub-node, every in-range value and every byte, over a model of place.rs/seg.rs whose "
             "constants are regenerated from the source on every run; the model is tied to the code by an exhaustive "
             "correspondence run (921k lines covering the whole finite space) through the public API.",
        note="Trusted: Lean kernel; propext/Classical.choice/Quot.sound; bv_decide certificate axioms (closed 8/16-bit identities, "
             "listed in the evidence); translator (regex over place.rs/lexer.rs, cross-checked against the running crate); "
             "release profile (setter debug_assert!s off). Modelled, not verified: Place/Segment accessors as Lean functions.",
        technique="Lean 4 theorems (bv_decide bit lemmas + case analysis) + exhaustive model/impl correspondence",
        design="§4 C18"),
}

NOT_YET = "check not built yet in this round (see DESIGN.md §8 build order); not claimed until its theorems and correspondence suite exist"

def main():
    checks = []
    for p in ALL:
        if p in CLAIMED:
            c = CLAIMED[p]
            checks.append({
                "property_id": p,
                "quick_cmd": f"./check {p} quick",
                "thorough_cmd": f"./check {p} thorough",
                "evidence_file": f"/verif/evidence/{p}.json",
                "replay_cmd_template": f"./check {p} quick --replay {{path}}",
                "engine": "lean4-model+harness",
                "level_claimed": {"category": "proof", "text": c["text"], "design_ref": c["design"]},
                "level_note": c["note"],
                "technique": c["technique"],
            })
    m = {
        "version": 1,
        "setup_cmd": "./setup.sh",
        "hooks": {
            "guard": "verif",
            "enable": "cargo feature: the harness depends on asca = { path = \"/repo\", features = [\"verif\"] }",
            "baseline_off_cmd": "cd /repo && cargo test --workspace --no-fail-fast --offline",
            "source_commits": open(os.path.join(V, "hooks_commits.txt")).read().split(),
            "add_only": True,
        },
        "engines": [
            {"name": "lean4-model+harness", "path": "/verif/lean, /verif/harness, /verif/translator, /verif/check",
             "serves_properties": sorted(CLAIMED),
             "kind_free_text": "Lean 4 executable model + theorems; python translator regenerating tables from /repo; Rust correspondence harness"},
        ],
        "checks": checks,
        "not_applicable": [{"property_id": p, "reason": NOT_YET} for p in ALL if p not in CLAIMED],
        "notes": "Every check: translator -> lake build of the property's theorems -> axiom audit -> cargo build harness against /repo's working tree -> correspondence suites -> search on the implementation -> evidence. See DESIGN.md.",
    }
    json.dump(m, open(os.path.join(V, "MANIFEST.json"), "w"), indent=1, ensure_ascii=False)

if __name__ == "__main__":
    main()
