from . import interpprops
def check(res, thorough):
    return interpprops.check(res, thorough, "C12", "AscaVerif.Props.C12", "c12-spec", "c12.cases", "c12.nontrivial",
        """shorthand vs mechanically produced expansion, both run on the implementation: condensed rules vs their sub-rules in sequence; _,X vs X_ , _X(mirrored); the 9 group letters vs the manual's matrices in input, left and right context; optionals (X), (X,n), (X,m:n) vs the environment set of their explicit repetitions; A B > & vs A=1 B=2 > 2 1 on words without adjacent equal segments; words: all syllabifications over the small inventory (2/3) and random words over the full inventory (1/3)""",
        ["outcomes are compared structurally or by error kind"],
        extra_ops=[("parse-ops", "parse-ops", 30000)], extra_props=["AscaVerif.Props.C12Parse", "AscaVerif.Props.C12Meta"])
replay = interpprops.replay
