"""C18 — get/set laws of Place and Segment (DESIGN §4 C18)."""
import json, os, shutil
from . import core


def tables_suite(res, scratch, what):
    """translator cross-check: the generated tables vs what the running crate holds."""
    rc, out, err, _ = core.harness(["tables"])
    rc2, out2, err2, _ = core.driver(["tables"] + what)
    impl = [l for l in out.splitlines() if l.split(" ")[0] in what]
    model = out2.splitlines()
    diffs = [(a, b) for a, b in zip(impl, model) if a != b]
    ok = rc == 0 and rc2 == 0 and len(impl) == len(model) and not diffs and len(impl) > 0
    detail = "" if ok else f"impl rows {len(impl)}, model rows {len(model)}, first diffs {diffs[:3]} {err[-300:]} {err2[-300:]}"
    res.add(core.ob(f"tables[{','.join(what)}]: Gen ≙ running crate ({len(impl)} rows)", "translator-crosscheck", ok, detail))
    return ok


def check(res, thorough):
    ok_t, ok_b, ok_h = core.prepare(res, "AscaVerif.Props.C18", thorough=thorough)
    scratch = core.scratch_dir("c18")
    try:
        have_driver = os.path.exists(core.DRIVER_BIN)
        if ok_h and have_driver:
            tables_suite(res, scratch, ["feat"])
            n, problems = core.diff_streams([core.HARNESS_BIN, "c18-enum"], [core.DRIVER_BIN, "enum-c18"], scratch, "c18enum")
            res.add(core.ob(f"c18-enum: model ≙ impl, exhaustive ({n} lines: 65537 places × 4 sub-nodes × all in-range values + None; "
                            f"26 features × all bytes/places × ±; node_match)", "correspondence", not problems and n > 900000,
                            json.dumps(problems[:3], ensure_ascii=False)))
            res.evaluations += n
            res.coverage["exhaustive"] = True
            res.coverage["traces_validated_against_impl"] = n
        if ok_h:
            # search / direct evaluation of the laws on the implementation (always run: it is cheap)
            rc, out, err, dt = core.harness(["c18-laws"])
            fails = [l for l in out.splitlines() if l.startswith("FAIL ")]
            okl = [l for l in out.splitlines() if l.startswith("OK ")]
            n_eval = int(okl[0].split()[1]) if okl else 0
            res.evaluations += n_eval
            res.distinct_nontrivial = n_eval
            res.add(core.ob(f"c18-laws: the get/set/match equations evaluated on the implementation ({n_eval} cases)", "impl-laws",
                            rc == 0 and not fails and n_eval > 0, "\n".join(fails[:10]) + err[-500:]))
            for f in fails:
                parts = f.split(" ", 2)
                res.violation(f"law {parts[1]} fails on the implementation at {parts[2]}", {"law": parts[1], "case": parts[2],
                              "how": "asca-harness c18-laws (public API: Place::set_*/get_*, Segment::set_feat/get_feat/feat_match)"})
            res.samples = ["P 41044 (0xA054): set_dorsal(Some(42)) then get_dorsal == Some(42); other sub-nodes unchanged",
                           "set_pharyngeal(None) on Some(0x1002) == None",
                           "feature 18 (front, dorsal 0b100000) × every place × ±"]
        res.rule = ("exhaustive enumeration: every Option<u16> place (65537) × 4 sub-nodes × (None + every in-range value); "
                    "26 features × (256 bytes | 65537 places) × ±; a case is one (state, operation) pair, all distinct by construction")
        res.assumptions = ["release profile (debug_assert! range checks of the setters not evaluated); values out of range are outside the property",
                           "NodeKind::Place is excluded (get_node/set_node panic on it by documented contract)"]
    finally:
        shutil.rmtree(scratch, ignore_errors=True)
    return res.finish()


def replay(path):
    r = json.load(open(path))
    print(json.dumps(r, indent=1, ensure_ascii=False))
    rc, out, err, _ = core.harness(["c18-laws"])
    print(out)
    return rc
