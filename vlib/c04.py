"""C04 — a feature matrix matches and changes exactly the features it names (DESIGN §4 C04)."""
import json, os, shutil, subprocess
from . import core, suites
from .c18 import tables_suite


def run_driver_parallel(ops, mod, header_lines=0, jobs=12):
    """answer an ops file with several driver processes (the header lines, e.g. `setorder`, are repeated for every chunk)"""
    lines = open(ops, errors="replace").read().split("\n")
    if lines and lines[-1] == "":
        lines.pop()
    header, body = lines[:header_lines], lines[header_lines:]
    n = max(1, min(jobs, len(body) // 200 + 1))
    size = (len(body) + n - 1) // n
    procs = []
    for k in range(n):
        chunk = body[k * size:(k + 1) * size]
        fin, fout = f"{ops}.{k}", f"{mod}.{k}"
        open(fin, "w").write("\n".join(header + chunk) + "\n")
        procs.append((subprocess.Popen([core.DRIVER_BIN, "ops"], stdin=open(fin), stdout=open(fout, "w"), stderr=subprocess.PIPE), fin, fout))
    rc, errs = 0, ""
    with open(mod, "w") as out:
        for k, (p, fin, fout) in enumerate(procs):
            e = p.communicate()[1]
            rc |= p.returncode
            errs += e.decode(errors="replace")[-200:]
            ans = open(fout, errors="replace").read().split("\n")
            if ans and ans[-1] == "":
                ans.pop()
            ans = ans[(header_lines if k > 0 else 0):]
            out.write("\n".join(ans) + ("\n" if ans else ""))
            os.unlink(fin)
            os.unlink(fout)
    return rc, errs


def ops_correspondence(res, scratch, cmd, tier, label, min_ops, extra_args=(), header_lines=0):
    """harness writes ops + impl answers; the Lean driver answers the same ops; compare line by line."""
    ops, imp, mod = [os.path.join(scratch, f"{label}.{x}") for x in ("ops", "impl", "model")]
    rc, out, err, _ = core.harness([cmd, ops, imp, tier] + list(extra_args), timeout=3000)
    stats = {}
    samples = []
    for l in out.splitlines():
        if l.startswith("STAT "):
            k, _, v = l[5:].rpartition(" ")
            stats[k] = int(v)
        elif l.startswith("SAMPLE "):
            samples.append(l[7:])
    if rc != 0:
        res.add(core.ob(f"{label}: harness", "correspondence", False, err[-800:]))
        return stats, samples, []
    drc, derr = run_driver_parallel(ops, mod, header_lines)
    diffs = []
    n = 0
    with open(ops, errors="replace") as fo, open(imp, errors="replace") as fi, open(mod, errors="replace") as fm:
        for o, a, b in zip(fo, fi, fm):
            n += 1
            if a != b and len(diffs) < 20:
                diffs.append({"op": o.strip(), "impl": a.strip(), "model": b.strip()})
    nl = [sum(1 for _ in open(f, errors="replace")) for f in (ops, imp, mod)]
    ok = drc == 0 and not diffs and nl[0] == nl[1] == nl[2] and n >= min_ops
    res.add(core.ob(f"{label}: model ≙ impl on {n} operations (line protocol)", "correspondence", ok,
                    json.dumps(diffs[:3], ensure_ascii=False) + f" lines={nl} " + derr[-300:]))
    for f in (ops, imp, mod):
        os.unlink(f)
    return stats, samples, diffs


def check(res, thorough):
    ok_t, ok_b, ok_h = core.prepare(res, "AscaVerif.Props.C04", thorough=thorough)
    tier = "thorough" if thorough else "quick"
    scratch = core.scratch_dir("c04")
    try:
        if ok_h and os.path.exists(core.DRIVER_BIN):
            tables_suite(res, scratch, ["feat"])
            stats, samples, diffs = ops_correspondence(res, scratch, "c04-ops", tier, "c04-ops", 200000)
            res.coverage["correspondence_stats"] = stats
            res.coverage["traces_validated_against_impl"] = stats.get("c04.ops", 0)
            res.samples = samples
        if ok_h:
            s = suites.run_suite(["c04-spec", tier])
            new = suites.classify(res, "C04", s["findings"], f"asca-harness c04-spec {tier}")
            n = s["stats"].get("c04.spec_cases", 0)
            res.add(core.ob(f"c04-spec: the bit-level reference model evaluated against the implementation ({n} rule applications)", "impl-property",
                            s["rc"] == 0 and new == 0 and n > 100000, json.dumps(s["findings"][:3], ensure_ascii=False) + s["err"]))
            res.evaluations = n + res.coverage.get("traces_validated_against_impl", 0)
            res.distinct_nontrivial = s["stats"].get("c04.spec_nontrivial", 0)
            res.coverage["exhaustive"] = True
            res.samples += ["[] > [+voice] on every base bundle", "[αround] > [-αback] on every third base bundle (quick) / every base (thorough)"]
        res.rule = ("exhaustive over the property's finite space: every distinct base bundle (thorough: plus base+one diacritic) x 26 features x {+,-} for "
                    "`[] > [±F]` and `[±F] > [marker]`, 5 place nodes x {+,-}, feature pairs of one node, node removal + feature; all 26x26x2 alpha pairs "
                    "(quick: every third base); non-trivial = the rule changes the bundle")
        res.assumptions = ["suprasegmental modifiers are C05's subject and are absent here", "one-segment words: the scan loop of the interpreter is inert"]
    finally:
        shutil.rmtree(scratch, ignore_errors=True)
    return res.finish()


def replay(path):
    print(open(path).read())
    return 0
