"""Properties decided over the interpreter port: model ≙ impl correspondence (`interp-ops`) + the property's own
search on the implementation + the property's theorems."""
import json, os, shutil
from . import core, suites
from .c04 import ops_correspondence


def check(res, thorough, prop, module, spec_cmd, cases_key, nontrivial_key, rule, assumptions, extra_ops=(), level="proof", extra_props=()):
    ok_t, ok_b, ok_h = core.prepare(res, module, thorough=thorough, extra_props=extra_props)
    tier = "thorough" if thorough else "quick"
    scratch = core.scratch_dir(prop.lower())
    try:
        if ok_h and os.path.exists(core.DRIVER_BIN):
            stats, samples, diffs = ops_correspondence(res, scratch, "interp-ops", tier, "interp-ops", 20000, extra_args=[str(res.seed)])
            res.coverage["interp_correspondence"] = stats
            res.coverage["traces_validated_against_impl"] = stats.get("interp.cases", 0)
            for cmd, label, minops in extra_ops:
                st2, _, _ = ops_correspondence(res, scratch, cmd, tier, label, minops, extra_args=[str(res.seed)])
                res.coverage[label] = st2
        if ok_h:
            s = suites.run_suite([spec_cmd, tier, str(res.seed)])
            new = suites.classify(res, prop, s["findings"], f"asca-harness {spec_cmd} {tier} {res.seed}")
            n = s["stats"].get(cases_key, 0)
            known_kinds = {k["kind"] for k in core.known_for(prop)}
            res.add(core.ob(f"{spec_cmd}: {prop} evaluated on the implementation ({n} cases; {len(s['findings'])} findings, {new} not in known_findings.json)",
                            "impl-property", s["rc"] == 0 and new == 0 and n > 1000,
                            json.dumps([f for f in s["findings"] if f[0] not in known_kinds][:3], ensure_ascii=False) + s["err"]))
            res.evaluations = n
            res.distinct_nontrivial = s["stats"].get(nontrivial_key, 0)
            res.coverage["input_distribution"] = s["stats"]
            res.coverage["findings_by_kind"] = {k: sum(1 for f in s["findings"] if f[0] == k) for k in {f[0] for f in s["findings"]}}
            res.samples = s["samples"] or ["(see input_distribution)"]
        res.rule = rule
        res.assumptions = assumptions
    finally:
        shutil.rmtree(scratch, ignore_errors=True)
    return res.finish(level=level)


def replay(path):
    print(open(path).read())
    return 0
