"""C19 — the command line gives the library's answers and converts files losslessly."""
import json, os, re, shutil
from concurrent.futures import ThreadPoolExecutor
from . import core, suites, cli
from .c04 import run_driver_parallel


def T(cps):
    return "".join(chr(c) for c in cps)


def decode(kind, js):
    """model answers are code-point lists; rebuild the strings according to what was asked"""
    if kind == "rules":
        return [{"name": T(g["name"]), "rule": [T(r) for r in g["rule"]], "description": T(g["description"])} for g in js]
    if kind == "words":
        return [T(w) for w in js]
    if kind == "alias":
        return {"into": [T(w) for w in js["into"]], "from": [T(w) for w in js["from"]]}
    return T(js)


def one_case(d):
    """run the binary on one generated project; returns (findings, stats, model_ops, model_expect)"""
    F, ops, expect = [], [], []
    name = os.path.basename(d)
    intended = json.load(open(os.path.join(d, "intended.json"), encoding="utf-8"))
    expected = json.load(open(os.path.join(d, "expected.json"), encoding="utf-8"))
    has_alias = os.path.exists(os.path.join(d, "in.alias"))
    st = {"cases": 1}
    # A. readers: rsca/wsca/alias -> json
    a = ["conv", "asca", "-r", "in.rsca", "-w", "in.wsca", "-o", "parsed.json"] + (["-a", "in.alias"] if has_alias else [])
    rc, out, err = cli.run_bin(a, d)
    parsed = None
    if rc == 0 and os.path.exists(os.path.join(d, "parsed.json")):
        parsed = json.load(open(os.path.join(d, "parsed.json"), encoding="utf-8"))
        if parsed != intended:
            which = [k for k in ("rules", "words", "into", "from") if parsed.get(k) != intended.get(k)]
            F.append((f"c19-read-differs:{'+'.join(which)}", f"case={name} parsed={json.dumps({k: parsed.get(k) for k in which}, ensure_ascii=False)[:600]} intended={json.dumps({k: intended.get(k) for k in which}, ensure_ascii=False)[:600]}"))
    else:
        F.append(("c19-conv-asca-failed", f"case={name} rc={rc} stderr={err[-300:]}"))
    # model readers on the same bytes
    ops.append("rsca " + cli.cps(cli.read(os.path.join(d, "in.rsca")))); expect.append(("rules", name, (parsed or intended)["rules"]))
    ops.append("wsca " + cli.cps(cli.read(os.path.join(d, "in.wsca")))); expect.append(("words", name, (parsed or intended)["words"]))
    if has_alias:
        ops.append("aliasf " + cli.cps(cli.read(os.path.join(d, "in.alias")))); expect.append(("alias", name, {"into": (parsed or intended)["into"], "from": (parsed or intended)["from"]}))
    # B/C. run on the files and on the json
    for label, args, outname in (("files", ["run", "-r", "in.rsca", "-w", "in.wsca", "-o", "out.wsca"] + (["-l", "in.alias"] if has_alias else []), "out.wsca"),
                                 ("json", ["run", "-j", "intended.json", "-o", "out2.wsca"], "out2.wsca")):
        rc, out, err = cli.run_bin(args, d)
        outp = os.path.join(d, outname)
        if "ok" in expected:
            st["run_ok"] = st.get("run_ok", 0) + 1
            want = "\n".join(expected["ok"])
            got = cli.read(outp) if os.path.exists(outp) else None
            if rc != 0 or got != want:
                F.append((f"c19-run-output-differs:{label}", f"case={name} rc={rc} written={got!r} library={want!r} stderr={err[-200:]}"))
            else:
                if expected["ok"] != intended["words"]:
                    st["nontrivial"] = st.get("nontrivial", 0) + 1
                # the terminal shows `before => after` for every non-empty pair
                shown = [re.split(r"\s+=>\s*", l.strip(), maxsplit=1) for l in out.split("\n") if "=>" in l]
                wantshown = [[b, a2] for b, a2 in zip(intended["words"], expected["ok"]) if not (b == "" and a2 == "")]
                if [x for x in shown if len(x) == 2] != wantshown:
                    F.append((f"c19-run-printed-differs:{label}", f"case={name} printed={shown[:4]} want={wantshown[:4]}"))
        elif "err" in expected:
            st["run_err"] = st.get("run_err", 0) + 1
            if rc != 0 or os.path.exists(outp) or out.rstrip("\n") != expected["err"].rstrip("\n"):
                F.append((f"c19-run-error-differs:{label}", f"case={name} rc={rc} file_written={os.path.exists(outp)} printed={out[-300:]!r} library={expected['err'][-300:]!r}"))
            else:
                st["nontrivial"] = st.get("nontrivial", 0) + 1
        else:
            st["run_fault_skipped"] = st.get("run_fault_skipped", 0) + 1
    # D. writers: json -> rsca/wsca/alias, compared with the model's writers
    rc, out, err = cli.run_bin(["conv", "json", "-p", "intended.json", "-w", "o.wsca", "-r", "o.rsca", "-a", "o.alias"], d)
    wrote_alias = os.path.exists(os.path.join(d, "o.alias"))
    if rc != 0 or not os.path.exists(os.path.join(d, "o.rsca")) or not os.path.exists(os.path.join(d, "o.wsca")):
        F.append(("c19-conv-json-failed", f"case={name} rc={rc} stderr={err[-300:]}"))
    else:
        if wrote_alias != bool(intended["into"] or intended["from"]):
            F.append(("c19-alias-file-presence", f"case={name} wrote={wrote_alias} into={intended['into']} from={intended['from']}"))
        g = intended["rules"]
        ops.append("torsca " + " ".join([str(len(g))] + [f"{cli.counted(x['name'])} {len(x['rule'])} " + " ".join(cli.counted(r) for r in x["rule"]) + f" {cli.counted(x['description'])}" for x in g]).replace("  ", " "))
        expect.append(("file", name + "/o.rsca", cli.read(os.path.join(d, "o.rsca"))))
        ops.append("towsca " + " ".join([str(len(intended["words"]))] + [cli.counted(w) for w in intended["words"]]))
        expect.append(("file", name + "/o.wsca", cli.read(os.path.join(d, "o.wsca"))))
        if wrote_alias:
            ops.append("toalias " + " ".join([str(len(intended["into"]))] + [cli.counted(w) for w in intended["into"]] + [str(len(intended["from"]))] + [cli.counted(w) for w in intended["from"]]))
            expect.append(("file", name + "/o.alias", cli.read(os.path.join(d, "o.alias"))))
        # E. and back
        rc, out, err = cli.run_bin(["conv", "asca", "-r", "o.rsca", "-w", "o.wsca", "-o", "back.json"] + (["-a", "o.alias"] if wrote_alias else []), d)
        if rc == 0 and os.path.exists(os.path.join(d, "back.json")):
            back = json.load(open(os.path.join(d, "back.json"), encoding="utf-8"))
            if back != intended:
                which = [k for k in ("rules", "words", "into", "from") if back.get(k) != intended.get(k)]
                F.append((f"c19-roundtrip-differs:{'+'.join(which)}", f"case={name} back={json.dumps({k: back.get(k) for k in which}, ensure_ascii=False)[:600]} original={json.dumps({k: intended.get(k) for k in which}, ensure_ascii=False)[:600]}"))
            else:
                st["roundtrips"] = st.get("roundtrips", 0) + 1
        else:
            F.append(("c19-conv-asca-failed:after-conv-json", f"case={name} rc={rc} stderr={err[-300:]}"))
    return F, st, ops, expect


def check(res, thorough):
    ok_t, ok_b, ok_h = core.prepare(res, "AscaVerif.Props.C19", thorough=thorough)
    tier = "thorough" if thorough else "quick"
    scratch = core.scratch_dir("c19")
    try:
        b = cli.build_cli()
        res.add(b)
        if ok_h and b["ok"]:
            rc, out, err, _ = core.run([core.HARNESS_BIN, "c19-gen", scratch, tier, str(res.seed)], timeout=3000, env=cli.ENV)
            gen_stats = {l[5:].rpartition(" ")[0]: int(l.rpartition(" ")[2]) for l in out.splitlines() if l.startswith("STAT ")}
            cases = sorted(os.path.join(scratch, d) for d in os.listdir(scratch) if d.startswith("case"))
            with ThreadPoolExecutor(max_workers=16) as ex:
                results = list(ex.map(one_case, cases))
            findings, stats, ops, expect = [], {}, [], []
            for F, st, o, e in results:
                findings += F; ops += o; expect += e
                for k, v in st.items():
                    stats[k] = stats.get(k, 0) + v
            # the model on the same bytes / structures
            diffs = []
            if os.path.exists(core.DRIVER_BIN):
                fo, fm = os.path.join(scratch, "cli.ops"), os.path.join(scratch, "cli.model")
                open(fo, "w", encoding="utf-8").write("\n".join(ops) + "\n")
                drc, derr = run_driver_parallel(fo, fm)
                answers = open(fm, encoding="utf-8").read().split("\n")
                for (kind, name, want), op, ans in zip(expect, ops, answers):
                    try:
                        got = decode(kind, json.loads(ans))
                    except Exception:
                        got = ans
                    if got != want and len(diffs) < 20:
                        diffs.append({"what": kind, "case": name, "model": got if isinstance(got, str) else json.dumps(got, ensure_ascii=False)[:500], "impl": want if isinstance(want, str) else json.dumps(want, ensure_ascii=False)[:500]})
                res.add(core.ob(f"cli-files: model readers and writers ≙ the asca binary on {len(ops)} files (conv asca / conv json)", "correspondence",
                                drc == 0 and not diffs and len(answers) >= len(ops) and len(ops) >= 2 * len(cases), json.dumps(diffs[:3], ensure_ascii=False) + derr[-300:]))
                res.coverage["traces_validated_against_impl"] = len(ops)
            new = suites.classify(res, "C19", findings, f"asca-harness c19-gen <dir> {tier} {res.seed}; then the asca binary per case (vlib/c19.py)")
            known_kinds = {k["kind"] for k in core.known_for("C19")}
            n = stats.get("cases", 0)
            res.add(core.ob(f"c19-spec: on {n} generated projects `asca run -o` (from files and from json) writes and prints what asca::run returns for the content the files denote, "
                            f"errors are printed through the library's formatter, and json -> rsca/wsca/alias -> json is the identity ({len(findings)} findings, {new} not in known_findings.json)",
                            "impl-property", rc == 0 and new == 0 and n >= 200, json.dumps([f for f in findings if f[0] not in known_kinds][:3], ensure_ascii=False) + err[-300:]))
            res.evaluations = n
            res.distinct_nontrivial = stats.get("nontrivial", 0)
            stats.update(gen_stats)
            res.coverage["input_distribution"] = stats
            res.coverage["findings_by_kind"] = {k: sum(1 for f in findings if f[0] == k) for k in {f[0] for f in findings}}
        res.rule = ("projects of 1-4 rule groups (names with spaces, capitals, punctuation; 0-3 rules; 0-3 description lines, some empty), 1-7 words (some empty), optional alias "
                    "file with both sections; written as .rsca/.wsca/.alias with random indentation, trailing blanks, blank lines where the manual allows them, word comments, "
                    "alias comments, LF or CRLF; the same structure as json; the binary is run 5 times per project (conv asca, run on files, run on json, conv json, conv asca "
                    "on its own output); non-trivial = the rules change a word or the library returns an error")
        res.assumptions = ["the binary is built from /repo's working tree with the release profile", "overwrite prompts, missing files and the -c comparison view are not exercised",
                           "round trip is claimed for well-formed projects: at least one group, no entirely empty group before another, trimmed single-line names and rules, "
                           "description not starting with an empty line, last word not empty (the theorem's hypotheses; the excluded points are listed in DESIGN.md)"]
    finally:
        shutil.rmtree(scratch, ignore_errors=True)
    return res.finish()


def replay(path):
    print(open(path).read())
    return 0
