"""C15 — aliases change notation, never the sound changes."""
import json, os, shutil
from . import core, suites
from .c04 import ops_correspondence

KEYS = os.path.join(core.LEAN, "AscaVerif", "Gen", "cardinal_keys.txt")


def check(res, thorough):
    ok_t, ok_b, ok_h = core.prepare(res, "AscaVerif.Props.C15", thorough=thorough)
    tier = "thorough" if thorough else "quick"
    scratch = core.scratch_dir("c15")
    try:
        if ok_h and os.path.exists(core.DRIVER_BIN) and os.path.exists(KEYS):
            stats, samples, diffs = ops_correspondence(res, scratch, "alias-ops", tier, "alias-ops", 15000, extra_args=[str(res.seed), KEYS], header_lines=1)
            res.coverage["alias_correspondence"] = stats
            res.coverage["traces_validated_against_impl"] = stats.get("alias.ops", 0)
            st2, _, _ = ops_correspondence(res, scratch, "aliasp-ops", tier, "aliasp-ops", 30000, extra_args=[str(res.seed)])
            res.coverage["aliasp-ops"] = st2
            res.coverage["traces_validated_against_impl"] += st2.get("aliasp.ops", 0)
        if ok_h:
            s = suites.run_suite(["c15-spec", tier, str(res.seed)])
            new = suites.classify(res, "C15", s["findings"], f"asca-harness c15-spec {tier} {res.seed}")
            n = s["stats"].get("c15.cases", 0)
            known_kinds = {k["kind"] for k in core.known_for("C15")}
            res.add(core.ob(f"c15-spec: on {n} cases (rules x words x alias sets) the printed words are the default rendering rewritten by the romaniser table, the outcome "
                            f"(result or error kind) is the same with and without romanisers, and deromanised text behaves as the typed IPA ({len(s['findings'])} findings, "
                            f"{new} not in known_findings.json)", "impl-property", s["rc"] == 0 and new == 0 and n > 10000,
                            json.dumps([f for f in s["findings"] if f[0] not in known_kinds][:3], ensure_ascii=False) + s["err"]))
            res.evaluations = n
            res.distinct_nontrivial = s["stats"].get("c15.nontrivial", 0)
            res.coverage["input_distribution"] = s["stats"]
            res.coverage["findings_by_kind"] = {k: sum(1 for f in s["findings"] if f[0] == k) for k in {f[0] for f in s["findings"]}}
            res.samples = s["samples"]
        res.rule = ("rule lists (0-2 rules, Basic/Tame profiles) x 1-3 generated words x 1-3 romanisers (plain segment, one-feature matrix or `$` on the left; fresh string, "
                    "`+`string or `*` on the right): printed word compared with a reference that rewrites the default rendering of the structural result (hook) segment by "
                    "segment; same run without romanisers compared for outcome; deromanisers `fresh > ipa`, `fresh > ipa:[+long]`, `+fresh > [+nasal]/[+round]` (also after a "
                    "long segment): run(R, encode(w), into=D) compared with run(R, w); non-trivial = the alias changed the printed form or was used in the input")
        res.assumptions = ["the whole-word deromanisation equality (encode(w) parses like w) is decided by the search; the theorems cover the single step (key hit / miss)",
                           "romanisers with modifiers (stress, tone, length), multi-segment inputs and americanist words are outside the modelled fragment"]
    finally:
        shutil.rmtree(scratch, ignore_errors=True)
    return res.finish()


def replay(path):
    print(open(path).read())
    return 0
