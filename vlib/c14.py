from . import interpprops
def check(res, thorough):
    return interpprops.check(res, thorough, "C14", "AscaVerif.Props.C14", "c14-spec", "c14.cases", "c14.nontrivial",
        """segment-only rules (k<=3 segment-matching inputs; k matrices without length/stress/tone, or k plain IPA segments) and prosody-only rules ([±stress], [±sec.stress], [tone:n] on % or on segments; $ > *, * > $, $X > &, X$ > &) with environments and exceptions borrowed from full-grammar rules; the untouched tier (stress/tone per syllable, syllable count, and syllable shapes for matrix outputs; resp. the flat segment list) must be equal whenever Ok""",
        ["cases that panic or hang are skipped (C02)"], extra_props=["AscaVerif.Props.C14Scan", "AscaVerif.Props.C14Supra"])
replay = interpprops.replay
