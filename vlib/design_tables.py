#!/usr/bin/env python3
"""Regenerates the tables of DESIGN.md §9 (between the BEGIN/END GENERATED markers) from known_findings.json and seeded/*/meta.json."""
import json, os, glob, re
V = os.path.dirname(os.path.dirname(os.path.abspath(__file__)))

def esc(s):
    return str(s).replace("|", "\\|").replace("\n", " ")

CORR = {"C01": "word-ops; multi-process renderings", "C02": "interp-ops", "C03": "interp-ops; reference interpreter (frag.rs)", "C04": "tables feat; c04-ops (exhaustive)", "C05": "c05-match (exhaustive table)",
        "C06": "interp-ops", "C07": "interp-ops", "C08": "interp-ops", "C09": "word-ops (segment space)", "C10": "runner glue", "C11": "runner glue", "C12": "interp-ops; tables groups",
        "C13": "tables names", "C14": "interp-ops", "C15": "alias-ops", "C16": "runner glue-trace", "C17": "formatter ops", "C18": "c18-enum (65 537 places), c18-laws", "C19": "cli-files (real binary)", "C20": "seq-plan; real binary"}

def theorem_table():
    out = ["### 9.1b Theorems per property (generated from `lean/AscaVerif/Props`)", "", "| property | theorems in `Props/Cxx*.lean` | correspondence suites |", "|---|---|---|"]
    for i in range(1, 21):
        pid = f"C{i:02d}"
        names = []
        for f in sorted(glob.glob(os.path.join(V, "lean", "AscaVerif", "Props", pid + "*.lean"))):
            names += re.findall(r"^theorem\s+([A-Za-z0-9_]+)", open(f, encoding="utf-8").read(), re.M)
        out.append(f"| {pid} | {len(names)}: " + ", ".join(f"`{n}`" for n in names) + f" | {CORR.get(pid, '')} |")
    return "\n".join(out)

def tables():
    k = json.load(open(os.path.join(V, "known_findings.json"), encoding="utf-8"))["findings"]
    out = ["### 9.2 Defects found by the checks", "",
           "Repaired in `/repo` by a `fix:` commit (the entry suppresses nothing; the check reports the violation again if it returns):", "",
           "| property | key | commit | what failed |", "|---|---|---|---|"]
    for e in k:
        if e["status"] == "fixed":
            what = re.sub(r"^fixed: property=\S+ \S+ ", "", e["what"])
            out.append(f"| {e['property']} | {esc(e['key'])} | `{e.get('commit','')}` | {esc(what)} |")
    out += ["", "Recorded as known findings (`KNOWN-FINDING:` line, exit 0; identified by kind = call site / rule shape / direction, so that a different failure of the same property is still a VIOLATION):", "",
            "| property | key | identified by (kind) | what fails | witness |", "|---|---|---|---|---|"]
    for e in k:
        if e["status"] == "known":
            out.append(f"| {e['property']} | {esc(e['key'])} | `{esc(e['kind'])}` | {esc(e['what'])[:420]} | {esc(json.dumps(e.get('witness'), ensure_ascii=False)) if e.get('witness') else ''} |")
    out += ["", "### 9.3 Seeded changes and the checks that catch them", "",
            "Each change was produced by a sub-agent that saw only the property text and a scratch worktree, keeps the 144 tests green, was confirmed by me "
            "(`seeded/confirm.sh`: demo fails with it, passes without it) and is stored under `seeded/<name>/`; `seeded/regress.sh` re-applies every one and expects a VIOLATION.", "",
            "| property | seeded change | needs, to manifest | caught by |", "|---|---|---|---|"]
    for d in sorted(glob.glob(os.path.join(V, "seeded", "*", "meta.json"))):
        m = json.load(open(d, encoding="utf-8"))
        out.append(f"| {m['property']} | `{os.path.basename(os.path.dirname(d))}` | {esc(m['needs_to_manifest'])} | {esc(m['detected_by'])} |")
    return theorem_table() + "\n\n" + "\n".join(out)

def main():
    p = os.path.join(V, "DESIGN.md")
    s = open(p, encoding="utf-8").read()
    a, b = "<!-- BEGIN GENERATED TABLES -->", "<!-- END GENERATED TABLES -->"
    new = a + "\n" + tables() + "\n" + b
    if a in s:
        s = s[:s.index(a)] + new + s[s.index(b) + len(b):]
    else:
        s += "\n" + new + "\n"
    open(p, "w", encoding="utf-8").write(s)

if __name__ == "__main__":
    main()
