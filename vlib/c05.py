"""C05 — stress, length and tone modifiers follow the manual's tables (DESIGN §4 C05)."""
import json, os, shutil
from . import core, suites


def check(res, thorough):
    ok_t, ok_b, ok_h = core.prepare(res, "AscaVerif.Props.C05", thorough=thorough, extra_props=["AscaVerif.Props.C05Scan", "AscaVerif.Props.C05Stress"])
    tier = "thorough" if thorough else "quick"
    if ok_h:
        s = suites.run_suite(["c05-spec", tier])
        new = suites.classify(res, "C05", s["findings"], f"asca-harness c05-spec {tier}")
        n = s["stats"].get("c05.cases", 0)
        res.add(core.ob(f"c05-spec: the manual's tables evaluated against the implementation through the rule pipeline ({n} rule applications; "
                        f"{len(s['findings'])} findings, {new} not in known_findings.json)", "impl-property",
                        s["rc"] == 0 and new == 0 and n > 100000, json.dumps([f for f in s["findings"] if f[0] != "c05-set-longrun"][:3], ensure_ascii=False) + s["err"]))
        res.evaluations = n
        res.distinct_nontrivial = s["stats"].get("c05.nontrivial", 0)
        res.coverage["exhaustive"] = True
        res.coverage["findings_by_kind"] = {k: sum(1 for f in s["findings"] if f[0] == k) for k in {f[0] for f in s["findings"]}}
        res.samples = s["samples"] + ["%:[+stress, -secstress] > [+secstress, tone:51] / #_ on ˈtak.pu", "[+syll, +low] > [+long, -overlong] on t-aːː-k (known finding D5)"]
    res.rule = ("exhaustive: 36 states (length 1..3 x stress x tone) x 405 modifier combinations (quick: 324, tone 1234 left to thorough) x {match, set} x element kinds "
                "{matrix, %, IPA} (thorough: + group) x target first/middle/last in its syllable; non-trivial = the rule fired / changed the word")
    res.assumptions = ["length modifiers on `%` are outside the manual's tables and are not judged",
                       "the Lean theorems are about the syllable-level functions (apply_supras, apply_syll_mods, match_stress, match_seg_length); "
                       "the scan loop that decides where they are applied is the interpreter's (C03/C06 model); its defect D5 is listed as a known finding"]
    return res.finish()


def replay(path):
    print(open(path).read())
    return 0
