"""C10, C11, C16: theorems over the abstract runner + `glue` correspondence + direct search on the implementation."""
import json, os, shutil
from . import core, suites

CFG = {
    "C10": dict(module="AscaVerif.Props.C10", key="c10", nontrivial="c10.nontrivial", evals="c10.splits_checked",
                rule="generated rule lists (1-5 rules, Basic/Tame profiles, blank/comment lines) x word lists; all-at-once vs every split point "
                     "through rendered text vs regroupings (random groups incl. empty, one group per rule); a case is non-trivial when some word changes"),
    "C11": dict(module="AscaVerif.Props.C11", key="c11", nontrivial="c11.words_changed", evals="c11.cases",
                rule="generated rule groups x word lists (1-5 words): list vs singletons, a random permutation, a random sublist, the list doubled, "
                     "a two-word line, a planted unparsable word; non-trivial = words actually changed by the rules"),
    "C16": dict(module="AscaVerif.Props.C16", key="c16", nontrivial="c16.nontrivial", evals="c16.cases",
                rule="generated group lists (incl. empty groups and groups that do nothing) x phrases of 1-4 words: trace_changes vs the structural state "
                     "after every group (hooks), vs run of every prefix, vs get_trace_string; non-trivial = some group changed the phrase"),
}


def check(res, thorough, prop):
    cfg = CFG[prop]
    ok_t, ok_b, ok_h = core.prepare(res, cfg["module"], thorough=thorough, need_driver=False)
    n_glue = 6000 if thorough else 800
    n_prop = 40000 if thorough else 2500
    if ok_h:
        # correspondence: the model's composition scheme instantiated with the real components == the real run / trace_changes
        g = suites.run_suite(["runner", "glue", str(res.seed), str(n_glue)])
        bad = [f for f in g["findings"]]
        res.add(core.ob(f"glue: Model.Run scheme (real components through hooks) ≙ asca::run / trace_changes ({g['stats'].get('glue.cases', 0)} runs, "
                        f"{g['stats'].get('glue.trace_cases', 0)} traces)", "correspondence",
                        g["rc"] == 0 and not bad and g["stats"].get("glue.cases", 0) == n_glue, json.dumps(bad[:3], ensure_ascii=False) + g["err"]))
        res.coverage["glue_outcome_distribution"] = {k: v for k, v in g["stats"].items() if k.startswith("glue.")}
        res.coverage["traces_validated_against_impl"] = g["stats"].get("glue.cases", 0) + g["stats"].get("glue.trace_cases", 0)
        # search: the property itself on the implementation
        s = suites.run_suite(["runner", prop, str(res.seed), str(n_prop)])
        new = suites.classify(res, prop, s["findings"], f"asca-harness runner {prop} {res.seed} {n_prop}")
        res.add(core.ob(f"{prop} evaluated on the implementation ({s['stats'].get(cfg['key'] + '.cases', 0)} cases)", "impl-property",
                        s["rc"] == 0 and new == 0 and s["stats"].get(cfg["key"] + ".cases", 0) == n_prop,
                        json.dumps(s["findings"][:3], ensure_ascii=False) + s["err"]))
        if prop == "C10":
            seq_stage_check(res, thorough)
        res.evaluations = s["stats"].get(cfg["evals"], 0) + g["stats"].get("glue.cases", 0)
        res.distinct_nontrivial = s["stats"].get(cfg["nontrivial"], 0)
        res.samples = s["samples"] + g["samples"][:3]
        res.coverage["input_distribution"] = s["stats"]
    res.rule = cfg["rule"]
    res.assumptions = ["the interpreter (Rule::apply), the parsers and the renderer are abstract parameters of the runner model: the theorems hold for any behaviour of those components",
                       "cases on which the pinned tree panics or hangs are skipped here (they are C02's subject) and counted in input_distribution"]
    return res.finish()


def seq_stage_check(res, thorough):
    """C10, mechanism `seq feeds each stage's rendered words to the next stage`: the asca binary on generated pipeline projects (the
    generator and the per-project oracle of C20): what `asca seq` writes for a tag at the end of a % chain is what the library gives
    when the stages are composed, row for row"""
    from concurrent.futures import ThreadPoolExecutor
    from . import c20, cli
    tier = "thorough" if thorough else "quick"
    b = cli.build_cli()
    res.add(b)
    if not b["ok"]:
        return
    scratch = core.scratch_dir("c10seq")
    try:
        rc, out, err, _ = core.run([core.HARNESS_BIN, "c20-gen", scratch, tier, str(res.seed + 10)], timeout=3000, env=cli.ENV)
        cases = sorted(os.path.join(scratch, d) for d in os.listdir(scratch) if d.startswith("case"))
        with ThreadPoolExecutor(max_workers=16) as ex:
            results = list(ex.map(c20.one_case, cases))
        keep = ("c20-words-differ", "c20-staged-differs-from-history", "c20-seq-failed", "c20-out-missing")
        findings, chains = [], 0
        for F, st in results:
            chains += st.get("chains_compared_with_whole_history", 0)
            findings += [("c10-seq:" + k[4:], v) for k, v in F if k.startswith(keep)]
        new = suites.classify(res, "C10", findings, f"asca-harness c20-gen <dir> {tier} {res.seed + 10}; then `asca seq . -o -y` per project (vlib/runnerprops.py seq_stage_check)")
        res.add(core.ob(f"seq stages: on {len(cases)} generated pipeline projects ({chains} % chains) the words `asca seq` writes for every tag are the library's composition of the "
                        f"stages, row for row ({len(findings)} findings, {new} not in known_findings.json)", "impl-property",
                        rc == 0 and new == 0 and len(cases) >= 100, json.dumps(findings[:3], ensure_ascii=False) + err[-300:]))
        res.coverage["seq_stage_projects"] = len(cases)
    finally:
        shutil.rmtree(scratch, ignore_errors=True)


def replay(path):
    print(open(path).read())
    return 0
