from . import interpprops
def check(res, thorough):
    return interpprops.check(res, thorough, "C06", "AscaVerif.Props.C06", "c06-spec", "c06.cases", "c06.nontrivial_rule_would_fire",
        """rules generated from the documented grammar (profiles Tame 3/4, Full 1/4: sets, optionals, ellipses, structures, variables, alphas, environment sets, condensed rules) into which a literal segment absent from the word is planted at a random top-level position of the input (insertion: of the context), x generated words; blank / white-space / comment-only lines; the result must equal the word structurally whenever the call returns Ok; non-trivial = the un-planted rule changes the word""",
        ["cases on which the pinned tree panics or hangs are skipped (C02)", "findings are labelled by syntactic predicates of the planted rule; only the four families of known_findings.json are tolerated"],
        extra_ops=[("parse-ops", "parse-ops", 30000)], extra_props=["AscaVerif.Props.C06Parse", "AscaVerif.Props.C06Run"])
replay = interpprops.replay
