"""C09 — ASCA can read back what it writes (DESIGN §4 C09)."""
import json, os, shutil
from . import core, suites
from .c04 import ops_correspondence
from .c01 import KEYS


def check(res, thorough):
    ok_t, ok_b, ok_h = core.prepare(res, "AscaVerif.Props.C09", thorough=thorough)
    tier = "thorough" if thorough else "quick"
    scratch = core.scratch_dir("c09")
    try:
        if ok_h and os.path.exists(core.DRIVER_BIN) and os.path.exists(KEYS):
            stats, samples, diffs = ops_correspondence(res, scratch, "word-ops", tier, "word-ops", 30000,
                                                       extra_args=[str(res.seed), KEYS], header_lines=1)
            res.coverage["correspondence_stats"] = stats
            res.coverage["traces_validated_against_impl"] = stats.get("words.ops", 0)
        if ok_h:
            s = suites.run_suite(["c09-spec", tier, str(res.seed)])
            new = suites.classify(res, "C09", s["findings"], f"asca-harness c09-spec {tier} {res.seed}")
            n = s["stats"].get("c09.segments", 0) + s["stats"].get("c09.words", 0)
            res.add(core.ob(f"c09-spec: parse(render(w)) == w on the implementation ({s['stats'].get('c09.segments', 0)} segments, "
                            f"{s['stats'].get('c09.words', 0)} words; {len(s['findings'])} findings, {new} not in known_findings.json)", "impl-property",
                            s["rc"] == 0 and new == 0 and n > 30000,
                            json.dumps([f for f in s["findings"] if ":key-collision" not in f[0] and ":concat-collision" not in f[0]][:3], ensure_ascii=False) + s["err"]))
            res.evaluations = n
            res.distinct_nontrivial = s["stats"].get("c09.nontrivial", 0)
            res.coverage["input_distribution"] = s["stats"]
            res.coverage["findings_by_kind"] = {k: sum(1 for f in s["findings"] if f[0] == k) for k in {f[0] for f in s["findings"]}}
            res.samples = ["bundle (4 0 0 32768) -> `p` -> parses to the same bundle", "assembled word 2 syllables, long segment, tone 51, secondary stress -> text -> same word"]
        res.rule = ("exhaustive over distinct bundles reachable as base, base+1 diacritic (thorough: +2), and one-feature changes of them; plus random words "
                    "assembled from the segments that individually round-trip, with stress/tone/length/boundaries; renderings containing U+FFFD are skipped "
                    "as the property says; non-trivial = rendered with at least one diacritic")
        res.assumptions = ["full parse∘render = id is NOT a theorem: proved for base graphemes (finite table, kernel-evaluated) and the exact-match phase; "
                           "diacritic stacks rest on the exhaustive model≙impl correspondence and on the direct search"]
    finally:
        shutil.rmtree(scratch, ignore_errors=True)
    return res.finish()


def replay(path):
    print(open(path).read())
    return 0
