from . import interpprops
def check(res, thorough):
    return interpprops.check(res, thorough, "C07", "AscaVerif.Props.C07", "c07-spec", "c07.cases", "c07.nontrivial",
        """(1) X1=1..Xk=k > 1..k, k<=3, element kinds matrix/group/[]/%/structure, random environments; (2) [αF] > [αF] for the 26 features, 5 nodes and 4 suprasegmentals on bare, C and V elements, and the % stress rules; (3) A > B / X=1 _ 1 against 'fires exactly between identical bundles' on words without long segments; words with long/overlong segments, tones, both stresses; non-trivial = the rule's input matches somewhere""",
        ["secondary stress copied through an alpha is the known finding D7", "structure variables were repaired by a fix: commit (known_findings.json, fixed)"], extra_props=["AscaVerif.Props.C07Scan"])
replay = interpprops.replay
