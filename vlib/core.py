"""Shared machinery of ./check: translator, lake build, axiom audit, harness build, evidence, verdict."""
import fcntl, json, os, re, shutil, subprocess, sys, tempfile, time

VERIF = os.path.dirname(os.path.dirname(os.path.abspath(__file__)))
REPO = os.environ.get("ASCA_REPO", "/repo")
LEAN = os.path.join(VERIF, "lean")
HARNESS = os.path.join(VERIF, "harness")
HARNESS_BIN = os.path.join(HARNESS, "target", "release", "asca-harness")
DRIVER_BIN = os.path.join(LEAN, ".lake", "build", "bin", "driver")
# evidence of runs against /repo itself goes to /verif/evidence; seeded/try.sh and seeded/regress.sh (runs against a deliberately
# broken tree) point VERIF_EVIDENCE_DIR elsewhere so that they never overwrite it
EVIDENCE = os.environ.get("VERIF_EVIDENCE_DIR") or os.path.join(VERIF, "evidence")
REPLAYS = os.path.join(VERIF, "replays")
KNOWN = os.path.join(VERIF, "known_findings.json")

ALLOWED_AXIOMS = {"propext", "Classical.choice", "Quot.sound"}
BV_AXIOM = re.compile(r"\._native\.bv_decide\.ax_\d+(_\d+)*✝?$")
FORBIDDEN = re.compile(r"\b(sorry|admit|native_decide|implemented_by|unsafe)\b|^\s*axiom\s|maxHeartbeats\s+0\b")

ENV = dict(os.environ, CARGO_NET_OFFLINE="true")


def log(*a):
    print(*a, file=sys.stderr, flush=True)


def run(cmd, cwd=None, timeout=None, inp=None, env=None):
    t0 = time.time()
    try:
        p = subprocess.run(cmd, cwd=cwd, input=inp, stdout=subprocess.PIPE, stderr=subprocess.PIPE, timeout=timeout,
                           env=env or ENV, text=True, errors="replace")
        return p.returncode, p.stdout, p.stderr, time.time() - t0
    except subprocess.TimeoutExpired as e:
        out = e.stdout.decode(errors="replace") if isinstance(e.stdout, bytes) else (e.stdout or "")
        err = e.stderr.decode(errors="replace") if isinstance(e.stderr, bytes) else (e.stderr or "")
        return 124, out, err + "\nTIMEOUT", time.time() - t0


class BuildLock:
    """Serialises translator + lake + cargo between concurrently started checks."""
    def __enter__(self):
        os.makedirs(os.path.join(VERIF, ".scratch"), exist_ok=True)
        self.f = open(os.path.join(VERIF, ".scratch", "build.lock"), "w")
        fcntl.flock(self.f, fcntl.LOCK_EX)
        return self

    def __exit__(self, *a):
        fcntl.flock(self.f, fcntl.LOCK_UN)
        self.f.close()


def scratch_dir(prefix):
    base = os.environ.get("TMPDIR", "/tmp")
    return tempfile.mkdtemp(prefix=f"ascaverif-{prefix}-", dir=base)


# ---------------------------------------------------------------------------------------------
# obligations: each is a dict {name, kind, ok, detail}

def ob(name, kind, ok, detail=""):
    return {"name": name, "kind": kind, "ok": bool(ok), "detail": detail[-4000:] if isinstance(detail, str) else detail}


def translator():
    rc, out, err, dt = run([sys.executable, os.path.join(VERIF, "translator", "translate.py")], timeout=120)
    return ob("translator", "translator", rc == 0, (out + err).strip())


def lake_build(targets):
    rc, out, err, dt = run(["lake", "build"] + targets, cwd=LEAN, timeout=3000)
    msg = out + err
    if rc != 0:
        # keep the error lines
        lines = [l for l in msg.splitlines() if "error" in l.lower() or l.startswith("✖")]
        return ob("lake build " + " ".join(targets), "lean-build", False, "\n".join(lines[:40]) or msg[-3000:])
    return ob("lake build " + " ".join(targets), "lean-build", True, f"{dt:.1f}s")


def theorem_names(module_rel):
    """(namespace-qualified theorem names) of a Props file, by regex: `theorem name` at line start inside the
    file's single namespace."""
    path = os.path.join(LEAN, module_rel)
    src = open(path, encoding="utf-8").read()
    ns = re.search(r"^namespace\s+(\S+)", src, re.M)
    ns = ns.group(1) if ns else ""
    names = []
    for m in re.finditer(r"^(?:private\s+|protected\s+)?theorem\s+(\S+)", src, re.M):
        line_start = src.rfind("\n", 0, m.start()) + 1
        if src[line_start:m.start()].strip() == "" and not src[line_start:m.end()].lstrip().startswith("private"):
            names.append((ns + "." if ns else "") + m.group(1))
    return names


def strip_comments(src):
    src = re.sub(r"/-.*?-/", "", src, flags=re.S)
    src = re.sub(r"--[^\n]*", "", src)
    return src


def forbidden_scan():
    hits = []
    for root, _, files in os.walk(os.path.join(LEAN, "AscaVerif")):
        for f in files:
            if f.endswith(".lean"):
                p = os.path.join(root, f)
                for i, line in enumerate(strip_comments(open(p, encoding="utf-8").read()).splitlines()):
                    if FORBIDDEN.search(line):
                        hits.append(f"{os.path.relpath(p, LEAN)}: {line.strip()[:120]}")
    return ob("no sorry/admit/axiom/native_decide/implemented_by/unsafe/maxHeartbeats 0", "audit-grep", not hits, "\n".join(hits[:20]))


def audit_axioms(module, names):
    """#print axioms for every property theorem; returns (obligation, axioms-by-theorem)."""
    if not names:
        return ob(f"axioms of {module}", "audit-axioms", False, "no theorems found"), {}
    d = os.path.join(VERIF, ".scratch")
    os.makedirs(d, exist_ok=True)
    path = os.path.join(d, f"Audit_{module.replace('.', '_')}_{os.getpid()}.lean")
    with open(path, "w") as f:
        f.write(f"import {module}\n")
        for n in names:
            f.write(f"#print axioms {n}\n")
    rc, out, err, dt = run(["lake", "env", "lean", path], cwd=LEAN, timeout=1200)
    os.unlink(path)
    text = out + err
    by = {}
    bad = []
    for m in re.finditer(r"'([^']+)' (?:depends on axioms: \[([^\]]*)\]|does not depend on any axioms)", text, re.S):
        axs = [a.strip() for a in (m.group(2) or "").replace("\n", " ").split(",") if a.strip()]
        by[m.group(1)] = axs
        for a in axs:
            if a not in ALLOWED_AXIOMS and not BV_AXIOM.search(a):
                bad.append(f"{m.group(1)}: {a}")
    missing = [n for n in names if n not in by]
    ok = rc == 0 and not bad and not missing
    detail = ""
    if bad:
        detail += "disallowed axioms: " + "; ".join(bad[:10])
    if missing:
        detail += " no axiom report for: " + ", ".join(missing[:10]) + "\n" + text[-1500:]
    return ob(f"axioms of {module} ({len(names)} theorems)", "audit-axioms", ok, detail), by


def leanchecker(modules):
    rc, out, err, dt = run(["lake", "env", "leanchecker"] + modules, cwd=LEAN, timeout=3000)
    return ob("leanchecker " + " ".join(modules), "leanchecker", rc == 0, (out + err)[-2000:] or f"{dt:.1f}s")


def cargo_build():
    lock_src = os.path.join(REPO, "Cargo.lock")
    if os.path.exists(lock_src):
        shutil.copyfile(lock_src, os.path.join(HARNESS, "Cargo.lock"))
    rc, out, err, dt = run(["cargo", "build", "--release", "--offline"], cwd=HARNESS, timeout=3000)
    if rc != 0:
        lines = [l for l in err.splitlines() if l.startswith("error")]
        return ob("cargo build harness against /repo (feature verif)", "harness-build", False, "\n".join(lines[:20]) + "\n" + err[-2500:])
    return ob("cargo build harness against /repo (feature verif)", "harness-build", True, f"{dt:.1f}s")


def harness(args, timeout=3600, inp=None):
    return run([HARNESS_BIN] + args, timeout=timeout, inp=inp)


def driver(args, timeout=3600, inp=None):
    return run([DRIVER_BIN] + args, timeout=timeout, inp=inp)


def diff_streams(cmd_a, cmd_b, scratch, label, max_report=5):
    """Run two commands writing canonical lines; return (n_lines, [ (lineno, a, b) … ])."""
    fa, fb = os.path.join(scratch, label + ".impl"), os.path.join(scratch, label + ".model")
    with open(fa, "w") as oa:
        pa = subprocess.Popen(cmd_a, stdout=oa, stderr=subprocess.PIPE, env=ENV)
        with open(fb, "w") as obf:
            pb = subprocess.Popen(cmd_b, stdout=obf, stderr=subprocess.PIPE, env=ENV)
            ea = pa.communicate()[1]
            eb = pb.communicate()[1]
    problems = []
    if pa.returncode not in (0,):
        problems.append((0, f"impl side exit {pa.returncode}: {ea.decode(errors='replace')[-500:]}", ""))
    if pb.returncode not in (0,):
        problems.append((0, "", f"model side exit {pb.returncode}: {eb.decode(errors='replace')[-500:]}"))
    n = 0
    with open(fa, errors="replace") as a, open(fb, errors="replace") as b:
        while True:
            la, lb = a.readline(), b.readline()
            if not la and not lb:
                break
            n += 1
            if la != lb and len(problems) < max_report:
                problems.append((n, la.rstrip("\n"), lb.rstrip("\n")))
    os.unlink(fa)
    os.unlink(fb)
    return n, problems


# ---------------------------------------------------------------------------------------------
# known findings

def load_known():
    if not os.path.exists(KNOWN):
        return []
    return json.load(open(KNOWN))["findings"]


def known_for(prop):
    return [k for k in load_known() if k["property"] == prop and k.get("status") == "known"]


# ---------------------------------------------------------------------------------------------
# evidence + verdict

class Result:
    def __init__(self, prop, tier, seed):
        self.prop, self.tier, self.seed = prop, tier, seed
        self.t0 = time.time()
        self.obligations = []       # proof/correspondence obligations
        self.violations = []        # dicts: {what, replay(dict), known(bool)}
        self.coverage = {}
        self.assumptions = []
        self.samples = []
        self.evaluations = 0
        self.distinct_nontrivial = 0
        self.rule = ""
        self.axioms = {}
        self.notes = []

    def add(self, o):
        self.obligations.append(o)
        log(("  ok   " if o["ok"] else "  FAIL ") + o["name"] + ("" if o["ok"] else "\n" + str(o["detail"])[:1500]))
        return o["ok"]

    def broken(self):
        return [o for o in self.obligations if not o["ok"]]

    def violation(self, what, replay, known_key=None):
        self.violations.append({"what": what, "replay": replay, "known": known_key})

    def finish(self, level="proof", checker_cmd="lake build (Lean 4 kernel) + #print axioms audit"):
        """Decide, print VIOLATION / KNOWN-FINDING lines, write evidence, return exit code."""
        os.makedirs(EVIDENCE, exist_ok=True)
        os.makedirs(REPLAYS, exist_ok=True)
        exit_code = 0
        new_violations = [v for v in self.violations if not v["known"]]
        known_hits = {}
        for v in self.violations:
            if v["known"]:
                known_hits.setdefault(v["known"], v)
        for k, v in known_hits.items():
            print(f"KNOWN-FINDING: property={self.prop} {k}: {v['what']}")
        broken = self.broken()
        if new_violations:
            v = new_violations[0]
            path = os.path.join(REPLAYS, f"{self.prop}_{self.tier}.json")
            json.dump({"property": self.prop, "kind": "failing-input", "what": v["what"], "replay": v["replay"],
                       "all": [{"what": x["what"], "replay": x["replay"]} for x in new_violations[:50]],
                       "broken_obligations": broken}, open(path, "w"), indent=1, ensure_ascii=False)
            print(f"VIOLATION property={self.prop} replay={path}")
            exit_code = 1
        elif broken:
            path = os.path.join(REPLAYS, f"{self.prop}_{self.tier}.json")
            json.dump({"property": self.prop, "kind": "no-failing-input-found",
                       "what": "a proof obligation or the model/implementation correspondence no longer checks, and the "
                               "search found no concrete input on which the property fails",
                       "broken_obligations": broken}, open(path, "w"), indent=1, ensure_ascii=False)
            print(f"VIOLATION property={self.prop} replay={path} no-failing-input-found")
            exit_code = 1
        bv = sorted({a for axs in self.axioms.values() for a in axs if BV_AXIOM.search(a)})
        trusted = ["Lean 4.33.0 kernel", "axioms: propext, Classical.choice, Quot.sound"]
        if bv:
            trusted.append(f"{len(bv)} bv_decide certificate axioms (SAT certificate checked by compiled code): " + ", ".join(bv[:6]) + (" …" if len(bv) > 6 else ""))
        trusted += ["translator /verif/translator/translate.py (tables regenerated from /repo on this run; cross-checked dynamically by the `tables` suite)",
                    "correspondence harness /verif/harness (calls the real crate in-process, feature `verif`)",
                    "hand-written Lean model /verif/lean/AscaVerif/Model (tied to the code by the correspondence suites listed under obligations)"]
        cov = dict(self.coverage)
        n_corr = int(cov.get("traces_validated_against_impl", 0) or 0)
        cov.update({
            "programs": max(1, n_corr + int(self.evaluations)),
            "disagreements_checked": len(self.violations) + len([o for o in self.obligations if o["kind"] == "correspondence" and not o["ok"]]),
            "obligations": len(self.obligations),
            "discharged": len([o for o in self.obligations if o["ok"]]),
            "checker_cmd": checker_cmd,
            "trusted_base": trusted,
            "evaluations": int(self.evaluations),
            "distinct_nontrivial": int(self.distinct_nontrivial),
            "rule": self.rule,
            "samples": self.samples[:12] if self.samples else ["(none)"],
            "obligation_list": [{"name": o["name"], "kind": o["kind"], "ok": o["ok"]} for o in self.obligations],
            "theorem_axioms": {k: v for k, v in list(self.axioms.items())[:200]},
            "known_findings_hit": sorted(known_hits),
            "notes": self.notes,
        })
        ev = {"property_id": self.prop, "tier": self.tier, "seed": int(self.seed), "level": level, "coverage": cov,
              "assumptions": self.assumptions, "wall_s": round(time.time() - self.t0, 2),
              "violations": len(new_violations) + (1 if (broken and not new_violations) else 0)}
        json.dump(ev, open(os.path.join(EVIDENCE, f"{self.prop}.json"), "w"), indent=1, ensure_ascii=False)
        log(f"{self.prop} {self.tier}: obligations {cov['discharged']}/{cov['obligations']}, violations {ev['violations']}, "
            f"known findings {len(known_hits)}, {ev['wall_s']}s")
        return exit_code


def prepare(res, props_module, extra_targets=(), thorough=False, need_harness=True, need_driver=True, extra_props=()):
    """Steps 1-4 of DESIGN §2.5: translator, lake build of the property's theorems (+driver), audit, harness build."""
    with BuildLock():
        ok_t = res.add(translator())
        targets = [props_module] + list(extra_props) + list(extra_targets) + (["driver"] if need_driver else [])
        ok_b = ok_t and res.add(lake_build(targets))
        if ok_b:
            res.add(forbidden_scan())
            rel = props_module.replace(".", "/") + ".lean"
            names = theorem_names(rel)
            o, by = audit_axioms(props_module, names)
            res.add(o)
            res.axioms = by
            res.coverage["theorems"] = names
            for extra in extra_props:   # further theorem files of the same property (audited the same way)
                en = theorem_names(extra.replace(".", "/") + ".lean")
                o2, by2 = audit_axioms(extra, en)
                res.add(o2)
                res.axioms.update(by2) if isinstance(res.axioms, dict) else None
                res.coverage["theorems"] = res.coverage["theorems"] + en
            if thorough:
                res.add(leanchecker([props_module]))
        elif ok_t:
            # the property file failed: still try to build the driver alone so correspondence/search can run
            if need_driver:
                lb = lake_build(["driver"])
                if not lb["ok"]:
                    res.add(lb)
        ok_h = True
        if need_harness:
            ok_h = res.add(cargo_build())
    return ok_t, ok_b, ok_h
