"""C01 — same input, same output (DESIGN §4 C01)."""
import hashlib, json, os, shutil, subprocess
from concurrent.futures import ThreadPoolExecutor
from . import core, suites
from .c04 import ops_correspondence

KEYS = os.path.join(core.LEAN, "AscaVerif", "Gen", "cardinal_keys.txt")


def multi_process(res, tier, nproc, seed):
    """fresh processes (each with its own RandomState) print the renderings of the whole segment space and of generated runs"""
    def one(_):
        return core.harness(["render-all", tier, str(seed)], timeout=3000)
    with ThreadPoolExecutor(max_workers=8) as ex:
        outs = list(ex.map(one, range(nproc)))
    ref = outs[0][1].splitlines()
    n_lines = len(ref)
    diffs = []
    second = [l for l in ref if l.endswith("SECOND-CALL-DIFFERS")]
    order = [l for l in ref if l.endswith("WORD-ORDER-DIFFERS")]
    for k, (rc, out, err, _) in enumerate(outs[1:], 1):
        lines = out.splitlines()
        if rc != 0 or len(lines) != n_lines:
            diffs.append({"process": k, "problem": f"exit {rc}, {len(lines)} lines vs {n_lines}", "err": err[-300:]})
            continue
        for a, b in zip(ref, lines):
            if a != b:
                diffs.append({"process_0": a[:300], f"process_{k}": b[:300]})
                break
    return n_lines, diffs, second, order


def check(res, thorough):
    ok_t, ok_b, ok_h = core.prepare(res, "AscaVerif.Props.C01", thorough=thorough)
    tier = "thorough" if thorough else "quick"
    scratch = core.scratch_dir("c01")
    try:
        if ok_h and os.path.exists(core.DRIVER_BIN) and os.path.exists(KEYS):
            stats, samples, diffs = ops_correspondence(res, scratch, "word-ops", tier, "word-ops", 30000,
                                                       extra_args=[str(res.seed), KEYS], header_lines=1)
            res.coverage["correspondence_stats"] = stats
            res.coverage["traces_validated_against_impl"] = stats.get("words.ops", 0)
        if ok_h:
            nproc = 24 if thorough else 8
            n_lines, diffs, second, order = multi_process(res, tier, nproc, res.seed)
            res.add(core.ob(f"multi-process: {nproc} fresh processes (own hash seeds) agree on {n_lines} renderings / runs; second call in-process agrees; the reversed word list gives the reversed results",
                            "impl-property", not diffs and not second and not order and n_lines > 10000, json.dumps((diffs + order)[:3], ensure_ascii=False)[:1500]))
            for d in diffs[:20]:
                res.violation("two processes give different output for the same input", {"kind": "c01-process-dependence", "case": d,
                              "how": f"asca-harness render-all {tier} {res.seed} in two fresh processes"})
            for l in second[:5]:
                res.violation("two successive calls in one process differ", {"kind": "c01-second-call", "case": l[:400], "how": "asca-harness render-all"})
            for l in order[:5]:
                res.violation("the order in which the words are supplied changes a word's result", {"kind": "c01-word-order", "case": l[:600], "how": "asca-harness render-all"})
            res.evaluations = n_lines * nproc
            res.distinct_nontrivial = n_lines
            res.samples = ["SEG 4 1 4 25408 (qǀ / ɢǀ share this bundle) rendered in every process", "RUN [] ᵐp̪a in every process"]
        res.rule = ("every segment of the quick/thorough segment space (bases, +1/+2 diacritics, one-feature changes) and generated rule/word runs, "
                    "rendered in N fresh processes whose HashMap seeds differ; all distinct by construction")
        res.assumptions = ["RandomState seeding is represented in the model by an arbitrary permutation of the grapheme table",
                           "no other hidden input: hash-iteration sites and statics are re-read from the source by the translator and pinned by theorems"]
    finally:
        shutil.rmtree(scratch, ignore_errors=True)
    return res.finish()


def replay(path):
    print(open(path).read())
    return 0
