from . import interpprops
def check(res, thorough):
    return interpprops.check(res, thorough, "C08", "AscaVerif.Props.C08", "c08-spec", "c08.cases", "c08.nontrivial",
        """random rule sequences of 1-6 rules, half from a catalogue weighted towards deletion, boundary insertion/deletion/metathesis, syllable substitution and tone/length changes, half from the full grammar, one rule per group so that the hook returns every intermediate word; Word.WF (>=1 syllable, no empty syllable, tone <= 4 non-zero digits, bundle bits) evaluated after every group; non-trivial = the sequence changes the word""",
        ["input words are well formed (checked)", "cases that panic or hang are skipped (C02)"], extra_props=["AscaVerif.Props.C08Scan", "AscaVerif.Props.C08Delete", "AscaVerif.Props.C08Matrix"])
replay = interpprops.replay
