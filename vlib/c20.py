"""C20 — a `seq` project is the composition of its stages, as configured."""
import json, os, shutil, glob
from concurrent.futures import ThreadPoolExecutor
from . import core, suites, cli
from .c04 import run_driver_parallel


def nonempty(ws):
    return [w for w in ws if w != ""]


def out_words(d, tag):
    """(file stem, words) of the single .wsca under out/<tag>/, or None"""
    fs = sorted(glob.glob(os.path.join(glob.escape(d), "out", glob.escape(tag), "*.wsca")))
    if len(fs) != 1:
        return None, [os.path.basename(f) for f in fs]
    return os.path.splitext(os.path.basename(fs[0]))[0], cli.read(fs[0]).split("\n")


def one_case(d):
    F, st = [], {"cases": 1}
    name = os.path.basename(d)
    exp = json.load(open(os.path.join(d, "expected.json"), encoding="utf-8"))
    tags = exp["tags"]
    lib_fails = [t for t, v in tags.items() if v["final"] is None]
    # 1. all tags, in the listed order
    rc, out, err = cli.run_bin(["seq", ".", "-o", "-y"], d, timeout=60)
    if lib_fails:
        st["cases_with_library_error"] = 1
    else:
        if rc != 0:
            F.append(("c20-seq-failed", f"case={name} rc={rc} stderr={err[-300:]}"))
        for t, v in tags.items():
            st["tags"] = st.get("tags", 0) + 1
            stem, got = out_words(d, t)
            if stem is None:
                F.append(("c20-out-missing", f"case={name} tag={t} files={got}"))
                continue
            if nonempty(got) != nonempty(v["final"]):
                F.append(("c20-words-differ:all-tags", f"case={name} tag={t} order={exp['order']} written={got} composed_per_config={v['final']}"))
            else:
                if v["final"] != v["orig_words"]:
                    st["nontrivial"] = st.get("nontrivial", 0) + 1
                if stem != v["out_file"]:
                    st["out_file_named_differently"] = st.get("out_file_named_differently", 0) + 1
            if v["whole_history_run"] is not None and v["has_from"]:
                st["chains_compared_with_whole_history"] = st.get("chains_compared_with_whole_history", 0) + 1
                if nonempty(v["whole_history_run"]) != nonempty(v["final"]):
                    F.append(("c20-staged-differs-from-history", f"case={name} tag={t} staged={v['final']} whole={v['whole_history_run']}"))
        # 2. one tag alone (nothing cached): the deepest one
        shutil.rmtree(os.path.join(d, "out"), ignore_errors=True)
        deep = list(tags)[-1]
        rc, out, err = cli.run_bin(["seq", ".", "-t", deep, "-o", "-y"], d, timeout=60)
        stem, got = out_words(d, deep)
        if rc != 0 or stem is None or nonempty(got) != nonempty(tags[deep]["final"]):
            F.append(("c20-words-differ:single-tag", f"case={name} tag={deep} rc={rc} written={got} composed_per_config={tags[deep]['final']}"))
        # 3. the exported rule history
        for t, v in tags.items():
            if not v["has_from"]:
                continue
            rc, out, err = cli.run_bin(["conv", "tag", t, "-r", "-o", f"hist_{t}.json"], d, timeout=60)
            p = os.path.join(d, f"hist_{t}.json")
            if rc != 0 or not os.path.exists(p):
                F.append(("c20-conv-tag-failed", f"case={name} tag={t} rc={rc} stderr={err[-300:]}"))
                continue
            h = json.load(open(p, encoding="utf-8"))
            st["histories"] = st.get("histories", 0) + 1
            if [(g["name"], g["rule"]) for g in h["rules"]] != [(g["name"], g["rule"]) for g in v["history"]]:
                F.append(("c20-history-differs", f"case={name} tag={t} exported={[g['name'] for g in h['rules']]} per_config={[g['name'] for g in v['history']]}"))
            if nonempty(h["words"]) != nonempty(v["orig_words"]):
                F.append(("c20-history-words-differ", f"case={name} tag={t} exported={h['words']} root_words={v['orig_words']}"))
    # 4. the cyclic variant is rejected, in bounded time
    if exp["cyclic_variant"]:
        st["cyclic"] = 1
        dc = os.path.join(d, "cyclic")
        rc, out, err = cli.run_bin(["seq", ".", "-o", "-y"], dc, timeout=20)
        if rc == 124:
            F.append(("c20-cycle-not-rejected:hang", f"case={name}"))
        elif rc == 0 or "loop" not in (err + out).lower():
            F.append(("c20-cycle-not-rejected", f"case={name} rc={rc} stderr={err[-300:]}"))
        elif os.path.exists(os.path.join(dc, "out")):
            F.append(("c20-cycle-wrote-output", f"case={name}"))
    return F, st


def check(res, thorough):
    ok_t, ok_b, ok_h = core.prepare(res, "AscaVerif.Props.C20", thorough=thorough)
    tier = "thorough" if thorough else "quick"
    scratch = core.scratch_dir("c20")
    try:
        b = cli.build_cli()
        res.add(b)
        if ok_h and b["ok"]:
            rc, out, err, _ = core.run([core.HARNESS_BIN, "c20-gen", scratch, tier, str(res.seed)], timeout=3000, env=cli.ENV)
            gen_stats = {l[5:].rpartition(" ")[0]: int(l.rpartition(" ")[2]) for l in out.splitlines() if l.startswith("STAT ")}
            cases = sorted(os.path.join(scratch, d) for d in os.listdir(scratch) if d.startswith("case"))
            # the model's plan against the reference plan
            if os.path.exists(core.DRIVER_BIN):
                fo, fm = os.path.join(scratch, "plan.ops"), os.path.join(scratch, "plan.model")
                with open(fo, "w", encoding="utf-8") as f:
                    for c in cases:
                        f.write(cli.read(os.path.join(c, "structure.txt")))
                drc, derr = run_driver_parallel(fo, fm)
                answers = open(fm, encoding="utf-8").read().split("\n")
                diffs = []
                for c, ans in zip(cases, answers):
                    want = cli.read(os.path.join(c, "plan.txt")).strip()
                    if ans.strip() != want and len(diffs) < 20:
                        diffs.append({"case": os.path.basename(c), "model": ans[:400], "reference": want[:400]})
                res.add(core.ob(f"seq-plan: model (validation, filters, stage order) ≙ the reference reading of the config on {len(cases)} projects; the reference is compared with the asca binary below",
                                "correspondence", drc == 0 and not diffs and len(answers) >= len(cases) and len(cases) >= 100, json.dumps(diffs[:3], ensure_ascii=False) + derr[-300:]))
                res.coverage["traces_validated_against_impl"] = len(cases)
            with ThreadPoolExecutor(max_workers=16) as ex:
                results = list(ex.map(one_case, cases))
            findings, stats = [], {}
            for F, st in results:
                findings += F
                for k, v in st.items():
                    stats[k] = stats.get(k, 0) + v
            new = suites.classify(res, "C20", findings, f"asca-harness c20-gen <dir> {tier} {res.seed}; then the asca binary per project (vlib/c20.py)")
            known_kinds = {k["kind"] for k in core.known_for("C20")}
            n = stats.get("cases", 0)
            res.add(core.ob(f"c20-spec: on {n} generated project trees ({stats.get('tags', 0)} tags, {stats.get('cyclic', 0)} cyclic variants) the files written by `asca seq -o -y` (all tags in the "
                            f"listed order, and one tag alone) hold the words asca::run gives when composed per the config, `conv tag -r` exports the concatenated history, "
                            f"and cyclic configs are rejected in bounded time ({len(findings)} findings, {new} not in known_findings.json)",
                            "impl-property", rc == 0 and new == 0 and n >= 100, json.dumps([f for f in findings if f[0] not in known_kinds][:3], ensure_ascii=False) + err[-300:]))
            res.evaluations = n
            res.distinct_nontrivial = stats.get("nontrivial", 0)
            stats.update(gen_stats)
            res.coverage["input_distribution"] = stats
            res.coverage["findings_by_kind"] = {k: sum(1 for f in findings if f[0] == k) for k in {f[0] for f in findings}}
        res.rule = ("project trees: 2-4 rule files of 2-4 named groups, 1-3 word files, 1-4 tags forming chains and forks of % references (a tag refers to any earlier tag, "
                    "5 in 6), listed in generation order, reversed or shuffled (children before parents), 1-3 entries per tag each with no filter, `!` or `~` over 1-3 names in "
                    "random case, extra word files on some child tags, a deromaniser-only alias on the root of a quarter of the projects, a cyclic variant of a third of the "
                    "projects with a chain; words compared modulo empty lines; non-trivial = the tag's rules change its input")
        res.assumptions = ["the binary is built from /repo's working tree with the release profile", "-w, -i (all steps) and the overwrite prompts are not exercised",
                           "projects in which the library returns an error for some tag are only counted"]
    finally:
        shutil.rmtree(scratch, ignore_errors=True)
    return res.finish()


def replay(path):
    print(open(path).read())
    return 0
