from . import runnerprops
def check(res, thorough): return runnerprops.check(res, thorough, "C10")
replay = runnerprops.replay
