from . import runnerprops
def check(res, thorough): return runnerprops.check(res, thorough, "C16")
replay = runnerprops.replay
