"""C13 — alternative spellings of the same rule or word behave identically."""
import json, os, shutil
from . import core, suites
from .c04 import ops_correspondence

NAMES = os.path.join(core.LEAN, "AscaVerif", "Gen", "feat_names.txt")


def check(res, thorough):
    ok_t, ok_b, ok_h = core.prepare(res, "AscaVerif.Props.C13", thorough=thorough, extra_props=["AscaVerif.Props.C13Lex", "AscaVerif.Props.C13Parse"])
    tier = "thorough" if thorough else "quick"
    if ok_h and os.path.exists(core.DRIVER_BIN):
        scratch = core.scratch_dir("c13")
        try:
            tv = 0
            for cmd, minops in (("lex-ops", 30000), ("parse-ops", 30000), ("aliasp-ops", 30000)):
                st2, _, _ = ops_correspondence(res, scratch, cmd, tier, cmd, minops, extra_args=[str(res.seed)])
                res.coverage[cmd] = st2
                tv += st2.get(cmd.split("-")[0] + ".ops", 0)
            res.coverage["traces_validated_against_impl"] = tv
        finally:
            shutil.rmtree(scratch, ignore_errors=True)
    if ok_h and os.path.exists(NAMES):
        s = suites.run_suite(["c13-spec", tier, str(res.seed), NAMES])
        new = suites.classify(res, "C13", s["findings"], f"asca-harness c13-spec {tier} {res.seed} {NAMES}")
        n = s["stats"].get("c13.rule_respellings", 0) + s["stats"].get("c13.word_respellings", 0)
        known_kinds = {k["kind"] for k in core.known_for("C13")}
        res.add(core.ob(f"c13-spec: {s['stats'].get('c13.rule_respellings', 0)} rule respellings and {s['stats'].get('c13.word_respellings', 0)} word respellings give the same "
                        f"result (or the same error kind) as the original ({len(s['findings'])} findings, {new} not in known_findings.json)", "impl-property",
                        s["rc"] == 0 and new == 0 and n > 50000, json.dumps([f for f in s["findings"] if f[0] not in known_kinds][:3], ensure_ascii=False) + s["err"]))
        res.evaluations = n
        res.distinct_nontrivial = s["stats"].get("c13.nontrivial", 0)
        res.coverage["input_distribution"] = s["stats"]
        res.coverage["findings_by_kind"] = {k: sum(1 for f in s["findings"] if f[0] == k) for k in {f[0] for f in s["findings"]}}
        res.samples = s["samples"]
    res.rule = ("generated rules (Basic 1/3, Tame 2/3) x generated words; for every construct occurring in the rule: the other arrow, | vs //, * vs ∅, the ellipsis "
                "spellings, ⟨⟩ vs <>, a random synonym for every feature name (table read from lexer.rs), the same with random spaces inside matrices, two trailing "
                "comments, injective alpha renaming, variable renumbering; for the word: ' , : ; respellings, ^ for the tie bar, the 20 input aliases, doubled segment "
                "vs length mark; non-trivial = the rule changes the word")
    res.assumptions = ["the rule lexer and parser are ported and tied to the code by lex-ops / parse-ops (respelled lines are one of the streams); the token-level "
                       "equivalences are theorems (Props/C13Lex, C13Parse), that the rest of the parse is then the same is decided by c13-spec on the implementation"]
    return res.finish()


def replay(path):
    print(open(path).read())
    return 0
