#!/bin/sh
# Build the framework from files on disk only (offline): generated tables, Lean model + theorems + driver, harness.
set -e
cd "$(dirname "$0")"
export CARGO_NET_OFFLINE=true
python3 translator/translate.py
(cd lean && lake build AscaVerif driver)
cp /repo/Cargo.lock harness/Cargo.lock
(cd harness && cargo build --release --offline)
