//! C09 / C01: rendering and parsing of segments and words — ops for the Lean driver, and the round-trip
//! property evaluated on the implementation.
use std::collections::HashSet;
use std::io::Write;
use asca::verif::{self, SegS, SyllS, WordS};
use crate::c04::seg_toks;
use crate::gen::Gen;
use crate::util::*;

fn one(s: SegS) -> WordS { WordS { sylls: vec![SyllS { stress: 0, tone: 0, segs: vec![s] }] } }

pub fn word_flat(w: &WordS, amer: bool) -> String {
    let mut s = format!("{} {}", amer as u8, w.sylls.len());
    for sy in &w.sylls {
        s.push_str(&format!(" {} {} {}", sy.stress, sy.tone, sy.segs.len()));
        for g in &sy.segs { s.push(' '); s.push_str(&seg_toks(g)); }
    }
    s
}

pub fn cps(t: &str) -> String { t.chars().map(|c| (c as u32).to_string()).collect::<Vec<_>>().join(" ") }

/// bases, base+1 diacritic, (thorough) base+2 diacritics, and one-feature changes of those: distinct bundles with a text that produced them
pub fn segment_space(thorough: bool) -> Vec<SegS> {
    let mut cards = verif::cardinals(); cards.sort();
    let dias: Vec<char> = verif::diacritics().iter().map(|d| d.0).collect();
    let mut seen: HashSet<SegS> = HashSet::new();
    let mut out: Vec<SegS> = Vec::new();
    let mut push = |s: SegS, out: &mut Vec<SegS>| { if seen.insert(s) { out.push(s); } };
    let parse1 = |t: &str| -> Option<SegS> { match guarded(|| verif::parse_word(t, &[])) { Out::Ok(w) if w.sylls.len() == 1 && w.sylls[0].segs.len() == 1 => Some(w.sylls[0].segs[0]), _ => None } };
    let mut lvl1: Vec<(String, SegS)> = Vec::new();
    for (k, s) in &cards { push(*s, &mut out); }
    for (k, _) in &cards { for d in &dias { let t = format!("{k}{d}"); if let Some(s) = parse1(&t) { push(s, &mut out); lvl1.push((t, s)); } } }
    if thorough {
        for (t1, _) in &lvl1 { for d in &dias { let t = format!("{t1}{d}"); if let Some(s) = parse1(&t) { push(s, &mut out); } } }
    }
    // one-feature changes (through the public accessors)
    let base_n = if thorough { out.len().min(40000) } else { cards.len() + lvl1.len().min(3000) };
    let snapshot: Vec<SegS> = out.iter().take(base_n).cloned().collect();
    for s in snapshot.iter().step_by(if thorough { 1 } else { 2 }) {
        for i in 0..26 { for pos in [true, false] {
            let (nidx, mask) = verif::feat_node_mask(i);
            let mut seg = verif::seg_from_s(s);
            let node = [asca::NodeKind::Root, asca::NodeKind::Manner, asca::NodeKind::Laryngeal, asca::NodeKind::Place, asca::NodeKind::Labial, asca::NodeKind::Coronal, asca::NodeKind::Dorsal, asca::NodeKind::Pharyngeal][nidx];
            seg.set_feat(node, mask, pos);
            push(verif::seg_to_s(&seg), &mut out);
        } }
    }
    out
}

fn render_seg(s: SegS) -> Out<String> { guarded(|| verif::render_word(&one(s), &[])) }

/// random word assembled from the segment space
pub fn assemble(g: &mut Gen, space: &[SegS]) -> WordS {
    let nsyll = 1 + g.rng.below(3);
    let mut sylls = Vec::new();
    for _ in 0..nsyll {
        let mut segs = Vec::new();
        for _ in 0..1 + g.rng.below(3) {
            let s = space[g.rng.below(space.len())];
            for _ in 0..(if g.rng.chance(1, 5) { 2 + g.rng.below(2) } else { 1 }) { segs.push(s); }
        }
        let tone = if g.rng.chance(1, 4) { [5u16, 51, 214, 1234, 35][g.rng.below(5)] } else { 0 };
        sylls.push(SyllS { stress: [0, 0, 0, 1, 2][g.rng.below(5)], tone, segs });
    }
    WordS { sylls }
}

pub fn order_line(keys_file: &str) -> String {
    let txt = std::fs::read_to_string(keys_file).expect("cardinal_keys.txt from the translator");
    let file_keys: Vec<String> = txt.lines().map(|l| l.split(',').filter(|x| !x.is_empty()).map(|x| char::from_u32(x.parse().unwrap()).unwrap()).collect::<String>()).collect();
    let idx: std::collections::HashMap<&str, usize> = file_keys.iter().enumerate().map(|(i, k)| (k.as_str(), i)).collect();
    let order: Vec<String> = verif::cardinals().iter().map(|(k, _)| idx.get(k.as_str()).map(|i| i.to_string()).unwrap_or("99999".into())).collect();
    format!("setorder {}", order.join(" "))
}

/// `word-ops <ops> <impl> <tier> <seed> <cardinal_keys.txt>`: model ≙ impl for renderseg / render / parsew
pub fn ops(args: &[String]) -> i32 {
    quiet_panics();
    let mut ops = std::io::BufWriter::new(std::fs::File::create(&args[0]).unwrap());
    let mut imp = std::io::BufWriter::new(std::fs::File::create(&args[1]).unwrap());
    let thorough = args.get(2).map(|s| s == "thorough").unwrap_or(false);
    let seed: u64 = args.get(3).and_then(|s| s.parse().ok()).unwrap_or(1);
    writeln!(ops, "{}", order_line(&args[4])).unwrap(); writeln!(imp, "ok").unwrap();
    let space = segment_space(thorough);
    let mut n = 0u64; let mut unrenderable = 0u64; let mut rendered_with_dia = 0u64;
    let mut renderings: Vec<String> = Vec::new();
    for s in &space {
        let r = render_seg(*s);
        writeln!(ops, "renderseg {}", seg_toks(s)).unwrap();
        match &r {
            Out::Ok(t) if t == "\u{FFFD}" => { unrenderable += 1; writeln!(imp, "none").unwrap(); }
            Out::Ok(t) => { if t.chars().count() > 1 { rendered_with_dia += 1; } renderings.push(t.clone()); writeln!(imp, "{}", cps(t)).unwrap(); }
            o => writeln!(imp, "{}", o.class()).unwrap(),
        }
        n += 1;
    }
    // parse what was rendered, and generated text
    let mut g = Gen::new(seed ^ 0x9090);
    let nwords = if thorough { 200000 } else { 12000 };
    let mut texts: Vec<String> = renderings.iter().step_by(if thorough { 1 } else { 3 }).cloned().collect();
    for _ in 0..nwords / 2 { texts.push(g.word()); }
    for _ in 0..nwords / 8 { let w = g.word(); texts.push(w.replace('ˈ', "'").replace('ː', ":").replace('.', ";")); }   // documented respellings
    for _ in 0..nwords / 8 { let mut w = g.word(); let at = g.rng.below(w.chars().count() + 1); let junk = ["̥", "ʰ", "q͡", "5", "ː", "^", "ʼ", "ñ", "¢", "G", "?"][g.rng.below(11)]; let b: usize = w.char_indices().nth(at).map(|x| x.0).unwrap_or(w.len()); w.insert_str(b, junk); texts.push(w); }
    for _ in 0..nwords / 16 {
        let fronts = ["ŋ^ǃ", "ŋ^!", "ɴ^ǁ", "N^!", "ŋ^ǂ", "ǃ^ɢ", "!^G", "ǂ^N", "ǁ^X", "ǃ^q", "ǀ^ɢ", "ŋǃ", "!G", "ɴ^ʘ", "ǃ^x", "k^ǃ", "ŋ^", "^ǃ"];
        texts.push(format!("{}{}{}", g.word(), fronts[g.rng.below(fronts.len())], ["a", "i", "", "u.ta"][g.rng.below(4)]));
    }
    for t in &texts {
        writeln!(ops, "parsew {}", cps(t)).unwrap();
        match guarded(|| asca::verif::WordH::parse(t, &[])) {
            Out::Ok(w) => { let amer = t.contains(['¢', 'ƛ', 'λ', 'ł', 'ñ']); writeln!(imp, "{}", word_flat(&w.structure(), amer)).unwrap(); }
            Out::Err(e) => writeln!(imp, "err {}", err_kind(&e).split('.').nth(1).unwrap_or("?")).unwrap(),
            o => writeln!(imp, "{}", o.class()).unwrap(),
        }
        n += 1;
    }
    // render assembled words
    for _ in 0..nwords / 2 {
        let w = assemble(&mut g, &space);
        writeln!(ops, "render {}", word_flat(&w, false)).unwrap();
        match guarded(|| verif::render_word(&w, &[])) { Out::Ok(t) => writeln!(imp, "{}", cps(&t)).unwrap(), o => writeln!(imp, "{}", o.class()).unwrap() }
        n += 1;
    }
    println!("STAT words.ops {n}");
    println!("STAT words.segment_space {}", space.len());
    println!("STAT words.unrenderable_segments {unrenderable}");
    println!("STAT words.rendered_with_diacritics {rendered_with_dia}");
    0
}

/// does `t` start with two different graphemes of the table (so that the longest-match parser may read a longer
/// base than the renderer meant)?
fn key_collision(keys: &[String], t: &str) -> bool { keys.iter().filter(|k| t.starts_with(k.as_str())).count() >= 2 }

/// does some grapheme of the table continue across the boundary between two rendered segments?
fn concat_collision(keys: &[String], parts: &[String]) -> bool {
    for w in parts.windows(2) {
        if w[1] == "ː" || w[0] == "ː" { continue }
        if let Some(c) = w[1].chars().next() {
            let joined = format!("{}{}", w[0], c);
            // the tail of the first rendering followed by the first character of the next is the start of a grapheme
            for start in w[0].char_indices().map(|x| x.0) {
                let cand = &joined[start..];
                if keys.iter().any(|k| k.starts_with(cand)) && (start == 0 || keys.iter().any(|k| w[0][start..].starts_with(k.as_str()) || k.starts_with(&w[0][start..]))) { return true }
            }
        }
    }
    false
}

/// `c09-spec <tier> <seed>`: parse(render(w)) == w on the implementation
pub fn c09(args: &[String]) -> i32 {
    quiet_panics();
    let keys: Vec<String> = verif::cardinals().into_iter().map(|x| x.0).collect();
    let thorough = args.get(0).map(|s| s == "thorough").unwrap_or(false);
    let seed: u64 = args.get(1).and_then(|s| s.parse().ok()).unwrap_or(1);
    let space = segment_space(thorough);
    let mut n = 0u64; let mut skipped = 0u64; let mut nontrivial = 0u64;
    let mut ok_space: Vec<SegS> = Vec::new();
    for s in &space {
        n += 1;
        let Out::Ok(t) = render_seg(*s) else { println!("FINDING c09-render-outcome bundle=({})", seg_toks(s)); continue };
        if t.contains('\u{FFFD}') { skipped += 1; continue }
        if t.chars().count() > 1 { nontrivial += 1; }
        match guarded(|| verif::parse_word(&t, &[])) {
            Out::Ok(w) => if w != one(*s) {
                let kind = if w.sylls.iter().map(|x| x.segs.len()).sum::<usize>() != 1 { "c09-seg-resegmented" } else { "c09-seg-different" };
                let kind = format!("{kind}{}", if key_collision(&keys, &t) { ":key-collision" } else { "" });
                println!("FINDING {kind} bundle=({}) rendered={t:?} parsed={:?}", seg_toks(s), w.sylls.iter().flat_map(|x| x.segs.iter().map(seg_toks)).collect::<Vec<_>>());
            } else { ok_space.push(*s); },
            Out::Err(e) => println!("FINDING c09-seg-rejected:{}{} bundle=({}) rendered={t:?}", err_kind(&e).split('.').nth(1).unwrap_or("?"), if key_collision(&keys, &t) { ":key-collision" } else { "" }, seg_toks(s)),
            o => println!("FINDING c09-seg-parse-outcome bundle=({}) rendered={t:?} outcome={}", seg_toks(s), o.class()),
        }
    }
    // words assembled from segments that individually round-trip
    let mut g = Gen::new(seed ^ 0xC09);
    let nwords = if thorough { 1_000_000 } else { 30000 };
    let mut wn = 0u64;
    for _ in 0..nwords {
        let w = assemble(&mut g, &ok_space);
        let Out::Ok(t) = guarded(|| verif::render_word(&w, &[])) else { println!("FINDING c09-render-outcome word={}", word_flat(&w, false)); continue };
        if t.contains('\u{FFFD}') { skipped += 1; continue }
        wn += 1;
        let parts_of = |w: &WordS| -> Vec<String> { w.sylls.iter().flat_map(|sy| { let mut v: Vec<String> = Vec::new(); let mut prev: Option<SegS> = None;
                    for g in &sy.segs { if prev == Some(*g) { v.push("ː".into()) } else { v.push(render_seg(*g).ok().unwrap_or_default()) } prev = Some(*g); } v.push("|".into()); v }).collect() };
        match guarded(|| verif::parse_word(&t, &[])) {
            Out::Ok(p) => if p != w {
                let segs = |x: &WordS| x.sylls.iter().flat_map(|s| s.segs.clone()).collect::<Vec<_>>();
                let kind = if segs(&p) != segs(&w) { "c09-word-resegmented" } else { "c09-word-prosody" };
                let parts = parts_of(&w);
                let kind = format!("{kind}{}", if concat_collision(&keys, &parts) { ":concat-collision" } else { "" });
                println!("FINDING {kind} rendered={t:?} word={}", word_flat(&w, false));
            },
            Out::Err(e) => println!("FINDING c09-word-rejected:{}{} rendered={t:?}", err_kind(&e).split('.').nth(1).unwrap_or("?"), if concat_collision(&keys, &parts_of(&w)) { ":concat-collision" } else { "" }),
            o => println!("FINDING c09-word-parse-outcome rendered={t:?} outcome={}", o.class()),
        }
    }
    println!("STAT c09.segments {n}");
    println!("STAT c09.words {wn}");
    println!("STAT c09.skipped_replacement_char {skipped}");
    println!("STAT c09.nontrivial {nontrivial}");
    0
}

/// `render-all <tier> <seed>`: one line per segment of the space (`<bundle> => <rendering>`), then the outputs of
/// generated runs; printed by several fresh processes and compared by the C01 check.
pub fn render_all(args: &[String]) -> i32 {
    quiet_panics();
    let thorough = args.get(0).map(|s| s == "thorough").unwrap_or(false);
    let seed: u64 = args.get(1).and_then(|s| s.parse().ok()).unwrap_or(1);
    let out = std::io::stdout();
    let mut out = std::io::BufWriter::new(out.lock());
    for s in segment_space(thorough) {
        let r = render_seg(s);
        writeln!(out, "SEG {} => {}", seg_toks(&s), match r { Out::Ok(t) => t, o => o.class() }).unwrap();
    }
    // the romaniser path: a `+` alias prints every segment through get_nearest_grapheme, a plain alias through get_as_grapheme
    let plus = vec!["[+cons] > +N".to_string(), "[-cons] > +M".to_string()];
    let plain = vec!["a > A".to_string()];
    for s in segment_space(thorough) {
        let w = WordS { sylls: vec![verif::SyllS { stress: 0, tone: 0, segs: vec![s] }] };
        let a = guarded(|| verif::render_word(&w, &plus)); let b = guarded(|| verif::render_word(&w, &plain));
        writeln!(out, "ALIAS {} => {} | {}", seg_toks(&s), match a { Out::Ok(t) => t, o => o.class() }, match b { Out::Ok(t) => t, o => o.class() }).unwrap();
    }
    // the graphemes that share a bundle, as words through `run`
    let mut cards = verif::cardinals(); cards.sort();
    let words: Vec<String> = cards.iter().map(|(k, _)| format!("{k}a")).collect();
    match crate::runner::run_impl(&[], &words, &[], &[]) { Out::Ok(v) => for (w, o) in words.iter().zip(v) { writeln!(out, "RUN [] {w} => {o}").unwrap(); }, o => writeln!(out, "RUN [] all => {}", o.class()).unwrap() }
    let mut g = Gen::new(seed ^ 0xC01);
    for _ in 0..(if thorough { 20000 } else { 2000 }) {
        let nr = 1 + g.rng.below(3); let rules = g.rules(crate::gen::Profile::Tame, nr);
        let nw = 1 + g.rng.below(3); let words = g.words(nw);
        let o = crate::runner::run_impl(&[rules.clone()], &words, &[], &[]);
        let twice = crate::runner::run_impl(&[rules.clone()], &words, &[], &[]);
        writeln!(out, "RUN {:?} {:?} => {:?}{}", rules, words, o, if o == twice { "" } else { " SECOND-CALL-DIFFERS" }).unwrap();
    }
    // "in which order the words are supplied": the same rules over the word list and over the reversed word list (own stream, so
    // that the draws above stay what they were)
    let mut g = Gen::new(seed ^ 0xC01_0D);
    for _ in 0..(if thorough { 20000 } else { 2500 }) {
        let nr = 1 + g.rng.below(3); let rules = g.rules(crate::gen::Profile::Tame, nr);
        let nw = 2 + g.rng.below(4); let words = g.words(nw);
        let rev: Vec<String> = words.iter().rev().cloned().collect();
        let o = crate::runner::run_impl(&[rules.clone()], &words, &[], &[]);
        let r = crate::runner::run_impl(&[rules.clone()], &rev, &[], &[]);
        let differs = match (&o, &r) {
            (Out::Ok(a), Out::Ok(b)) => !a.iter().eq(b.iter().rev()),
            (Out::Ok(_), Out::Err(_)) | (Out::Err(_), Out::Ok(_)) => true,
            _ => false,
        };
        writeln!(out, "ORDER {:?} {:?} => {:?}{}", rules, words, o, if differs { format!(" reversed => {:?} WORD-ORDER-DIFFERS", r) } else { String::new() }).unwrap();
    }
    0
}
