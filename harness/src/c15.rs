//! C15: aliases change notation only.
use asca::verif::{self, SegS, WordS};
use asca::RuleGroup;
use crate::gen::{Gen, Profile};
use crate::runner::Stats;
use crate::util::*;

#[derive(Clone, Debug)]
enum RIn { Ipa(String, SegS), Mat(Vec<(usize, bool)>), Bound }
#[derive(Clone, Debug)]
enum ROut { Repl(String), Plus(String), Remove }
#[derive(Clone, Debug)]
struct Rom { input: RIn, output: ROut, /// `:[±long, ±overlong]` on the input (then a whole run is matched and replaced)
    len: (Option<bool>, Option<bool>), /// the input is spelled with this class letter (it denotes the same features as the matrix)
    class: Option<&'static str> }

/// the class letters of alias files and the matrices they stand for (alias/parser.rs group_to_matrix)
const CLASSES: &[(&str, &[(usize, bool)])] = &[("C", &[(2, false)]), ("O", &[(0, true), (1, false), (2, false)]), ("S", &[(0, true), (1, true), (2, false)]),
    ("L", &[(0, true), (1, true), (2, false), (4, true)]), ("N", &[(0, true), (1, true), (2, false), (4, false), (6, true)]), ("G", &[(0, false), (1, true), (2, false)]), ("V", &[(0, false), (1, true), (2, true)])];

fn seg_of(t: &str) -> Option<SegS> { match guarded(|| verif::parse_word(t, &[])) { Out::Ok(w) if w.sylls.len() == 1 && w.sylls[0].segs.len() == 1 => Some(w.sylls[0].segs[0]), _ => None } }

impl Rom {
    fn text(&self) -> String {
        let i = match &self.input { RIn::Ipa(t, _) => t.clone(), RIn::Mat(_) if self.class.is_some() => self.class.unwrap().to_string(), RIn::Mat(f) => format!("[{}]", f.iter().map(|(i, p)| format!("{}{}", if *p { "+" } else { "-" }, crate::gen::FEATS[*i])).collect::<Vec<_>>().join(", ")), RIn::Bound => "$".into() };
        let o = match &self.output { ROut::Repl(s) => s.clone(), ROut::Plus(s) => format!("+{s}"), ROut::Remove => "*".into() };
        let l: Vec<String> = [(self.len.0, "long"), (self.len.1, "overlong")].iter().filter_map(|(v, n)| v.map(|b| format!("{}{n}", if b { "+" } else { "-" }))).collect();
        if l.is_empty() { format!("{i} > {o}") } else { format!("{i}:[{}] > {o}", l.join(", ")) }
    }
    fn len_ok(&self, run: usize) -> bool {
        (match self.len.0 { Some(true) => run >= 2, Some(false) => run <= 1, None => true }) && (match self.len.1 { Some(true) => run >= 3, Some(false) => run <= 2, None => true })
    }
    fn has_len(&self) -> bool { self.len.0.is_some() || self.len.1.is_some() }
    fn matches(&self, s: &SegS) -> bool {
        match &self.input { RIn::Ipa(_, x) => x == s, RIn::Mat(f) => f.iter().all(|(i, p)| crate::c04::spec_match(*s, *i, *p)), RIn::Bound => false }
    }
}

fn render_seg(s: SegS) -> String { guarded(|| verif::render_word(&WordS { sylls: vec![verif::SyllS { stress: 0, tone: 0, segs: vec![s] }] }, &[])).ok().unwrap_or_default() }

/// the manual's description of romanisation: default rendering with the matched segments replaced (or suffixed)
fn reference_romanise(w: &WordS, roms: &[Rom]) -> String {
    let mut buf = String::new();
    for (i, sy) in w.sylls.iter().enumerate() {
        match sy.stress { 1 => buf.push('ˈ'), 2 => buf.push('ˌ'), _ => if i > 0 { buf.push('.') } }
        let mut skip = 0;
        for (j, s) in sy.segs.iter().enumerate() {
            if j < skip { continue }
            if j > 0 && sy.segs[j - 1] == *s { buf.push('ː'); continue }
            let run = sy.segs[j..].iter().take_while(|x| *x == s).count();
            match roms.iter().find(|r| r.matches(s) && r.len_ok(run)) {
                // a romaniser that names a length stands for the whole run
                Some(r) if r.has_len() => { skip = j + run; match &r.output { ROut::Repl(t) => buf.push_str(t), ROut::Plus(t) => { buf.push_str(&render_seg(*s)); buf.push_str(t) }, ROut::Remove => {} } }
                Some(r) => match &r.output { ROut::Repl(t) => buf.push_str(t), ROut::Plus(t) => { buf.push_str(&render_seg(*s)); buf.push_str(t) }, ROut::Remove => {} },
                None => buf.push_str(&render_seg(*s)),
            }
        }
        if sy.tone != 0 { buf.push_str(&sy.tone.to_string()); }
    }
    if let Some(b) = roms.iter().rev().find(|r| matches!(r.input, RIn::Bound)) {
        let repl = match &b.output { ROut::Repl(t) | ROut::Plus(t) => t.clone(), ROut::Remove => String::new() };
        if !repl.is_empty() && (buf.starts_with('ˈ') || buf.starts_with('ˌ')) { buf = buf.chars().skip(1).collect(); }
        buf = buf.replace(['.', 'ˈ', 'ˌ'], &repl);
    }
    buf
}

/// is some occurrence of `typed` directly preceded by its own base segment (possibly lengthened)?  Then `base + key` would add the
/// payload to that whole run, which is not what the typed text says.
fn preceded_by_same(w: &str, typed: &str, base: &str) -> bool {
    let cs: Vec<char> = w.chars().collect();
    let t: Vec<char> = typed.chars().collect();
    let b = base.chars().next().unwrap_or(' ');
    for i in 0..cs.len() {
        if cs[i..].starts_with(&t) {
            let mut j = i;
            while j > 0 && (cs[j - 1] == 'ː' || cs[j - 1] == ':') { j -= 1; }
            if j > 0 && cs[j - 1] == b { return true }
        }
    }
    false
}

const FRESH: &[&str] = &["§", "¤", "Ж", "ю", "♦", "§§", "¤Ж", "ℵ", "Ω1", "µ"];

pub fn spec(args: &[String]) -> i32 {
    quiet_panics();
    let thorough = args.get(0).map(|s| s == "thorough").unwrap_or(false);
    let seed: u64 = args.get(1).and_then(|s| s.parse().ok()).unwrap_or(1);
    let mut g = Gen::new(seed ^ 0xC15);
    let mut st = Stats::new();
    let n = if thorough { 200000 } else { 15000 };
    for case in 0..n {
        let rules = { let k = g.rng.below(3); g.rules(if case % 2 == 0 { Profile::Basic } else { Profile::Tame }, k) };
        let groups = [RuleGroup::from_rules(rules.clone())];
        let words: Vec<String> = (0..1 + g.rng.below(3)).map(|_| { let w = if g.rng.chance(1, 2) { g.small_word() } else { g.word() }; if g.rng.chance(1, 80) { format!("{}{w}", ["ñ", "ł", "¢"][g.rng.below(3)]) } else { w } }).collect();
        // ---------- romanisers ----------
        let nrom = 1 + g.rng.below(3);
        let mut roms: Vec<Rom> = Vec::new();
        for _ in 0..nrom {
            let input = match g.rng.below(6) { 0 | 1 | 2 => { let t = ["a", "s", "t", "n", "i", "u", "d", "z", "ʃ", "k", "e", "o"][g.rng.below(12)].to_string(); match seg_of(&t) { Some(s) => RIn::Ipa(t, s), None => continue } }
                3 | 4 => RIn::Mat(vec![[(6, true), (11, true), (2, true), (3, false), (11, false), (0, true)][g.rng.below(6)]]), _ => RIn::Bound };
            let f = FRESH[g.rng.below(FRESH.len())].to_string();
            let output = match (&input, g.rng.below(4)) { (RIn::Bound, 0) => ROut::Remove, (RIn::Bound, _) => ROut::Repl(f), (_, 0) => ROut::Remove, (_, 1) => ROut::Plus(f), _ => ROut::Repl(f) };
            let mut r = Rom { input, output, len: (None, None), class: None };
            // a quarter of the segment romanisers name a length, some are spelled with a class letter
            if !matches!(r.input, RIn::Bound) && !matches!(r.output, ROut::Plus(_)) && g.rng.chance(1, 4) {
                r.len = [(Some(true), None), (Some(false), None), (None, Some(true)), (None, Some(false)), (Some(true), Some(false)), (Some(true), Some(true))][g.rng.below(6)];
                st.inc("c15.romaniser.with_length");
            }
            if matches!(r.input, RIn::Mat(_)) && g.rng.chance(1, 3) { let (c, f) = CLASSES[g.rng.below(CLASSES.len())]; r.input = RIn::Mat(f.to_vec()); r.class = Some(c); st.inc("c15.romaniser.class_letter"); }
            roms.push(r);
        }
        if roms.is_empty() { continue }
        let from: Vec<String> = roms.iter().map(|r| r.text()).collect();
        let with = guarded(|| asca::run(&groups, &words, &[], &from));
        let without = guarded(|| asca::run(&groups, &words, &[], &[]));
        st.inc("c15.cases");
        match (&with, &without) {
            (Out::Ok(a), Out::Ok(b)) => {
                st.inc("c15.both_ok");
                // the underlying words: parse the default output back (structural result without aliases)
                for (i, w) in words.iter().enumerate() {
                    let Out::Ok(stages) = guarded(|| verif::run_structural(&groups, w, &[])) else { continue };
                    let fin = match stages.last() { Some(x) => x.clone(), None => match guarded(|| verif::parse_word(w, &[])) { Out::Ok(x) => x, _ => continue } };
                    if w.contains(' ') { continue }
                    let amer = w.contains(['¢', 'ƛ', 'λ', 'ł', 'ñ']);
                    let mut want = reference_romanise(&fin, &roms);
                    if amer { for (p, r) in [("t͡s", "¢"), ("t͡ɬ", "ƛ"), ("d͡ɮ", "λ"), ("ɬ", "ł"), ("ɲ", "ñ")] { want = want.replace(p, r); } }
                    if want.contains('\u{FFFD}') { st.inc("c15.skipped_replacement_char"); continue }
                    let cards: Vec<String> = verif::cardinals().into_iter().map(|(g, _)| g).collect();
                    // the romaniser that applies to a segment is the first whose input matches it AND whose length condition its run meets
                    let plus_on_dia = fin.sylls.iter().any(|sy| sy.segs.iter().enumerate().any(|(j, s)| { let run = sy.segs[j..].iter().take_while(|x| *x == s).count();
                        !(j > 0 && sy.segs[j - 1] == *s) && !cards.contains(&render_seg(*s)) && matches!(roms.iter().find(|r| r.matches(s) && r.len_ok(run)), Some(Rom { output: ROut::Plus(_), .. })) }));
                    if a[i] != want && amer { println!("FINDING c15-romanise-differs:americanist-word from={from:?} rules={rules:?} word={w:?} printed={:?} reference={want:?} default={:?}", a[i], b[i]); }
                    else if a[i] != want && plus_on_dia { println!("FINDING c15-romanise-differs:plus-on-diacritic-segment from={from:?} rules={rules:?} word={w:?} printed={:?} reference={want:?} default={:?}", a[i], b[i]); }
                    else if a[i] != want { println!("FINDING c15-romanise-differs from={from:?} rules={rules:?} word={w:?} printed={:?} reference={want:?} default={:?}", a[i], b[i]); }
                    else if a[i] != b[i] { st.inc("c15.nontrivial"); }
                }
            }
            (Out::Err(x), Out::Err(y)) if err_kind(x) == err_kind(y) => st.inc("c15.both_err"),
            (Out::Panic(_), Out::Panic(_)) | (Out::Hang(_), Out::Hang(_)) => st.inc("c15.both_fault"),
            (a, b) => {
                // an alias that fails to parse makes `with` an AliasSyn error: fine as long as the rules would not have failed first
                if let Out::Err(e) = a { if e.starts_with("Alias") { st.inc("c15.alias_rejected"); continue } }
                println!("FINDING c15-outcome-differs from={from:?} rules={rules:?} words={words:?} with={} without={}", a.class(), b.class());
            }
        }
        // ---------- deromanisers ----------
        // (typed text, alias right-hand side): the alias makes `fresh` behave as the typed text
        // multi-segment right-hand sides, inserted as a syllable of their own
        if g.rng.chance(1, 4) {
            let (typed, rhs) = [("aːn", "a:[+long]n"), ("sːːta", "s:[+overlong]ta"), ("ʃa", "ʃa"), ("taːː", "ta:[+overlong]"), ("naːti", "na:[+long]ti"), ("iːsːu", "i:[+long]s:[+long]u")][g.rng.below(6)];
            let fresh = FRESH[g.rng.below(5)];
            let into = vec![format!("{fresh} > {rhs}")];
            let place = |w: &String, x: &str| -> String { if w.len() % 2 == 0 { format!("{x}.{w}") } else { format!("{w}.{x}") } };
            let plain: Vec<String> = words.iter().map(|w| place(w, typed)).collect();
            let encoded: Vec<String> = words.iter().map(|w| place(w, fresh)).collect();
            let a = guarded(|| asca::run(&groups, &encoded, &into, &[]));
            let b = guarded(|| asca::run(&groups, &plain, &[], &[]));
            st.inc("c15.cases"); st.inc("c15.deromaniser_cases"); st.inc("c15.deromaniser.multi_segment");
            let same = match (&a, &b) { (Out::Ok(x), Out::Ok(y)) => x == y, (Out::Err(x), Out::Err(y)) => err_kind(x) == err_kind(y), (Out::Panic(_), Out::Panic(_)) | (Out::Hang(_), Out::Hang(_)) => true, _ => false };
            if same { st.inc("c15.nontrivial"); } else { println!("FINDING c15-deromanise-differs into={into:?} rules={rules:?} encoded={encoded:?} plain={plain:?} got={:?} want={:?}", a, b); }
        }
        let variants: [(&str, &str, bool); 10] = [("ʃ", "ʃ", false), ("ŋ", "ŋ", false), ("t͡s", "t͡s", false), ("a", "a", false), ("kʷ", "kʷ", false), ("ə", "ə", false),
            ("aː", "a:[+long]", false), ("ʃː", "ʃ:[+long]", false), ("ã", "[+nasal]", true), ("kʷ", "[+round]", true)];
        let (typed, rhs, plus) = variants[g.rng.below(10)];
        let fresh = FRESH[g.rng.below(5)];
        let into = vec![if plus { format!("+{fresh} > {rhs}") } else { format!("{fresh} > {rhs}") }];
        let base: String = typed.chars().take(1).collect();
        // `+s` adds to the previously read segment, long or not: "kk+s" is a long k with the payload, which is typed "kʷː"
        let mut plain: Vec<String> = words.iter().filter(|w| w.contains(typed) && !w.contains(&format!("{typed}ː")) && !w.contains(&format!("{typed}:")) && !(plus && preceded_by_same(w, typed, &base))).cloned().collect();
        let long_case = plus && g.rng.chance(1, 2);
        if long_case { plain = words.iter().map(|w| format!("{w}.{typed}ː")).collect(); }
        if !plain.is_empty() {
            let encoded: Vec<String> = if long_case { words.iter().map(|w| format!("{w}.{base}{base}{fresh}")).collect() } else { plain.iter().map(|w| if plus { w.replace(typed, &format!("{base}{fresh}")) } else { w.replace(typed, fresh) }).collect() };
            if long_case { st.inc("c15.deromaniser.plus_after_long"); }
            let a = guarded(|| asca::run(&groups, &encoded, &into, &[]));
            let b = guarded(|| asca::run(&groups, &plain, &[], &[]));
            st.inc("c15.cases"); st.inc("c15.deromaniser_cases"); st.inc(&format!("c15.deromaniser.{rhs}"));
            let same = match (&a, &b) { (Out::Ok(x), Out::Ok(y)) => x == y, (Out::Err(x), Out::Err(y)) => err_kind(x) == err_kind(y), (Out::Panic(_), Out::Panic(_)) | (Out::Hang(_), Out::Hang(_)) => true, _ => false };
            if same { st.inc("c15.nontrivial"); } else { println!("FINDING c15-deromanise-differs into={into:?} rules={rules:?} encoded={encoded:?} plain={plain:?} got={:?} want={:?}", a, b); }
        }
        if case < 4 { st.sample(format!("from={from:?} into={into:?} rules={rules:?} words={words:?}")); }
    }
    // ---------- romanisers that name stress ----------
    // `a:[+stress] > á` applies in primary AND secondary stressed syllables, `[-stress]` in unstressed ones, `[±secstress]` looks at
    // secondary stress only (the rule language's meaning of the two features).  No rules: the printed word is the typed word rewritten.
    // Own generator; words over plain graphemes, no long segments.
    let mut g6 = Gen::new(seed ^ 0xC15_6);
    for _ in 0..(if thorough { 40000 } else { 4000 }) {
        let mut t = String::new();
        for i in 0..1 + g6.rng.below(4) {
            let mark = ["", "ˈ", "ˌ", ""][g6.rng.below(4)];
            if mark.is_empty() { if i > 0 { t.push('.'); } } else { t.push_str(mark); }
            t.push_str(["ka", "ti", "mu", "sa", "pi", "tam", "a", "us"][g6.rng.below(8)]);
            if g6.rng.chance(1, 5) { t.push_str(["5", "31", "2"][g6.rng.below(3)]); }
        }
        let Out::Ok(w) = guarded(|| verif::parse_word(&t, &[])) else { continue };
        let mut roms: Vec<(SegS, (Option<bool>, Option<bool>), bool, String, String)> = Vec::new();
        for _ in 0..1 + g6.rng.below(2) {
            let ipa = ["a", "i", "u", "t", "k", "s", "m"][g6.rng.below(7)];
            let Some(sg) = seg_of(ipa) else { continue };
            let st2 = [(Some(true), None), (Some(false), None), (None, Some(true)), (None, Some(false)), (Some(true), Some(false)), (Some(true), Some(true))][g6.rng.below(6)];
            let mods: Vec<String> = [(st2.0, "stress"), (st2.1, "secstress")].iter().filter_map(|(v, n)| v.map(|b| format!("{}{n}", if b { "+" } else { "-" }))).collect();
            let f = FRESH[g6.rng.below(5)].to_string(); let plus = g6.rng.chance(1, 3);
            roms.push((sg, st2, plus, f.clone(), format!("{ipa}:[{}] > {}{f}", mods.join(", "), if plus { "+" } else { "" })));
        }
        if roms.is_empty() { continue }
        let from: Vec<String> = roms.iter().map(|r| r.4.clone()).collect();
        let Out::Ok(a) = guarded(|| asca::run(&[], &[t.clone()], &[], &from)) else { st.inc("c15.stress_romaniser.not_ok"); continue };
        st.inc("c15.cases"); st.inc("c15.stress_romaniser");
        let ok = |m: (Option<bool>, Option<bool>), stress: u8| -> bool {
            (match m.0 { Some(true) => stress != 0, Some(false) => stress == 0, None => true }) && (match m.1 { Some(true) => stress == 2, Some(false) => stress != 2, None => true }) };
        let mut want = String::new();
        for (i, sy) in w.sylls.iter().enumerate() {
            match sy.stress { 1 => want.push('ˈ'), 2 => want.push('ˌ'), _ => if i > 0 { want.push('.') } }
            for sg in &sy.segs {
                match roms.iter().find(|r| r.0 == *sg && ok(r.1, sy.stress as u8)) {
                    Some(r) if r.2 => { want.push_str(&render_seg(*sg)); want.push_str(&r.3) }
                    Some(r) => want.push_str(&r.3),
                    None => want.push_str(&render_seg(*sg)),
                }
            }
            if sy.tone != 0 { want.push_str(&sy.tone.to_string()); }
        }
        if a.get(0) != Some(&want) { println!("FINDING c15-romanise-differs:stress-romaniser from={from:?} word={t:?} printed={:?} reference={want:?}", a.get(0)); }
        else if a.get(0) != Some(&t) { st.inc("c15.nontrivial"); }
    }
    st.print();
    0
}

// ------------------------------------------------------------------------------------------------ correspondence
fn rom_toks(r: &Rom) -> String {
    let i = match &r.input { RIn::Ipa(_, s) => format!("I {}", crate::c04::seg_toks(s)), RIn::Mat(f) => format!("M {}{}", f.len(), f.iter().map(|(i, p)| format!(" {} {}", i, *p as u8)).collect::<String>()), RIn::Bound => "B".into() };
    let o = match &r.output { ROut::Repl(t) => format!("R 0 {} {}", t.chars().count(), crate::words::cps(t)), ROut::Plus(t) => format!("R 1 {} {}", t.chars().count(), crate::words::cps(t)), ROut::Remove => "E".into() };
    format!("{i} {o}")
}

fn gen_rom(g: &mut Gen) -> Option<Rom> {
    let input = match g.rng.below(6) {
        0 | 1 | 2 => { let t = ["a", "s", "t", "n", "i", "u", "d", "z", "ʃ", "k", "e", "o", "t͡s", "ŋ", "ɲ", "ɬ"][g.rng.below(16)].to_string(); match seg_of(&t) { Some(s) => RIn::Ipa(t, s), None => return None } }
        3 | 4 => { let k = 1 + g.rng.below(2); let mut fs: Vec<(usize, bool)> = Vec::new(); for _ in 0..k { let i = g.rng.below(crate::gen::FEATS.len()); if !fs.iter().any(|f| f.0 == i) { fs.push((i, g.rng.chance(1, 2))); } } RIn::Mat(fs) }
        _ => RIn::Bound };
    let f = FRESH[g.rng.below(FRESH.len())].to_string();
    let output = match (&input, g.rng.below(4)) { (RIn::Bound, 0) => ROut::Remove, (RIn::Bound, _) => ROut::Repl(f), (_, 0) => ROut::Remove, (_, 1) => ROut::Plus(f), _ => ROut::Repl(f) };
    Some(Rom { input, output, len: (None, None), class: None })
}

/// `alias-ops <ops> <impl> <tier> <seed> <keys>`: romaniser rendering and deromaniser parsing, implementation answers beside the ops
pub fn ops(args: &[String]) -> i32 {
    use std::io::Write;
    quiet_panics();
    let mut ops = std::io::BufWriter::new(std::fs::File::create(&args[0]).unwrap());
    let mut imp = std::io::BufWriter::new(std::fs::File::create(&args[1]).unwrap());
    let thorough = args.get(2).map(|s| s == "thorough").unwrap_or(false);
    let seed: u64 = args.get(3).and_then(|s| s.parse().ok()).unwrap_or(1);
    writeln!(ops, "{}", crate::words::order_line(&args[4])).unwrap(); writeln!(imp, "ok").unwrap();
    let space = crate::words::segment_space(false);
    let mut g = Gen::new(seed ^ 0xA11A5);
    let n = if thorough { 300000 } else { 20000 };
    let (mut nr, mut np, mut hits) = (0u64, 0u64, 0u64);
    for case in 0..n {
        if case % 2 == 0 {
            let w = if g.rng.chance(1, 2) { crate::words::assemble(&mut g, &space) } else { let t = if g.rng.chance(1, 2) { g.small_word() } else { g.word() }; match guarded(|| verif::parse_word(&t, &[])) { Out::Ok(w) => w, _ => continue } };
            let roms: Vec<Rom> = (0..1 + g.rng.below(3)).filter_map(|_| gen_rom(&mut g)).collect();
            if roms.is_empty() { continue }
            let from: Vec<String> = roms.iter().map(|r| r.text()).collect();
            writeln!(ops, "rendera {} {} {}", roms.len(), roms.iter().map(rom_toks).collect::<Vec<_>>().join(" "), crate::words::word_flat(&w, false)).unwrap();
            let r = guarded(|| verif::render_word(&w, &from));
            if let Out::Ok(t) = &r { if Some(t) != guarded(|| verif::render_word(&w, &[])).ok().as_ref() { hits += 1; } }
            match r { Out::Ok(t) => writeln!(imp, "{}", crate::words::cps(&t)).unwrap(), Out::Err(e) => writeln!(imp, "err {}", err_kind(&e)).unwrap(), o => writeln!(imp, "{}", o.class()).unwrap() }
            nr += 1;
        } else {
            let nd = 1 + g.rng.below(3);
            let mut ds: Vec<(String, String, SegS)> = Vec::new();
            for _ in 0..nd {
                let key = FRESH[g.rng.below(FRESH.len())].to_string();
                let tgt = ["ʃ", "ŋ", "t͡s", "a", "kʷ", "ə", "s", "t", "ɬ", "ɲ", "i"][g.rng.below(11)].to_string();
                if let Some(s) = seg_of(&tgt) { if !ds.iter().any(|d| d.0 == key) { ds.push((key, tgt, s)); } }
            }
            if ds.is_empty() { continue }
            let mut t = if g.rng.chance(1, 2) { g.small_word() } else { g.word() };
            // put keys where their targets stand, and at a few random places
            for (k, tgt, _) in &ds { if g.rng.chance(2, 3) { t = t.replace(tgt.as_str(), k); } }
            if g.rng.chance(1, 3) { let at = g.rng.below(t.chars().count() + 1); let b = t.char_indices().nth(at).map(|x| x.0).unwrap_or(t.len()); t.insert_str(b, &ds[0].0); }
            let into: Vec<String> = ds.iter().map(|(k, tgt, _)| format!("{k} > {tgt}")).collect();
            writeln!(ops, "parsed {} {} {}", ds.len(), ds.iter().map(|(k, _, s)| format!("{} {} {}", k.chars().count(), crate::words::cps(k), crate::c04::seg_toks(s))).collect::<Vec<_>>().join(" "), crate::words::cps(&t)).unwrap();
            match guarded(|| verif::parse_word(&t, &into)) {
                Out::Ok(w) => { let amer = t.contains(['¢', 'ƛ', 'λ', 'ł', 'ñ']); if ds.iter().any(|d| t.contains(d.0.as_str())) { hits += 1; } writeln!(imp, "{}", crate::words::word_flat(&w, amer)).unwrap(); }
                Out::Err(e) => writeln!(imp, "err {}", err_kind(&e).split('.').nth(1).unwrap_or("?")).unwrap(),
                o => writeln!(imp, "{}", o.class()).unwrap(),
            }
            np += 1;
        }
    }
    println!("STAT alias.ops {}", nr + np);
    println!("STAT alias.render_ops {nr}");
    println!("STAT alias.parse_ops {np}");
    println!("STAT alias.ops_where_an_alias_took_effect {hits}");
    0
}
