use std::io::Write;
use asca::verif;

/// SplitMix64: every random choice of the harness derives from one seed.
pub struct Rng(pub u64);
impl Rng {
    pub fn new(seed: u64) -> Self { Rng(seed.wrapping_mul(0x9E3779B97F4A7C15) ^ 0xD1B54A32D192ED03) }
    pub fn next(&mut self) -> u64 {
        self.0 = self.0.wrapping_add(0x9E3779B97F4A7C15);
        let mut z = self.0;
        z = (z ^ (z >> 30)).wrapping_mul(0xBF58476D1CE4E5B9);
        z = (z ^ (z >> 27)).wrapping_mul(0x94D049BB133111EB);
        z ^ (z >> 31)
    }
    pub fn below(&mut self, n: usize) -> usize { if n == 0 { 0 } else { (self.next() % n as u64) as usize } }
    pub fn chance(&mut self, num: u64, den: u64) -> bool { self.next() % den < num }
    pub fn pick<'a, T>(&mut self, xs: &'a [T]) -> &'a T { &xs[self.below(xs.len())] }
}

pub fn opt16(p: Option<u16>) -> String { match p { Some(x) => x.to_string(), None => "-".into() } }
pub fn opt8(p: Option<u8>) -> String { match p { Some(x) => x.to_string(), None => "-".into() } }

/// Dump the built-in tables as the running code sees them, for the translator cross-check.
/// Lines: `feat <i> <node> <mask>`, `card <codepoints,…> <r> <m> <l> <p|->` (sorted by key),
/// `dia <cp> <prereq nodes> <prereq feats> <payload nodes> <payload feats>` (file order).
pub fn dump_tables(_args: &[String]) -> i32 {
    let out = std::io::stdout();
    let mut out = std::io::BufWriter::new(out.lock());
    for i in 0..26 {
        let (n, m) = verif::feat_node_mask(i);
        writeln!(out, "feat {i} {n} {m}").unwrap();
    }
    let mut cards = verif::cardinals();
    cards.sort();
    for (k, s) in cards {
        let cps: Vec<String> = k.chars().map(|c| (c as u32).to_string()).collect();
        writeln!(out, "card {} {} {} {} {}", cps.join(","), s.0, s.1, s.2, opt16(s.3)).unwrap();
    }
    let j = |v: &Vec<i8>| v.iter().map(|x| x.to_string()).collect::<Vec<_>>().join(",");
    for (c, pn, pf, yn, yf) in verif::diacritics() {
        writeln!(out, "dia {} {} {} {} {}", c as u32, j(&pn), j(&pf), j(&yn), j(&yf)).unwrap();
    }
    0
}
