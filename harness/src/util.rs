use std::io::Write;
use asca::verif;

/// SplitMix64: every random choice of the harness derives from one seed.
pub struct Rng(pub u64);
impl Rng {
    pub fn new(seed: u64) -> Self { Rng(seed.wrapping_mul(0x9E3779B97F4A7C15) ^ 0xD1B54A32D192ED03) }
    pub fn next(&mut self) -> u64 {
        self.0 = self.0.wrapping_add(0x9E3779B97F4A7C15);
        let mut z = self.0;
        z = (z ^ (z >> 30)).wrapping_mul(0xBF58476D1CE4E5B9);
        z = (z ^ (z >> 27)).wrapping_mul(0x94D049BB133111EB);
        z ^ (z >> 31)
    }
    pub fn below(&mut self, n: usize) -> usize { if n == 0 { 0 } else { (self.next() % n as u64) as usize } }
    pub fn chance(&mut self, num: u64, den: u64) -> bool { self.next() % den < num }
    pub fn pick<'a, T>(&mut self, xs: &'a [T]) -> &'a T { &xs[self.below(xs.len())] }
}

pub fn opt16(p: Option<u16>) -> String { match p { Some(x) => x.to_string(), None => "-".into() } }
pub fn opt8(p: Option<u8>) -> String { match p { Some(x) => x.to_string(), None => "-".into() } }

/// Dump the built-in tables as the running code sees them, for the translator cross-check.
/// Lines: `feat <i> <node> <mask>`, `card <codepoints,…> <r> <m> <l> <p|->` (sorted by key),
/// `dia <cp> <prereq nodes> <prereq feats> <payload nodes> <payload feats>` (file order).
pub fn dump_tables(_args: &[String]) -> i32 {
    let out = std::io::stdout();
    let mut out = std::io::BufWriter::new(out.lock());
    for i in 0..26 {
        let (n, m) = verif::feat_node_mask(i);
        writeln!(out, "feat {i} {n} {m}").unwrap();
    }
    let mut cards = verif::cardinals();
    cards.sort();
    for (k, s) in cards {
        let cps: Vec<String> = k.chars().map(|c| (c as u32).to_string()).collect();
        writeln!(out, "card {} {} {} {} {}", cps.join(","), s.0, s.1, s.2, opt16(s.3)).unwrap();
    }
    let j = |v: &Vec<i8>| v.iter().map(|x| x.to_string()).collect::<Vec<_>>().join(",");
    for (c, pn, pf, yn, yf) in verif::diacritics() {
        writeln!(out, "dia {} {} {} {} {}", c as u32, j(&pn), j(&pf), j(&yn), j(&yf)).unwrap();
    }
    0
}

// ---------------------------------------------------------------------------------------------------
// guarded execution of the real code: errors, panics and (via the step budget hook) endless loops are values

#[derive(Debug, Clone, PartialEq, Eq)]
pub enum Out<T> {
    Ok(T),
    /// `Debug` rendering of the `asca::Error`
    Err(String),
    Panic(String),
    /// budget exhausted at this loop site
    Hang(u32),
}

impl<T> Out<T> {
    pub fn is_ok(&self) -> bool { matches!(self, Out::Ok(_)) }
    pub fn ok(self) -> Option<T> { if let Out::Ok(v) = self { Some(v) } else { None } }
    pub fn class(&self) -> String {
        match self {
            Out::Ok(_) => "ok".into(),
            Out::Err(e) => format!("err:{}", err_kind(e)),
            Out::Panic(m) => format!("panic:{}", m.chars().take(60).collect::<String>()),
            Out::Hang(s) => format!("hang:{s}"),
        }
    }
}

/// variant path of an error's `Debug` form: `RuleRun(DeletionOnlySeg)` -> `RuleRun.DeletionOnlySeg`
pub fn err_kind(e: &str) -> String {
    let mut parts = Vec::new();
    let mut cur = String::new();
    for c in e.chars() {
        if c.is_alphanumeric() || c == '_' { cur.push(c); }
        else if c == '(' { parts.push(cur.clone()); cur.clear(); if parts.len() >= 2 { break } }
        else { break }
    }
    if !cur.is_empty() && parts.len() < 2 { parts.push(cur); }
    parts.join(".")
}

pub const BUDGET: u64 = 60_000;

thread_local! { static LAST_PANIC_LOC: std::cell::RefCell<String> = const { std::cell::RefCell::new(String::new()) }; }

/// silence panic output, but remember where the panic was raised (`file:line`)
pub fn quiet_panics() {
    std::panic::set_hook(Box::new(|info| {
        let loc = info.location().map(|l| format!("{}:{}", l.file(), l.line())).unwrap_or_else(|| "?".into());
        LAST_PANIC_LOC.with(|c| *c.borrow_mut() = loc);
    }));
}
pub fn last_panic_loc() -> String { LAST_PANIC_LOC.with(|c| c.borrow().clone()) }

pub fn guarded<T, F: FnOnce() -> Result<T, asca::Error>>(f: F) -> Out<T> {
    asca::verif::set_budget(BUDGET);
    let r = std::panic::catch_unwind(std::panic::AssertUnwindSafe(f));
    asca::verif::set_budget(u64::MAX);
    match r {
        Ok(Ok(v)) => Out::Ok(v),
        Ok(Err(e)) => Out::Err(format!("{e:?}")),
        Err(p) => {
            if let Some(b) = p.downcast_ref::<asca::verif::BudgetExhausted>() { Out::Hang(b.site) }
            else if let Some(s) = p.downcast_ref::<String>() { Out::Panic(format!("{} @ {}", s, last_panic_loc())) }
            else if let Some(s) = p.downcast_ref::<&str>() { Out::Panic(format!("{} @ {}", s, last_panic_loc())) }
            else { Out::Panic(format!("? @ {}", last_panic_loc())) }
        }
    }
}
