//! C20: `seq` projects.  `c20-gen <dir> <tier> <seed>` writes project trees, and beside each what the manual says the
//! project means: per tag the plan (which groups of which file, in which order, on which words) and the words the
//! library returns for it.
use asca::RuleGroup;
use crate::c19::{jlist, jstr};
use crate::gen::Gen;
use crate::util::*;

#[derive(Clone, Debug)]
pub enum Filter { None, Without(Vec<String>), Only(Vec<String>) }
#[derive(Clone, Debug)]
pub struct Entry { pub file: usize, pub filter: Filter }
#[derive(Clone, Debug)]
pub struct Tag { pub name: String, pub from: Option<usize>, pub alias: bool, pub words: Vec<usize>, pub entries: Vec<Entry> }
pub struct Proj { pub rule_files: Vec<Vec<(String, Vec<String>)>>, pub word_files: Vec<Vec<String>>, pub into: Vec<String>, pub tags: Vec<Tag>, pub order: Vec<usize> }

const GNAMES: &[&str] = &["Lenition", "Vowel Shift", "Final Devoicing", "Glottal Deletion", "Hap(lo)logy", "Umlaut", "Cluster Simplification", "Low Vowel Reduction", "ǂ Clicks", "Nasal Assimilation", "Þ-Fronting", "Élision", "Šatem Shift", "Ōsthoff", "Åsgard Ñ"];
const RULES: &[&str] = &["a > e", "t > d / V _ V", "s > z / _ #", "k > x", "i > e / _ n", "n > m / _ p", "e > i", "d > t / _ #", "u > o", "p > b / V _", "z > r", "o > u / _ $", "x > h", "V > [+long] / _ #", "t > s / _ i"];

fn mix_case(g: &mut Gen, s: &str) -> String { match g.rng.below(3) { 0 => s.to_string(), 1 => s.to_uppercase(), _ => s.to_lowercase() } }

pub fn gen_proj(g: &mut Gen) -> Proj {
    let nrf = 2 + g.rng.below(3);
    let rule_files: Vec<Vec<(String, Vec<String>)>> = (0..nrf).map(|_| {
        let k = 2 + g.rng.below(3);
        let mut names: Vec<String> = Vec::new();
        while names.len() < k { let n = GNAMES[g.rng.below(GNAMES.len())].to_string(); if !names.contains(&n) { names.push(n); } }
        names.into_iter().map(|n| { let nr = 1 + g.rng.below(2); (n, (0..nr).map(|_| RULES[g.rng.below(RULES.len())].to_string()).collect()) }).collect()
    }).collect();
    let nwf = 1 + g.rng.below(3);
    let mut word_files: Vec<Vec<String>> = (0..nwf).map(|_| (0..1 + g.rng.below(4)).map(|_| g.small_word()).collect()).collect();
    // a lexicon may hold the same word twice in a row, and two neighbours may MERGE under the rules (pad / pat under final devoicing):
    // every entry is a row of its own all the way through the stages
    for f in word_files.iter_mut() {
        if g.rng.chance(1, 3) { let i = g.rng.below(f.len()); let w = f[i].clone(); f.insert(i, w); }
        if g.rng.chance(1, 3) { let (a, b) = [("pad", "pat"), ("tu", "to"), ("sak", "sax"), ("ten", "tin"), ("ka", "ke"), ("az", "ar")][g.rng.below(6)]; let i = g.rng.below(f.len() + 1); f.insert(i, b.to_string()); f.insert(i, a.to_string()); }
    }
    let ntags = 1 + g.rng.below(5);
    let mut tags: Vec<Tag> = Vec::new();
    let root_alias = g.rng.chance(1, 4);
    for t in 0..ntags {
        let from = if t == 0 { None } else if g.rng.chance(1, 2) { Some(t - 1) } else if g.rng.chance(4, 5) { Some(g.rng.below(t)) } else { None };
        let words: Vec<usize> = if from.is_none() { (0..1 + g.rng.below(2)).map(|_| g.rng.below(nwf)).collect() } else if g.rng.chance(1, 4) { vec![g.rng.below(nwf)] } else { vec![] };
        let ne = 1 + g.rng.below(3);
        let entries = (0..ne).map(|_| {
            let file = g.rng.below(nrf);
            let names: Vec<String> = rule_files[file].iter().map(|x| x.0.clone()).collect();
            let filter = match g.rng.below(5) {
                0 | 1 => Filter::None,
                2 => { let k = 1 + g.rng.below(names.len().min(2)); let mut pick: Vec<String> = Vec::new(); while pick.len() < k { let n = &names[g.rng.below(names.len())]; if !pick.contains(n) { pick.push(n.clone()); } } if pick.len() == names.len() { Filter::None } else { Filter::Without(pick.iter().map(|n| mix_case(g, n)).collect()) } }
                _ => { let k = 1 + g.rng.below(names.len().min(3)); let mut pick: Vec<String> = Vec::new(); while pick.len() < k { let n = &names[g.rng.below(names.len())]; if !pick.contains(n) { pick.push(n.clone()); } } Filter::Only(pick.iter().map(|n| mix_case(g, n)).collect()) }
            };
            Entry { file, filter }
        }).collect();
        tags.push(Tag { name: ["alpha", "beta", "gamma", "delta-4", "epsilon"][t].to_string(), from, alias: t == 0 && root_alias, words, entries });
    }
    // the order in which the tags are written in the config: as generated, reversed, or shuffled
    let mut order: Vec<usize> = (0..ntags).collect();
    match g.rng.below(4) { 0 => {}, 1 | 2 => order.reverse(), _ => { for i in (1..ntags).rev() { let j = g.rng.below(i + 1); order.swap(i, j); } } }
    let into = if root_alias { vec!["§ > ʃ".to_string(), "ng > ŋ".to_string()] } else { vec![] };
    Proj { rule_files, word_files, into, tags, order }
}

fn quote_list(v: &[String]) -> String { v.iter().map(|s| format!("\"{s}\"")).collect::<Vec<_>>().join(", ") }

impl Proj {
    pub fn config_text(&self, g: &mut Gen) -> String {
        let mut o = String::from("# generated project\n");
        for &t in &self.order {
            let tag = &self.tags[t];
            o.push_str(&format!("@{}", tag.name));
            if let Some(f) = tag.from { o.push_str(&format!(" %{}", self.tags[f].name)); }
            if tag.alias { o.push_str(" $roman"); }
            if !tag.words.is_empty() { o.push_str(&format!(" [{}]", quote_list(&tag.words.iter().map(|w| format!("w{w}")).collect::<Vec<_>>()))); }
            o.push(':');
            for (i, e) in tag.entries.iter().enumerate() {
                o.push_str(if g.rng.chance(1, 2) { "\n    " } else { " " });
                o.push_str(&format!("\"r{}\"", e.file));
                match &e.filter { Filter::None => {}, Filter::Without(n) => o.push_str(&format!(" ! {{{}}}", quote_list(n))), Filter::Only(n) => o.push_str(&format!(" ~ {{{}}}", quote_list(n))) }
                if i + 1 < tag.entries.len() || g.rng.chance(1, 3) { o.push(','); }
            }
            o.push_str("\n\n");
        }
        o
    }

    /// what the manual says an entry selects
    pub fn select(&self, e: &Entry) -> Vec<usize> {
        let groups = &self.rule_files[e.file];
        match &e.filter {
            Filter::None => (0..groups.len()).collect(),
            Filter::Without(ns) => (0..groups.len()).filter(|i| !ns.iter().any(|n| n.to_lowercase() == groups[*i].0.to_lowercase())).collect(),
            Filter::Only(ns) => ns.iter().filter_map(|n| groups.iter().position(|x| x.0.to_lowercase() == n.to_lowercase())).collect(),
        }
    }

    /// the input words of a tag and its stages, following `%` back to the root
    pub fn input_words(&self, t: usize, finals: &dyn Fn(usize) -> Option<Vec<String>>) -> Option<Vec<String>> {
        let tag = &self.tags[t];
        let mut words = match tag.from { Some(f) => finals(f)?, None => vec![] };
        for w in &tag.words { if !words.is_empty() { words.push(String::new()); } words.extend(self.word_files[*w].iter().cloned()); }
        Some(words)
    }

    pub fn groups_of(&self, e: &Entry) -> Vec<RuleGroup> { self.select(e).iter().map(|i| { let (n, r) = &self.rule_files[e.file][*i]; RuleGroup::from(n.clone(), r.clone(), String::new()) }).collect() }

    pub fn final_words(&self, t: usize) -> Option<Vec<String>> {
        let tag = &self.tags[t];
        let mut cur = self.input_words(t, &|f| self.final_words(f))?;
        let into = if tag.alias { self.into.clone() } else { vec![] };
        for e in &tag.entries {
            match guarded(|| asca::run(&self.groups_of(e), &cur, &into, &[])) { Out::Ok(v) => cur = v, _ => return None }
        }
        Some(cur)
    }

    pub fn history(&self, t: usize) -> Vec<RuleGroup> {
        let tag = &self.tags[t];
        let mut h = match tag.from { Some(f) => self.history(f), None => vec![] };
        for e in &tag.entries { h.extend(self.groups_of(e)); }
        h
    }
    pub fn root(&self, t: usize) -> usize { match self.tags[t].from { Some(f) => self.root(f), None => t } }
    pub fn extra_words_on_the_way(&self, t: usize) -> bool { match self.tags[t].from { Some(f) => !self.tags[t].words.is_empty() || self.extra_words_on_the_way(f), None => false } }
}

fn out_name(p: &Proj, e: &Entry) -> String {
    let san = |s: &str| -> String { s.chars().take(26).map(|ch| match ch { ' ' | '*' | '/' | '\\' | '?' | ':' | '|' | '\0' | '<' | '>' | '%' | '"' => '-', _ => ch.to_ascii_lowercase() }).collect() };
    let _ = p;
    match &e.filter { Filter::None => format!("r{}", e.file), Filter::Without(n) if n.len() == 1 => format!("r{}_excl_{}", e.file, san(&n[0].to_lowercase())), Filter::Without(n) => format!("r{}_excl-mult_{}", e.file, san(&n[0].to_lowercase())),
        Filter::Only(n) if n.len() == 1 => format!("r{}_only_{}", e.file, san(&n[0].to_lowercase())), Filter::Only(n) => format!("r{}_only-mult_{}", e.file, san(&n[0].to_lowercase())) }
}

pub fn gen(args: &[String]) -> i32 {
    quiet_panics();
    let dir = std::path::PathBuf::from(&args[0]);
    let thorough = args.get(1).map(|s| s == "thorough").unwrap_or(false);
    let seed: u64 = args.get(2).and_then(|s| s.parse().ok()).unwrap_or(1);
    let mut g = Gen::new(seed ^ 0xC20);
    let n = if thorough { 2000 } else { 160 };
    let (mut ntags, mut nfilters, mut deep, mut cyc, mut forks, mut children_first) = (0, 0, 0, 0, 0, 0);
    for case in 0..n {
        let p = gen_proj(&mut g);
        let d = dir.join(format!("case{case:05}"));
        std::fs::create_dir_all(&d).unwrap();
        for (i, f) in p.rule_files.iter().enumerate() {
            let mut t = String::new();
            for (name, rules) in f { t.push_str(&format!("@ {name}\n")); for r in rules { t.push_str(&format!("    {r}\n")); } t.push_str("# generated\n\n"); }
            std::fs::write(d.join(format!("r{i}.rsca")), t).unwrap();
        }
        for (i, f) in p.word_files.iter().enumerate() { std::fs::write(d.join(format!("w{i}.wsca")), f.join("\n")).unwrap(); }
        if !p.into.is_empty() { std::fs::write(d.join("roman.alias"), format!("@into\n{}\n@from\n", p.into.iter().map(|l| format!("    {l}")).collect::<Vec<_>>().join("\n"))).unwrap(); }
        std::fs::write(d.join("proj.asca"), p.config_text(&mut g)).unwrap();
        // a cyclic variant: the root now comes from the last tag of its own chain
        let cyclic = p.tags.len() >= 2 && p.tags.iter().any(|t| t.from == Some(0)) && g.rng.chance(1, 3);
        if cyclic {
            cyc += 1;
            let dc = d.join("cyclic"); std::fs::create_dir_all(&dc).unwrap();
            for e in std::fs::read_dir(&d).unwrap() { let e = e.unwrap(); if e.file_type().unwrap().is_file() && e.file_name() != "proj.asca" { std::fs::copy(e.path(), dc.join(e.file_name())).unwrap(); } }
            let leaf = (0..p.tags.len()).rev().find(|t| p.root(*t) == 0 && *t != 0).unwrap();
            let txt = p.config_text(&mut g).replacen("@alpha", &format!("@alpha %{}", p.tags[leaf].name), 1);
            std::fs::write(dc.join("proj.asca"), txt).unwrap();
        }
        // expectations
        let mut tags_json = Vec::new();
        let mut plan_lines = Vec::new();
        for (t, tag) in p.tags.iter().enumerate() {
            ntags += 1;
            nfilters += tag.entries.iter().filter(|e| !matches!(e.filter, Filter::None)).count();
            let depth = { let mut k = 0; let mut c = t; while let Some(f) = p.tags[c].from { k += 1; c = f; } k };
            if depth >= 2 { deep += 1; }
            if p.tags.iter().filter(|x| x.from == Some(t)).count() >= 2 { forks += 1; }
            if let Some(f) = tag.from { if p.order.iter().position(|x| *x == t) < p.order.iter().position(|x| *x == f) { children_first += 1; } }
            let fin = p.final_words(t);
            let hist = p.history(t);
            let root = p.root(t);
            let orig = p.input_words(root, &|_| None).unwrap_or_default();
            let into = if p.tags[root].alias { p.into.clone() } else { vec![] };
            let whole = if !p.extra_words_on_the_way(t) { match guarded(|| asca::run(&hist, &orig, &into, &[])) { Out::Ok(v) => Some(v), _ => None } } else { None };
            let hist_json: Vec<String> = hist.iter().map(|r| format!("{{\"name\":{},\"rule\":{},\"description\":{}}}", jstr(&r.name), jlist(&r.rule), jstr(&r.description))).collect();
            tags_json.push(format!("{}:{{\"final\":{},\"out_file\":{},\"history\":[{}],\"orig_words\":{},\"whole_history_run\":{},\"has_from\":{}}}", jstr(&tag.name),
                match &fin { Some(v) => jlist(v), None => "null".into() }, jstr(&out_name(&p, tag.entries.last().unwrap())), hist_json.join(","), jlist(&orig),
                match &whole { Some(v) => jlist(v), None => "null".into() }, tag.from.is_some()));
            // plan line for the model: per stage the file and the selected group indices
            plan_lines.push(format!("{} | {}", tag.name, tag.entries.iter().map(|e| format!("r{}:{}", e.file, p.select(e).iter().map(|i| i.to_string()).collect::<Vec<_>>().join(","))).collect::<Vec<_>>().join(" ")));
        }
        std::fs::write(d.join("expected.json"), format!("{{\"cyclic_variant\":{},\"order\":{},\"tags\":{{{}}}}}", cyclic, jlist(&p.order.iter().map(|t| p.tags[*t].name.clone()).collect::<Vec<_>>()), tags_json.join(","))).unwrap();
        std::fs::write(d.join("plan.txt"), plan_lines.join(" ; ")).unwrap();
        // the structure, for the model, as one driver op:
        // plan <nfiles> {<ngroups> {counted name}} <ntags> {counted tag, `-`|counted from, <nentries> {<file> <N|W|O> <k> {counted name}}}
        let counted = |x: &str| format!("{} {}", x.chars().count(), crate::words::cps(x));
        let mut s = format!("plan {}", p.rule_files.len());
        for f in &p.rule_files { s.push_str(&format!(" {}", f.len())); for (n, _) in f { s.push_str(&format!(" {}", counted(n))); } }
        s.push_str(&format!(" {}", p.tags.len()));
        for tag in &p.tags {
            s.push_str(&format!(" {} {} {}", counted(&tag.name), match tag.from { Some(f) => counted(&p.tags[f].name), None => "-".into() }, tag.entries.len()));
            for e in &tag.entries {
                match &e.filter { Filter::None => s.push_str(&format!(" {} N 0", e.file)), Filter::Without(n) => { s.push_str(&format!(" {} W {}", e.file, n.len())); for x in n { s.push_str(&format!(" {}", counted(x))); } }
                    Filter::Only(n) => { s.push_str(&format!(" {} O {}", e.file, n.len())); for x in n { s.push_str(&format!(" {}", counted(x))); } } }
            }
        }
        s.push('\n');
        std::fs::write(d.join("structure.txt"), s).unwrap();
    }
    println!("STAT c20.cases {n}");
    println!("STAT c20.tags {ntags}");
    println!("STAT c20.filtered_entries {nfilters}");
    println!("STAT c20.tags_at_depth_2_or_more {deep}");
    println!("STAT c20.forks {forks}");
    println!("STAT c20.tags_listed_before_their_parent {children_first}");
    println!("STAT c20.cyclic_variants {cyc}");
    0
}
