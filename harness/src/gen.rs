//! Structured generators for words, rules, rule groups (one PRNG; every case reproducible from the seed).
use crate::util::Rng;

pub const CONS: &[&str] = &["p", "t", "k", "b", "d", "ɡ", "m", "n", "s", "z", "l", "r", "h", "ʔ", "j", "w", "f", "x", "ŋ", "ʃ"];
pub const VOWS: &[&str] = &["a", "e", "i", "o", "u", "ə", "ɛ", "ɔ", "y"];
pub const RARE: &[&str] = &["t͡s", "d͡ʒ", "ɬ", "ɲ", "kʷ", "pʰ", "ã", "qǀ", "ɢǀ", "ᵐb", "t̪", "kʼ", "ɹ̩", "ʈ", "ɖ", "ɻ", "ɑ", "æ", "ɯ", "ø"];
pub const FEATS: &[&str] = &["cons", "son", "syll", "cont", "approx", "lat", "nasal", "delrel", "strid", "rho", "click", "voice",
    "sg", "cg", "labdent", "round", "ant", "dist", "front", "back", "high", "low", "tense", "red", "atr", "rtr"];
pub const NODES: &[&str] = &["lab", "cor", "dor", "phr", "place"];
pub const GROUPS: &[&str] = &["C", "O", "S", "P", "F", "L", "N", "G", "V"];
pub const TONES: &[&str] = &["5", "51", "214", "35", "1234", "50", "105"];

#[derive(Clone, Copy, PartialEq, Eq, Debug)]
pub enum Profile {
    /// single segments, matrices, groups, sets, `#`/`$` in environments; one input, one output
    Basic,
    /// the whole documented grammar
    Full,
    /// Full, minus constructs that are known to make the pinned tree hang or panic (used where C02 is not the subject)
    Tame,
}

pub struct Gen { pub rng: Rng }

impl Gen {
    pub fn new(seed: u64) -> Self { Gen { rng: Rng::new(seed) } }
    fn r(&mut self, n: usize) -> usize { self.rng.below(n) }
    fn ch(&mut self, num: u64, den: u64) -> bool { self.rng.chance(num, den) }
    fn pick(&mut self, xs: &[&str]) -> String { xs[self.r(xs.len())].to_string() }

    pub fn seg(&mut self) -> String {
        match self.r(20) {
            0..=9 => self.pick(CONS),
            10..=17 => self.pick(VOWS),
            _ => self.pick(RARE),
        }
    }

    /// a word as text: 1-4 syllables, optional stress marks, tones, length marks
    pub fn word(&mut self) -> String {
        let nsyll = 1 + self.r(4);
        let mut out = String::new();
        for i in 0..nsyll {
            match self.r(8) { 0 => out.push('ˈ'), 1 => out.push('ˌ'), _ => if i > 0 { out.push('.') } }
            let nseg = 1 + self.r(4);
            // CV-ish shapes so that C/V rules fire
            for j in 0..nseg {
                let s = if self.ch(1, 8) { self.pick(RARE) } else if (j % 2 == 0) ^ self.ch(1, 5) { self.pick(CONS) } else { self.pick(VOWS) };
                out.push_str(&s);
                if self.ch(1, 8) { out.push('ː'); if self.ch(1, 4) { out.push('ː'); } }
            }
            if self.ch(1, 6) { out.push_str(TONES[self.r(5)]); }
        }
        out
    }

    /// one consonant or vowel of the core inventory
    pub fn pick_cv(&mut self) -> String { if self.ch(1, 2) { self.pick(CONS) } else { self.pick(VOWS) } }

    pub fn words(&mut self, n: usize) -> Vec<String> { (0..n).map(|_| self.word()).collect() }

    fn binmod(&mut self) -> &'static str { if self.ch(1, 2) { "+" } else { "-" } }

    fn alpha(&mut self) -> String { ["α", "β", "γ", "A", "B"][self.r(5)].to_string() }

    /// `[±f, …]` possibly with suprasegmentals / alphas / nodes
    pub fn matrix(&mut self, p: Profile, allow_supra: bool, allow_alpha: bool) -> String {
        let n = if p == Profile::Basic { 1 + self.r(2) } else { self.r(4) };
        let mut args: Vec<String> = Vec::new();
        for _ in 0..n {
            let k = self.r(if p == Profile::Basic { 10 } else { 16 });
            match k {
                0..=9 => { let f = self.pick(FEATS); let m = if allow_alpha && p != Profile::Basic && self.ch(1, 6) { let a = self.alpha(); if self.ch(1, 4) { format!("-{a}") } else { a } } else { self.binmod().to_string() }; args.push(format!("{m}{f}")); }
                10..=11 => { let f = self.pick(NODES); let m = if allow_alpha && self.ch(1, 4) { self.alpha() } else { self.binmod().to_string() }; args.push(format!("{m}{f}")); }
                12..=14 if allow_supra => { let f = ["long", "overlong", "stress", "secstress"][self.r(4)]; let m = if allow_alpha && self.ch(1, 6) { self.alpha() } else { self.binmod().to_string() }; args.push(format!("{m}{f}")); }
                15 if allow_supra => { args.push(format!("tone:{}", TONES[self.r(TONES.len())])); }
                _ => { let f = self.pick(FEATS); args.push(format!("{}{f}", self.binmod())); }
            }
        }
        format!("[{}]", args.join(", "))
    }

    fn ipa_el(&mut self, p: Profile, mods: bool) -> String {
        let s = self.seg();
        if mods && p != Profile::Basic && self.ch(1, 4) { format!("{s}:{}", self.matrix(p, true, true)) } else { s }
    }

    fn group_el(&mut self, p: Profile) -> String {
        let g = self.pick(GROUPS);
        if p != Profile::Basic && self.ch(1, 4) { format!("{g}:{}", self.matrix(p, true, true)) } else { g }
    }

    /// a single segment-matching element
    pub fn seg_el(&mut self, p: Profile) -> String {
        match self.r(10) {
            0..=3 => self.ipa_el(p, true),
            4..=6 => self.group_el(p),
            7..=8 => self.matrix(p, p != Profile::Basic, p != Profile::Basic),
            _ => format!("{{{}}}", (0..2 + self.r(2)).map(|_| if self.ch(1, 2) { self.seg() } else { self.pick(GROUPS) }).collect::<Vec<_>>().join(", ")),
        }
    }

    fn syll_el(&mut self) -> String {
        let mut s = "%".to_string();
        if self.ch(1, 3) { s.push_str(&format!(":[{}{}]", self.binmod(), ["stress", "secstress"][self.r(2)])); }
        else if self.ch(1, 4) { s.push_str(&format!(":[tone:{}]", TONES[self.r(TONES.len())])); }
        s
    }

    fn struct_el(&mut self, p: Profile) -> String {
        let n = 1 + self.r(3);
        let mut items = Vec::new();
        for _ in 0..n {
            items.push(match self.r(6) { 0 => "..".to_string(), 1 | 2 => self.pick(GROUPS), 3 => self.matrix(p, false, false), _ => self.seg() });
        }
        let mut s = format!("⟨{}⟩", items.join(" "));
        if self.ch(1, 4) { s.push_str(&format!(":[{}stress]", self.binmod())); }
        s
    }

    /// environment side: list of elements
    fn env_side(&mut self, p: Profile, before: bool) -> String {
        let n = match p { Profile::Basic => self.r(3), _ => self.r(4) };
        let mut els: Vec<String> = Vec::new();
        for _ in 0..n {
            let k = self.r(if p == Profile::Basic { 11 } else { 16 });
            els.push(match k {
                0..=8 => self.seg_el(p),
                9..=10 => "$".to_string(),
                11 => self.syll_el(),
                12 => { let inner = self.seg_el(p); match self.r(4) { 0 => format!("({inner})"), 1 => format!("({inner},0)"), 2 => format!("({inner},1:2)"), _ => format!("({inner},{})", 1 + self.r(3)) } },
                13 => if p == Profile::Tame { self.seg_el(p) } else { "...".to_string() },
                14 => self.struct_el(p),
                _ => self.seg_el(p),
            });
        }
        if self.ch(1, 6) { if before { els.insert(0, "#".into()); } else { els.push("#".into()); } }
        els.join(" ")
    }

    fn env(&mut self, p: Profile) -> String {
        let one = |g: &mut Gen| { let b = g.env_side(p, true); let a = g.env_side(p, false); format!("{b} _ {a}").trim().to_string() };
        match self.r(10) {
            0 if p != Profile::Basic => { let x = self.env_side(p, false); if x.is_empty() { "_".into() } else { format!("_,{x}") } },
            1 | 2 => format!(":{{ {}, {} }}:", one(self), one(self)),
            _ => one(self),
        }
    }

    fn with_env(&mut self, p: Profile, core: String, force_env: bool) -> String {
        let mut r = core;
        if force_env || self.ch(3, 5) { r.push_str(" / "); r.push_str(&self.env(p)); }
        if self.ch(1, 5) { r.push_str(if self.ch(1, 2) { " | " } else { " // " }); r.push_str(&self.env(p)); }
        r
    }

    pub fn basic_rule(&mut self) -> String {
        let inp = self.seg_el(Profile::Basic);
        let out = if inp.starts_with('{') {
            let n = inp.matches(',').count() + 1;
            format!("{{{}}}", (0..n).map(|_| self.seg()).collect::<Vec<_>>().join(", "))
        } else if self.ch(1, 2) { self.seg() } else { self.matrix(Profile::Basic, false, false) };
        let arrow = [">", "=>", "->"][self.r(3)];
        self.with_env(Profile::Basic, format!("{inp} {arrow} {out}"), false)
    }

    fn out_el(&mut self, p: Profile) -> String {
        match self.r(8) { 0..=3 => self.ipa_el(p, true), 4..=6 => self.matrix(p, true, false), _ => self.seg() }
    }

    /// a rule from the full grammar
    pub fn rule(&mut self, p: Profile) -> String {
        if p == Profile::Basic { return self.basic_rule() }
        let arrow = [">", "=>", "->"][self.r(3)];
        let kind = self.r(20);
        let core = match kind {
            // substitution, k in / k out
            0..=7 => {
                let k = 1 + self.r(2);
                // inputs are mostly segment elements; sometimes a structure or a syllable (followed / preceded by others)
                let ins: Vec<String> = (0..k).map(|_| match self.r(12) { 0 => self.struct_el(p), 1 => self.syll_el(), 2 if p == Profile::Full => "$".to_string(), _ => self.seg_el(p) }).collect();
                let outs: Vec<String> = ins.iter().map(|i| if i == "$" { "$".to_string() } else if i.starts_with('{') { let n = i.matches(',').count() + 1; format!("{{{}}}", (0..n).map(|_| self.seg()).collect::<Vec<_>>().join(", ")) } else { self.out_el(p) }).collect();
                let mut o = outs.join(" ");
                // occasionally uneven lengths (sub-insert / sub-delete)
                if self.ch(1, 8) { o.push(' '); o.push_str(&self.seg()); }
                let mut i = ins.join(" ");
                if self.ch(1, 8) { i.push(' '); i.push_str(&self.seg_el(p)); }
                format!("{i} {arrow} {o}")
            }
            // deletion
            8..=10 => { let k = 1 + self.r(2); let ins: Vec<String> = (0..k).map(|_| if self.ch(1, 8) && p != Profile::Tame { "$".to_string() } else if self.ch(1, 10) { self.syll_el() } else if self.ch(1, 10) { self.struct_el(p) } else { self.seg_el(p) }).collect(); format!("{} {arrow} {}", ins.join(" "), if self.ch(1, 2) { "*" } else { "∅" }) }
            // insertion (always with an environment)
            11..=13 => { let o = match self.r(8) { 0 if p != Profile::Tame => "$".to_string(), 1 => format!("{} $", self.seg()), 2 => self.struct_el(p).replace("..", "a"), _ => self.ipa_el(p, true) }; let c = format!("{} {arrow} {o}", if self.ch(1, 2) { "*" } else { "∅" }); return self.ins_env(p, c) }
            // metathesis
            14..=15 => { let a = if self.ch(1, 8) { self.struct_el(p) } else { self.seg_el(p) }; let b = if a.starts_with('⟨') && self.ch(1, 2) { self.struct_el(p) } else { self.seg_el(p) }; let mid = if self.ch(1, 4) && p != Profile::Tame { " ... " } else { " " }; format!("{a}{mid}{b} {arrow} &") }
            // variables
            16 => { let a = self.matrix(p, false, false); let b = self.group_el(p); format!("{a}=1 {b}=2 {arrow} 2 1") }
            // syllable / prosody
            17 => format!("{} {arrow} [{}{}]", self.syll_el(), self.binmod(), ["stress", "secstress"][self.r(2)]),
            18 => format!("{} {arrow} [tone:{}]", if self.ch(1, 2) { self.syll_el() } else { self.group_el(p) }, TONES[self.r(TONES.len())]),
            // condensed
            _ => { let n = 2 + self.r(2); let ins: Vec<String> = (0..n).map(|_| self.seg()).collect(); let outs: Vec<String> = (0..n).map(|_| self.seg()).collect(); format!("{} {arrow} {}", ins.join(", "), outs.join(", ")) }
        };
        let mut r = self.with_env(p, core, false);
        if self.ch(1, 10) { r.push_str(" ;; comment"); }
        r
    }

    fn ins_env(&mut self, p: Profile, core: String) -> String {
        // insertion needs a single (non-set) environment; in Tame avoid `$`/`#`-adjacent fall-backs that hang
        let b = if self.ch(2, 3) { self.seg_el(p) } else { String::new() };
        let a = if b.is_empty() || self.ch(1, 2) { self.seg_el(p) } else { String::new() };
        let b = if p != Profile::Tame && self.ch(1, 6) { format!("{b} $") } else if self.ch(1, 8) && !b.is_empty() { format!("# {b}") } else { b };
        let a = if p != Profile::Tame && self.ch(1, 6) { format!("$ {a}") } else if self.ch(1, 8) && !a.is_empty() { format!("{a} #") } else { a };
        let mut r = format!("{core} / {b} _ {a}");
        if self.ch(1, 8) { r.push_str(&format!(" | {} _", self.seg_el(p))); }
        r
    }

    /// small-inventory word: many partial and full matches for the focused rules below
    pub fn small_word(&mut self) -> String {
        const INV: &[&str] = &["a", "d", "s", "t", "z", "i", "n", "u"];
        let nsyll = 1 + self.r(2);
        let mut out = String::new();
        for i in 0..nsyll {
            if i > 0 { out.push('.'); } else if self.ch(1, 6) { out.push('ˈ'); }
            for _ in 0..1 + self.r(3) { out.push_str(INV[self.r(INV.len())]); if self.ch(1, 10) { out.push('ː'); } }
            if self.ch(1, 8) { out.push_str(TONES[self.r(3)]); }
        }
        out
    }

    /// rules whose input binds an alpha or a variable in its first element and needs a second element to complete:
    /// the shape on which a binding left over from an aborted match (or from another word) would show
    pub fn binding_rule(&mut self) -> String {
        const AF: &[&str] = &["voice", "nasal", "cont", "high", "back", "son", "syll", "long", "stress"];
        let a = self.alpha();
        let f = AF[self.r(AF.len())];
        let first = match self.r(4) { 0 => format!("[-son, {a}{f}]"), 1 => format!("C:[{a}{f}]"), 2 => format!("[{a}{f}]"), _ => format!("V:[{a}{f}]") };
        let second = match self.r(5) { 0 => "[-son]".to_string(), 1 => "C".to_string(), 2 => "V".to_string(), 3 => "$".to_string(), _ => self.seg_el(Profile::Basic) };
        let g = AF[self.r(7)];
        match self.r(6) {
            0 => format!("{first} {second} > [{a}{g}] [{a}{g}]"),
            1 => format!("{first} {second} > [{a}{f}] [-{a}{f}]"),
            2 => format!("{first}=1 {second} > 1 1"),
            3 => format!("{first}=1 {second}=2 > 2 1"),
            4 => format!("{second} > [{a}{g}] / {first} _"),
            _ => format!("{first} {second} > * [{a}{g}]"),
        }
    }

    /// short rules over the small inventory whose input and output mix segments, `$`, `%` and wildcards in every order and
    /// with unequal lengths: the shapes whose index arithmetic is decided at the edges of a word
    pub fn edge_rule(&mut self) -> String {
        const IN: &[&str] = &["a", "d", "s", "t", "i", "n", "$", "$", "[]", "C", "V", "%", "a:[+long]", "[-syll]"];
        const OUT: &[&str] = &["e", "o", "k", "$", "$", "[+voice]", "[+nasal]", "e:[+long]", "[+long]", "[-long]", "[+stress]"];
        let ni = 1 + self.r(3);
        let input: Vec<&str> = (0..ni).map(|_| IN[self.r(IN.len())]).collect();
        let out = match self.r(8) {
            0 | 2 => "*".to_string(),
            1 => "&".to_string(),
            _ => { let no = 1 + self.r(3); (0..no).map(|_| OUT[self.r(OUT.len())]).collect::<Vec<_>>().join(" ") }
        };
        let env = match self.r(6) { 0 => " / _ #", 1 => " / # _", 2 => " / _ $", 3 => " / V _", 4 => " | _ a", _ => "" };
        format!("{} > {}{}", input.join(" "), out, env)
    }

    pub fn rules(&mut self, p: Profile, n: usize) -> Vec<String> { (0..n).map(|_| self.rule(p)).collect() }

    /// split a rule list into groups at random (possibly with empty groups)
    pub fn regroup(&mut self, rules: &[String]) -> Vec<Vec<String>> {
        let mut groups: Vec<Vec<String>> = vec![vec![]];
        for r in rules {
            if self.ch(1, 3) { groups.push(vec![]); if self.ch(1, 5) { groups.push(vec![]); } }
            groups.last_mut().unwrap().push(r.clone());
        }
        if self.ch(1, 4) { groups.push(vec![]); }
        groups
    }
}
