//! C05: stress / length / tone modifiers follow the manual's tables — exhaustive over the property's space,
//! through the real rule pipeline, against a table model written from the manual.
use asca::verif::{self, SegS, SyllS, WordS};
use asca::RuleGroup;
use crate::util::*;

#[derive(Clone, Copy, PartialEq, Eq, Debug)]
pub struct St { pub len: usize, pub stress: u8, pub tone: u16 }

type B3 = Option<bool>;
#[derive(Clone, Copy, PartialEq, Eq, Debug)]
pub struct SM { pub long: B3, pub over: B3, pub stress: B3, pub sec: B3, pub tone: Option<u16> }

impl SM {
    pub fn text(&self) -> String {
        let mut a: Vec<String> = Vec::new();
        let pm = |b: bool| if b { "+" } else { "-" };
        if let Some(b) = self.long { a.push(format!("{}long", pm(b))); }
        if let Some(b) = self.over { a.push(format!("{}overlong", pm(b))); }
        if let Some(b) = self.stress { a.push(format!("{}stress", pm(b))); }
        if let Some(b) = self.sec { a.push(format!("{}secstress", pm(b))); }
        if let Some(t) = self.tone { a.push(format!("tone:{t}")); }
        a.join(", ")
    }
    pub fn is_empty(&self) -> bool { self.long.is_none() && self.over.is_none() && self.stress.is_none() && self.sec.is_none() && self.tone.is_none() }
}

// ---- the manual's tables ----
pub fn len_ok(m: &SM, l: usize) -> bool {
    (match m.long { None => true, Some(true) => l >= 2, Some(false) => l <= 1 }) && (match m.over { None => true, Some(true) => l >= 3, Some(false) => l <= 2 })
}
pub fn stress_ok(m: &SM, s: u8) -> bool {
    (match m.stress { None => true, Some(true) => s != 0, Some(false) => s == 0 }) && (match m.sec { None => true, Some(true) => s == 2, Some(false) => s != 2 })
}
pub fn tone_ok(m: &SM, t: u16) -> bool { match m.tone { None => true, Some(x) => x == t } }
pub fn set_len(m: &SM, l: usize) -> Option<usize> {
    match (m.long, m.over) {
        (None, None) => Some(l), (None, Some(true)) => Some(l.max(3)), (None, Some(false)) => Some(l.min(2)),
        (Some(true), None) => Some(l.max(2)), (Some(false), None) => Some(1),
        (Some(true), Some(true)) => Some(l.max(3)), (Some(true), Some(false)) => Some(2), (Some(false), Some(false)) => Some(1),
        (Some(false), Some(true)) => None,
    }
}
pub fn set_stress(m: &SM, s: u8) -> Option<u8> {
    match (m.stress, m.sec) {
        (None, None) => Some(s), (None, Some(true)) => Some(2), (None, Some(false)) => Some(if s == 2 { 0 } else { s }),
        (Some(true), None) => Some(1), (Some(false), None) => Some(0),
        (Some(true), Some(true)) => Some(2), (Some(true), Some(false)) => Some(1), (Some(false), Some(false)) => Some(0),
        (Some(false), Some(true)) => None,
    }
}

pub fn all_mods() -> Vec<SM> {
    let b3 = [None, Some(true), Some(false)];
    let tones = [None, Some(5u16), Some(51), Some(1234), Some(7)];
    let mut v = Vec::new();
    for l in b3 { for o in b3 { for s in b3 { for c in b3 { for t in tones { v.push(SM { long: l, over: o, stress: s, sec: c, tone: t }); } } } } }
    v
}
pub fn all_states() -> Vec<St> {
    let mut v = Vec::new();
    for len in 1..=3 { for stress in 0..3u8 { for tone in [0u16, 5, 51, 1234] { v.push(St { len, stress, tone }); } } }
    v
}

const A: SegS = (3, 192, 4, Some(8212));   // filled from the table at run time (see seg())
fn seg(txt: &str) -> SegS { verif::parse_word(txt, &[]).ok().map(|w| w.sylls[0].segs[0]).unwrap_or(A) }

/// word: one syllable with the target run of `a` at `where_` (0 first, 1 middle, 2 last) among `t`, `k`; then a second syllable `pu`
pub fn build_word(st: St, where_: usize) -> (WordS, usize) {
    let (a, t, k, p, u) = (seg("a"), seg("t"), seg("k"), seg("p"), seg("u"));
    let run: Vec<SegS> = vec![a; st.len];
    let (segs, pos) = match where_ { 0 => ([run, vec![t, k]].concat(), 0), 1 => ([vec![t], run, vec![k]].concat(), 1), _ => ([vec![t, k], run].concat(), 2) };
    (WordS { sylls: vec![SyllS { stress: st.stress, tone: st.tone, segs }, SyllS { stress: 0, tone: 0, segs: vec![p, u] }] }, pos)
}

fn apply(rule: &str, w: &WordS) -> Out<WordS> {
    let g = [RuleGroup::from_rules(vec![rule.to_string()])];
    match guarded(|| verif::apply_rules_structural(&g, w)) { Out::Ok(mut v) => Out::Ok(v.pop().unwrap_or_else(|| w.clone())), Out::Err(e) => Out::Err(e), Out::Panic(p) => Out::Panic(p), Out::Hang(h) => Out::Hang(h) }
}

/// `c05-spec <tier>`
pub fn spec(args: &[String]) -> i32 {
    quiet_panics();
    let thorough = args.get(0).map(|s| s == "thorough").unwrap_or(false);
    let mods = all_mods();
    let states = all_states();
    let a = seg("a");
    let mut n = 0u64; let mut nontrivial = 0u64; let mut findings = 0u64;
    let kinds: &[&str] = if thorough { &["ipa", "group", "matrix", "syll"] } else { &["matrix", "syll", "ipa"] };
    for st in &states { for m in &mods { for wh in 0..3 {
        if !thorough && m.tone == Some(1234) { continue }
        let (w, pos) = build_word(*st, wh);
        for kind in kinds {
            // ---------- matching ----------
            let mt = m.text();
            let (rule, is_syll) = match *kind {
                "ipa" => (if m.is_empty() { "a > [+nasal]".to_string() } else { format!("a:[{mt}] > [+nasal]") }, false),
                "group" => (if m.is_empty() { "V:[+low] > [+nasal]".into() } else { format!("V:[+low, {mt}] > [+nasal]") }, false),
                "matrix" => (if m.is_empty() { "[+syll, +low] > [+nasal]".into() } else { format!("[+syll, +low, {mt}] > [+nasal]") }, false),
                _ => (if m.is_empty() { "% > [tone:9]".to_string() } else { format!("%:[{mt}] > [tone:9]") }, true),
            };
            n += 1;
            let res = apply(&rule, &w);
            if !is_syll {
                let want = len_ok(m, st.len) && stress_ok(m, st.stress) && tone_ok(m, st.tone);
                match &res {
                    Out::Ok(r) => {
                        let got = r.sylls[0].segs.iter().any(|s| *s != a && s.1 & 16 != 0 && s.0 == a.0);
                        if got { nontrivial += 1; }
                        if got != want { findings += 1; println!("FINDING c05-match rule={rule:?} state={st:?} where={wh} got={got} want={want}"); }
                        // everything except the nasal bit of the target run is unchanged
                    }
                    o => { findings += 1; println!("FINDING c05-match-outcome rule={rule:?} state={st:?} where={wh} outcome={}", o.class()); }
                }
            } else if wh == 0 {
                // `%` carries stress and tone only; length modifiers on `%` are not in the manual's tables
                if m.long.is_some() || m.over.is_some() { continue }
                let want = stress_ok(m, st.stress) && tone_ok(m, st.tone);
                match &res {
                    Out::Ok(r) => { let got = r.sylls[0].tone == 9; if got { nontrivial += 1; }
                        if got != want { findings += 1; println!("FINDING c05-match-syll rule={rule:?} state={st:?} got={got} want={want}"); } }
                    o => { findings += 1; println!("FINDING c05-match-outcome rule={rule:?} state={st:?} outcome={}", o.class()); }
                }
            }
            // ---------- setting ----------
            if m.is_empty() { continue }
            let (rule, is_syll) = match *kind {
                "ipa" => (format!("a > [{mt}]"), false),
                "group" => (format!("V:[+low] > [{mt}]"), false),
                "matrix" => (format!("[+syll, +low] > [{mt}]"), false),
                _ => (format!("%:[{}] > [{mt}] / #_", match st.stress { 0 => "-stress", 1 => "+stress, -secstress", _ => "+secstress" }), true),
            };
            if is_syll && wh != 0 { continue }
            n += 1;
            let res = apply(&rule, &w);
            let want_len = if is_syll { Some(st.len) } else { set_len(m, st.len) };
            let want_stress = set_stress(m, st.stress);
            let want_tone = m.tone.unwrap_or(st.tone);
            match (&res, want_len, want_stress) {
                (Out::Ok(r), Some(wl), Some(ws)) => {
                    let (mut ww, _) = build_word(St { len: wl, stress: ws, tone: want_tone }, wh);
                    ww.sylls[1] = w.sylls[1].clone();
                    if *r != w { nontrivial += 1; }
                    if *r != ww {
                        findings += 1;
                        let runlen = r.sylls.get(0).map(|s| s.segs.iter().filter(|x| **x == a).count()).unwrap_or(0);
                        println!("FINDING c05-set{} rule={rule:?} state={st:?} where={wh} pos={pos} got_len={runlen} got_stress={:?} got_tone={:?} want=({wl},{ws},{want_tone})",
                            if st.len >= 2 && (m.long.is_some() || m.over.is_some()) && !is_syll { "-longrun" } else { "" }, r.sylls.get(0).map(|s| s.stress), r.sylls.get(0).map(|s| s.tone));
                    }
                }
                (Out::Err(e), wl, ws) => {
                    let k = err_kind(e);
                    let expected = (wl.is_none() && k.ends_with("OverlongPosLongNeg")) || (ws.is_none() && k.ends_with("SecStrPosStrNeg"));
                    if !expected { findings += 1; println!("FINDING c05-set-error rule={rule:?} state={st:?} where={wh} err={k}"); }
                }
                (Out::Ok(_), _, _) => { findings += 1; println!("FINDING c05-set-no-error rule={rule:?} state={st:?} where={wh} contradictory combination accepted"); }
                (o, _, _) => { findings += 1; println!("FINDING c05-set-outcome rule={rule:?} state={st:?} where={wh} outcome={}", o.class()); }
            }
        }
    } } }
    println!("STAT c05.cases {n}");
    println!("STAT c05.nontrivial {nontrivial}");
    println!("STAT c05.findings {findings}");
    println!("SAMPLE a:[+long, -stress] > [+nasal] on t-aa-k.pu (unstressed, tone 51)");
    0
}
