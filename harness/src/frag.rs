//! C03: the basic fragment, a reference interpreter written from the manual, and the comparison with the
//! implementation (structural, through the hooks).
use asca::verif::{self, SegS, SyllS, WordS};
use asca::RuleGroup;
use crate::c04::{spec_apply, seg_toks};
use crate::gen::FEATS;
use crate::util::*;

#[derive(Clone, Debug, PartialEq)]
pub enum El {
    Ipa(String),
    /// matrix: (feature index, polarity)*, (node index 3..8, polarity)*
    Mat(Vec<(usize, bool)>, Vec<(usize, bool)>),
    Grp(char),
    Set(Vec<El>),
    SyllB,
    WordB,
}

const NODE_NAMES: [&str; 8] = ["root", "manner", "lar", "place", "lab", "cor", "dor", "phr"];

pub fn group_feats(g: char) -> Vec<(usize, bool)> {
    // doc.md §Groupings; feature indices: cons 0, son 1, syll 2, cont 3, approx 4, nasal 6, delrel 7
    match g {
        'C' => vec![(2, false)],
        'O' => vec![(0, true), (1, false), (2, false)],
        'S' => vec![(0, true), (1, true), (2, false)],
        'P' => vec![(0, true), (1, false), (2, false), (7, false), (3, false)],
        'F' => vec![(0, true), (1, false), (2, false), (4, false), (3, true)],
        'L' => vec![(0, true), (1, true), (2, false), (4, true)],
        'N' => vec![(0, true), (1, true), (2, false), (4, false), (6, true)],
        'G' => vec![(0, false), (1, true), (2, false)],
        'V' => vec![(0, false), (1, true), (2, true)],
        _ => vec![],
    }
}

impl El {
    pub fn text(&self) -> String {
        match self {
            El::Ipa(s) => s.clone(),
            El::Mat(f, n) => {
                let mut a: Vec<String> = n.iter().map(|(i, p)| format!("{}{}", if *p { "+" } else { "-" }, NODE_NAMES[*i])).collect();
                a.extend(f.iter().map(|(i, p)| format!("{}{}", if *p { "+" } else { "-" }, FEATS[*i])));
                format!("[{}]", a.join(", "))
            }
            El::Grp(c) => c.to_string(),
            El::Set(v) => format!("{{{}}}", v.iter().map(|e| e.text()).collect::<Vec<_>>().join(", ")),
            El::SyllB => "$".into(),
            El::WordB => "#".into(),
        }
    }
}

fn seg_of(t: &str) -> SegS { verif::parse_word(t, &[]).ok().map(|w| w.sylls[0].segs[0]).expect("inventory grapheme") }

fn node_present(s: &SegS, node: usize) -> bool {
    match node { 3 => s.3.is_some(), 4 => s.3.map_or(false, |p| p & 0x8000 != 0), 5 => s.3.map_or(false, |p| p & 0x4000 != 0),
        6 => s.3.map_or(false, |p| p & 0x2000 != 0), 7 => s.3.map_or(false, |p| p & 0x1000 != 0), _ => true }
}

/// does a one-segment element match this segment? (for sets: index of the first alternative that does)
fn seg_matches(e: &El, s: &SegS) -> Option<usize> {
    match e {
        El::Ipa(t) => if seg_of(t) == *s { Some(0) } else { None },
        El::Mat(f, n) => if f.iter().all(|(i, p)| crate::c04::spec_match(*s, *i, *p)) && n.iter().all(|(i, p)| node_present(s, *i) == *p) { Some(0) } else { None },
        El::Grp(g) => if group_feats(*g).iter().all(|(i, p)| crate::c04::spec_match(*s, *i, *p)) { Some(0) } else { None },
        El::Set(v) => v.iter().position(|a| seg_matches(a, s).is_some()),
        _ => None,
    }
}

fn apply_out(e: &El, s: &SegS) -> SegS {
    match e {
        El::Ipa(t) => seg_of(t),
        El::Mat(f, n) => {
            let mut r = *s;
            for (i, p) in n {   // nodes first: `-place`, `-node` remove; `+node` adds an empty node
                if !*p { if *i == 3 { r.3 = None } else { let (bit, low): (u16, u16) = [(0x8000, 0xc00), (0x4000, 0x300), (0x2000, 0xfc), (0x1000, 0x3)][*i - 4]; if let Some(pl) = r.3 { let q = pl & !(bit | low); r.3 = if q == 0 { None } else { Some(q) } } } }
                else if *i >= 4 && !node_present(&r, *i) { let bit: u16 = [0x8000, 0x4000, 0x2000, 0x1000][*i - 4]; r.3 = Some(r.3.unwrap_or(0) | bit) }
            }
            let mut fs = f.clone(); fs.sort();
            for (i, p) in fs { r = spec_apply(r, i, p); }
            r
        }
        El::Grp(g) => { let mut r = *s; let mut fs = group_feats(*g); fs.sort(); for (i, p) in fs { r = spec_apply(r, i, p); } r }
        _ => *s,
    }
}

#[derive(Clone, Debug)]
pub struct Env { pub before: Vec<El>, pub after: Vec<El> }
impl Env { pub fn text(&self) -> String { format!("{} _ {}", self.before.iter().map(|e| e.text()).collect::<Vec<_>>().join(" "), self.after.iter().map(|e| e.text()).collect::<Vec<_>>().join(" ")).trim().to_string() } }

#[derive(Clone, Debug)]
pub struct BasicRule { pub input: El, pub output: El, pub context: Vec<Env>, pub except: Vec<Env> }

fn envs_text(v: &[Env]) -> String { if v.len() == 1 { v[0].text() } else { format!(":{{ {} }}:", v.iter().map(|e| e.text()).collect::<Vec<_>>().join(", ")) } }

impl BasicRule {
    pub fn text(&self) -> String {
        let mut s = format!("{} > {}", self.input.text(), self.output.text());
        if !self.context.is_empty() { s.push_str(" / "); s.push_str(&envs_text(&self.context)); }
        if !self.except.is_empty() { s.push_str(" | "); s.push_str(&envs_text(&self.except)); }
        s
    }
}

/// flat view of a word: (segment, syllable index)
fn flat(w: &WordS) -> Vec<(SegS, usize)> { w.sylls.iter().enumerate().flat_map(|(i, sy)| sy.segs.iter().map(move |s| (*s, i))).collect() }

/// match a context side walking in direction `dir` from index `i` (exclusive start handled by the caller)
fn side_matches(els: &[El], segs: &[(SegS, usize)], mut idx: isize, dir: isize) -> bool {
    // idx = the position to look at next; for `dir = -1` the elements are read from the one nearest the target outwards
    let n = segs.len() as isize;
    let syll_edge = |a: isize, b: isize| -> bool { a < 0 || b < 0 || a >= n || b >= n || segs[a as usize].1 != segs[b as usize].1 };
    for e in els {
        match e {
            El::WordB => { if idx >= 0 && idx < n { return false } }
            El::SyllB => { let prev = idx - dir; if !syll_edge(prev, idx) { return false } }
            one => { if idx < 0 || idx >= n { return false } if seg_matches(one, &segs[idx as usize].0).is_none() { return false } idx += dir; }
        }
    }
    true
}

fn env_matches(env: &Env, segs: &[(SegS, usize)], i: usize) -> bool {
    let bef: Vec<El> = env.before.iter().rev().cloned().collect();
    side_matches(&bef, segs, i as isize - 1, -1) && side_matches(&env.after, segs, i as isize + 1, 1)
}

/// the manual's reading of a basic rule: scan left to right; the left context sees the already rewritten prefix
pub fn reference_apply(r: &BasicRule, w: &WordS) -> (WordS, bool) {
    let mut segs = flat(w);
    let mut no_adj_eq = true;
    let adj = |segs: &Vec<(SegS, usize)>| segs.windows(2).all(|p| !(p[0].0 == p[1].0 && p[0].1 == p[1].1));
    if !adj(&segs) { no_adj_eq = false; }
    for i in 0..segs.len() {
        let Some(alt) = seg_matches(&r.input, &segs[i].0) else { continue };
        let c = r.context.is_empty() || r.context.iter().any(|e| env_matches(e, &segs, i));
        let x = r.except.iter().any(|e| env_matches(e, &segs, i));
        if c && !x {
            let out = match (&r.output, &r.input) { (El::Set(o), El::Set(_)) => &o[alt], (o, _) => o };
            segs[i].0 = apply_out(out, &segs[i].0);
            if !adj(&segs) { no_adj_eq = false; }
        }
    }
    let mut out = w.clone();
    let mut k = 0;
    for sy in out.sylls.iter_mut() { for s in sy.segs.iter_mut() { *s = segs[k].0; k += 1; } }
    (out, no_adj_eq)
}

pub const INV: [&str; 7] = ["p", "t", "k", "a", "i", "n", "s"];

fn gen_one(g: &mut crate::gen::Gen, allow_set: bool) -> El {
    match g.rng.below(if allow_set { 12 } else { 10 }) {
        0..=4 => El::Ipa(INV[g.rng.below(7)].to_string()),
        5 => El::Mat(vec![], vec![]),
        6 => El::Grp(['C', 'V'][g.rng.below(2)]),
        7 => El::Mat(vec![[(11, true), (3, false), (6, true)][g.rng.below(3)]], vec![]),
        8 => El::Grp(['O', 'S', 'P', 'F', 'N'][g.rng.below(5)]),
        9 => El::Mat(vec![[(11, false), (3, true), (1, true), (20, true)][g.rng.below(4)]], if g.rng.chance(1, 4) { vec![([4usize, 5, 6][g.rng.below(3)], g.rng.chance(1, 2))] } else { vec![] }),
        _ => { let n = 2 + g.rng.below(2); El::Set((0..n).map(|_| gen_one(g, false)).collect()) }
    }
}

fn gen_side(g: &mut crate::gen::Gen, before: bool, maxlen: usize) -> Vec<El> {
    let n = g.rng.below(maxlen + 1);
    let mut v: Vec<El> = (0..n).map(|_| if g.rng.chance(1, 6) { El::SyllB } else { gen_one(g, true) }).collect();
    if g.rng.chance(1, 8) { if before { v.insert(0, El::WordB) } else { v.push(El::WordB) } }
    v
}

fn gen_envs(g: &mut crate::gen::Gen, maxlen: usize) -> Vec<Env> {
    let n = match g.rng.below(6) { 0 | 1 => 0, 2 | 3 | 4 => 1, _ => 2 + g.rng.below(2) };
    (0..n).map(|_| Env { before: gen_side(g, true, maxlen), after: gen_side(g, false, maxlen) }).collect()
}

pub fn gen_rule(g: &mut crate::gen::Gen) -> BasicRule {
    let input = gen_one(g, true);
    let output = match &input {
        El::Set(v) => if g.rng.chance(2, 3) { El::Set((0..v.len()).map(|_| if g.rng.chance(1, 2) { El::Ipa(INV[g.rng.below(7)].to_string()) } else { El::Mat(vec![[(11, true), (11, false), (6, true), (3, true), (20, true)][g.rng.below(5)]], vec![]) }).collect()) } else { El::Ipa(INV[g.rng.below(7)].to_string()) },
        _ => if g.rng.chance(1, 2) { El::Ipa(INV[g.rng.below(7)].to_string()) } else { El::Mat(vec![[(11, true), (11, false), (6, true), (6, false), (3, true), (3, false), (20, true), (15, true)][g.rng.below(8)]], if g.rng.chance(1, 6) { vec![([3usize, 4, 5, 6][g.rng.below(4)], false)] } else { vec![] }) },
    };
    let context = gen_envs(g, 2);
    let except = if g.rng.chance(1, 3) { gen_envs(g, 1) } else { vec![] };
    BasicRule { input, output, context, except }
}

/// every syllabification of `segs` is a bit pattern of boundaries
pub fn gen_word(g: &mut crate::gen::Gen) -> WordS {
    let n = 1 + g.rng.below(6);
    let mut sylls: Vec<SyllS> = vec![SyllS { stress: [0, 0, 1, 2][g.rng.below(4)], tone: [0, 0, 0, 5, 51][g.rng.below(5)], segs: vec![] }];
    for k in 0..n {
        if k > 0 && g.rng.chance(2, 5) { sylls.push(SyllS { stress: [0, 0, 1, 2][g.rng.below(4)], tone: [0, 0, 0, 5, 51][g.rng.below(5)], segs: vec![] }); }
        sylls.last_mut().unwrap().segs.push(seg_of(INV[g.rng.below(7)]));
    }
    WordS { sylls }
}

/// `c03-spec <tier> <seed>`
pub fn spec(args: &[String]) -> i32 {
    quiet_panics();
    let thorough = args.get(0).map(|s| s == "thorough").unwrap_or(false);
    let seed: u64 = args.get(1).and_then(|s| s.parse().ok()).unwrap_or(1);
    let mut g = crate::gen::Gen::new(seed ^ 0xC03);
    let nrules = if thorough { 200000 } else { 12000 };
    let per = 12;
    let mut st = crate::runner::Stats::new();
    for _ in 0..nrules {
        let r = gen_rule(&mut g);
        let text = r.text();
        let grp = [RuleGroup::from_rules(vec![text.clone()])];
        for _ in 0..per {
            let w = gen_word(&mut g);
            let (want, ok) = reference_apply(&r, &w);
            if !ok { st.inc("c03.skipped_adjacent_equal"); continue }
            st.inc("c03.cases");
            if want != w { st.inc("c03.changed"); }
            match guarded(|| verif::apply_rules_structural(&grp, &w)) {
                Out::Ok(v) => { let got = v.last().cloned().unwrap_or_else(|| w.clone());
                    if got != want { println!("FINDING c03-differs rule={text:?} word={} got={} want={}", crate::words::word_flat(&w, false), crate::words::word_flat(&got, false), crate::words::word_flat(&want, false)); } }
                Out::Err(e) => { st.inc(&format!("c03.err.{}", err_kind(&e))); if !e.starts_with("RuleSyn") { println!("FINDING c03-error rule={text:?} word={} err={}", crate::words::word_flat(&w, false), err_kind(&e)); } break }
                o => { println!("FINDING c03-outcome rule={text:?} word={} outcome={}", crate::words::word_flat(&w, false), o.class()); }
            }
        }
        if st.samples.len() < 6 { st.sample(text); }
    }
    st.print();
    let _ = seg_toks;
    0
}
