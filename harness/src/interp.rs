//! Correspondence of the Lean interpreter port with `Rule::apply`: generated (rules, word) cases; the parsed rule
//! is exported by the `verif::parse_rule_ast` hook, the result compared structurally.
use std::io::Write;
use asca::verif::{self, WordS};
use asca::RuleGroup;
use crate::gen::{Gen, Profile};
use crate::util::*;
use crate::words::word_flat;

pub const MODEL_FUEL: usize = 400;

/// canonical outcome line, same format as the driver's `apply`
pub fn outcome_line(o: &Out<WordS>) -> String {
    match o {
        Out::Ok(w) => word_flat(w, false),
        Out::Err(e) => format!("err {}", err_kind(e).split('.').nth(1).unwrap_or("?")),
        Out::Panic(_) => "panic".into(),
        Out::Hang(_) => "fuel".into(),
    }
}

pub fn apply_impl(rules: &[String], w: &WordS) -> Out<WordS> {
    let g = [RuleGroup::from_rules(rules.to_vec())];
    match guarded(|| verif::apply_rules_structural(&g, w)) {
        Out::Ok(mut v) => Out::Ok(v.pop().unwrap_or_else(|| w.clone())),
        Out::Err(e) => Out::Err(e), Out::Panic(p) => Out::Panic(p), Out::Hang(h) => Out::Hang(h),
    }
}

/// the op line for the driver, or None when a rule does not lex/parse (the front end is not part of this suite)
pub fn op_line(rules: &[String], w: &WordS) -> Option<String> {
    let mut asts = Vec::new();
    for r in rules {
        match guarded(|| verif::parse_rule_ast(r, 0, 0)) { Out::Ok(Some(a)) => asts.push(a), Out::Ok(None) => {}, _ => return None }
    }
    Some(format!("apply {MODEL_FUEL} {} {} ; {}", asts.len(), asts.join(" "), word_flat(w, false)))
}

/// `interp-ops <ops> <impl> <tier> <seed>`
/// minimised past failures and disagreements; they run first (word, rule)
const CORPUS: &[(&str, &str)] = &[
    ("apːa", "[] O => p:[-long] t"), ("apːa", "[] O => p:[+long] t"), ("rpːe", "r p => p:[-long] t"), ("atːa", "[] O => p:[+long] t"),
    ("apːa", "a => p:[-long]"), ("apːa", "a => p"), ("ap.pa", "p => t:[-long]"), ("aːa", "a => a:[+long]"),
    ("atab", "a … b k > *"), ("ha.ta", "* > e / _$x"), ("pata", "p, t, k > b, d, g | _a, _e"), ("tas", "s[+cons] > z"), ("pat", "a > e / _ ({#,t},0) x"), ("pa.ta", "a > e / _ ({$,C},0) i"), ("tak", "C … C > l a b"), ("tak", "C … C > l a"), ("zɛɡ", "[-syll] ... [-rho] > l a b"),
];

/// shapes on which seeded changes of round 8 were first missed by the generated streams; run AFTER the generated cases (no draw moves)
const CORPUS2: &[(&str, &str)] = &[
    ("tsat", "a > e / :{ C=1 _ 1, C=1 s _ 1 }:"), ("tsas", "a > e / :{ C=1 s _ 1, C=1 _ 1 }:"), ("tsapt", "a > e / :{ C=1 s _ 1, C=1 _ p 1 }:"),
    ("tptsat", "V > [+nasal] / :{ [-son]=1 _ 1, [-son]=1 s _ 1 }:"), ("aptips", "i > [+nasal] / :{ O=1 O=2 _ 1 2, [-son]=1 _ 1 }:"),
    ("pata", "*, a > i, e / _#"), ("pat", "t, * > d, i / _#"), ("pata", "a, * > *, i / _#"), ("sa.taaaa.ka", "V > [+stress]"), ("mmmm.ta", "[+son] > [tone: 3]"),
];

pub fn ops(args: &[String]) -> i32 {
    quiet_panics();
    let mut ops = std::io::BufWriter::new(std::fs::File::create(&args[0]).unwrap());
    let mut imp = std::io::BufWriter::new(std::fs::File::create(&args[1]).unwrap());
    let thorough = args.get(2).map(|s| s == "thorough").unwrap_or(false);
    let seed: u64 = args.get(3).and_then(|s| s.parse().ok()).unwrap_or(1);
    let n = if thorough { 400000 } else { 30000 };
    let mut g = Gen::new(seed ^ 0x1A7E);
    let mut st = crate::runner::Stats::new();
    for case in 0..n + CORPUS2.len() {
        let (rules, word): (Vec<String>, String) = match case % 6 {
            _ if case >= n => (vec![CORPUS2[case - n].1.to_string()], CORPUS2[case - n].0.to_string()),
            _ if case < CORPUS.len() => (vec![CORPUS[case].1.to_string()], CORPUS[case].0.to_string()),
            0 => (vec![g.rule(Profile::Basic)], g.word()),
            1 | 2 => (vec![g.rule(Profile::Tame)], g.word()),
            3 => (vec![g.rule(Profile::Full)], g.word()),
            4 => (vec![g.binding_rule()], g.small_word()),
            _ => { let k = 1 + g.rng.below(3); (g.rules(Profile::Tame, k), g.word()) }
        };
        let Out::Ok(w) = guarded(|| verif::parse_word(&word, &[])) else { st.inc("interp.skipped_word"); continue };
        if w.sylls.is_empty() { st.inc("interp.skipped_word"); continue }
        let Some(op) = op_line(&rules, &w) else { st.inc("interp.skipped_rule_syntax"); continue };
        let o = apply_impl(&rules, &w);
        st.inc("interp.cases");
        st.inc(&format!("interp.outcome.{}", match &o { Out::Ok(_) => "ok".to_string(), Out::Err(e) => format!("err.{}", err_kind(e)), Out::Panic(_) => "panic".into(), Out::Hang(_) => "hang".into() }));
        if let Out::Ok(r) = &o { if *r != w { st.inc("interp.changed"); } }
        writeln!(ops, "{op}").unwrap();
        writeln!(imp, "{}", outcome_line(&o)).unwrap();
        if case < 6 { st.sample(format!("{:?} @ {word}", rules)); }
    }
    st.print();
    0
}
