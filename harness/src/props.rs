//! Property searches on the implementation for C06, C07, C08, C12, C14 (structural, through the hooks).
use asca::verif::{self, SegS, SyllS, WordS};
use asca::RuleGroup;
use crate::gen::{Gen, Profile, FEATS, GROUPS};
use crate::runner::Stats;
use crate::util::*;
use crate::words::word_flat;

fn apply(rules: &[String], w: &WordS) -> Out<WordS> { crate::interp::apply_impl(rules, w) }
fn parse(t: &str) -> Option<WordS> { match guarded(|| verif::parse_word(t, &[])) { Out::Ok(w) if !w.sylls.is_empty() => Some(w), _ => None } }
fn segs_of(w: &WordS) -> Vec<SegS> { w.sylls.iter().flat_map(|s| s.segs.clone()).collect() }
fn prosody(w: &WordS) -> Vec<(u8, u16)> { w.sylls.iter().map(|s| (s.stress, s.tone)).collect() }
fn shape(w: &WordS) -> Vec<usize> { w.sylls.iter().map(|s| s.segs.len()).collect() }
fn args2(args: &[String]) -> (bool, u64) { (args.get(0).map(|s| s == "thorough").unwrap_or(false), args.get(1).and_then(|s| s.parse().ok()).unwrap_or(1)) }

// ------------------------------------------------------------------------------------------------ C06

/// a grapheme that does not occur in the word (and is not a prefix-sharing click etc.)
fn absent_literal(w: &WordS) -> &'static str {
    let present = segs_of(w);
    for cand in ["ʙ", "ɮ", "ʡ", "ɧ", "ɶ", "ʢ"] {
        if let Some(p) = parse(cand) { if !present.contains(&p.sylls[0].segs[0]) { return cand } }
    }
    "ʙ"
}

/// split a rule at its first top-level arrow: (input, arrow, rest)
fn split_arrow(rule: &str) -> Option<(String, String, String)> {
    for a in [" => ", " -> ", " > "] { if let Some(i) = rule.find(a) { return Some((rule[..i].to_string(), a.to_string(), rule[i + a.len()..].to_string())) } }
    None
}

fn labels_c06(rule: &str) -> Vec<&'static str> {
    let mut l = Vec::new();
    let Some((inp, _, rest)) = split_arrow(rule) else { return l };
    let inp_t = inp.trim();
    if inp_t.ends_with('$') { l.push("input-ends-with-$") }
    if inp.contains("...") || inp.contains("..") || inp.contains('…') { l.push("input-ellipsis") }
    if inp.contains('{') && inp.contains('%') { l.push("input-set-with-syllable") }
    if inp.contains("=") && inp.split_whitespace().any(|t| t.chars().all(|c| c.is_ascii_digit()) || (t.chars().next().map_or(false, |c| c.is_ascii_digit()) && t.contains(':'))) { l.push("input-variable-reference") }
    if inp.contains('%') || inp.contains('⟨') || inp.contains('<') { l.push("input-syllable-element") }
    if inp_t == "*" || inp_t == "∅" {
        // insertion: the fall-backs of insertion_after / insertion_before
        let env = rest.splitn(2, '/').nth(1).unwrap_or("");
        let ctx = env.split(|c| c == '|').next().unwrap_or("");
        if let Some(u) = ctx.find('_') {
            let before = ctx[..u].trim(); let after = ctx[u..].trim_start_matches('_').trim();
            if before.ends_with('$') { l.push("insertion-before-ends-with-$") }
            if after.starts_with('$') || after.starts_with('#') || after.starts_with('⟨') || after.starts_with('<') { l.push("insertion-after-starts-with-boundary") }
            if before.is_empty() && after.is_empty() { l.push("insertion-context-empty") }
        }
    }
    l
}

pub fn c06(args: &[String]) -> i32 {
    quiet_panics();
    let (thorough, seed) = args2(args);
    let mut g = Gen::new(seed ^ 0xC06);
    let mut st = Stats::new();
    let n = if thorough { 600000 } else { 40000 };
    // blank / comment lines
    for line in ["", "   ", "\t", ";; a comment", "   ;; indented comment", ";;"] {
        for _ in 0..20 {
            let Some(w) = parse(&g.word()) else { continue };
            st.inc("c06.cases"); st.inc("c06.blank_lines");
            match apply(&[line.to_string()], &w) { Out::Ok(r) if r == w => {}, o => println!("FINDING c06-blank-line line={line:?} word={} outcome={}", word_flat(&w, false), match o { Out::Ok(r) => word_flat(&r, false), x => x.class() }) }
        }
    }
    // a comment runs to the end of the STRING it is in (the library takes any string as a rule): a string that starts with `;;`
    // is a comment whatever follows a line break inside it; white space of any kind is blank
    let mut g2 = Gen::new(seed ^ 0xC06B);
    for line in [";; note\na > e", ";; lowering, switched off\nV > [+long]", "  ;; x\r\n[] > * / _#", "\n", " \n\t", ";;\n% > [+stress]", ";; a\n;; b\nC > [+voice]", "\t;;\n\na > *"] {
        for _ in 0..20 {
            let Some(w) = parse(&g2.word()) else { continue };
            st.inc("c06.cases"); st.inc("c06.blank_lines");
            match apply(&[line.to_string()], &w) { Out::Ok(r) if r == w => {}, o => println!("FINDING c06-blank-line line={line:?} word={} outcome={}", word_flat(&w, false), match o { Out::Ok(r) => word_flat(&r, false), x => x.class() }) }
        }
    }
    for case in 0..n {
        let prof = if case % 4 == 0 { Profile::Full } else { Profile::Tame };
        let mut rule = g.rule(prof);
        let Some(mut w) = parse(&if case % 3 == 0 { g.small_word() } else { g.word() }) else { continue };
        // a syllable variable needs a repeated syllable to match: double the first one now and then
        if case % 7 == 3 && g.rng.chance(1, 2) && !w.sylls.is_empty() { let s0 = w.sylls[0].clone(); w.sylls.insert(0, s0); }
        let lit = absent_literal(&w);
        // focused insertions: an optional element between a mandatory context element and the planted literal, on a word that ends (or
        // begins) exactly where the mandatory element matches
        if case % 11 == 5 {
            let inv = ["a", "i", "t", "n", "s", "u"]; let s1 = inv[g.rng.below(6)]; let s2 = inv[g.rng.below(6)];
            let opt = match g.rng.below(3) { 0 => format!("({s2})"), 1 => format!("({s2},0)"), _ => format!("({{{s2}, {s1}}})") };
            let before = g.rng.chance(2, 3);
            let t = if before { format!("{}{s1}", g.small_word()) } else { format!("{s1}{}", g.small_word()) };
            let Some(w2) = parse(&t) else { continue };
            let lit2 = absent_literal(&w2);
            let planted = if before { format!("* > e / {s1} {opt} {lit2} _") } else { format!("* > e / _ {lit2} {opt} {s1}") };
            st.inc("c06.cases"); st.inc("c06.focused_insertion");
            if let Out::Ok(r) = apply(&[planted.clone()], &w2) { st.inc("c06.ok"); if r != w2 {
                let labels = labels_c06(&planted);
                let primary = ["insertion-before-ends-with-$", "insertion-after-starts-with-boundary"].iter().find(|p| labels.contains(p));
                let kind = match primary { Some(p) => format!("c06-changed:{p}"), None => "c06-changed:insertion-with-optional".to_string() };
                println!("FINDING {kind} rule={planted:?} word={} got={}", word_flat(&w2, false), word_flat(&r, false)); } }
            continue
        }
        // focused inputs: syllables inside sets, syllable and segment variables bound and used in the input, boundaries in sets
        if case % 7 == 3 {
            let sgm = g.pick_cv(); let o = ["*", "e", "&", "[+voice]"][g.rng.below(4)];
            rule = match g.rng.below(8) { 0 => format!("{{%, {sgm}}} > {o}"), 1 => format!("{{%}} {sgm} > {o}"), 2 => format!("%=1 1 > {o}"), 3 => format!("{sgm} %=1 1 > {o}"),
                4 => format!("C=1 1 > {o}"), 5 => format!("{{$, {sgm}}} V > {o}"), 6 => format!("% {sgm} > {o}"), _ => format!("V=1 C 1 > {o}") };
        }
        let Some((inp, arrow, rest)) = split_arrow(&rule) else { continue };
        let inp_t = inp.trim();
        let planted = if inp_t == "*" || inp_t == "∅" {
            // insertion: plant in the context
            let Some(slash) = rest.find('/') else { continue };
            let (out, env) = rest.split_at(slash);
            let env = &env[1..];
            let (ctx, exc) = match env.find('|') { Some(i) => (&env[..i], &env[i..]), None => (env, "") };
            if ctx.contains(":{") || ctx.contains(",") { continue }
            let Some(u) = ctx.find('_') else { continue };
            let (b, a) = (ctx[..u].trim(), ctx[u..].trim_start_matches('_').trim());
            let (b2, a2) = match g.rng.below(4) {
                0 => (format!("{lit} {b}"), a.to_string()),
                1 => (format!("{b} {lit}"), a.to_string()),
                2 => (b.to_string(), format!("{lit} {a}")),
                _ => (b.to_string(), format!("{a} {lit}")),
            };
            // `#` must stay peripheral
            let b2 = if b2.contains('#') && !b2.trim_start().starts_with('#') { format!("# {}", b2.replace('#', "")) } else { b2 };
            let a2 = if a2.contains('#') && !a2.trim_end().ends_with('#') { format!("{} #", a2.replace('#', "")) } else { a2 };
            format!("{inp}{arrow}{out}/ {b2} _ {a2} {exc}")
        } else {
            if inp.contains(',') && !inp.contains('{') && !inp.contains('[') { continue }   // condensed inputs: plant would need every sub-input
            let toks: Vec<&str> = split_top(&inp);
            let at = g.rng.below(toks.len() + 1);
            let mut v: Vec<String> = toks.iter().map(|s| s.to_string()).collect();
            v.insert(at, lit.to_string());
            format!("{}{arrow}{rest}", v.join(" "))
        };
        let o = apply(&[planted.clone()], &w);
        st.inc("c06.cases");
        match &o {
            Out::Ok(r) => {
                st.inc("c06.ok");
                let unplanted_changes = matches!(apply(&[rule.clone()], &w), Out::Ok(x) if x != w);
                if unplanted_changes { st.inc("c06.nontrivial_rule_would_fire"); }
                if *r != w {
                    let labels = labels_c06(&planted);
                    // the family (call site) that explains the failure, if any; the other labels only describe the rule
                    let primary = ["input-ends-with-$", "insertion-before-ends-with-$", "insertion-after-starts-with-boundary", "input-ellipsis", "input-set-with-syllable", "input-variable-reference"].iter().find(|p| labels.contains(p));
                    let kind = match primary { Some(p) => format!("c06-changed:{p}"), None => if labels.is_empty() { "c06-changed".to_string() } else { format!("c06-changed:{}", labels.join("+")) } };
                    println!("FINDING {kind} rule={planted:?} word={} got={}", word_flat(&w, false), word_flat(r, false));
                }
            }
            other => st.inc(&format!("c06.skipped.{}", other.class().split(':').next().unwrap_or("?"))),
        }
        if case < 5 { st.sample(format!("{planted} @ {}", word_flat(&w, false))); }
    }
    st.print();
    0
}

/// split an input side into top-level elements (spaces outside brackets)
fn split_top(s: &str) -> Vec<&str> {
    let mut out = Vec::new(); let mut depth = 0i32; let mut start = None;
    for (i, c) in s.char_indices() {
        match c { '[' | '{' | '(' | '⟨' | '<' => depth += 1, ']' | '}' | ')' | '⟩' | '>' => depth -= 1, _ => {} }
        if c.is_whitespace() && depth == 0 { if let Some(st) = start.take() { out.push(&s[st..i]); } }
        else if start.is_none() { start = Some(i); }
    }
    if let Some(st) = start { out.push(&s[st..]); }
    out
}

// ------------------------------------------------------------------------------------------------ C07

pub fn c07(args: &[String]) -> i32 {
    quiet_panics();
    let (thorough, seed) = args2(args);
    let mut g = Gen::new(seed ^ 0xC07);
    let mut st = Stats::new();
    let n = if thorough { 300000 } else { 25000 };
    // words with long and overlong segments in a third of the cases: alphas over length are captured from them
    let rich_word = |g: &mut Gen| -> Option<WordS> {
        let mut w = parse(&if g.rng.chance(1, 3) { g.small_word() } else { g.word() })?;
        if g.rng.chance(1, 3) { let si = g.rng.below(w.sylls.len()); if !w.sylls[si].segs.is_empty() { let gi = g.rng.below(w.sylls[si].segs.len()); let s = w.sylls[si].segs[gi]; for _ in 0..1 + g.rng.below(2) { w.sylls[si].segs.insert(gi, s); } } }
        Some(w)
    };
    // (1) Xi=i ... > i ...
    for case in 0..n {
        let k = 1 + g.rng.below(3);
        let mut ins = Vec::new(); let mut outs = Vec::new(); let mut kinds = Vec::new();
        for i in 1..=k {
            let (el, kind) = match g.rng.below(8) {
                0 | 1 => (g.matrix(Profile::Basic, false, false), "matrix"),
                2 | 3 => (GROUPS[g.rng.below(GROUPS.len())].to_string(), "group"),
                4 => ("[]".to_string(), "any"),
                5 => ("%".to_string(), "syll"),
                6 => (format!("⟨{}⟩", (0..1 + g.rng.below(3)).map(|_| ["C", "V", "[]", ".."][g.rng.below(4)].to_string()).collect::<Vec<_>>().join(" ")), "struct"),
                _ => (format!("[{}{}]", if g.rng.chance(1, 2) { "+" } else { "-" }, FEATS[g.rng.below(26)]), "matrix"),
            };
            ins.push(format!("{el}={i}")); outs.push(i.to_string()); kinds.push(kind);
        }
        let core = format!("{} > {}", ins.join(" "), outs.join(" "));
        let rule = if g.rng.chance(1, 2) { core.clone() } else { format!("{core} / {} _ {}", if g.rng.chance(1, 2) { g.seg_el(Profile::Basic) } else { String::new() }, if g.rng.chance(1, 2) { g.seg_el(Profile::Basic) } else { String::new() }) };
        let Some(w) = rich_word(&mut g) else { continue };
        st.inc("c07.cases"); st.inc("c07.var_identity");
        match apply(&[rule.clone()], &w) {
            Out::Ok(r) => { st.inc("c07.ok"); if matches!(apply(&[rule.replace("=1", "").replace("=2", "").replace("=3", "").split(" > ").next().unwrap().to_string() + " > [+nasal]"], &w), Out::Ok(x) if x != w) { st.inc("c07.nontrivial"); }
                if r != w {
                    let has_struct = kinds.contains(&"struct"); let has_syll = kinds.contains(&"syll");
                    let kind = if has_struct { "c07-var-identity:structure-variable" } else if has_syll && k > 1 { "c07-var-identity:syllable-variable-with-neighbours" } else { "c07-var-identity" };
                    println!("FINDING {kind} rule={rule:?} word={} got={}", word_flat(&w, false), word_flat(&r, false));
                } }
            Out::Panic(p) => { if kinds.contains(&"struct") { st.inc("c07.skipped.panic_structure_var"); } else { println!("FINDING c07-panic rule={rule:?} word={} panic={p:?}", word_flat(&w, false)); } }
            o => st.inc(&format!("c07.skipped.{}", o.class().split(':').next().unwrap_or("?"))),
        }
        if case < 3 { st.sample(rule); }
    }
    // (2) [αF] > [αF]
    let mut names: Vec<(String, &str)> = FEATS.iter().map(|f| (f.to_string(), "feature")).collect();
    for nd in ["lab", "cor", "dor", "phr", "place"] { names.push((nd.to_string(), "node")); }
    for s in ["long", "overlong", "stress", "secstress"] { names.push((s.to_string(), "supra")); }
    for _ in 0..(if thorough { 40 } else { 6 }) {
        for (name, cls) in &names {
            // suprasegmental alphas are captured from syllables and runs, of which a word has few: more words for them
            for el in if *cls == "supra" { &["", "C", "V", "", "C", "V", "", "V", "V", "[]:[]", "V", ""][..] } else { &["", "C", "V"][..] } {
                let el = if *el == "[]:[]" { "" } else { *el };
                let rule = if el.is_empty() { format!("[α{name}] > [α{name}]") } else { format!("{el}:[α{name}] > [α{name}]") };
                let Some(w) = rich_word(&mut g) else { continue };
                st.inc("c07.cases"); st.inc("c07.alpha_identity");
                match apply(&[rule.clone()], &w) {
                    Out::Ok(r) => { st.inc("c07.ok"); st.inc("c07.nontrivial");
                        if r != w {
                            let sec = w.sylls.iter().any(|s| s.stress == 2);
                            let long = w.sylls.iter().any(|s| s.segs.windows(2).any(|p| p[0] == p[1]));
                            let kind = if *cls == "supra" && name.contains("stress") && sec { "c07-alpha-identity:stress-alpha-on-secondary" }
                                else if *cls == "supra" && name.contains("long") && long { "c07-alpha-identity:length-alpha-on-long-run" }
                                else if *cls == "node" { "c07-alpha-identity:node" } else { "c07-alpha-identity" };
                            println!("FINDING {kind} rule={rule:?} word={} got={}", word_flat(&w, false), word_flat(&r, false));
                        } }
                    o => st.inc(&format!("c07.skipped.{}", o.class().split(':').next().unwrap_or("?"))),
                }
            }
        }
        let Some(w) = rich_word(&mut g) else { continue };
        for rule in ["%:[αstress] > [αstress]", "%:[αsecstress] > [αsecstress]", "%:[αstress, βsecstress] > [αstress, βsecstress]"] {
            st.inc("c07.cases");
            if let Out::Ok(r) = apply(&[rule.to_string()], &w) { if r != w {
                let sec = w.sylls.iter().any(|s| s.stress == 2);
                println!("FINDING c07-alpha-identity{} rule={rule:?} word={} got={}", if sec { ":stress-alpha-on-secondary" } else { "" }, word_flat(&w, false), word_flat(&r, false)); } }
        }
    }
    // (4) a > e / %=1 _ 1 fires exactly between identical syllables (segments, stress AND tone)
    for _ in 0..(if thorough { 40000 } else { 4000 }) {
        let body = ["ta", "ti", "nu", "sat", "n", "ka"][g.rng.below(6)];
        let deco = |g: &mut Gen, b: &str| -> String { format!("{}{}{}", ["", "", "ˈ", "ˌ"][g.rng.below(4)], b, ["", "", "5", "51", "3"][g.rng.below(5)]) };
        let s1 = deco(&mut g, body);
        let s2 = match g.rng.below(4) { 0 | 1 => s1.clone(), 2 => deco(&mut g, body), _ => { let b2 = ["ta", "ti", "nu"][g.rng.below(3)]; deco(&mut g, b2) } };
        let text = format!("{s1}.a.{}", s2.trim_start_matches(|c| c == 'ˈ' || c == 'ˌ').to_string());
        let text = if s2.starts_with('ˈ') || s2.starts_with('ˌ') { format!("{s1}.a{}", s2) } else { text };
        let Some(w) = parse(&text) else { continue };
        if w.sylls.len() != 3 { continue }
        st.inc("c07.cases"); st.inc("c07.syll_var_context");
        let Out::Ok(r) = apply(&["a > e / %=1 _ 1".to_string()], &w) else { continue };
        let same = w.sylls[0] == w.sylls[2];
        let fired = r != w;
        if same { st.inc("c07.nontrivial"); }
        if fired != same { println!("FINDING c07-syll-var-context rule=\"a > e / %=1 _ 1\" word={} identical_syllables={same} fired={fired}", word_flat(&w, false)); }
    }
    // (3) A > B / X=1 _ 1 fires exactly between identical bundles
    for _ in 0..(if thorough { 60000 } else { 6000 }) {
        let x = ["C", "V", "[]", "[+voice]", "O", "N"][g.rng.below(6)];
        let a = ["a", "i", "t", "s", "V", "C"][g.rng.below(6)];
        let rule = format!("{a} > [+nasal] / {x}=1 _ 1");
        let Some(w) = parse(&g.small_word()) else { continue };
        st.inc("c07.cases"); st.inc("c07.var_context");
        // reference: one syllable-agnostic scan over positions with both neighbours present
        let Out::Ok(r) = apply(&[rule.clone()], &w) else { continue };
        // runs (long segments) are one unit: work on words without adjacent equal segments inside a syllable
        if w.sylls.iter().any(|s| s.segs.windows(2).any(|p| p[0] == p[1])) { st.inc("c07.var_context_skipped_long"); continue }
        let flat_w: Vec<SegS> = segs_of(&w); let flat_r: Vec<SegS> = segs_of(&r);
        if flat_w.len() != flat_r.len() { println!("FINDING c07-var-context rule={rule:?} word={} got={}", word_flat(&w, false), word_flat(&r, false)); continue }
        for i in 0..flat_w.len() {
            if flat_w[i] != flat_r[i] {
                st.inc("c07.nontrivial");
                // a position that fired must sit between two identical bundles (as they are after the rewrite of the left one)
                if i == 0 || i + 1 >= flat_w.len() || flat_r[i - 1] != flat_w[i + 1] {
                    println!("FINDING c07-var-context rule={rule:?} word={} got={} position={i}", word_flat(&w, false), word_flat(&r, false));
                }
            }
        }
    }
    // (5) a variable bound inside the alternatives of an environment SET: V > [+nasal] / :{ E1, E2 }: fires at a position exactly when
    // `/ E1` alone or `/ E2` alone fires there - every alternative captures its own segment, whatever an earlier alternative bound before
    // it failed.  The contexts hold consonants only and the rule changes vowels only, so the positions are decided independently.
    let mut g5 = Gen::new(seed ^ 0xC07_5);
    for _ in 0..(if thorough { 60000 } else { 6000 }) {
        let tmpl = ["{x}=1 _ 1", "{x}=1 s _ 1", "{x}=1 _ p 1", "{x}=1 _ 1 t", "{x}=1 t _ 1", "{x}=1 _ s 1", "{x}=1 _ 1 #", "# {x}=1 _ 1", "{x}=1 {x}=2 _ 2 1", "{x}=1 {x}=2 _ 1 2"];
        let mk = |g: &mut Gen| -> String { tmpl[g.rng.below(tmpl.len())].replace("{x}", ["C", "O", "[-syll]", "[-son]"][g.rng.below(4)]) };
        let (e1, e2) = (mk(&mut g5), mk(&mut g5));
        let a = ["a", "i", "V"][g5.rng.below(3)];
        let mut t = String::new();
        for i in 0..3 + g5.rng.below(5) { if i > 1 && g5.rng.chance(1, 5) { t.push('.'); } t.push_str(["t", "s", "p", "a", "i", "t", "a", "s"][g5.rng.below(8)]); }
        let Some(w) = parse(&t) else { continue };
        if w.sylls.iter().any(|s| s.segs.windows(2).any(|p| p[0] == p[1])) { continue }
        let set = format!("{a} > [+nasal] / :{{ {e1}, {e2} }}:");
        let (Out::Ok(rs), Out::Ok(r1), Out::Ok(r2)) = (apply(&[set.clone()], &w), apply(&[format!("{a} > [+nasal] / {e1}")], &w), apply(&[format!("{a} > [+nasal] / {e2}")], &w)) else { st.inc("c07.var_envset_skipped"); continue };
        st.inc("c07.cases"); st.inc("c07.var_envset");
        let (fw, fs, f1, f2) = (segs_of(&w), segs_of(&rs), segs_of(&r1), segs_of(&r2));
        if fs.len() != fw.len() || f1.len() != fw.len() || f2.len() != fw.len() { println!("FINDING c07-var-envset rule={set:?} word={t} got={}", word_flat(&rs, false)); continue }
        if rs != w { st.inc("c07.nontrivial"); }
        for i in 0..fw.len() {
            let (hs, h1, h2) = (fs[i] != fw[i], f1[i] != fw[i], f2[i] != fw[i]);
            if hs != (h1 || h2) { println!("FINDING c07-var-envset rule={set:?} word={t} position={i} set_fires={hs} first_alone={h1} second_alone={h2}"); break }
        }
    }
    st.print();
    0
}

// ------------------------------------------------------------------------------------------------ C08

pub fn seg_wf(s: &SegS) -> bool {
    s.0 < 8 && s.2 < 8 && match s.3 { None => true, Some(x) => x != 0
        && (x & 0x8000 != 0 || x & 0x0c00 == 0) && (x & 0x4000 != 0 || x & 0x0300 == 0) && (x & 0x2000 != 0 || x & 0x00fc == 0) && (x & 0x1000 != 0 || x & 0x0003 == 0) }
}
pub fn tone_wf(t: u16) -> bool { t == 0 || (t < 10000 && t.to_string().chars().all(|c| c != '0')) }
pub fn word_wf(w: &WordS) -> Option<&'static str> {
    if w.sylls.is_empty() { return Some("no-syllable") }
    if w.sylls.iter().any(|s| s.segs.is_empty()) { return Some("empty-syllable") }
    if w.sylls.iter().any(|s| !tone_wf(s.tone)) { return Some("tone") }
    if w.sylls.iter().any(|s| s.segs.iter().any(|g| !seg_wf(g))) { return Some("segment-bits") }
    None
}

/// rules that add and remove place sub-nodes (the bit-level bookkeeping of `Place`): node removal, node assimilation, node-carrying diacritic features
fn node_rule(g: &mut Gen) -> String {
    let el = ["C", "V", "[]", "[+round]", "[+labiodental]", "[+rtr]", "G", "N", "[+dist]"][g.rng.below(9)];
    let nd = ["lab", "cor", "dor", "phr", "place"][g.rng.below(5)];
    match g.rng.below(6) {
        0 | 1 => format!("{el} > [-{nd}]"),
        2 => format!("{el} > [α{nd}] / _ []:[α{nd}]"),
        3 => format!("{el} > [αplace] / _ C:[αplace]"),
        4 => format!("{el} > [+{nd}]"),
        _ => format!("{el} > [-{nd}, +{}]", ["round", "ant", "high", "atr", "back", "labiodental"][g.rng.below(6)]),
    }
}

/// the output side of a rule: after the arrow, before the environment
fn out_part(r: &str) -> Option<String> {
    let r = r.split(";;").next().unwrap_or("");
    let (_, _, rest) = split_arrow(r)?;
    Some(rest.split(|c| c == '/' || c == '|').next().unwrap_or("").to_string())
}

fn structural_rule(g: &mut Gen) -> String {
    if g.rng.chance(1, 5) { return node_rule(g) }
    match g.rng.below(16) {
        0 => "$ > *".into(), 1 => format!("$ > * / {} _", g.seg()), 2 => format!("* > $ / {} _ {}", g.pick_cv(), g.pick_cv()),
        3 => format!("{} > *", g.pick_cv()), 4 => format!("{} > * / _ #", g.pick_cv()), 5 => "% > * / _ #".into(),
        6 => format!("$ {} > &", g.pick_cv()), 7 => format!("{} $ > &", g.pick_cv()), 8 => format!("* > {} / _ #", g.seg()),
        9 => format!("* > ⟨{} {}⟩ / % _", g.seg(), g.seg()), 10 => format!("{} > ⟨{}⟩", g.pick_cv(), g.seg()),
        11 => format!("% > [tone:{}]", crate::gen::TONES[g.rng.below(crate::gen::TONES.len())]), 12 => format!("{} {} > &", g.pick_cv(), g.pick_cv()),
        13 => format!("{} > {} $", g.pick_cv(), g.seg()), 14 => format!("{} > [{}long]", g.pick_cv(), if g.rng.chance(1, 2) { "+" } else { "-" }),
        _ => format!("% % > &"),
    }
}

pub fn c08(args: &[String]) -> i32 {
    quiet_panics();
    let (thorough, seed) = args2(args);
    let mut g = Gen::new(seed ^ 0xC08);
    let mut st = Stats::new();
    let n = if thorough { 400000 } else { 30000 };
    for case in 0..n {
        let k = 1 + g.rng.below(6);
        let mut rules: Vec<String> = (0..k).map(|_| if g.rng.chance(1, 2) { structural_rule(&mut g) } else { g.rule(Profile::Tame) }).collect();
        // crafted: a substitution with more inputs than outputs whose surplus inputs are whole syllables of the word
        let crafted = case % 9 == 4;
        let text = if crafted {
            let syl = |g: &mut Gen| format!("{}{}", ["p", "t", "k", "n", "s"][g.rng.below(5)], ["a", "i", "u"][g.rng.below(3)]);
            let parts: Vec<String> = (0..3 + g.rng.below(2)).map(|_| syl(&mut g)).collect();
            let nin = 2 + g.rng.below(2);   // input covers the first `nin` syllables
            let inp: Vec<String> = parts[..nin.min(parts.len())].iter().flat_map(|p| p.chars().map(|c| c.to_string())).collect();
            let nout = inp.len() / 2;
            let out: Vec<&str> = (0..nout).map(|i| ["b", "e", "d", "o"][i % 4]).collect();
            rules = vec![format!("{} > {}", inp.join(" "), out.join(" "))];
            parts.join(".")
        } else if case % 9 == 7 {
            // crafted: a deletion whose one match covers the whole word (the refusal to delete the only segment is decided element by
            // element while the word shrinks); words of one to three short syllables, the first often a single vowel
            let syl = |g: &mut Gen, first: bool| if first && g.rng.chance(1, 2) { ["a", "i", "u", "o"][g.rng.below(4)].to_string() } else { format!("{}{}{}", ["t", "k", "n", "s", ""][g.rng.below(5)], ["a", "i", "e"][g.rng.below(3)], ["", "", "n"][g.rng.below(3)]) };
            let parts: Vec<String> = (0..1 + g.rng.below(3)).map(|i| syl(&mut g, i == 0)).collect();
            let mut els: Vec<String> = Vec::new();
            for (i, p) in parts.iter().enumerate() {
                if i > 0 && g.rng.chance(1, 4) { els.push("$".into()); }
                if i > 0 && g.rng.chance(1, 3) { els.push("%".into()); continue }
                for c in p.chars() { els.push(match g.rng.below(3) { 0 => c.to_string(), 1 => if "aiueo".contains(c) { "V".into() } else { "C".into() }, _ => "[]".into() }); }
            }
            rules = vec![format!("{} > *{}", els.join(" "), ["", "", " / #_", " / _#"][g.rng.below(4)])];
            if g.rng.chance(1, 3) { rules.insert(0, "s > z".into()); rules.push("z > s".into()); }
            st.inc("c08.crafted_whole_word_deletions");
            parts.join(".")
        } else if case % 4 == 0 { format!("{}{}.{}{}", g.pick_cv(), crate::gen::TONES[g.rng.below(5)], g.small_word(), crate::gen::TONES[g.rng.below(5)]) } else { g.word() };
        let Some(w) = parse(&text) else { continue };
        if word_wf(&w).is_some() { st.inc("c08.skipped_input_not_wf"); continue }
        let groups: Vec<RuleGroup> = rules.iter().map(|r| RuleGroup::from_rules(vec![r.clone()])).collect();
        st.inc("c08.cases");
        match guarded(|| verif::apply_rules_structural(&groups, &w)) {
            Out::Ok(stages) => {
                st.inc("c08.ok");
                if stages.last() != Some(&w) { st.inc("c08.nontrivial"); }
                for (i, s) in stages.iter().enumerate() {
                    if let Some(why) = word_wf(s) {
                        let r = &rules[i];
                        let fam = if why == "empty-syllable" || why == "no-syllable" {
                            if r.contains("⟨⟩") || r.contains("<>") { ":empty-structure" }
                            else if r.trim_start().starts_with("* > $") || r.trim_start().starts_with("∅ > $") || out_part(r).map_or(false, |o| o.trim_start().starts_with('$') || o.contains(" $")) { ":boundary-inserted-at-word-edge" }
                            else if r.contains("&") && r.contains('$') { ":boundary-metathesis-at-word-edge" }
                            else if why == "no-syllable" && (r.contains("> *") || r.contains("> ∅") || r.contains("=> *") || r.contains("=> ∅") || r.contains("-> *") || r.contains("-> ∅")) {
                                // D8d needs the first matched segment (the last one deleted) to share its syllable with another; a word whose
                                // first segment stands alone in its syllable is protected by the guard as it stands
                                let before = if i == 0 { &w } else { &stages[i - 1] };
                                if before.sylls.first().map_or(false, |sy| sy.segs.len() == 1) { ":whole-word-deleted:first-segment-alone-in-its-syllable" } else { ":whole-word-deleted" } }
                            else { "" }
                        } else { "" };
                        println!("FINDING c08-{why}{fam} rules={:?} failing_rule={r:?} word={} after_group={i} got={}", rules, word_flat(&w, false), word_flat(s, false));
                        break;
                    }
                }
            }
            o => st.inc(&format!("c08.skipped.{}", o.class().split(':').next().unwrap_or("?"))),
        }
        if case < 4 { st.sample(format!("{:?} @ {text}", rules)); }
    }
    st.print();
    0
}

// ------------------------------------------------------------------------------------------------ C12

fn eq_outcome(a: &Out<WordS>, b: &Out<WordS>) -> bool {
    match (a, b) { (Out::Ok(x), Out::Ok(y)) => x == y, (Out::Err(x), Out::Err(y)) => err_kind(x) == err_kind(y), (Out::Panic(_), Out::Panic(_)) => true, (Out::Hang(_), Out::Hang(_)) => true, _ => false }
}

pub fn c12(args: &[String]) -> i32 {
    quiet_panics();
    let (thorough, seed) = args2(args);
    let mut g = Gen::new(seed ^ 0xC12);
    let mut g2 = Gen::new(seed ^ 0xC12_15);
    let mut st = Stats::new();
    let n = if thorough { 400000 } else { 30000 };
    let inv = crate::frag::INV;
    let small = |g: &mut Gen| -> WordS { crate::frag::gen_word(g) };
    for case in 0..n {
        let mut w = if case % 3 == 0 { match parse(&g.word()) { Some(w) => w, None => continue } } else { small(&mut g) };
        let one = |g: &mut Gen| -> String { match g.rng.below(5) { 0 | 1 => inv[g.rng.below(7)].to_string(), 2 => ["C", "V", "O", "N"][g.rng.below(4)].to_string(), 3 => "[]".into(), _ => ["[+voice]", "[-cont]", "[+nasal]", "[+syll]"][g.rng.below(4)].to_string() } };
        let (short, long, what): (Vec<String>, Vec<String>, &str) = match case % 5 {
            0 => { // condensed rule = its sub-rules in sequence
                let k = 2 + g.rng.below(2);
                let ins: Vec<String> = (0..k).map(|_| one(&mut g)).collect();
                let outs: Vec<String> = (0..k).map(|_| inv[g.rng.below(7)].to_string()).collect();
                let envs: Vec<String> = (0..k).map(|_| format!("{} _ {}", if g.rng.chance(1, 2) { one(&mut g) } else { String::new() }, if g.rng.chance(1, 2) { one(&mut g) } else { String::new() }).trim().to_string()).collect();
                let shared_env = g.rng.chance(1, 2);
                let s = if shared_env { format!("{} > {} / {}", ins.join(", "), outs.join(", "), envs[0]) } else { format!("{} > {} / {}", ins.join(", "), outs.join(", "), envs.join(", ")) };
                let l: Vec<String> = (0..k).map(|i| format!("{} > {} / {}", ins[i], outs[i], if shared_env { &envs[0] } else { &envs[i] })).collect();
                (vec![s], l, "condensed")
            }
            1 => { // _,X  =  X_ , _X(mirrored)
                let k = 1 + g.rng.below(3);
                let xs: Vec<String> = (0..k).map(|_| one(&mut g)).collect();
                let a = one(&mut g); let o = inv[g.rng.below(7)];
                let rev: Vec<String> = xs.iter().rev().cloned().collect();
                (vec![format!("{a} > {o} / _,{}", xs.join(" "))], vec![format!("{a} > {o} / {} _, _ {}", xs.join(" "), rev.join(" "))], "special-env")
            }
            2 => { // group letter = the manual's matrix
                let (gl, mx) = [("C", "[-syll]"), ("O", "[+cons, -son, -syll]"), ("S", "[+cons, +son, -syll]"), ("P", "[+cons, -son, -syll, -delrel, -cont]"),
                    ("F", "[+cons, -son, -syll, -approx, +cont]"), ("L", "[+cons, +son, -syll, +approx]"), ("N", "[+cons, +son, -syll, -approx, +nasal]"), ("G", "[-cons, +son, -syll]"), ("V", "[-cons, +son, +syll]")][g.rng.below(9)];
                let o = ["[+voice]", "[-voice]", "[+nasal]"][g.rng.below(3)];
                match g.rng.below(3) {
                    0 => (vec![format!("{gl} > {o}")], vec![format!("{mx} > {o}")], "group"),
                    1 => { let a = one(&mut g); (vec![format!("{a} > {o} / {gl} _")], vec![format!("{a} > {o} / {mx} _")], "group") }
                    _ => { let a = one(&mut g); (vec![format!("{a} > {o} / _ {gl}")], vec![format!("{a} > {o} / _ {mx}")], "group") }
                }
            }
            3 if g.rng.chance(1, 4) => { // bounded optional with a non-zero minimum on crafted runs of k distinct consonants, k around the bounds
                let (m, nmax) = [(1usize, 2usize), (1, 3), (2, 4), (2, 3), (1, 1), (3, 4)][g.rng.below(6)];
                let k = g.rng.below(nmax + 2);
                let cons = ["p", "t", "k", "n", "s"]; let start = g.rng.below(5);
                let run: String = (0..k).map(|i| cons[(start + i) % 5]).collect();
                let tgt = ["a", "i"][g.rng.below(2)]; let y = ["a", "i"][g.rng.below(2)];
                let before = g.rng.chance(1, 3);
                let t = if before { format!("{y}{run}{tgt}{}", if g.rng.chance(1, 2) { "t" } else { "" }) } else { format!("{}{tgt}{run}{y}", if g.rng.chance(1, 2) { "t" } else { "" }) };
                match parse(&t) { Some(x) => w = x, None => continue }
                let o = ["[+nasal]", "[+round]"][g.rng.below(2)];
                let spec = format!("(C,{m}:{nmax})");
                let s = if before { format!("{tgt} > {o} / {y} {spec} _") } else { format!("{tgt} > {o} / _ {spec} {y}") };
                let alts: Vec<String> = (m..=nmax).map(|k| { let rep = vec!["C"; k].join(" "); if before { format!("{y} {rep} _") } else { format!("_ {rep} {y}") } }).collect();
                (vec![s], vec![format!("{tgt} > {o} / :{{ {} }}:", alts.join(", "))], "optional")
            }
            3 => { // optional = environment set of its explicit repetitions
                let x = one(&mut g); let y = if g.rng.chance(2, 3) { let k = 1 + g.rng.below(3); (0..k).map(|_| inv[g.rng.below(4)].to_string()).collect::<Vec<_>>().join(" ") } else { String::new() };
                let mut a = one(&mut g); let o = ["[+nasal]", "[+voice]"][g.rng.below(2)];
                let mut before = g.rng.chance(1, 2);
                // crafted words: the target, some filler, a false start of the remainder, then the remainder (the shape on which a retry
                // that does not restore its position shows)
                let ys: Vec<&str> = y.split(' ').filter(|t| !t.is_empty()).collect();
                if ys.len() >= 2 && g.rng.chance(1, 2) {
                    a = inv[4 + g.rng.below(3)].to_string(); before = false;
                    let mut t = a.clone();
                    for _ in 0..g.rng.below(3) { t.push_str(inv[g.rng.below(7)]); }
                    for z in &ys[..1 + g.rng.below(ys.len() - 1)] { t.push_str(z); }
                    for z in &ys { t.push_str(z); }
                    if g.rng.chance(1, 3) { t.push_str(inv[g.rng.below(7)]); }
                    match parse(&t) { Some(x) => w = x, None => continue }
                }
                let nseg: usize = w.sylls.iter().map(|s| s.segs.len()).sum();
                // `(x,0)` and `(x,2:0)` have no upper bound: on a word of n segments their expansions are the repetitions up to n
                let (m, nmax, spec) = match g.rng.below(6) { 0 => (0, 1, format!("({x})")), 1 => (1, 3, format!("({x},1:3)")), 2 => (0, 2, format!("({x},2)")), 3 => (2, 2, format!("({x},2:2)")),
                    4 => (0, nseg, format!("({x},0)")), _ => (1, 2, format!("({x},1:2)")) };
                if nseg > 9 { continue }
                let s = if before { format!("{a} > {o} / {y} {spec} _") } else { format!("{a} > {o} / _ {spec} {y}") };
                let alts: Vec<String> = (m..=nmax).map(|k| { let rep = vec![x.clone(); k].join(" "); if before { format!("{y} {rep} _") } else { format!("_ {rep} {y}") } }).collect();
                (vec![s], vec![format!("{a} > {o} / :{{ {} }}:", alts.join(", "))], "optional")
            }
            _ => { // A B > &  =  A=1 B=2 > 2 1   (matrices / groups)
                let a = ["C", "V", "[+voice]", "[-son]", "N", "[+syll]"][g.rng.below(6)]; let b = ["C", "V", "[-voice]", "[+son]", "O", "[-syll]"][g.rng.below(6)];
                let env = if g.rng.chance(1, 2) { format!(" / _ {}", one(&mut g)) } else { String::new() };
                if g.rng.chance(1, 2) {
                    // `&` reverses any number of elements: 3 to 5 of them, on a word over three letters so that the segments at the
                    // two ends of a match are often equal
                    let k = 3 + g.rng.below(3);
                    let els: Vec<&str> = (0..k).map(|_| ["C", "V", "[]", "[-syll]", "[+syll]"][g.rng.below(5)]).collect();
                    let lhs: Vec<String> = els.iter().enumerate().map(|(i, e)| format!("{e}={}", i + 1)).collect();
                    let rhs: Vec<String> = (1..=k).rev().map(|i| i.to_string()).collect();
                    let mut t = String::new();
                    for i in 0..2 + g.rng.below(5) { if i > 0 && g.rng.chance(1, 3) { t.push('.'); } t.push_str(["t", "a", "k", "i", "t", "a"][g.rng.below(6)]); }
                    match parse(&t) { Some(x) => w = x, None => continue }
                    (vec![format!("{} > &", els.join(" "))], vec![format!("{} > {}", lhs.join(" "), rhs.join(" "))], "metathesis")
                } else {
                (vec![format!("{a} {b} > &{env}")], vec![format!("{a}=1 {b}=2 > 2 1{env}")], "metathesis")
                }
            }
        };
        // condensed rules whose sub-rules are of DIFFERENT kinds (insertion `*`, deletion, substitution side by side): the kind of every
        // sub-rule is decided from its own input and output.  Own generator, so that the draws of the streams above stay what they were.
        let (short, long, what) = if case % 15 == 5 {
            let k = 2 + g2.rng.below(2);
            let star = g2.rng.below(k);
            let ins: Vec<String> = (0..k).map(|i| if i == star || g2.rng.chance(1, 4) { "*".to_string() } else { inv[g2.rng.below(7)].to_string() }).collect();
            let outs: Vec<String> = (0..k).map(|i| if ins[i] != "*" && g2.rng.chance(1, 4) { "*".to_string() } else { inv[g2.rng.below(7)].to_string() }).collect();
            let env = ["_ #", "# _", "_ C", "V _", "C _ V", "_ $", "V _ #"][g2.rng.below(7)];
            let s = format!("{} > {} / {env}", ins.join(", "), outs.join(", "));
            let l: Vec<String> = (0..k).map(|i| format!("{} > {} / {env}", ins[i], outs[i])).collect();
            (vec![s], l, "condensed-mixed")
        } else { (short, long, what) };
        // the metathesis equivalence is stated for words without adjacent equal segments
        if what == "metathesis" && w.sylls.iter().any(|s| s.segs.windows(2).any(|p| p[0] == p[1])) { continue }
        let a = apply(&short, &w); let b = apply(&long, &w);
        st.inc("c12.cases"); st.inc(&format!("c12.{what}"));
        if let Out::Ok(r) = &a { if *r != w { st.inc("c12.nontrivial"); } }
        if !eq_outcome(&a, &b) {
            // which way the two differ is part of the identity of the finding: D12 makes the shorthand MISS matches when something follows the optional
            let has_remainder = short[0].split('/').nth(1).map_or(false, |e| { let e = e.trim(); !(e.starts_with('(') && e.ends_with("_")) && !(e.starts_with('_') && e.ends_with(')')) });
            let rem_len = short[0].split('/').nth(1).map_or(0, |e| { let mut t = e.replace('_', " "); if let (Some(a), Some(b)) = (t.find('('), t.rfind(')')) { t.replace_range(a..=b, " "); } t.split_whitespace().count() });
            // positions rewritten by the shorthand / by the expansion (the rules here only change features, so positions correspond)
            let touched = |o: &Out<WordS>| -> Option<Vec<bool>> { match o { Out::Ok(r) => { let (x, y) = (segs_of(r), segs_of(&w)); if x.len() == y.len() { Some(x.iter().zip(&y).map(|(p, q)| p != q).collect()) } else { None } } _ => None } };
            let fam = if what == "optional" {
                match (touched(&a), touched(&b)) {
                    // D12 needs a remainder that can match PARTLY (two or more elements); with one element a miss has another cause
                    (Some(ta), Some(tb)) if ta.iter().zip(&tb).all(|(x, y)| !*x || *y) && has_remainder && rem_len >= 2 => ":optional:misses-with-remainder",
                    (Some(ta), Some(tb)) if ta.iter().zip(&tb).all(|(x, y)| !*x || *y) => ":optional:misses",
                    (Some(ta), Some(tb)) if ta.iter().zip(&tb).all(|(x, y)| *x || !*y) => ":optional:fires-where-no-expansion-does",
                    _ => ":optional:other" }
            } else if what == "metathesis" { ":metathesis" } else { "" };
            println!("FINDING c12-{what}-differs{fam} shorthand={short:?} expansion={long:?} word={} got_short={} got_long={}", word_flat(&w, false),
                match &a { Out::Ok(r) => word_flat(r, false), o => o.class() }, match &b { Out::Ok(r) => word_flat(r, false), o => o.class() });
        }
        if case < 5 { st.sample(format!("{short:?} vs {long:?}")); }
    }
    st.print();
    0
}

// ------------------------------------------------------------------------------------------------ C14

pub fn c14(args: &[String]) -> i32 {
    quiet_panics();
    let (thorough, seed) = args2(args);
    let mut g = Gen::new(seed ^ 0xC14);
    let mut st = Stats::new();
    let n = if thorough { 400000 } else { 30000 };
    for case in 0..n {
        let Some(w) = parse(&if case % 3 == 0 { g.small_word() } else { g.word() }) else { continue };
        let seg_only = case % 2 == 0;
        let (rule, all_matrix) = if seg_only {
            let k = 1 + g.rng.below(3);
            let ins: Vec<String> = (0..k).map(|_| match g.rng.below(4) { 0 => g.seg(), 1 => GROUPS[g.rng.below(9)].to_string(), 2 => g.matrix(Profile::Basic, false, false), _ => "[]".into() }).collect();
            let all_matrix = g.rng.chance(1, 2);
            let outs: Vec<String> = (0..k).map(|_| if all_matrix { g.matrix(Profile::Basic, false, false) } else { g.seg() }).collect();
            (format!("{} > {}", ins.join(" "), outs.join(" ")), all_matrix)
        } else {
            let r = match g.rng.below(9) {
                0 => format!("% > [{}stress]", if g.rng.chance(1, 2) { "+" } else { "-" }), 1 => format!("% > [{}secstress]", if g.rng.chance(1, 2) { "+" } else { "-" }),
                2 => format!("% > [tone:{}]", crate::gen::TONES[g.rng.below(5)]), 3 => format!("{} > [{}stress]", GROUPS[g.rng.below(9)], if g.rng.chance(1, 2) { "+" } else { "-" }),
                4 => format!("{} > [tone:{}]", g.pick_cv(), crate::gen::TONES[g.rng.below(5)]), 5 => "$ > *".to_string(), 6 => "* > $".to_string(),
                7 => format!("$ {} > &", g.pick_cv()), _ => format!("{} $ > &", g.pick_cv()),
            };
            (r, false)
        };
        // arbitrary environments from the full grammar (insertion needs one)
        let mut full = rule.clone();
        let need_env = rule.starts_with("* >");
        if need_env { full = format!("{rule} / {} _ {}", g.pick_cv(), g.pick_cv()); }
        else if g.rng.chance(2, 3) { let e = g.rule(Profile::Tame); if let Some(i) = e.find(" / ") { let env = &e[i..]; if !env.contains(";;") { full.push_str(env); } } }
        st.inc("c14.cases");
        match apply(&[full.clone()], &w) {
            Out::Ok(r) => {
                st.inc("c14.ok"); if r != w { st.inc("c14.nontrivial"); }
                if seg_only {
                    st.inc("c14.segment_only");
                    if prosody(&r) != prosody(&w) || (all_matrix && shape(&r) != shape(&w)) || r.sylls.len() != w.sylls.len() {
                        println!("FINDING c14-prosody-changed rule={full:?} word={} got={}", word_flat(&w, false), word_flat(&r, false));
                    }
                } else {
                    st.inc("c14.prosody_only");
                    if segs_of(&r) != segs_of(&w) {
                        let fam = if full.contains("> &") { ":boundary-metathesis" } else if full.starts_with("* > $") { ":boundary-insertion" } else { "" };
                        println!("FINDING c14-segments-changed{fam} rule={full:?} word={} got={}", word_flat(&w, false), word_flat(&r, false));
                    }
                }
            }
            o => st.inc(&format!("c14.skipped.{}", o.class().split(':').next().unwrap_or("?"))),
        }
        if case < 5 { st.sample(full); }
    }
    st.print();
    0
}
