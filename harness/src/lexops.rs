//! lex-ops: the Lean port of the rule lexer ≙ `Lexer::get_line`, token by token (kind, value, span) and error by
//! error (variant, underlined columns), on generated rules, token mutations, respellings and noise.
use std::io::Write;
use crate::c02::{mutate, noise};
use crate::gen::{Gen, Profile};
use crate::util::*;
use crate::words::cps;

/// spellings the manual declares equivalent, applied textually (the model must follow the code on both)
fn respell(g: &mut Gen, rule: &str) -> String {
    let mut r = rule.to_string();
    for (a, b) in [("=>", "->"), ("->", ">"), ("...", "…"), ("..", "⋯"), ("⟨", "<"), ("⟩", ">"), ("ɡ", "g"), ("ʔ", "?"), ("ǃ", "!"), ("ʼ", "'"),
                   ("t͡s", "¢"), ("͡", "^"), (" ", "  "), (",", " , "), ("[", "[ "), ("//", "|"), ("*", "∅")] {
        if g.rng.chance(1, 3) { r = r.replace(a, b); }
    }
    if g.rng.chance(1, 4) { r = r.chars().map(|c| if c.is_ascii_lowercase() && g.rng.chance(1, 3) { c.to_ascii_uppercase() } else { c }).collect(); }
    r
}

const MATRIX_BITS: &[&str] = &["+", "-", "α", "β", "-α", "-A", "A", "nas", "nasal", "NASAL", "long", "lng", "str", "stress", "tone", "ton", "tn", ":", "51", "5", ",", " ", "d.r.", "del.rel", "s.g", "sec.str.", "xx", "x",
    "place", "PLACE", "lab", "phr", "]", "[", "a", "ω", "ς", ".", "..", "_", "\t", "\u{3000}", "'", "9", ";", ";;"];

pub fn ops(args: &[String]) -> i32 {
    quiet_panics();
    let mut ops = std::io::BufWriter::new(std::fs::File::create(&args[0]).unwrap());
    let mut imp = std::io::BufWriter::new(std::fs::File::create(&args[1]).unwrap());
    let thorough = args.get(2).map(|s| s == "thorough").unwrap_or(false);
    let seed: u64 = args.get(3).and_then(|s| s.parse().ok()).unwrap_or(1);
    let mut g = Gen::new(seed ^ 0x1E8);
    let n = if thorough { 600_000 } else { 40_000 };
    let mut st: std::collections::BTreeMap<String, u64> = Default::default();
    for case in 0..n {
        let base = if case % 2 == 0 { g.rule(Profile::Full) } else { g.rule(Profile::Tame) };
        let (stream, line) = match case % 6 {
            0 => ("grammar", base),
            1 => ("mutation", mutate(&mut g, &base)),
            2 => ("respelling", respell(&mut g, &base)),
            3 => { let k = 1 + g.rng.below(10); ("noise", noise(&mut g, k)) }
            4 => { let k = 1 + g.rng.below(8); ("matrix", format!("[{}]", (0..k).map(|_| MATRIX_BITS[g.rng.below(MATRIX_BITS.len())]).collect::<String>())) }
            _ => { let m = mutate(&mut g, &base); ("respelled-mutation", respell(&mut g, &m)) }
        };
        writeln!(ops, "lex {}", cps(&line)).unwrap();
        let out = match std::panic::catch_unwind(|| asca::verif::lex_line(&line)) { Ok(s) => s, Err(_) => "panic".to_string() };
        *st.entry(format!("lex.stream.{stream}")).or_default() += 1;
        let class = out.split(' ').take(if out.starts_with("err") { 2 } else { 1 }).collect::<Vec<_>>().join(".");
        *st.entry(format!("lex.outcome.{class}")).or_default() += 1;
        if out.starts_with("ok") { *st.entry("lex.tokens".into()).or_default() += out.matches(';').count() as u64 + 1; }
        writeln!(imp, "{out}").unwrap();
    }
    // strings with line breaks in them (drawn after the main streams, so that those stay as they were)
    for _ in 0..n / 20 {
        let line = multi_line(&mut g);
        writeln!(ops, "lex {}", cps(&line)).unwrap();
        let out = match std::panic::catch_unwind(|| asca::verif::lex_line(&line)) { Ok(s) => s, Err(_) => "panic".to_string() };
        *st.entry("lex.stream.multi-line".into()).or_default() += 1;
        writeln!(imp, "{out}").unwrap();
    }
    println!("STAT lex.ops {}", n + n / 20);
    for (k, v) in st { println!("STAT {k} {v}"); }
    0
}


/// a rule "line" that holds a line break (the library takes any string): comment / rule / blank parts joined by `\n`, `\r\n`, a tab
fn multi_line(g: &mut Gen) -> String {
    let part = |g: &mut Gen| match g.rng.below(5) { 0 => format!(";; {}", noise(g, 2)), 1 => String::new(), 2 => format!("{} ;; note", g.rule(Profile::Tame)), 3 => "  ".to_string(), _ => g.rule(Profile::Tame) };
    let k = 2 + g.rng.below(2);
    (0..k).map(|_| part(g)).collect::<Vec<_>>().join(["\n", "\r\n", "\n", " \n\t"][g.rng.below(4)])
}

/// `parse-ops <ops> <impl> <tier> <seed>`: the Lean port of lexer + parser ≙ `Lexer::get_line` + `Parser::parse` on the same
/// lines: the parsed rule as a flat stream, `none` for blank/comment lines, or the error variant with its underlined spans
pub fn parse_ops(args: &[String]) -> i32 {
    quiet_panics();
    let mut ops = std::io::BufWriter::new(std::fs::File::create(&args[0]).unwrap());
    let mut imp = std::io::BufWriter::new(std::fs::File::create(&args[1]).unwrap());
    let thorough = args.get(2).map(|s| s == "thorough").unwrap_or(false);
    let seed: u64 = args.get(3).and_then(|s| s.parse().ok()).unwrap_or(1);
    let mut g = Gen::new(seed ^ 0x9A25E);
    let n = if thorough { 500_000 } else { 40_000 };
    let mut st: std::collections::BTreeMap<String, u64> = Default::default();
    for case in 0..n {
        let base = match case % 4 { 0 => g.rule(Profile::Full), 1 => g.rule(Profile::Tame), 2 => g.edge_rule(), _ => g.binding_rule() };
        let (stream, line) = match case % 7 {
            0 | 1 => ("grammar", base),
            2 => ("mutation", mutate(&mut g, &base)),
            3 => ("respelling", respell(&mut g, &base)),
            4 => { let m = mutate(&mut g, &base); ("double-mutation", mutate(&mut g, &m)) }
            5 => { let k = 1 + g.rng.below(8); ("noise", noise(&mut g, k)) }
            _ => if case % 2 == 0 { ("commented", format!("{base} ;; {}", noise(&mut g, 3))) } else {
                // the parser's known panic sites: numbers above usize::MAX, a diacritic after an empty term
                let big = ["99999999999999999999", "18446744073709551616", "18446744073709551615", "0018446744073709551615", "184467440737095516150"][g.rng.below(5)];
                let probe = match g.rng.below(8) {
                    0 => format!("C={big} > {big}"), 1 => format!("%={big} > e"), 2 => format!("a > e / _ (C,{big})"), 3 => format!("a > e / _ (C,1:{big})"),
                    4 => format!("⟨CV⟩={big} > *"), 5 => "t,,ʰ > x".to_string(), 6 => "a > t,,ʰ".to_string(), _ => format!("[+nas]={big} V > 1 / _{big}:[+long]"),
                };
                ("panic-probe", if g.rng.chance(1, 3) { mutate(&mut g, &probe) } else { probe })
            },
        };
        writeln!(ops, "parse {}", cps(&line)).unwrap();
        let out = match std::panic::catch_unwind(|| asca::verif::parse_line(&line)) { Ok(s) => s, Err(_) => "panic".to_string() };
        *st.entry(format!("parse.stream.{stream}")).or_default() += 1;
        let class = out.split(' ').take(if out.starts_with("err") { 2 } else { 1 }).collect::<Vec<_>>().join(".");
        *st.entry(format!("parse.outcome.{class}")).or_default() += 1;
        writeln!(imp, "{out}").unwrap();
    }
    for _ in 0..n / 20 {
        let line = multi_line(&mut g);
        writeln!(ops, "parse {}", cps(&line)).unwrap();
        let out = match std::panic::catch_unwind(|| asca::verif::parse_line(&line)) { Ok(s) => s, Err(_) => "panic".to_string() };
        *st.entry("parse.stream.multi-line".into()).or_default() += 1;
        let class = out.split(' ').take(if out.starts_with("err") { 2 } else { 1 }).collect::<Vec<_>>().join(".");
        *st.entry(format!("parse.outcome.{class}")).or_default() += 1;
        writeln!(imp, "{out}").unwrap();
    }
    println!("STAT parse.ops {}", n + n / 20);
    for (k, v) in st { println!("STAT {k} {v}"); }
    0
}

const ALIAS_BITS: &[&str] = &["a", "ʃ", "t͡s", "kʷʰ", "n̥", "g", "ñ", "¢", "C", "V", "O", "Q", "[", "]", "+", "-", "nas", "long", "str", "stress", "tone", "tn", ":", "51", "70000", "65535", "65536",
    "99999999999999999999", ",", " ", ">", "=>", "->", "=", "<", "$", "*", "∅", "%", "#", "_", "sh", "á", "x", "\\", "@", "{", "}", "acute", "ACUTE", "brv", "zz", "u", "0301", "110000", "D800", "q", "'", "ʰ", "̥", "^",
    "α", "A", ".", "\t", "\u{3000}", "\\u{301}", "@{acute}", "\\,", "\\>", "+@{grave}", "\\u{ 1F600 }", "@{ ring }"];

fn alias_seg(g: &mut Gen) -> String {
    let base = match g.rng.below(6) { 0 => "ʃ".to_string(), 1 => ["C", "V", "O", "N", "P"][g.rng.below(5)].to_string(), 2 => "[+str]".to_string(), 3 => "a".to_string(), 4 => "kʷ".to_string(), _ => g.seg() };
    match g.rng.below(8) { 0 => format!("{base}:[+long]"), 1 => format!("{base}:[+str, -long]"), 2 => format!("{base}:[tone: {}]", ["5", "51", "214", "050", "65535", "65536"][g.rng.below(6)]),
        3 => { let k = 1 + g.rng.below(3); format!("{base}:[{}]", (0..k).map(|_| format!("{}{}", ["+", "-"][g.rng.below(2)], ["long", "overlong", "stress", "sec.stress", "nasal", "voice", "round", "place", "lab"][g.rng.below(9)])).collect::<Vec<_>>().join(", ")) }
        4 => format!("{base}:[+overlong]"), _ => base }
}
fn alias_repl(g: &mut Gen) -> String {
    let r = ["sh", "tt", "á", "@{acute}", "\\u{00FE}", "@{Space}", "x", "*", "∅", "\\,", "a\\>b", "é@{grave}", "q\\u{301}"][g.rng.below(13)];
    if g.rng.chance(1, 4) { format!("+{r}") } else { r.to_string() }
}
fn alias_gen(g: &mut Gen, derom: bool) -> String {
    let n = 1 + g.rng.below(3);
    let segs: Vec<String> = (0..n).map(|_| if g.rng.chance(1, 8) { "$".to_string() } else { let k = 1 + g.rng.below(2); (0..k).map(|_| alias_seg(g)).collect::<Vec<_>>().join("") }).collect();
    let m = if g.rng.chance(2, 3) { n } else { 1 + g.rng.below(3) };
    let repls: Vec<String> = (0..m).map(|_| alias_repl(g)).collect();
    let arrow = [">", "=>", "->", " > "][g.rng.below(4)];
    if derom { format!("{} {arrow} {}", repls.join(", "), segs.join(", ")) } else { format!("{} {arrow} {}", segs.join(", "), repls.join(", ")) }
}
fn alias_mutate(g: &mut Gen, line: &str) -> String {
    let mut cs: Vec<String> = line.chars().map(|c| c.to_string()).collect();
    if cs.is_empty() { return line.to_string() }
    for _ in 0..1 + g.rng.below(2) {
        let i = g.rng.below(cs.len());
        match g.rng.below(4) { 0 => { cs.remove(i); if cs.is_empty() { cs.push("a".into()); } } 1 => { let x = cs[i].clone(); cs.insert(i, x); } 2 => { cs[i] = ALIAS_BITS[g.rng.below(ALIAS_BITS.len())].to_string(); } _ => { cs.insert(i, ALIAS_BITS[g.rng.below(ALIAS_BITS.len())].to_string()); } }
    }
    cs.concat()
}

/// `aliasp-ops <ops> <impl> <tier> <seed>`: the Lean port of the alias lexer + parser ≙ `AliasLexer::get_line` + `AliasParser::parse`
pub fn alias_ops(args: &[String]) -> i32 {
    quiet_panics();
    let mut ops = std::io::BufWriter::new(std::fs::File::create(&args[0]).unwrap());
    let mut imp = std::io::BufWriter::new(std::fs::File::create(&args[1]).unwrap());
    let thorough = args.get(2).map(|s| s == "thorough").unwrap_or(false);
    let seed: u64 = args.get(3).and_then(|s| s.parse().ok()).unwrap_or(1);
    let mut g = Gen::new(seed ^ 0xA11A5);
    let n = if thorough { 500_000 } else { 40_000 };
    let mut st: std::collections::BTreeMap<String, u64> = Default::default();
    for case in 0..n {
        let derom = case % 2 == 0;
        let (stream, line) = match case % 5 {
            0 | 1 => ("grammar", alias_gen(&mut g, derom)),
            2 => { let b = alias_gen(&mut g, derom); ("mutation", alias_mutate(&mut g, &b)) }
            3 => ("c02-alias-line", crate::c02::alias_line(&mut g, derom)),
            _ => { let k = 1 + g.rng.below(8); ("noise", (0..k).map(|_| ALIAS_BITS[g.rng.below(ALIAS_BITS.len())]).collect::<String>()) }
        };
        writeln!(ops, "aliasp {} {}", if derom { 1 } else { 0 }, cps(&line)).unwrap();
        let out = match std::panic::catch_unwind(|| asca::verif::alias_line(derom, &line)) { Ok(s) => s, Err(_) => "panic".to_string() };
        *st.entry(format!("aliasp.stream.{stream}")).or_default() += 1;
        let class = out.split(' ').take(if out.starts_with("err") { 2 } else { 1 }).collect::<Vec<_>>().join(".");
        *st.entry(format!("aliasp.outcome.{class}")).or_default() += 1;
        writeln!(imp, "{}", out.trim_end()).unwrap();
    }
    println!("STAT aliasp.ops {n}");
    for (k, v) in st { println!("STAT {k} {v}"); }
    0
}
