//! Correspondence / search harness: calls the real `asca` crate (built from /repo's working tree with
//! `--features verif`) in-process and prints canonical lines that `/verif/check` diffs against the Lean
//! model driver, or evaluates a property directly on the implementation (search).
mod c02;
mod c04;
mod c05;
mod c13;
mod c15;
mod c19;
mod c20;
mod c17;
mod c18;
mod frag;
mod gen;
mod interp;
mod props;
mod runner;
mod util;
mod words;
mod lexops;

fn main() {
    let args: Vec<String> = std::env::args().collect();
    let cmd = args.get(1).map(|s| s.as_str()).unwrap_or("");
    let rest = &args[2.min(args.len())..];
    let code = match cmd {
        "c18-enum" => c18::enumerate(rest),
        "c18-laws" => c18::laws(rest),
        "tables" => util::dump_tables(rest),
        "c04-ops" => c04::ops(rest),
        "c04-spec" => c04::spec(rest),
        "c05-spec" => c05::spec(rest),
        "word-ops" => words::ops(rest),
        "lex-ops" => lexops::ops(rest),
        "parse-ops" => lexops::parse_ops(rest),
        "aliasp-ops" => lexops::alias_ops(rest),
        "c09-spec" => words::c09(rest),
        "render-all" => words::render_all(rest),
        "interp-ops" => interp::ops(rest),
        "c02-spec" => c02::spec(rest),
        "c03-spec" => frag::spec(rest),
        "c15-spec" => c15::spec(rest),
        "alias-ops" => c15::ops(rest),
        "c19-gen" => c19::gen(rest),
        "c20-gen" => c20::gen(rest),
        "c13-spec" => c13::spec(rest),
        "c17-spec" => c17::spec(rest),
        "c06-spec" => props::c06(rest),
        "c07-spec" => props::c07(rest),
        "c08-spec" => props::c08(rest),
        "c12-spec" => props::c12(rest),
        "c14-spec" => props::c14(rest),
        "runner" => runner::main(rest),
        "probe" => { // probe <word> <rule>... : outcome of asca::run on one word
            let groups = [asca::RuleGroup::from("g", rest[1..].to_vec(), "")];
            let o = util::guarded(|| asca::run(&groups, &[rest[0].clone()], &[], &[]));
            println!("{:?}", o); 0 }
        "gen-stats" => runner::gen_stats(rest),
        _ => { eprintln!("unknown command {cmd:?}"); 2 }
    };
    std::process::exit(code);
}
