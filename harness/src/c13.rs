//! C13: alternative spellings of the same rule or word behave identically.
use asca::RuleGroup;
use crate::gen::{Gen, Profile};
use crate::runner::Stats;
use crate::util::*;

fn run1(rule: &str, word: &str) -> Out<Vec<String>> {
    let g = [RuleGroup::from_rules(vec![rule.to_string()])];
    guarded(|| asca::run(&g, &[word.to_string()], &[], &[]))
}
fn same(a: &Out<Vec<String>>, b: &Out<Vec<String>>) -> bool {
    match (a, b) { (Out::Ok(x), Out::Ok(y)) => x == y, (Out::Err(x), Out::Err(y)) => err_kind(x) == err_kind(y), (Out::Panic(_), Out::Panic(_)) | (Out::Hang(_), Out::Hang(_)) => true, _ => false }
}

fn load_names(path: &str) -> Vec<Vec<String>> {
    std::fs::read_to_string(path).expect("feat_names.txt from the translator").lines().map(|l| l.split(' ').skip(2).map(|s| s.to_string()).collect()).filter(|v: &Vec<String>| !v.is_empty()).collect()
}

/// replace every feature name inside matrices by a random synonym of the same feature
fn respell_features(g: &mut Gen, rule: &str, names: &[Vec<String>], spaces: bool) -> String {
    let mut out = String::new(); let mut depth = 0; let mut word = String::new();
    let flush = |word: &mut String, out: &mut String, g: &mut Gen| {
        if !word.is_empty() {
            let lw = word.to_lowercase();
            if let Some(row) = names.iter().find(|r| r.contains(&lw)) { let pick = &row[g.rng.below(row.len())]; if spaces { for c in pick.chars() { out.push(c); if g.rng.chance(1, 3) { out.push(' '); } } } else { out.push_str(pick); } } else { out.push_str(word); }
            word.clear();
        }
    };
    let mut after_colon_tone = false;
    for c in rule.chars() {
        if c == '[' { depth += 1; out.push(c); continue }
        if c == ']' { flush(&mut word, &mut out, g); depth -= 1; out.push(c); after_colon_tone = false; continue }
        if depth > 0 && (c.is_ascii_alphabetic() || c == '.') && !after_colon_tone { word.push(c); continue }
        flush(&mut word, &mut out, g);
        if depth > 0 && c == ':' { after_colon_tone = true; }
        if depth > 0 && c == ',' { after_colon_tone = false; }
        out.push(c);
        if spaces && depth > 0 && !c.is_ascii_digit() && g.rng.chance(1, 3) { out.push(' '); }
    }
    out
}

pub fn spec(args: &[String]) -> i32 {
    quiet_panics();
    let thorough = args.get(0).map(|s| s == "thorough").unwrap_or(false);
    let seed: u64 = args.get(1).and_then(|s| s.parse().ok()).unwrap_or(1);
    let names = load_names(args.get(2).map(|s| s.as_str()).unwrap_or("/verif/lean/AscaVerif/Gen/feat_names.txt"));
    let mut g = Gen::new(seed ^ 0xC13);
    let mut st = Stats::new();
    // every spelling the pinned tree lists for a feature (harness/data/feat_names_pinned.txt, the table as it stood when the
    // properties were written) is still read as that feature, whatever the table of the tree under test says now
    for row in load_names("/verif/harness/data/feat_names_pinned.txt") {
        let canon = match guarded(|| Ok(asca::verif::lex_line(&format!("[+{}]", row[0])))) { Out::Ok(s) => s, _ => continue };
        let kind_of = |s: &str| s.split(';').nth(1).and_then(|t| t.split('|').next()).unwrap_or("?").to_string();
        for sp in &row {
            for text in [format!("[+{sp}]"), format!("[+{}]", sp.to_uppercase()), format!("[ + {} ]", sp.chars().map(|c| c.to_string()).collect::<Vec<_>>().join(" "))] {
                st.inc("c13.pinned_spellings");
                let got = match guarded(|| Ok(asca::verif::lex_line(&text))) { Out::Ok(s) => s, o => o.class() };
                if !got.starts_with("ok") || kind_of(&got) != kind_of(&canon) {
                    println!("FINDING c13-feature-spelling-differs spelling={sp:?} text={text:?} lexed={:?} canonical={:?}", got.chars().take(120).collect::<String>(), kind_of(&canon));
                }
            }
        }
    }
    let n = if thorough { 400000 } else { 30000 };
    for case in 0..n {
        let mut rule = g.rule(if case % 3 == 0 { Profile::Basic } else { Profile::Tame });
        // the generator writes alphas as Greek or Latin capitals; group letters are also capitals, so only rename Greek ones
        if let Some(i) = rule.find(";;") { rule.truncate(i); }
        // every tenth word carries a click written with the optional caret between its halves (`ŋ^ǃ`, `ǃ^ɢ`), so that the
        // input aliases `! G N X` are also tried in the look-ahead after the caret
        let word = if case % 10 == 7 {
            let fronts = ["ŋ^ǃ", "ŋ^ǀ", "ɴ^ǁ", "ŋ^ǂ", "ɴ^ǃ", "ǃ^ɢ", "ǂ^ɴ", "ǁ^χ", "ǃ^q", "ǀ^ɢ", "ŋǃ", "ǃɢ", "ɴ^ʘ"];
            format!("{}{}{}", if g.rng.chance(1, 2) { g.small_word() + "." } else { String::new() }, fronts[g.rng.below(fronts.len())], ["a", "i", "u.ta", "aː"][g.rng.below(4)])
        } else if case % 4 == 0 { g.small_word() } else { g.word() };
        let base = run1(&rule, &word);
        st.inc("c13.cases"); st.inc(&format!("c13.base.{}", base.class().split(':').next().unwrap_or("?")));
        if matches!(base, Out::Panic(_) | Out::Hang(_)) { continue }
        if let Out::Ok(v) = &base { if v[0] != word { st.inc("c13.nontrivial"); } }
        // ---- rule respellings ----
        let mut variants: Vec<(&str, String)> = Vec::new();
        for (a, b) in [(" > ", " => "), (" > ", " -> "), (" => ", " > "), (" -> ", " => "), (" => ", " -> ")] { if rule.contains(a) { variants.push(("arrow", rule.replacen(a, b, 1))); break } }
        if rule.contains(" | ") { variants.push(("pipe", rule.replacen(" | ", " // ", 1))); }
        if rule.contains(" // ") { variants.push(("pipe", rule.replacen(" // ", " | ", 1))); }
        if rule.contains('*') && !rule.contains("(*") { variants.push(("empty", rule.replace('*', "∅"))); }
        if rule.contains('∅') { variants.push(("empty", rule.replace('∅', "*"))); }
        if rule.contains("...") { variants.push(("ellipsis", rule.replace("...", ".."))); variants.push(("ellipsis", rule.replace("...", "…"))); }
        else if rule.contains("..") { variants.push(("ellipsis", rule.replace("..", "…"))); variants.push(("ellipsis", rule.replace("..", "..."))); }
        if rule.contains('⟨') { variants.push(("angle", rule.replace('⟨', "<").replace('⟩', ">"))); }
        if rule.contains('[') { variants.push(("feature-synonym", respell_features(&mut g, &rule, &names, false))); variants.push(("matrix-spaces", respell_features(&mut g, &rule, &names, true))); }
        variants.push(("comment", format!("{rule} ;; a trailing comment > with / symbols _")));
        variants.push(("comment", format!("{rule};;x")));
        // alpha renaming (Greek letters only, injectively, to other Greek letters or Latin capitals not used as groups)
        if rule.contains(['α', 'β', 'γ']) {
            let targets = [['δ', 'ε', 'ζ'], ['ω', 'ψ', 'χ'], ['β', 'γ', 'α'], ['H', 'J', 'K']][g.rng.below(4)];
            let r: String = rule.chars().map(|c| match c { 'α' => targets[0], 'β' => targets[1], 'γ' => targets[2], o => o }).collect();
            variants.push(("alpha-rename", r));
        }
        // variable renumbering
        if rule.contains("=1") {
            let r = rule.replace("=1", "=7").replace("=2", "=9");
            // uses of the variables: bare numbers outside matrices
            let mut out = String::new(); let mut depth = 0;
            let cs: Vec<char> = r.chars().collect();
            for (i, c) in cs.iter().enumerate() {
                if *c == '[' || *c == '(' { depth += 1 } if *c == ']' || *c == ')' { depth -= 1 }
                let prev = if i > 0 { cs[i - 1] } else { ' ' };
                if depth == 0 && prev != '=' && !prev.is_ascii_digit() && (i + 1 >= cs.len() || !cs[i + 1].is_ascii_digit()) { if *c == '1' { out.push('7'); continue } if *c == '2' { out.push('9'); continue } }
                out.push(*c);
            }
            variants.push(("variable-renumber", out));
        }
        for (what, v) in &variants {
            if v == &rule { continue }
            let o = run1(v, &word);
            st.inc("c13.rule_respellings"); st.inc(&format!("c13.kind.{what}"));
            if !same(&base, &o) {
                let minus_space_alpha = { let cs: Vec<char> = v.chars().collect(); (0..cs.len()).any(|i| cs[i] == '-' && i + 2 < cs.len() && cs[i + 1] == ' ' && { let mut j = i + 1; while j < cs.len() && cs[j] == ' ' { j += 1 } j < cs.len() && (('α'..='ω').contains(&cs[j]) || cs[j].is_ascii_uppercase()) }) };
                let fam = if *what == "comment" && rule.trim_end().ends_with('_') { ":underline-then-comment" } else if *what == "matrix-spaces" && minus_space_alpha { ":space-between-minus-and-alpha" } else { "" };
                println!("FINDING c13-{what}-differs{fam} rule={rule:?} respelled={v:?} word={word:?} base={} respelled_result={}", base.class(), match &o { Out::Ok(x) => format!("{x:?}"), e => e.class() });
            }
        }
        // ---- word respellings ----
        let mut wv: Vec<(&str, String)> = Vec::new();
        if word.contains('ˈ') { wv.push(("stress-mark", word.replace('ˈ', "'"))); }
        if word.contains('ˌ') { wv.push(("stress-mark", word.replace('ˌ', ","))); }
        if word.contains('ː') { wv.push(("length-mark", word.replace('ː', ":"))); }
        if word.contains("ː.") { wv.push(("length-mark", word.replacen("ː.", ";", 1))); }
        if word.contains('͡') { wv.push(("tie", word.replace('͡', "^"))); }
        for (a, b) in [('ɡ', 'g'), ('ʔ', '?'), ('ǃ', '!'), ('ə', 'ǝ'), ('ɸ', 'φ'), ('ʃ', 'S'), ('ʒ', 'Z'), ('ɕ', 'C'), ('ɢ', 'G'), ('ɴ', 'N'), ('ʙ', 'B'), ('ʀ', 'R'), ('χ', 'X'), ('ʜ', 'H'), ('ɐ', 'A'), ('ɛ', 'E'), ('ɪ', 'I'), ('ɔ', 'O'), ('ʊ', 'U'), ('ʏ', 'Y')] {
            if word.contains(a) { wv.push(("input-alias", word.replace(a, &b.to_string()))); }
        }
        // doubled segment = length mark (single-character graphemes only)
        let cs: Vec<char> = word.chars().collect();
        if case % 4 == 0 { if let Some(i) = (1..cs.len()).find(|i| cs[*i] == 'ː' && "adstzinu".contains(cs[*i - 1])) {
            let mut d = cs.clone(); d[i] = cs[i - 1];
            // only when the doubled letter does not start a longer grapheme with what follows
            wv.push(("doubled", d.into_iter().collect()));
        } }
        for (what, w2) in &wv {
            let o = run1(&rule, w2);
            st.inc("c13.word_respellings"); st.inc(&format!("c13.kind.{what}"));
            if !same(&base, &o) { println!("FINDING c13-{what}-differs rule={rule:?} word={word:?} respelled={w2:?} base={} respelled_result={}", match &base { Out::Ok(x) => format!("{x:?}"), e => e.class() }, match &o { Out::Ok(x) => format!("{x:?}"), e => e.class() }); }
        }
        if case < 4 { st.sample(format!("{rule:?} ~ {:?}", variants.iter().map(|v| v.1.clone()).take(3).collect::<Vec<_>>())); }
    }
    st.print();
    0
}
