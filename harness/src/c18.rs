//! C18: exhaustive enumeration of the public `Place` / `Segment` accessors.
use std::io::Write;
use asca::{NodeKind, Place, Segment};
use asca::verif;
use crate::util::{opt16, opt8};

const SUBS: [NodeKind; 4] = [NodeKind::Labial, NodeKind::Coronal, NodeKind::Dorsal, NodeKind::Pharyngeal];
const RNG: [u8; 4] = [3, 3, 63, 3];

fn mk_place(p: Option<u16>) -> Place { let mut pl = Place::default(); *pl = p; pl }
fn all_places() -> impl Iterator<Item = Option<u16>> { std::iter::once(None).chain((0..=u16::MAX).map(Some)) }

fn get_sub(p: &Place, k: usize) -> Option<u8> {
    match k { 0 => p.get_labial(), 1 => p.get_coronal(), 2 => p.get_dorsal(), _ => p.get_pharyngeal() }
}
fn set_sub(p: &mut Place, k: usize, v: Option<u8>) {
    match k { 0 => p.set_labial(v), 1 => p.set_coronal(v), 2 => p.set_dorsal(v), _ => p.set_pharyngeal(v) }
}

fn node_of(idx: usize) -> NodeKind {
    [NodeKind::Root, NodeKind::Manner, NodeKind::Laryngeal, NodeKind::Place, NodeKind::Labial, NodeKind::Coronal, NodeKind::Dorsal, NodeKind::Pharyngeal][idx]
}

fn seg_line(s: &Segment) -> String { format!("{} {} {} {}", s.root, s.manner, s.laryngeal, opt16(*s.place)) }

/// One line per place (`P`), per (feature, byte/place) (`F`), per place (`N`); the Lean driver's
/// `enum-c18` prints the same lines from the model.
pub fn enumerate(_args: &[String]) -> i32 {
    let out = std::io::stdout();
    let mut out = std::io::BufWriter::with_capacity(1 << 20, out.lock());
    for p in all_places() {
        let pl = mk_place(p);
        let mut line = format!("P {}", opt16(p));
        for k in 0..4 { line.push(' '); line.push_str(&opt8(get_sub(&pl, k))); }
        for k in 0..4 {
            let mut q = pl; set_sub(&mut q, k, None);
            line.push(' '); line.push_str(&opt16(*q));
            for v in 0..=RNG[k] {
                let mut q = pl; set_sub(&mut q, k, Some(v));
                line.push(' '); line.push_str(&opt16(*q));
            }
        }
        writeln!(out, "{line}").unwrap();
    }
    for i in 0..26 {
        let (nidx, mask) = verif::feat_node_mask(i);
        let node = node_of(nidx);
        let base = Segment { root: 5, manner: 0xA5, laryngeal: 3, place: mk_place(Some(0xA454)) };
        let mut emit = |tag: String, s: Segment| {
            let mut a = s; a.set_feat(node, mask, true);
            let mut b = s; b.set_feat(node, mask, false);
            writeln!(out, "F {i} {tag} | {} | {} | {} {} {}", seg_line(&a), seg_line(&b), opt8(s.get_feat(node, mask)),
                s.feat_match(node, mask, true) as u8, s.feat_match(node, mask, false) as u8).unwrap();
        };
        if nidx <= 2 {
            for b in 0..=255u8 {
                let mut s = base;
                match nidx { 0 => s.root = b, 1 => s.manner = b, _ => s.laryngeal = b }
                emit(b.to_string(), s);
            }
        } else {
            for p in all_places() {
                let mut s = base; s.place = mk_place(p);
                emit(opt16(p), s);
            }
        }
    }
    for p in all_places() {
        let s = Segment { root: 5, manner: 0xA5, laryngeal: 3, place: mk_place(p) };
        let mut line = format!("N {}", opt16(p));
        for (k, n) in SUBS.iter().enumerate() {
            let cur = get_sub(&s.place, k);
            for mv in [None, Some(0u8), Some(1u8), Some(RNG[k]), cur] {
                line.push(' '); line.push(if s.node_match(*n, mv) { '1' } else { '0' });
            }
            line.push(' '); line.push(if s.is_node_some(*n) { '1' } else { '0' });
        }
        writeln!(out, "{line}").unwrap();
    }
    0
}

/// The laws of C18 evaluated directly on the implementation over the whole space.
/// Prints `FAIL <law> <case>` for the first failure of each law and returns 1, else `OK <n>` and 0.
pub fn laws(_args: &[String]) -> i32 {
    let mut n: u64 = 0;
    let mut fails: Vec<String> = Vec::new();
    let mut fail = |law: &str, case: String, fails: &mut Vec<String>| {
        if !fails.iter().any(|f| f.starts_with(&format!("FAIL {law} "))) { fails.push(format!("FAIL {law} {case}")); }
    };
    for p in all_places() {
        let pl = mk_place(p);
        for k in 0..4 {
            // unset
            let mut q = pl; set_sub(&mut q, k, None); n += 1;
            if get_sub(&q, k).is_some() { fail("get_unset", format!("place={} sub={k}", opt16(p)), &mut fails); }
            if *q == Some(0) { fail("never_some_zero", format!("place={} sub={k} v=-", opt16(p)), &mut fails); }
            // no residual bits: setting the sub-node to 0 afterwards equals "fresh" presence only
            let mut r = q; set_sub(&mut r, k, Some(0)); let mut r2 = r; set_sub(&mut r2, k, None);
            if r2 != q { fail("unset_residual", format!("place={} sub={k}", opt16(p)), &mut fails); }
            for k2 in 0..4 { if k2 != k && get_sub(&q, k2) != get_sub(&pl, k2) { fail("set_frame", format!("place={} sub={k} v=- other={k2}", opt16(p)), &mut fails); } }
            if (0..4).all(|k2| k2 == k || get_sub(&pl, k2).is_none()) && wf(p) && q.is_some() {
                fail("last_unset_none", format!("place={} sub={k}", opt16(p)), &mut fails);
            }
            for v in 0..=RNG[k] {
                let mut q = pl; set_sub(&mut q, k, Some(v)); n += 1;
                if get_sub(&q, k) != Some(v) { fail("get_set", format!("place={} sub={k} v={v}", opt16(p)), &mut fails); }
                if *q == Some(0) { fail("never_some_zero", format!("place={} sub={k} v={v}", opt16(p)), &mut fails); }
                for k2 in 0..4 { if k2 != k && get_sub(&q, k2) != get_sub(&pl, k2) { fail("set_frame", format!("place={} sub={k} v={v} other={k2}", opt16(p)), &mut fails); } }
            }
            if wf(p) {
                let mut q = pl; set_sub(&mut q, k, get_sub(&pl, k)); n += 1;
                if q != pl { fail("set_get_id", format!("place={} sub={k}", opt16(p)), &mut fails); }
            }
        }
    }
    // feature level
    for i in 0..26 {
        let (nidx, mask) = verif::feat_node_mask(i);
        let node = node_of(nidx);
        let others: Vec<(NodeKind, u8)> = (0..26).filter(|j| *j != i).map(|j| { let (a, b) = verif::feat_node_mask(j); (node_of(a), b) }).collect();
        let mut check = |s: Segment, tag: String, fails: &mut Vec<String>| {
            for pos in [true, false] {
                let mut a = s; a.set_feat(node, mask, pos); n += 1;
                let present_before = s.get_node(node).is_some();
                if pos {
                    if a.get_feat(node, mask) != Some(mask) || !a.feat_match(node, mask, true) { fail("getFeat_setFeat_pos", format!("feat={i} {tag}"), fails); }
                } else if present_before {
                    if a.get_feat(node, mask) != Some(0) || !a.feat_match(node, mask, false) { fail("getFeat_setFeat_neg", format!("feat={i} {tag}"), fails); }
                } else if a != s { fail("setFeat_neg_absent_noop", format!("feat={i} {tag}"), fails); }
                for (on, om) in others.iter() {
                    let before = s.get_feat(*on, *om);
                    let after = a.get_feat(*on, *om);
                    let same_node_created = *on == node && !present_before && pos;
                    if same_node_created { if after != Some(0) { fail("setFeat_pos_absent_creates", format!("feat={i} {tag}"), fails); } }
                    else if before != after { fail("setFeat_frame", format!("feat={i} pos={pos} {tag} other_mask={om}"), fails); }
                }
            }
        };
        let base = Segment { root: 5, manner: 0xA5, laryngeal: 3, place: mk_place(Some(0xA454)) };
        if nidx <= 2 {
            for b in 0..=255u8 { let mut s = base; match nidx { 0 => s.root = b, 1 => s.manner = b, _ => s.laryngeal = b } check(s, format!("byte={b}"), &mut fails); }
        } else {
            for p in all_places() { let mut s = base; s.place = mk_place(p); check(s, format!("place={}", opt16(p)), &mut fails); }
        }
    }
    // node level, all seven nodes (Root, Manner and Laryngeal exist whether or not there is a place)
    let all_nodes = [NodeKind::Root, NodeKind::Manner, NodeKind::Laryngeal, NodeKind::Labial, NodeKind::Coronal, NodeKind::Dorsal, NodeKind::Pharyngeal];
    let mut node_laws = |s: Segment, tag: String, fails: &mut Vec<String>| {
        for nd in all_nodes {
            let cur = s.get_node(nd); n += 1;
            if !s.node_match(nd, cur) { fail("nodeMatch_getNode", format!("node={nd:?} {tag}"), fails); }
            if s.node_match(nd, None) != cur.is_none() { fail("nodeMatch_none", format!("node={nd:?} {tag}"), fails); }
            for v in [0u8, 1, 2, 3, 0xA5, 255] {
                if s.node_match(nd, Some(v)) != (cur == Some(v)) { fail("nodeMatch_value", format!("node={nd:?} v={v} {tag}"), fails); }
            }
            if s.is_node_some(nd) != cur.is_some() { fail("isNodeSome_getNode", format!("node={nd:?} {tag}"), fails); }
        }
    };
    for p in all_places() { node_laws(Segment { root: 5, manner: 0xA5, laryngeal: 3, place: mk_place(p) }, format!("place={}", opt16(p)), &mut fails); }
    for b in 0..=255u8 { for p in [None, Some(0xA454u16), Some(0x8000)] {
        node_laws(Segment { root: b, manner: b.wrapping_mul(7), laryngeal: b & 7, place: mk_place(p) }, format!("byte={b} place={}", opt16(p)), &mut fails);
    } }
    for f in &fails { println!("{f}"); }
    println!("OK {n}");
    if fails.is_empty() { 0 } else { 1 }
}

/// well-formed place: not Some(0), and no payload bits under an absent sub-node
fn wf(p: Option<u16>) -> bool {
    match p {
        None => true,
        Some(x) => x != 0
            && (x & 0x8000 != 0 || x & 0x0c00 == 0)
            && (x & 0x4000 != 0 || x & 0x0300 == 0)
            && (x & 0x2000 != 0 || x & 0x00fc == 0)
            && (x & 0x1000 != 0 || x & 0x0003 == 0),
    }
}
