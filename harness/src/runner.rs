//! Runner suites: C10 (composition), C11 (independence), C16 (trace) and the `glue` correspondence
//! (the Lean runner model's composition scheme, instantiated with the real components, equals the real `run`).
use std::collections::BTreeMap;
use asca::verif::{self, RulesH, WordH, WordS};
use asca::RuleGroup;
use crate::gen::{Gen, Profile};
use crate::util::*;

fn groups_of(gs: &[Vec<String>]) -> Vec<RuleGroup> {
    gs.iter().enumerate().map(|(i, g)| RuleGroup::from(format!("g{i}"), g.clone(), String::new())).collect()
}

pub fn run_impl(gs: &[Vec<String>], words: &[String], into: &[String], from: &[String]) -> Out<Vec<String>> {
    let g = groups_of(gs);
    guarded(|| asca::run(&g, words, into, from))
}

/// The model's `Run.run` (Model/Run.lean), written with the real components (hooks).
fn scheme_run(gs: &[Vec<String>], phrases: &[String], into: &[String], from: &[String]) -> Out<Vec<String>> {
    let g = groups_of(gs);
    guarded(|| -> Result<Vec<String>, asca::Error> {
        verif::check_aliases(into, from)?;
        let mut ps: Vec<Vec<WordH>> = Vec::new();
        for ph in phrases {
            let mut v = Vec::new();
            for w in ph.split(' ') { v.push(WordH::parse(w, into)?); }
            ps.push(v);
        }
        let rules = RulesH::parse(&g)?;
        let mut res: Vec<Vec<WordH>> = Vec::new();
        for ph in &ps {
            let mut v = Vec::new();
            for w in ph {
                let mut cur = w.clone();
                for gi in 0..rules.len() { cur = rules.apply_group(gi, &cur)?; }
                v.push(cur);
            }
            res.push(v);
        }
        let mut out = Vec::new();
        for ph in &res {
            let mut s = String::new();
            for w in ph { s.push_str(&w.render(from)?); s.push(' '); }
            out.push(s.trim_end().to_owned());
        }
        Ok(out)
    })
}

/// The model's `Run.traceChanges`, with the real components.
fn scheme_trace(gs: &[Vec<String>], phrase: &str, into: &[String]) -> Out<Vec<(usize, Vec<WordS>)>> {
    let g = groups_of(gs);
    guarded(|| -> Result<Vec<(usize, Vec<WordS>)>, asca::Error> {
        verif::check_aliases(into, &[])?;
        let mut ph: Vec<WordH> = Vec::new();
        for w in phrase.split(' ') { ph.push(WordH::parse(w, into)?); }
        let rules = RulesH::parse(&g)?;
        let mut acc = Vec::new();
        for gi in 0..rules.len() {
            let mut next = Vec::new();
            for w in &ph { next.push(rules.apply_group(gi, w)?); }
            let same = next.len() == ph.len() && next.iter().zip(&ph).all(|(a, b)| a.same(b));
            if !same { acc.push((gi, next.iter().map(|w| w.structure()).collect())); }
            ph = next;
        }
        Ok(acc)
    })
}

fn trace_impl(gs: &[Vec<String>], phrase: &str, into: &[String]) -> Out<Vec<(usize, Vec<WordS>)>> {
    let g = groups_of(gs);
    guarded(|| asca::trace_changes(&g, phrase.to_string(), into).map(|cs| cs.iter().map(verif::change_to_s).collect()))
}

fn trace_string_impl(gs: &[Vec<String>], phrase: &str, into: &[String]) -> Out<Vec<String>> {
    let g = groups_of(gs);
    guarded(|| asca::get_trace_string(&g, phrase.to_string(), into))
}

fn roundtrips(text: &str) -> bool {
    // parse(render(parse(text))) == parse(text), structurally, and the rendering reproduces `text`'s structure
    match guarded(|| WordH::parse(text, &[])) {
        Out::Ok(w) => match guarded(|| w.render(&[])) {
            Out::Ok(r) => match guarded(|| WordH::parse(&r, &[])) { Out::Ok(w2) => w2.structure() == w.structure(), _ => false },
            _ => false,
        },
        _ => false,
    }
}

pub struct Stats { pub m: BTreeMap<String, u64>, pub samples: Vec<String> }
impl Stats {
    pub fn new() -> Self { Stats { m: BTreeMap::new(), samples: Vec::new() } }
    pub fn inc(&mut self, k: &str) { *self.m.entry(k.to_string()).or_insert(0) += 1; }
    pub fn add(&mut self, k: &str, n: u64) { *self.m.entry(k.to_string()).or_insert(0) += n; }
    pub fn sample(&mut self, s: String) { if self.samples.len() < 8 { self.samples.push(s); } }
    pub fn print(&self) {
        for (k, v) in &self.m { println!("STAT {k} {v}"); }
        for s in &self.samples { println!("SAMPLE {s}"); }
    }
}

fn esc(v: &[String]) -> String { format!("{:?}", v) }
fn escg(v: &[Vec<String>]) -> String { format!("{:?}", v) }

const AMER: &[char] = &['¢', 'ƛ', 'λ', 'ł', 'ñ'];

/// `runner <prop> <seed> <cases>`; prop ∈ glue | C10 | C11 | C16.
/// Prints `FINDING <kind> <json-ish case>` lines, `STAT`/`SAMPLE` lines; exit 0 always (the check decides).
pub fn main(args: &[String]) -> i32 {
    let prop = args.get(0).map(|s| s.as_str()).unwrap_or("glue");
    let seed: u64 = args.get(1).and_then(|s| s.parse().ok()).unwrap_or(1);
    let cases: usize = args.get(2).and_then(|s| s.parse().ok()).unwrap_or(1000);
    quiet_panics();
    let mut g = Gen::new(seed ^ 0xA5CA);
    let mut st = Stats::new();
    for case in 0..cases {
        let nrules = 1 + g.rng.below(5);
        let prof = if g.rng.chance(1, 3) { Profile::Basic } else { Profile::Tame };
        let mut rules = g.rules(prof, nrules);
        if g.rng.chance(1, 10) { rules.insert(g.rng.below(rules.len() + 1), if g.rng.chance(1, 2) { String::new() } else { ";; just a comment".into() }); }
        let groups = g.regroup(&rules);
        let nw = 1 + g.rng.below(5);
        let mut words = g.words(nw);
        if g.rng.chance(1, 12) { let i = g.rng.below(words.len()); words[i] = words[i].replace('s', "ł").replace('n', "ñ"); }
        // focused stream: binding rules over a small inventory (hidden state between words / match attempts)
        let (rules, groups, words) = if case % 3 == 2 {
            let r: Vec<String> = (0..1 + g.rng.below(2)).map(|_| g.binding_rule()).collect();
            let gr = g.regroup(&r);
            let w: Vec<String> = (0..2 + g.rng.below(4)).map(|_| g.small_word()).collect();
            (r, gr, w)
        } else if case % 3 == 1 {
            // focused stream: edge rules (unequal input/output lengths, `$`, `%`) over the small inventory, followed by ordinary rules:
            // what an earlier rule leaves behind in the structure is what the later ones see only in the one-shot run
            let mut r: Vec<String> = (0..1 + g.rng.below(2)).map(|_| g.edge_rule()).collect();
            for _ in 0..1 + g.rng.below(2) { r.push(g.basic_rule()); }
            if g.rng.chance(1, 2) { r.push(["% > [+stress] / _ % #", "V > [+long] / _ $", "s > z / V _ V", "t > d / V $ _"][g.rng.below(4)].to_string()); }
            let gr = g.regroup(&r);
            let w: Vec<String> = (0..2 + g.rng.below(3)).map(|_| { let mut t = g.small_word(); if g.rng.chance(1, 2) { let v = ["a", "i", "u"][g.rng.below(3)]; t = format!("{t}.{v}.{}", g.small_word()); } t }).collect();
            (r, gr, w)
        } else if case % 12 == 9 {
            // focused stream: a group changes a word, a later group puts it back to exactly its input form while another word has moved
            // on: every reported state is the state at that point, not a comparison with the input
            let pairs = [("a", "e"), ("i", "u"), ("t", "d"), ("s", "z"), ("k", "x"), ("n", "m")];
            let (x, y) = pairs[g.rng.below(pairs.len())];
            let (p, q) = loop { let c = pairs[g.rng.below(pairs.len())]; if c.0 != x { break c } };
            let mut gr: Vec<Vec<String>> = vec![vec![format!("{x} > {y}")], vec![format!("{p} > {q}")], vec![format!("{y} > {x}")]];
            if g.rng.chance(1, 3) { gr.insert(g.rng.below(4), vec![]); }
            if g.rng.chance(1, 3) { gr.push(vec![format!("{q} > {p}")]); }
            let r: Vec<String> = gr.iter().flatten().cloned().collect();
            let w: Vec<String> = vec![format!("p{x}t{x}"), format!("k{p}m{p}"), format!("{x}l{p}"), g.small_word()];
            (r, gr, w)
        } else if case % 12 == 6 {
            // focused stream: several groups, each with a rule that fails at run time on one kind of word, and words that fail in
            // different groups: the error of a run is the error of the FIRST failing word, whatever group it fails in
            let traps = [("a > *", "a"), ("% > *", "ti"), ("e > 1", "te"), ("o > %", "to"), ("u > [-long, +overlong]", "tu"), ("s > *", "s"), ("% > * / _#", "ki")];
            let k = 2 + g.rng.below(2);
            let mut pick: Vec<usize> = Vec::new();
            while pick.len() < k { let i = g.rng.below(traps.len()); if !pick.contains(&i) { pick.push(i); } }
            let gr: Vec<Vec<String>> = pick.iter().map(|i| { let mut v = vec![traps[*i].0.to_string()]; if g.rng.chance(1, 3) { v.insert(0, "p > b".into()); } v }).collect();
            let r: Vec<String> = gr.iter().flatten().cloned().collect();
            let mut w: Vec<String> = pick.iter().rev().map(|i| traps[*i].1.to_string()).collect();
            if g.rng.chance(1, 2) { w.swap(0, 1); }
            for _ in 0..g.rng.below(3) { let at = g.rng.below(w.len() + 1); w.insert(at, ["pi.ki", "mi.ni.ki", "pim.pi"][g.rng.below(3)].to_string()); }
            (r, gr, w)
        } else if case % 12 == 0 {
            // focused stream: a rule that makes a segment long (the run grows inside the syllable's buffer, also at its very front),
            // then rules that look at length; words with onsetless syllables among them
            let mut r: Vec<String> = vec![["V > [+long]", "a > [+long]", "Vr > [+long] / _C", "V > [+long] / _s", "V > [+long] / _ $", "V > [+overlong] / _ #", "C > [+long] / V _ V", "[] > [+long] / # _",
                "V > [+long] / _ C $"][g.rng.below(9)].to_string()];
            for _ in 0..1 + g.rng.below(2) { r.push(["a:[+long] > ɔ", "V:[+long] > [-long]", "V > [+nasal] / _s", "V:[-long] > ə", "C > * / V:[+long] _", "s > z / V:[+long] _", "V:[+overlong] > [-overlong]", "C:[+long] > [-long, +voice]",
                "V:[+long] > ai", "t > d / V:[-long] _"][g.rng.below(10)].to_string()); }
            if g.rng.chance(1, 3) { r.push(g.basic_rule()); }
            let gr = g.regroup(&r);
            let w: Vec<String> = (0..2 + g.rng.below(4)).map(|_| if g.rng.chance(1, 3) { g.small_word() } else { ["at", "ar.ka", "as.ta", "pa.ark", "a", "i.a", "ta.is", "us", "an.ti", "park", "pat", "ˈa.ta", "ast", "u.ar.si"][g.rng.below(14)].to_string() }).collect();
            (r, gr, w)
        } else { (rules, groups, words) };
        match prop {
            "glue" => glue(&mut g, &mut st, case, &groups, &words),
            "C10" => c10(&mut g, &mut st, case, &rules, &groups, &words),
            "C11" => c11(&mut g, &mut st, case, &groups, &words),
            "C16" => c16(&mut g, &mut st, case, &groups, &words),
            _ => { eprintln!("unknown prop"); return 2 }
        }
    }
    st.print();
    0
}

fn glue(g: &mut Gen, st: &mut Stats, case: usize, groups: &[Vec<String>], words: &[String]) {
    // phrases: sometimes join words into multi-word lines
    let mut phrases: Vec<String> = Vec::new();
    let mut i = 0;
    while i < words.len() {
        if i + 1 < words.len() && g.rng.chance(1, 3) { phrases.push(format!("{} {}", words[i], words[i + 1])); i += 2; } else { phrases.push(words[i].clone()); i += 1; }
    }
    if g.rng.chance(1, 15) { let k = g.rng.below(phrases.len()); phrases[k] = format!("{}q͡", phrases[k]); } // a bad word
    let from: Vec<String> = if g.rng.chance(1, 5) { vec!["a > A".into(), "$ > *".into()] } else { vec![] };
    let a = run_impl(groups, &phrases, &[], &from);
    let b = scheme_run(groups, &phrases, &[], &from);
    st.inc("glue.cases");
    st.inc(&format!("glue.outcome.{}", a.class()));
    if a.is_ok() && phrases.iter().zip(a.clone().ok().unwrap().iter()).any(|(p, o)| p != o) { st.inc("glue.changed_some_word"); }
    if a != b {
        println!("FINDING glue-run case={case} groups={} phrases={} from={} impl={:?} scheme={:?}", escg(groups), esc(&phrases), esc(&from), a, b);
    } else { st.sample(format!("run groups={} phrases={} -> {:?}", escg(groups), esc(&phrases), a)); }
    // trace
    let ph = &phrases[0];
    let ta = trace_impl(groups, ph, &[]);
    let tb = scheme_trace(groups, ph, &[]);
    st.inc("glue.trace_cases");
    if ta != tb {
        println!("FINDING glue-trace case={case} groups={} phrase={:?} impl={:?} scheme={:?}", escg(groups), ph, ta.class(), tb.class());
    }
}

fn c10(g: &mut Gen, st: &mut Stats, case: usize, rules: &[String], groups: &[Vec<String>], words: &[String]) {
    st.inc("c10.cases");
    let all = run_impl(&[rules.to_vec()], words, &[], &[]);
    let Out::Ok(all_out) = all.clone() else { st.inc(&format!("c10.skipped.{}", all.class())); return };
    if all_out.iter().zip(words).any(|(a, b)| a != b) { st.inc("c10.nontrivial"); }
    // regrouping
    let re = run_impl(groups, words, &[], &[]);
    st.inc("c10.regroup_checked");
    if re != all {
        println!("FINDING c10-regroup case={case} rules={} groups={} words={} flat={:?} regrouped={:?}", esc(rules), escg(groups), esc(words), all, re);
    }
    // one group per rule
    let per: Vec<Vec<String>> = rules.iter().map(|r| vec![r.clone()]).collect();
    let re2 = run_impl(&per, words, &[], &[]);
    if re2 != all { println!("FINDING c10-regroup case={case} rules={} groups=one-per-rule words={} flat={:?} regrouped={:?}", esc(rules), esc(words), all, re2); }
    // every split point
    for k in 0..=rules.len() {
        let (r1, r2) = rules.split_at(k);
        let mid = run_impl(&[r1.to_vec()], words, &[], &[]);
        let Out::Ok(mid_out) = mid.clone() else {
            println!("FINDING c10-stage1-fails case={case} rules={} k={k} words={} mid={:?}", esc(rules), esc(words), mid.class());
            continue
        };
        // hypothesis of the property: the intermediate output is renderable (no replacement character)
        let renderable: Vec<bool> = mid_out.iter().map(|m| !m.contains('\u{FFFD}')).collect();
        // does the intermediate *word* survive the text round trip (C09's conclusion)?  Only used to label findings.
        // "" when it survives, else the reason: `parse:<error kind>` / `segments` / `prosody`
        let survives = |i: usize| -> String {
            let g1 = groups_of(&[r1.to_vec()]);
            for (w, m) in words[i].split(' ').zip(mid_out[i].split(' ')) {
                let ms = match guarded(|| verif::run_structural(&g1, w, &[])) { Out::Ok(v) => v.last().cloned(), _ => return "stage1".into() };
                let Some(ms) = ms else { continue };
                // an intermediate word with an empty syllable cannot be written down (C08's domain): name the rule shape that produced it
                if ms.sylls.iter().any(|s| s.segs.is_empty()) {
                    let mut shape = "unknown";
                    for j in 0..r1.len() {
                        let gj = groups_of(&[r1[..=j].to_vec()]);
                        if let Out::Ok(v) = guarded(|| verif::run_structural(&gj, w, &[])) { if v.last().map_or(false, |x| x.sylls.iter().any(|s| s.segs.is_empty())) {
                            let r = r1[j].split(";;").next().unwrap_or("");
                            let out = r.split(|c| c == '>' || c == '→').nth(1).unwrap_or("").split(|c| c == '/' || c == '|').next().unwrap_or("");
                            shape = if out.contains('$') { "boundary-in-output" } else if out.contains('&') { "metathesis" } else if out.contains('⟨') || out.contains('<') { "structure-in-output" } else if out.trim() == "*" || out.trim() == "∅" { "deletion" } else { "substitution" };
                            break } }
                    }
                    return format!("empty-syllable:{shape}");
                }
                match guarded(|| WordH::parse(m, &[])) {
                    Out::Ok(p) => {
                        let ps = p.structure();
                        if ps != ms {
                            let segs = |x: &WordS| x.sylls.iter().flat_map(|s| s.segs.clone()).collect::<Vec<_>>();
                            return if segs(&ps) != segs(&ms) { "segments".into() } else { "prosody".into() };
                        }
                    }
                    Out::Err(e) => return format!("parse:{}", err_kind(&e)),
                    o => return format!("parse:{}", o.class()),
                }
            }
            String::new()
        };
        let fin = run_impl(&[r2.to_vec()], &mid_out, &[], &[]);
        st.inc("c10.splits_checked");
        match fin {
            Out::Ok(fin_out) => {
                for i in 0..words.len() {
                    if !renderable[i] { st.inc("c10.split_skipped_not_renderable"); continue }
                    if fin_out[i] != all_out[i] {
                        let why = survives(i);
                        let label = if words[i].contains(AMER) { "-americanist".to_string() } else if !why.is_empty() { format!("-roundtrip:{why}") } else { String::new() };
                        println!("FINDING c10-staged{label} case={case} rules={} k={k} word={:?} mid={:?} oneshot={:?} staged={:?}",
                            esc(rules), words[i], mid_out[i], all_out[i], fin_out[i]);
                    }
                }
            }
            other => {
                if renderable.iter().all(|b| *b) {
                    let why = (0..words.len()).map(|i| survives(i)).find(|w| !w.is_empty()).unwrap_or_default();
                    let label = if why.is_empty() { String::new() } else { format!("-roundtrip:{why}") };
                    println!("FINDING c10-stage2-fails{label} case={case} rules={} k={k} words={} mid={} stage2={:?}", esc(rules), esc(words), esc(&mid_out), other.class());
                } else { st.inc("c10.split_skipped_not_renderable"); }
            }
        }
    }
    if case < 4 { st.sample(format!("rules={} words={} -> {:?}", esc(rules), esc(words), all_out)); }
    let _ = g;
}

fn c11(g: &mut Gen, st: &mut Stats, case: usize, groups: &[Vec<String>], words: &[String]) {
    st.inc("c11.cases");
    // single-word results
    let singles: Vec<Out<Vec<String>>> = words.iter().map(|w| run_impl(groups, &[w.clone()], &[], &[])).collect();
    if singles.iter().any(|s| matches!(s, Out::Panic(_) | Out::Hang(_))) { st.inc("c11.skipped.panic_or_hang"); return }
    let all = run_impl(groups, words, &[], &[]);
    let first_fail = singles.iter().position(|s| !s.is_ok());
    match (&all, first_fail) {
        (Out::Ok(out), None) => {
            st.inc("c11.all_ok");
            if out.len() != words.len() { println!("FINDING c11-length case={case} groups={} words={} out={}", escg(groups), esc(words), esc(out)); }
            for (i, s) in singles.iter().enumerate() {
                let Out::Ok(v) = s else { unreachable!() };
                if v.len() != 1 || out.get(i) != v.get(0) {
                    println!("FINDING c11-pointwise case={case} groups={} words={} i={i} in_list={:?} alone={:?}", escg(groups), esc(words), out.get(i), v);
                }
                if v.get(0) != Some(&words[i]) { st.inc("c11.words_changed"); }
            }
            // permutation
            let mut idx: Vec<usize> = (0..words.len()).collect();
            for i in (1..idx.len()).rev() { let j = g.rng.below(i + 1); idx.swap(i, j); }
            let perm: Vec<String> = idx.iter().map(|i| words[*i].clone()).collect();
            if let Out::Ok(po) = run_impl(groups, &perm, &[], &[]) {
                for (k, i) in idx.iter().enumerate() { if po.get(k) != out.get(*i) { println!("FINDING c11-permutation case={case} groups={} words={} perm={} k={k} got={:?} want={:?}", escg(groups), esc(words), esc(&perm), po.get(k), out.get(*i)); } }
                st.inc("c11.permutations_checked");
            } else { println!("FINDING c11-permutation-fails case={case} groups={} perm={}", escg(groups), esc(&perm)); }
            // sublist
            let sub: Vec<usize> = (0..words.len()).filter(|_| g.rng.chance(1, 2)).collect();
            if !sub.is_empty() {
                let sw: Vec<String> = sub.iter().map(|i| words[*i].clone()).collect();
                if let Out::Ok(so) = run_impl(groups, &sw, &[], &[]) {
                    for (k, i) in sub.iter().enumerate() { if so.get(k) != out.get(*i) { println!("FINDING c11-sublist case={case} groups={} words={} sub={} k={k}", escg(groups), esc(words), esc(&sw)); } }
                    st.inc("c11.sublists_checked");
                } else { println!("FINDING c11-sublist-fails case={case} groups={} sub={}", escg(groups), esc(&sw)); }
            }
            // duplicated list (successive processing of the same word)
            let mut dup = words.to_vec(); dup.extend_from_slice(words);
            if let Out::Ok(d) = run_impl(groups, &dup, &[], &[]) {
                for i in 0..words.len() { if d.get(i) != out.get(i) || d.get(i + words.len()) != out.get(i) { println!("FINDING c11-duplicate case={case} groups={} words={} i={i}", escg(groups), esc(words)); } }
            }
            // a line holding two words
            if words.len() >= 2 && !out[0].is_empty() && !out[1].is_empty() {
                let line = format!("{} {}", words[0], words[1]);
                match run_impl(groups, &[line.clone()], &[], &[]) {
                    Out::Ok(lo) => { let want = format!("{} {}", out[0], out[1]); st.inc("c11.two_word_lines_checked");
                        if lo.len() != 1 || lo[0] != want { println!("FINDING c11-phrase case={case} groups={} line={:?} got={:?} want={:?}", escg(groups), line, lo, want); } }
                    o => println!("FINDING c11-phrase-fails case={case} groups={} line={:?} out={:?}", escg(groups), line, o.class()),
                }
            }
        }
        (Out::Err(e), Some(f)) => {
            st.inc("c11.some_word_fails");
            // error of the first failing word (kind)
            let Out::Err(ef) = &singles[f] else { unreachable!() };
            if err_kind(e) != err_kind(ef) { println!("FINDING c11-first-error case={case} groups={} words={} first_failing={f} list_err={:?} single_err={:?}", escg(groups), esc(words), err_kind(e), err_kind(ef)); }
        }
        (a, f) => { println!("FINDING c11-ok-mismatch case={case} groups={} words={} list={:?} first_failing_single={:?}", escg(groups), esc(words), a.class(), f); }
    }
    // planted failing word
    if g.rng.chance(1, 4) {
        let mut w2 = words.to_vec();
        let at = g.rng.below(w2.len());
        w2[at] = "taq͡".to_string();
        match run_impl(groups, &w2, &[], &[]) {
            Out::Err(e) => { st.inc("c11.planted_bad_word");
                let rules_ok = matches!(guarded(|| RulesH::parse(&groups_of(groups))), Out::Ok(_));
                let earlier_fail = (0..at).any(|i| !singles[i].is_ok());
                if rules_ok && !earlier_fail && !e.starts_with("WordSyn") { println!("FINDING c11-planted case={case} groups={} words={} err={e:?}", escg(groups), esc(&w2)); } }
            Out::Ok(o) => println!("FINDING c11-planted-accepted case={case} words={} out={}", esc(&w2), esc(&o)),
            _ => {}
        }
    }
    if case < 4 { st.sample(format!("groups={} words={} -> {:?}", escg(groups), esc(words), all)); }
}

fn c16(g: &mut Gen, st: &mut Stats, case: usize, groups: &[Vec<String>], words: &[String]) {
    st.inc("c16.cases");
    let nph = 1 + g.rng.below(words.len().min(4));
    let phrase = words[..nph].join(" ");
    let tr = trace_impl(groups, &phrase, &[]);
    let full = run_impl(groups, &[phrase.clone()], &[], &[]);
    match (&tr, &full) {
        (Out::Ok(cs), Out::Ok(fo)) => {
            st.inc("c16.both_ok");
            if nph > 1 { st.inc("c16.multiword_phrases"); }
            // prefix runs
            let mut prev: String = run_impl(&[], &[phrase.clone()], &[], &[]).ok().map(|v| v[0].clone()).unwrap_or_default();
            let input_render = prev.clone();
            let mut prev_struct: Option<Vec<WordS>> = None;
            let mut reported: Vec<usize> = Vec::new();
            let render = |ws: &Vec<WordS>| -> String { ws.iter().map(|w| WordH::from_s(w).render(&[]).unwrap_or_default()).collect::<Vec<_>>().join(" ").trim_end().to_string() };
            let mut last_idx: Option<usize> = None;
            for (i, after) in cs {
                if let Some(l) = last_idx { if *i <= l { println!("FINDING c16-order case={case} groups={} phrase={:?} indices not increasing", escg(groups), phrase); } }
                if *i >= groups.len() { println!("FINDING c16-index-range case={case} groups={} phrase={:?} i={i}", escg(groups), phrase); }
                last_idx = Some(*i);
                reported.push(*i);
            }
            let mut cur_struct: Vec<WordS> = match guarded(|| -> Result<Vec<WordS>, asca::Error> { let mut v = Vec::new(); for w in phrase.split(' ') { v.push(WordH::parse(w, &[])?.structure()); } Ok(v) }) { Out::Ok(v) => v, _ => return };
            let mut changed_any = false;
            for i in 0..groups.len() {
                let pre = run_impl(&groups[..=i], &[phrase.clone()], &[], &[]);
                let Out::Ok(pre) = pre else { println!("FINDING c16-prefix-fails case={case} groups={} phrase={:?} i={i}", escg(groups), phrase); return };
                // structural state after group i, via hooks
                let rules = match guarded(|| RulesH::parse(&groups_of(groups))) { Out::Ok(r) => r, _ => return };
                let next: Vec<WordS> = match guarded(|| -> Result<Vec<WordS>, asca::Error> { let mut v = Vec::new(); for w in &cur_struct { v.push(rules.apply_group(i, &WordH::from_s(w))?.structure()); } Ok(v) }) { Out::Ok(v) => v, _ => return };
                let changed = next != cur_struct;
                let rep = cs.iter().find(|(j, _)| *j == i);
                match (changed, rep) {
                    (true, None) => println!("FINDING c16-unreported case={case} groups={} phrase={:?} group={i} before={:?} after={:?}", escg(groups), phrase, prev, pre[0]),
                    (false, Some(_)) => println!("FINDING c16-spurious case={case} groups={} phrase={:?} group={i}", escg(groups), phrase),
                    (true, Some((_, after))) => {
                        changed_any = true;
                        if *after != next { println!("FINDING c16-state case={case} groups={} phrase={:?} group={i} reported differs from structural run of groups 0..={i}", escg(groups), phrase); }
                        let r = render(after);
                        if !phrase.contains(AMER) && r != pre[0] { println!("FINDING c16-state-render case={case} groups={} phrase={:?} group={i} reported={:?} run_prefix={:?}", escg(groups), phrase, r, pre[0]); }
                    }
                    _ => {}
                }
                prev = pre[0].clone();
                prev_struct = Some(next.clone());
                cur_struct = next;
            }
            if changed_any { st.inc("c16.nontrivial"); }
            // last reported state == run result
            let last = cs.last().map(|(_, a)| render(a)).unwrap_or(input_render.clone());
            if !phrase.contains(AMER) && last != fo[0] { println!("FINDING c16-last case={case} groups={} phrase={:?} last_reported={:?} run={:?}", escg(groups), phrase, last, fo[0]); }
            // get_trace_string
            if let Out::Ok(lines) = trace_string_impl(groups, &phrase, &[]) {
                st.inc("c16.trace_strings_checked");
                if lines.len() != 2 * cs.len() { println!("FINDING c16-string-shape case={case} groups={} phrase={:?} lines={} changes={}", escg(groups), phrase, lines.len(), cs.len()); }
                else {
                    let mut before = input_render.clone();
                    for (k, (i, after)) in cs.iter().enumerate() {
                        let want_head = format!("Applied \"g{i}\":");
                        let r = render(after);
                        let want_body = format!("{before} => {r} ");
                        if lines[2 * k] != want_head || (!phrase.contains(AMER) && lines[2 * k + 1].split_whitespace().collect::<Vec<_>>() != want_body.split_whitespace().collect::<Vec<_>>()) {
                            println!("FINDING c16-string case={case} groups={} phrase={:?} k={k} got={:?}/{:?} want={:?}/{:?}", escg(groups), phrase, lines[2 * k], lines[2 * k + 1], want_head, want_body);
                        }
                        before = r;
                    }
                }
            } else { println!("FINDING c16-string-fails case={case} groups={} phrase={:?}", escg(groups), phrase); }
            let _ = prev_struct;
        }
        (a, b) if a.is_ok() != b.is_ok() => {
            if matches!(a, Out::Panic(_) | Out::Hang(_)) || matches!(b, Out::Panic(_) | Out::Hang(_)) { st.inc("c16.skipped.panic_or_hang"); }
            else { println!("FINDING c16-ok-mismatch case={case} groups={} phrase={:?} trace={:?} run={:?}", escg(groups), phrase, a.class(), b.class()); }
        }
        _ => { st.inc("c16.both_fail"); }
    }
    if case < 4 { st.sample(format!("groups={} phrase={:?} -> trace indices {:?}", escg(groups), phrase, tr.clone().ok().map(|c| c.iter().map(|x| x.0).collect::<Vec<_>>()))); }
}

/// generator quality: outcome class per generated rule (one rule, one word), with examples of each error kind
pub fn gen_stats(args: &[String]) -> i32 {
    let seed: u64 = args.get(0).and_then(|s| s.parse().ok()).unwrap_or(1);
    let cases: usize = args.get(1).and_then(|s| s.parse().ok()).unwrap_or(2000);
    let prof = match args.get(2).map(|s| s.as_str()) { Some("basic") => Profile::Basic, Some("full") => Profile::Full, _ => Profile::Tame };
    quiet_panics();
    let mut g = Gen::new(seed);
    let mut st = Stats::new();
    let mut ex: BTreeMap<String, Vec<String>> = BTreeMap::new();
    for _ in 0..cases {
        let r = g.rule(prof);
        let w = g.word();
        let o = run_impl(&[vec![r.clone()]], &[w.clone()], &[], &[]);
        let c = o.class();
        st.inc(&c);
        if let Out::Ok(v) = &o { if v[0] != w { st.inc("changed"); } }
        let e = ex.entry(c).or_default();
        if e.len() < 4 { e.push(format!("{r}   @ {w}")); }
    }
    st.print();
    for (k, v) in ex { if k != "ok" { for x in v { println!("EX {k}: {x}"); } } }
    0
}
