//! C19: project files for the command-line checks.  `c19-gen <dir> <tier> <seed>` writes, per case, the files the binary
//! is run on, the structure they are meant to denote (per doc/doc-cli.md) and what the library returns for that structure.
use asca::RuleGroup;
use crate::gen::{Gen, Profile};
use crate::util::*;
use std::fmt::Write as _;

pub struct Project { pub groups: Vec<(String, Vec<String>, String)>, pub words: Vec<String>, pub into: Vec<String>, pub from: Vec<String>, pub has_alias: bool }

pub fn jstr(s: &str) -> String {
    let mut o = String::from("\"");
    for c in s.chars() { match c { '"' => o.push_str("\\\""), '\\' => o.push_str("\\\\"), '\n' => o.push_str("\\n"), '\r' => o.push_str("\\r"), '\t' => o.push_str("\\t"), c if (c as u32) < 0x20 => { let _ = write!(o, "\\u{:04x}", c as u32); } c => o.push(c) } }
    o.push('"'); o
}
pub fn jlist(v: &[String]) -> String { format!("[{}]", v.iter().map(|s| jstr(s)).collect::<Vec<_>>().join(",")) }

impl Project {
    pub fn json(&self) -> String {
        let rules: Vec<String> = self.groups.iter().map(|(n, r, d)| format!("{{\"name\":{},\"rule\":{},\"description\":{}}}", jstr(n), jlist(r), jstr(d))).collect();
        format!("{{\"into\":{},\"from\":{},\"words\":{},\"rules\":[{}]}}", jlist(&self.into), jlist(&self.from), jlist(&self.words), rules.join(","))
    }
    pub fn rule_groups(&self) -> Vec<RuleGroup> { self.groups.iter().map(|(n, r, d)| RuleGroup::from(n.clone(), r.clone(), d.clone())).collect() }
}

const NAMES: &[&str] = &["Grimm's Law", "lenition", "Vowel Shift 2", "ǂ clicks", "a", "Hap(lo)logy", "Cluster Simplification", "GLOTTAL deletion", "é-raising", "stage: one", "x > y", "Low Vowel Reduction"];
const PHRASES: &[&str] = &["Voiceless plosives become fricatives", "see @ Verner", "chain shift # 2", "a > e everywhere", "Including cases: V_V", "späte Lautverschiebung", "1.", "(optional)", "needs review!", "\"quoted\" \\ backslash"];

pub fn gen_project(g: &mut Gen, unique_names: bool) -> Project {
    let ng = 1 + g.rng.below(4);
    let mut groups = Vec::new();
    let mut used: Vec<String> = Vec::new();
    for gi in 0..ng {
        let mut name = NAMES[g.rng.below(NAMES.len())].to_string();
        if unique_names { let mut k = 0; while used.iter().any(|u| u.to_lowercase() == name.to_lowercase()) { k += 1; name = format!("{} {}", NAMES[g.rng.below(NAMES.len())], k); } used.push(name.clone()); }
        if !unique_names && g.rng.chance(1, if gi == 0 { 8 } else { 10 }) { name = String::new(); }  // a json project may hold a nameless group anywhere; the writer prints `@ ` for it
        let nr = if name.is_empty() { 1 + g.rng.below(3) } else { g.rng.below(4) };
        let rules: Vec<String> = (0..nr).map(|_| { let p = if g.rng.chance(1, 2) { Profile::Basic } else { Profile::Tame }; g.rule(p).trim().to_string() }).filter(|r| !r.is_empty() && !r.starts_with('@') && !r.starts_with('#')).collect();
        let nd = g.rng.below(4);
        let desc: Vec<String> = (0..nd).map(|i| if i > 0 && g.rng.chance(1, 6) { String::new() } else { PHRASES[g.rng.below(PHRASES.len())].to_string() }).collect();
        // a description does not end in an empty line (the writer would print `# `, the reader would add nothing back... it would: keep it simple and well-formed)
        let mut desc = desc; while desc.last().map_or(false, |d| d.is_empty()) { desc.pop(); }
        groups.push((name, rules, desc.join("\n")));
    }
    let nw = 1 + g.rng.below(6);
    let mut words: Vec<String> = (0..nw).map(|_| if g.rng.chance(1, 7) { String::new() } else if g.rng.chance(1, 2) { g.small_word() } else { g.word() }).collect();
    if words.last().map_or(true, |w| w.is_empty()) { words.push(g.small_word()); }
    // a project may hold no rule at all (groups that only carry a name and a description): the words still go through the library,
    // which parses and re-renders them (typed spellings `'`, `:`, `g` come back canonical; a malformed word is an error)
    let no_rules = g.rng.chance(1, 8);
    if no_rules { for gr in groups.iter_mut() { gr.1.clear(); if gr.0.is_empty() && gr.2.is_empty() { gr.0 = "Stage".into(); } } }
    if g.rng.chance(1, 3) { for w in words.iter_mut() { if g.rng.chance(1, 2) { *w = w.replace('ː', ":").replace('ˈ', "'").replace('ɡ', "g"); } } }
    if g.rng.chance(1, 12) { let i = g.rng.below(words.len()); words[i] = format!("{}%a", words[i]); }
    let has_alias = if no_rules { g.rng.chance(1, 4) } else { g.rng.chance(1, 2) };
    let (mut into, mut from) = (Vec::new(), Vec::new());
    if has_alias {
        for _ in 0..g.rng.below(3) { into.push(if g.rng.chance(1, 4) { ["@{acute} > [+stress]", "@{grave} > [+secstress]", "@{macron}a > a:[+long]"][g.rng.below(3)].to_string() } else { format!("{} > {}", ["§", "sh", "ñ", "x"][g.rng.below(4)], ["ʃ", "ɲ", "x", "a:[+long]"][g.rng.below(4)]) }); }
        for _ in 0..g.rng.below(3) { from.push(["ʃ > sh", "$ > *", "[+nasal] > +~", "a:[+long] > â", "ŋ > ng"][g.rng.below(5)].to_string()); }
    }
    Project { groups, words, into, from, has_alias }
}

fn ws(g: &mut Gen) -> String { ["", " ", "  ", "    ", "\t", " \t "][g.rng.below(6)].to_string() }

/// a `.rsca` text that, read as the manual describes, denotes `p.groups`
pub fn noisy_rsca(g: &mut Gen, p: &Project, eol: &str) -> String {
    let mut o = String::new();
    for (gi, (name, rules, desc)) in p.groups.iter().enumerate() {
        for _ in 0..g.rng.below(2) { o.push_str(eol); }
        if !(gi == 0 && name.is_empty()) { o.push_str(&format!("{}@{}{}{}{}", ws(g), ws(g), name, ws(g), eol)); }
        for r in rules { o.push_str(&format!("{}{}{}{}", ws(g), r, ws(g), eol)); if g.rng.chance(1, 5) { o.push_str(&ws(g)); o.push_str(eol); } }
        if !desc.is_empty() { for d in desc.split('\n') { o.push_str(&format!("{}#{}{}{}{}", ws(g), ws(g), d, ws(g), eol)); } if g.rng.chance(1, 2) { o.push_str(eol); } }
    }
    if g.rng.chance(1, 3) { while o.ends_with(eol) && !eol.is_empty() { o.truncate(o.len() - eol.len()); } }
    o
}

pub fn noisy_wsca(g: &mut Gen, p: &Project, eol: &str) -> String {
    let mut o = String::new();
    for (i, w) in p.words.iter().enumerate() {
        let c = if g.rng.chance(1, 4) { format!(" # {}", PHRASES[g.rng.below(4)]) } else { String::new() };
        o.push_str(&format!("{}{}{}{}", ws(g), w, c, ws(g)));
        if i + 1 < p.words.len() || g.rng.chance(1, 2) { o.push_str(eol); }
    }
    o
}

pub fn noisy_alias(g: &mut Gen, p: &Project, eol: &str) -> String {
    let mut o = String::new();
    if g.rng.chance(1, 3) { o.push_str(eol); o.push_str("# romanisation"); o.push_str(eol); }
    let sec = |g: &mut Gen, tag: &str, ls: &[String], o: &mut String| { o.push_str(&format!("{}{}{}{}", ws(g), tag, ws(g), eol)); for l in ls { if g.rng.chance(1, 5) { o.push_str(&format!("{}# note{}", ws(g), eol)); } o.push_str(&format!("{}{}{}{}", ws(g), l, ws(g), eol)); } };
    if g.rng.chance(1, 2) { sec(g, "@into", &p.into, &mut o); sec(g, "@from", &p.from, &mut o); } else { sec(g, "@from", &p.from, &mut o); sec(g, "@into", &p.into, &mut o); }
    o
}

/// what the library returns for the project, in the shape the binary prints / writes it
pub fn expected(p: &Project) -> String {
    let groups = p.rule_groups();
    match guarded(|| Ok::<_, asca::Error>(asca::run(&groups, &p.words, &p.into, &p.from))) {
        Out::Ok(Ok(v)) => format!("{{\"ok\":{}}}", jlist(&v)),
        Out::Ok(Err(e)) => {
            let text = match &e {
                asca::Error::WordSyn(x) => asca::ASCAError::format_word_error(x, &p.words), asca::Error::WordRun(x) => asca::ASCAError::format_word_error(x, &p.words),
                asca::Error::AliasSyn(x) => asca::ASCAError::format_alias_error(x, &p.into, &p.from), asca::Error::AliasRun(x) => asca::ASCAError::format_alias_error(x, &p.into, &p.from),
                asca::Error::RuleSyn(x) => asca::ASCAError::format_rule_error(x, &groups), asca::Error::RuleRun(x) => asca::ASCAError::format_rule_error(x, &groups) };
            format!("{{\"err\":{}}}", jstr(&text))
        }
        o => format!("{{\"fault\":{}}}", jstr(&o.class())),
    }
}

pub fn gen(args: &[String]) -> i32 {
    quiet_panics();
    let dir = std::path::PathBuf::from(&args[0]);
    let thorough = args.get(1).map(|s| s == "thorough").unwrap_or(false);
    let seed: u64 = args.get(2).and_then(|s| s.parse().ok()).unwrap_or(1);
    let mut g = Gen::new(seed ^ 0xC19);
    let n = if thorough { 3000 } else { 250 };
    let (mut errs, mut with_alias, mut crlf) = (0, 0, 0);
    for case in 0..n {
        let p = gen_project(&mut g, false);
        let d = dir.join(format!("case{case:05}"));
        std::fs::create_dir_all(&d).unwrap();
        let eol = if g.rng.chance(1, 6) { crlf += 1; "\r\n" } else { "\n" };
        std::fs::write(d.join("in.rsca"), noisy_rsca(&mut g, &p, eol)).unwrap();
        std::fs::write(d.join("in.wsca"), noisy_wsca(&mut g, &p, eol)).unwrap();
        if p.has_alias { with_alias += 1; std::fs::write(d.join("in.alias"), noisy_alias(&mut g, &p, eol)).unwrap(); }
        std::fs::write(d.join("intended.json"), p.json()).unwrap();
        let e = expected(&p); if e.starts_with("{\"err\"") { errs += 1; }
        std::fs::write(d.join("expected.json"), e).unwrap();
    }
    println!("STAT c19.cases {n}");
    println!("STAT c19.cases_where_the_library_returns_an_error {errs}");
    println!("STAT c19.cases_with_alias_file {with_alias}");
    println!("STAT c19.cases_with_crlf {crlf}");
    0
}
