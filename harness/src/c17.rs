//! C17: errors can always be shown and point at the line that caused them.
use asca::{ASCAError, Error, RuleGroup};
use crate::gen::{Gen, Profile};
use crate::runner::Stats;
use crate::util::*;

fn strip_ansi(s: &str) -> String {
    let mut out = String::new(); let mut it = s.chars().peekable();
    while let Some(c) = it.next() {
        if c == '\u{1b}' { while let Some(n) = it.next() { if n == 'm' { break } } } else { out.push(c); }
    }
    out
}

/// (line shown, caret columns, reported group, reported line) of a formatted rule error; None when the message names no line
fn dissect(formatted: &str) -> Option<(String, Vec<usize>, usize, usize)> {
    let f = strip_ansi(formatted);
    let parts: Vec<&str> = f.split("\n    |     ").collect();
    if parts.len() < 3 { return None }
    let shown = parts[1].to_string();
    let (arrows, tail) = parts[2].split_once('\n')?;
    let cols: Vec<usize> = arrows.chars().enumerate().filter(|(_, c)| *c == '^').map(|(i, _)| i).collect();
    let t = tail.trim();
    let t = t.strip_prefix("@ Rule ")?;
    let (g, l) = t.split_once(", Line ")?;
    Some((shown, cols, g.trim().parse().ok()?, l.trim().parse().ok()?))
}

const RUNTIME_FAULTS: &[&str] = &["a > [+root]", "a > [-manner]", "a > [+place]", "a > [αvoice]", "a > [-αvoice]", "a:[αlab] > [-αlab]", "* > [+voice] / a _", "* > {p, t} / a _",
    "% > a", "a > %", "{a, e} > {i}", "a > 1", "a > {i, e}", "$ > a", "a $ > e [+voice]", "% > [+long, -overlong] / _ #", "a > [-long, +overlong]", "a > [-stress, +secstress]",
    "a % > &", "% $ > &", "a > ⟨t ..⟩", "a > ⟨t [+voice]⟩", "* > ⟨..⟩ / a _", "* > a", "* > e / :{ a _, _ a }:", "a > e / 1 _", "a:[αround] > [αdor]", "a:[αlab] > [αround, αcor]",
    "% > ⟨⟩", "$ > [+stress]", "a > ⟨1⟩ / %=1 _", "a =1 > 1",
    // unbalanced condensed rules: inputs, outputs, environments and exceptions that are neither one nor as many as the rest
    "p, t, k > b, d", "p, t > b, d, g", "p, t, k > b, d, g / _a, _e", "p, t, k > b, d, g | _a, _e", "p, t, k > b, d, g // _a, _e", "a, e, i > o / _,#", "a, e, i > o / _,t", "p, t, k > b, d, g | _,$", "a, e, i > o, u / _,#", "a, e, i > o / _,# | _,t",
    "p, t, k > b, d, g / _a | _e, _i", "p, t, k > b, d, g / _a, _e | _i", "p, t, k > b, d, g / _a, _e, _i | _a, _e", "a, e > i, o, u / _#, _$"];

const SYNTAX_MUTATIONS: &[(&str, &str)] = &[(">", ""), (">", ">>"), ("_", "_ _"), ("[", "[["), ("]", ""), ("{", ""), ("}", "}}"), ("(", ""), (")", ""), ("/", "/ /"), ("+", "?"), ("a", "ʘʘ"),
    ("voice", "voise"), ("$", "$$#"), ("#", "# a #"), (":", "::"), ("=", "=="), ("tone:", "tone;"), ("&", "& a"), ("*", "* a"), (",", ",,"), ("⟨", ""), ("⟩", ""), ("...", "....."), ("1", "x1")];

pub fn spec(args: &[String]) -> i32 {
    quiet_panics();
    let thorough = args.get(0).map(|s| s == "thorough").unwrap_or(false);
    let seed: u64 = args.get(1).and_then(|s| s.parse().ok()).unwrap_or(1);
    let mut g = Gen::new(seed ^ 0xC17);
    let mut st = Stats::new();
    let n = if thorough { 300000 } else { 20000 };
    let words: Vec<String> = vec!["pa.ta".into(), "ˈa.na5".into(), "kaːt".into()];
    let mut case = 0usize;
    while case < n {
        case += 1;
        // a valid list that runs cleanly on the words
        let ng = 1 + g.rng.below(3);
        let mut groups: Vec<RuleGroup> = Vec::new();
        for gi in 0..ng { let nl = 1 + g.rng.below(4); groups.push(RuleGroup::from(format!("g{gi}"), (0..nl).map(|_| if g.rng.chance(1, 8) { String::new() } else { let pr = if g.rng.chance(1, 2) { Profile::Basic } else { Profile::Tame }; g.rule(pr) }).collect(), String::new())); }
        if !matches!(guarded(|| asca::run(&groups, &words, &[], &[])), Out::Ok(_)) { continue }
        st.inc("c17.valid_lists");
        // plant a fault at (pg, pl)
        let pg = g.rng.below(ng); let pl = g.rng.below(groups[pg].rule.len());
        let runtime = g.rng.chance(1, 3);
        let fault = if runtime { RUNTIME_FAULTS[g.rng.below(RUNTIME_FAULTS.len())].to_string() } else {
            let base = g.rule(Profile::Tame);
            let (from, to) = SYNTAX_MUTATIONS[g.rng.below(SYNTAX_MUTATIONS.len())];
            if !base.contains(from) { continue }
            base.replacen(from, to, 1)
        };
        // indentation / trailing comment variants keep the same line
        let fault = match g.rng.below(6) { 0 => format!("   {fault}"), 1 => format!("{fault}   "), _ => fault };
        groups[pg].rule[pl] = fault.clone();
        let o = guarded(|| asca::run(&groups, &words, &[], &[]).map(|_| ()).map_err(|e| { LAST.with(|c| *c.borrow_mut() = Some(e.clone())); e }));
        let Out::Err(kind) = &o else { st.inc(&format!("c17.fault_not_an_error.{}", o.class().split(':').next().unwrap_or("?"))); continue };
        // "exactly one line of otherwise valid input is invalid": with the planted line blanked out (same numbering) everything runs,
        // and the list cut right after the planted line already fails
        let mut upto: Vec<RuleGroup> = groups[..=pg].to_vec(); upto[pg].rule.truncate(pl + 1);
        let mut without: Vec<RuleGroup> = groups.to_vec(); without[pg].rule[pl] = String::new();
        if !matches!(guarded(|| asca::run(&upto, &words, &[], &[])), Out::Err(_)) || !matches!(guarded(|| asca::run(&without, &words, &[], &[])), Out::Ok(_)) { st.inc("c17.fault_fired_elsewhere"); continue }
        let err: Error = LAST.with(|c| c.borrow_mut().take()).expect("error stored");
        st.inc("c17.cases"); st.inc(&format!("c17.kind.{}", err_kind(kind)));
        let is_rule = matches!(err, Error::RuleSyn(_) | Error::RuleRun(_));
        if !is_rule { st.inc("c17.not_a_rule_error"); continue }
        let fmt = std::panic::catch_unwind(std::panic::AssertUnwindSafe(|| err.format_rule_error(&groups)));
        match fmt {
            Err(_) => { println!("FINDING c17-format-panics:{} fault={fault:?} planted=({pg},{pl}) loc={}", err_kind(kind), last_panic_loc()); }
            Ok(text) => {
                match dissect(&text) {
                    None => { if kind.contains("DeletionOnly") { st.inc("c17.no_line_named"); } else { println!("FINDING c17-no-line:{} fault={fault:?} planted=({pg},{pl})", err_kind(kind)); } }
                    Some((shown, cols, rg, rl)) => {
                        st.inc("c17.nontrivial");
                        if (rg, rl) != (pg + 1, pl + 1) { println!("FINDING c17-wrong-line:{} fault={fault:?} planted=({},{}) reported=({rg},{rl})", err_kind(kind), pg + 1, pl + 1); }
                        else if shown != groups[pg].rule[pl] { println!("FINDING c17-wrong-text:{} fault={fault:?} shown={shown:?}", err_kind(kind)); }
                        let len = fault.chars().count();
                        if cols.is_empty() { println!("FINDING c17-no-caret:{} fault={fault:?} len={len}", err_kind(kind)); }
                        else if cols.iter().any(|c| *c > len) { println!("FINDING c17-caret-outside:{} fault={fault:?} len={len} carets={cols:?}", err_kind(kind)); }
                    }
                }
            }
        }
        if st.samples.len() < 5 { st.sample(format!("{fault:?} at ({pg},{pl}) -> {}", err_kind(kind))); }
    }
    // one bad alias line, one bad word
    for _ in 0..(if thorough { 20000 } else { 2000 }) {
        let good = vec!["sh > ʃ".to_string(), "á > a:[+stress]".to_string()];
        let mut into = good.clone();
        let at = g.rng.below(into.len());
        into[at] = ["sh >", "> ʃ", "sh > [+voice]", "sh > ʃ:[+long, -long", "x > \\u{ZZ}", "a, b > c", "@{nope} > a", "sh > ʃ:[tone:99999]", "sh > %", "sh => ʃ ʃ ]"][g.rng.below(10)].to_string();
        let o = guarded(|| asca::run(&[], &["sha".to_string()], &into, &[]).map(|_| ()).map_err(|e| { LAST.with(|c| *c.borrow_mut() = Some(e.clone())); e }));
        if let Out::Err(kind) = &o {
            let err: Error = LAST.with(|c| c.borrow_mut().take()).expect("error stored");
            st.inc("c17.cases"); st.inc("c17.alias_cases");
            if matches!(err, Error::AliasSyn(_) | Error::AliasRun(_)) {
                let fmt = std::panic::catch_unwind(std::panic::AssertUnwindSafe(|| err.format_alias_error(&into, &[])));
                match fmt { Err(_) => println!("FINDING c17-format-panics:{} alias={:?} loc={}", err_kind(kind), into[at], last_panic_loc()),
                    Ok(t) => { let t = strip_ansi(&t); if !t.contains(&into[at]) { println!("FINDING c17-alias-wrong-line:{} alias={:?} text={t:?}", err_kind(kind), into[at]); } } }
            }
        }
        let ws: Vec<String> = vec!["pata".into(), ["pa%ta", "ʰa", "p12345", "ta'", "a::ː", "qq͡"][g.rng.below(6)].to_string(), "kata".into()];
        let o = guarded(|| asca::run(&[], &ws, &[], &[]).map(|_| ()).map_err(|e| { LAST.with(|c| *c.borrow_mut() = Some(e.clone())); e }));
        if let Out::Err(kind) = &o {
            let err: Error = LAST.with(|c| c.borrow_mut().take()).expect("error stored");
            st.inc("c17.cases"); st.inc("c17.word_cases");
            if matches!(err, Error::WordSyn(_) | Error::WordRun(_)) {
                let fmt = std::panic::catch_unwind(std::panic::AssertUnwindSafe(|| err.format_word_error(&ws)));
                match fmt { Err(_) => println!("FINDING c17-format-panics:{} word={:?} loc={}", err_kind(kind), ws[1], last_panic_loc()),
                    Ok(t) => { let t = strip_ansi(&t); if !t.contains(&ws[1]) && !t.contains(&ws[1].replace('\'', "ˈ").replace(':', "ː")) { println!("FINDING c17-word-wrong:{} word={:?} text={t:?}", err_kind(kind), ws[1]); } } }
            }
        }
    }
    st.print();
    0
}

thread_local! { static LAST: std::cell::RefCell<Option<Error>> = const { std::cell::RefCell::new(None) }; }
