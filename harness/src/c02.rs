//! C02: every call returns — three input streams (grammar, token mutations, noise) through `run`,
//! `get_trace_string`, `trace_changes`, under `catch_unwind` and the step budget.
use asca::RuleGroup;
use crate::gen::{Gen, Profile};
use crate::runner::Stats;
use crate::util::*;

const ALPHABET: &[&str] = &["a", "e", "p", "t", "k", "s", "n", "C", "V", "O", "[", "]", "{", "}", "(", ")", "⟨", "⟩", "<", ">", "=>", "->", "/", "//", "|", "_", "#", "$", "%", "&", "*", "∅",
    ",", ":", "=", "+", "-", "α", "β", "A", "1", "2", "0", "99999999999999999999", "...", "..", "…", ";;", " ", " ", "long", "stress", "tone", "voice", "nasal", "place", "lab", ":{", "}:", "ʰ", "̥", "^", "ː", "'", ".", "ᵐ", "ǃ", "q", "\\", "@", "\t"];

fn tokens(rule: &str) -> Vec<String> {
    // crude tokenisation: brackets, punctuation and runs of other characters
    let mut out = Vec::new(); let mut cur = String::new();
    for c in rule.chars() {
        if "[]{}()⟨⟩<>/|_#$%&*∅,:=+- ".contains(c) { if !cur.is_empty() { out.push(std::mem::take(&mut cur)); } out.push(c.to_string()); } else { cur.push(c); }
    }
    if !cur.is_empty() { out.push(cur); }
    out
}

pub fn mutate(g: &mut Gen, rule: &str) -> String {
    let mut t = tokens(rule);
    if t.is_empty() { return rule.to_string() }
    for _ in 0..1 + g.rng.below(2) {
        let i = g.rng.below(t.len());
        match g.rng.below(5) {
            0 => { t.remove(i); if t.is_empty() { t.push("a".into()); } }
            1 => { let x = t[i].clone(); t.insert(i, x); }
            2 => { let j = g.rng.below(t.len()); t.swap(i, j); }
            3 => { t[i] = ALPHABET[g.rng.below(ALPHABET.len())].to_string(); }
            _ => { t.insert(i, ALPHABET[g.rng.below(ALPHABET.len())].to_string()); }
        }
    }
    t.concat()
}

pub fn noise(g: &mut Gen, n: usize) -> String { (0..n).map(|_| ALPHABET[g.rng.below(ALPHABET.len())]).collect::<Vec<_>>().concat() }

pub fn alias_line(g: &mut Gen, derom: bool) -> String {
    let repl = ["sh", "tt", "á", "+@{acute}", "\\u{00FE}", "@{Space}", "x"][g.rng.below(7)];
    let seg = match g.rng.below(6) { 0 => "ʃ".to_string(), 1 => "a:[+stress]".to_string(), 2 => "V:[+long]".to_string(),
        // several elements, a class or matrix after a plain segment (matched up to the end of a syllable it has nothing left to look at)
        3 => format!("{}{}", g.seg(), ["C", "V", "[+cons]", "[-syll]", "N", "C:[+voice]"][g.rng.below(6)]),
        4 => format!("{}{}{}", ["C", "V", "[+son]"][g.rng.below(3)], g.seg(), ["", "C", "[+syll]"][g.rng.below(3)]),
        _ => g.seg() };
    if derom { format!("{repl} > {seg}") } else if g.rng.chance(1, 6) { "$ > *".to_string() } else { format!("{seg} > {repl}") }
}

pub fn spec(args: &[String]) -> i32 {
    quiet_panics();
    let thorough = args.get(0).map(|s| s == "thorough").unwrap_or(false);
    let seed: u64 = args.get(1).and_then(|s| s.parse().ok()).unwrap_or(1);
    let mut g = Gen::new(seed ^ 0xC02);
    let mut st = Stats::new();
    let n = if thorough { 2_000_000 } else { 80000 };
    let mut g3 = Gen::new(seed ^ 0xC02_0970);
    for case in 0..n {
        let stream = case % 4;
        let nr = 1 + g.rng.below(3);
        let mut rules: Vec<String> = (0..nr).map(|_| match stream {
            0 => { let p = if g.rng.chance(1, 2) { Profile::Full } else { Profile::Tame }; g.rule(p) }
            1 => { let r = g.rule(Profile::Full); mutate(&mut g, &r) }
            3 => g.edge_rule(),
            _ => { let k = 1 + g.rng.below(12); noise(&mut g, k) }
        }).collect();
        let mut words: Vec<String> = (0..1 + g.rng.below(3)).map(|_| if stream == 3 { let mut t = g.small_word(); if g.rng.chance(1, 2) { t = format!("{t}.{}", g.small_word()); } if g.rng.chance(1, 3) { t = format!("{t}.{}", ["a", "i", "ta", "n"][g.rng.below(4)]); } t } else { match g.rng.below(10) { 0 => { let k = g.rng.below(8); noise(&mut g, k) }, 1 => { let w = g.word(); mutate(&mut g, &w) }, 2 => g.small_word(), _ => g.word() } }).collect();
        let into: Vec<String> = if g.rng.chance(1, 8) { vec![if g.rng.chance(1, 3) { let k = g.rng.below(8); noise(&mut g, k) } else { alias_line(&mut g, true) }] } else { vec![] };
        let mut from: Vec<String> = if g.rng.chance(1, 8) { vec![if g.rng.chance(1, 3) { let k = g.rng.below(8); noise(&mut g, k) } else { alias_line(&mut g, false) }] } else { vec![] };
        // edge-rule cases on small words: every fourth one prints through a romaniser with several input elements over the same
        // small inventory, so that a match can run up to the end of a syllable or of the word
        if stream == 3 && case % 16 == 3 {
            let inv = ["a", "i", "u", "p", "t", "k", "s", "n"];
            let a = inv[g.rng.below(8)]; let b = ["C", "V", "[+cons]", "[-syll]", "N", "C:[+voice]", "[+syll]"][g.rng.below(7)];
            from = vec![match g.rng.below(3) { 0 => format!("{a}{b} > x"), 1 => format!("{b}{a}{b} > x"), _ => format!("{a}{}{b} > +y", inv[g.rng.below(8)]) }];
        }
        // stacked unbounded optionals over a long run of distinct segments, then something that matches nowhere: the work must stay
        // proportional to the word (own generator, so that the other streams stay as they were)
        if stream == 3 && case % 16 == 7 {
            let k = 3 + g3.rng.below(8);
            let opt = ["(C,0)", "([],0)", "(C,1:0)", "({p,t},0)"][g3.rng.below(4)];
            let env = format!("{}{}", vec![opt; k].join(" "), [" x", " #x", " q #"][g3.rng.below(3)]);
            rules = vec![if g3.rng.chance(1, 2) { format!("a > e / _ {env}") } else { format!("a > e / {} _", env.split(' ').rev().collect::<Vec<_>>().join(" ")) }];
            let n = 8 + g3.rng.below(14);
            let run: String = (0..n).map(|i| ["p", "t", "k", "s"][(i + g3.rng.below(2)) % 4]).collect::<Vec<_>>().join("");
            words = vec![if rules[0].ends_with('_') { format!("{run}a") } else { format!("a{run}") }];
            st.inc("c02.stacked_optionals");
        }
        let groups = [RuleGroup::from("g", rules.clone(), "")];
        st.inc("c02.cases"); st.inc(&format!("c02.stream{stream}"));
        // outcome of the three entry points
        let o = guarded(|| asca::run(&groups, &words, &into, &from));
        st.inc(&format!("c02.run.{}", match &o { Out::Ok(_) => "ok".to_string(), Out::Err(e) => format!("err.{}", err_kind(e).split('.').next().unwrap_or("?")), Out::Panic(_) => "panic".into(), Out::Hang(_) => "hang".into() }));
        if let Out::Ok(v) = &o { if v != &words { st.inc("c02.changed"); } }
        if let Out::Err(_) = &o { st.inc("c02.errors_returned"); }
        let mut bad: Vec<(String, String)> = Vec::new();   // (api, outcome)
        let cls = |o: &dyn std::fmt::Debug| format!("{o:?}");
        let _ = cls;
        match &o { Out::Panic(p) => bad.push(("run".into(), format!("panic {p}"))), Out::Hang(h) => bad.push(("run".into(), format!("hang {h}"))), _ => {} }
        if case % 2 == 0 {
            let phrase = words.join(" ");
            match guarded(|| asca::get_trace_string(&groups, phrase.clone(), &into)) { Out::Panic(p) => bad.push(("get_trace_string".into(), format!("panic {p}"))), Out::Hang(h) => bad.push(("get_trace_string".into(), format!("hang {h}"))), _ => {} }
            match guarded(|| asca::trace_changes(&groups, phrase.clone(), &into).map(|v| v.len())) { Out::Panic(p) => bad.push(("trace_changes".into(), format!("panic {p}"))), Out::Hang(h) => bad.push(("trace_changes".into(), format!("hang {h}"))), _ => {} }
        }
        if let Some((api, what)) = bad.first() {
            st.inc("c02.findings");
            // minimise: a single rule on a single word, if that reproduces the same kind of failure
            let mut min_rule = String::new(); let mut min_word = String::new();
            'outer: for r in &rules { for w in &words { for ww in w.split(' ') {
                let g1 = [RuleGroup::from("g", vec![r.clone()], "")];
                let o1 = guarded(|| asca::run(&g1, &[ww.to_string()], &[], &[]));
                if matches!((&o1, what.starts_with("panic")), (Out::Panic(_), true) | (Out::Hang(_), false)) { min_rule = r.clone(); min_word = ww.to_string(); break 'outer }
            } } }
            // second attempt: the rules one after another on the intermediate words (a later rule may fail only on what an earlier one produced)
            if min_rule.is_empty() {
                'w: for w in &words { for ww in w.split(' ') {
                    let Out::Ok(mut cur) = guarded(|| asca::verif::parse_word(ww, &[])) else { continue };
                    for r in &rules {
                        let g1 = [RuleGroup::from("g", vec![r.clone()], "")];
                        match guarded(|| asca::verif::apply_rules_structural(&g1, &cur)) {
                            Out::Ok(v) => { if let Some(n) = v.last() { cur = n.clone(); } }
                            Out::Err(_) => break,
                            o => { if matches!((&o, what.starts_with("panic")), (Out::Panic(_), true) | (Out::Hang(_), false)) {
                                    min_rule = r.clone(); min_word = guarded(|| asca::verif::render_word(&cur, &[])).ok().unwrap_or_default(); break 'w } else { break } }
                        }
                    }
                } }
            }
            let rule_for_label = if min_rule.is_empty() { rules.iter().map(|r| r.split(";;").next().unwrap_or("").to_string()).collect::<Vec<_>>().join(" \n ") } else { min_rule.split(";;").next().unwrap_or("").to_string() };
            let head = rule_for_label.trim_start();
            let inp_has_bound = rule_for_label.split(|c| c == '>').next().map_or(false, |i| i.contains('$'));
            let inp_part = rule_for_label.split(|c| c == '>' || c == '→' || c == '=' || c == '-').next().unwrap_or("");
            let has_empty_input_term = inp_part.split(',').any(|t| { let t = t.trim(); t == "*" || t == "∅" });
            let zero_width_set_opt = { let sq: String = rule_for_label.chars().filter(|c| !c.is_whitespace()).collect();
                // an unbounded optional `({…},0)` / `({…},n:0)` whose set holds a boundary: one alternative matches without consuming
                sq.match_indices("({").any(|(i, _)| { let rest = &sq[i..]; match rest.find(')') { Some(j) => { let grp = &rest[..=j]; (grp.ends_with(",0)") || grp.ends_with(":0)")) && grp.find('}').map_or(false, |k| grp[..k].contains('#') || grp[..k].contains('$')) }, None => false } }) };
            let rtype = if rule_for_label.replace(' ', "").contains("(,") { "empty-optional" } else if rule_for_label.replace(' ', "").contains("($,0)") { "boundary-only-unbounded-optional" } else if zero_width_set_opt { "zero-width-set-in-unbounded-optional" } else if head.starts_with('*') || head.starts_with('∅') || has_empty_input_term { "insertion" } else if inp_has_bound && !rule_for_label.contains('&') && !rule_for_label.contains("> *") && !rule_for_label.contains("> ∅") { "substitution-with-boundary-input" } else if rule_for_label.contains('&') { "metathesis" } else if rule_for_label.contains("> *") || rule_for_label.contains("> ∅") { if inp_has_bound { "deletion-with-boundary-input" } else { "deletion" } } else { "substitution" };
            let kind = if let Some(p) = what.strip_prefix("panic ") {
                let (msg, loc) = match p.rsplit_once(" @ ") { Some((m, l)) => (m, l), None => (p, "?") };
                let one_past = { // "the len is N but the index is N": an index running exactly one past the end of what it indexes
                    let nums: Vec<&str> = msg.split(|c: char| !c.is_ascii_digit()).filter(|t| !t.is_empty()).collect();
                    msg.contains("index out of bounds: the len is") && nums.len() == 2 && nums[0] == nums[1] };
                let mc = if msg.contains("PosOverflow") { "number-too-large" } else if one_past && loc.contains("subrule.rs") && { let i0 = rule_for_label.split(|c| c == '>' || c == '→').next().unwrap_or(""); i0.contains('…') || i0.contains("..") || i0.contains('⋯') } { "index-one-past-end" }
                    else if msg.contains("index out of bounds") || msg.contains("out of range") { "index-out-of-bounds" } else if msg.contains("None") { "unwrap-none" } else if msg.contains("capacity overflow") || msg.contains("subtract with overflow") { "arithmetic" } else if msg.contains("not implemented") || msg.contains("unreachable") { "unimplemented-or-unreachable" } else if msg.contains("Out of bounds access") { "segment-out-of-bounds" } else { "other" };
                // the shape of the failing rule is part of the identity of a finding: the same function can fail for unrelated reasons
                let inp = rule_for_label.split(|c| c == '>' || c == '→').next().unwrap_or("");
                let out_part = rule_for_label.split(|c| c == '>' || c == '→').nth(1).unwrap_or("").split(|c| c == '/' || c == '|').next().unwrap_or("").to_string();
                let out_has_length = out_part.contains("long");
                let squeezed: String = rule_for_label.chars().filter(|c| !c.is_whitespace()).collect();
                let empty_term = squeezed.contains(",,") || squeezed.starts_with(',') || [",>", ",=>", ",->", ",→", ",/", ",|"].iter().any(|x| squeezed.contains(x)) || squeezed.ends_with(',');
                let shape = if loc.contains("/alias/") { "alias" } else if inp.contains('…') || inp.contains("..") { "input-ellipsis" } else if rtype == "insertion" { rtype } else if empty_term { "empty-list-term" } else if rtype == "substitution" && out_has_length { "substitution-length-output" } else { rtype };
                // an overflowing number and an `unreachable!()` are identified by the function they sit in
                if mc == "number-too-large" || mc == "unimplemented-or-unreachable" { format!("c02-panic|{loc}|{mc}") } else { format!("c02-panic|{loc}|{mc}|{shape}") }
            } else { format!("c02-hang|{rtype}") };
            println!("FINDING {kind} apis={} rules={:?} words={:?} into={:?} from={:?} minimal_rule={:?} minimal_word={:?}",
                bad.iter().map(|b| b.0.clone()).collect::<Vec<_>>().join("+"), rules, words, into, from, min_rule, min_word);
            let _ = api;
        }
        if case < 6 { st.sample(format!("stream{stream}: {:?} @ {:?}", rules, words)); }
    }
    st.print();
    0
}
