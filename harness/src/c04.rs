//! C04: feature matrices match and change exactly the features they name — exhaustive enumeration through the
//! real rule pipeline (`[in] > [out]` on one-segment words), written as ops for the Lean driver + impl answers.
use std::io::Write;
use asca::verif::{self, SegS, SyllS, WordS};
use asca::RuleGroup;
use crate::gen::FEATS;
use crate::util::*;

pub const NODE_NAMES: [&str; 8] = ["root", "manner", "lar", "place", "lab", "cor", "dor", "phr"];

#[derive(Clone, Copy, PartialEq, Eq)]
pub enum M { No, Pos, Neg, Alpha(char), Inv(char) }

impl M {
    fn tok(&self) -> String { match self { M::No => "0".into(), M::Pos => "+".into(), M::Neg => "-".into(), M::Alpha(c) => format!("a{}", *c as u32), M::Inv(c) => format!("i{}", *c as u32) } }
    fn txt(&self, name: &str) -> String { match self { M::No => String::new(), M::Pos => format!("+{name}"), M::Neg => format!("-{name}"), M::Alpha(c) => format!("{c}{name}"), M::Inv(c) => format!("-{c}{name}") } }
}

#[derive(Clone)]
pub struct Mods { pub nodes: [M; 8], pub feats: [M; 26] }
impl Mods {
    pub fn new() -> Self { Mods { nodes: [M::No; 8], feats: [M::No; 26] } }
    pub fn toks(&self) -> String { self.nodes.iter().chain(self.feats.iter()).map(|m| m.tok()).collect::<Vec<_>>().join(" ") }
    pub fn text(&self) -> String {
        let mut a: Vec<String> = Vec::new();
        for (i, m) in self.nodes.iter().enumerate() { if *m != M::No { a.push(m.txt(NODE_NAMES[i])); } }
        for (i, m) in self.feats.iter().enumerate() { if *m != M::No { a.push(m.txt(FEATS[i])); } }
        format!("[{}]", a.join(", "))
    }
}

pub fn seg_toks(s: &SegS) -> String { format!("{} {} {} {}", s.0, s.1, s.2, opt16(s.3)) }

fn one_seg_word(s: SegS) -> WordS { WordS { sylls: vec![SyllS { stress: 0, tone: 0, segs: vec![s] }] } }

/// apply `rule` to the one-segment word; answer in the driver's format
fn impl_mrule(rule: &str, s: SegS) -> String {
    let g = [RuleGroup::from_rules(vec![rule.to_string()])];
    let w = one_seg_word(s);
    match guarded(|| verif::apply_rules_structural(&g, &w)) {
        Out::Ok(v) => {
            let r = &v[0];
            if r.sylls.len() == 1 && r.sylls[0].segs.len() == 1 { seg_toks(&r.sylls[0].segs[0]) } else { format!("shape {:?}", r) }
        }
        Out::Err(e) => format!("err {}", err_kind(&e).split('.').nth(1).unwrap_or("?")),
        Out::Panic(p) => format!("panic {p}"),
        Out::Hang(h) => format!("fuel {h}"),
    }
}

fn impl_match(mods: &Mods, s: SegS) -> String {
    let rule = format!("{} > [tone:7]", mods.text());
    let g = [RuleGroup::from_rules(vec![rule])];
    match guarded(|| verif::apply_rules_structural(&g, &one_seg_word(s))) {
        Out::Ok(v) => if v[0].sylls[0].tone == 7 { "1".into() } else { "0".into() },
        Out::Err(e) => format!("err {}", err_kind(&e).split('.').nth(1).unwrap_or("?")),
        Out::Panic(p) => format!("panic {p}"),
        Out::Hang(h) => format!("fuel {h}"),
    }
}

/// all base graphemes, and base + one diacritic that the parser accepts: (text, bundle)
pub fn segment_space(with_dia: bool) -> Vec<(String, SegS)> {
    let mut cards = verif::cardinals();
    cards.sort();
    let mut out: Vec<(String, SegS)> = cards.iter().map(|(k, s)| (k.clone(), *s)).collect();
    if with_dia {
        let dias: Vec<char> = verif::diacritics().iter().map(|d| d.0).collect();
        for (k, _) in &cards {
            for d in &dias {
                let t = format!("{k}{d}");
                if let Out::Ok(w) = guarded(|| verif::parse_word(&t, &[])) {
                    if w.sylls.len() == 1 && w.sylls[0].segs.len() == 1 { out.push((t, w.sylls[0].segs[0])); }
                }
            }
        }
    }
    // distinct bundles only (several graphemes share a bundle)
    let mut seen = std::collections::HashSet::new();
    out.retain(|(_, s)| seen.insert(*s));
    out
}

// ---- the property's bit-level reference model (written from the manual, independent of the crate's code) ----
fn node_get(s: &SegS, node: usize) -> Option<u8> {
    match node {
        0 => Some(s.0), 1 => Some(s.1), 2 => Some(s.2),
        4 => s.3.and_then(|p| if p & 0x8000 != 0 { Some(((p >> 10) & 3) as u8) } else { None }),
        5 => s.3.and_then(|p| if p & 0x4000 != 0 { Some(((p >> 8) & 3) as u8) } else { None }),
        6 => s.3.and_then(|p| if p & 0x2000 != 0 { Some(((p >> 2) & 63) as u8) } else { None }),
        7 => s.3.and_then(|p| if p & 0x1000 != 0 { Some((p & 3) as u8) } else { None }),
        _ => None,
    }
}
fn node_set(s: &mut SegS, node: usize, v: Option<u8>) {
    let (bit, off, w): (u16, u32, u16) = match node { 4 => (0x8000, 10, 3), 5 => (0x4000, 8, 3), 6 => (0x2000, 2, 63), 7 => (0x1000, 0, 3),
        0 => { s.0 = v.unwrap(); return } 1 => { s.1 = v.unwrap(); return } 2 => { s.2 = v.unwrap(); return } _ => return };
    let mut p = s.3.unwrap_or(0);
    p &= !(bit | (w << off));
    if let Some(x) = v { p |= bit | ((x as u16 & w) << off); }
    s.3 = if p == 0 { None } else { Some(p) };
}
/// `[] > [±F]`: a positive feature of an absent sub-node creates it with only that feature; a negative one does nothing
pub fn spec_apply(s: SegS, feat: usize, pos: bool) -> SegS {
    let (node, mask) = verif::feat_node_mask(feat);
    let mut r = s;
    match (node_get(&s, node), pos) {
        (Some(v), true) => node_set(&mut r, node, Some(v | mask)),
        (Some(v), false) => node_set(&mut r, node, Some(v & !mask)),
        (None, true) => node_set(&mut r, node, Some(mask)),
        (None, false) => {}
    }
    r
}
/// `[±F]` matches iff the feature's node is present and the bit has the named value
pub fn spec_match(s: SegS, feat: usize, pos: bool) -> bool {
    let (node, mask) = verif::feat_node_mask(feat);
    match node_get(&s, node) { Some(v) => (v & mask != 0) == pos, None => false }
}
fn spec_feat(s: SegS, feat: usize) -> Option<bool> { let (node, mask) = verif::feat_node_mask(feat); node_get(&s, node).map(|v| v & mask != 0) }

/// `c04-spec <tier>`: the reference model vs the implementation (property evaluated on the code)
pub fn spec(args: &[String]) -> i32 {
    quiet_panics();
    let thorough = args.get(0).map(|s| s == "thorough").unwrap_or(false);
    let segs = segment_space(thorough);
    let mut n = 0u64;
    let mut nontrivial = 0u64;
    for (txt, s) in &segs {
        for i in 0..26 { for pos in [true, false] {
            let mut o = Mods::new(); o.feats[i] = if pos { M::Pos } else { M::Neg };
            let rule = format!("[] > {}", o.text());
            let got = impl_mrule(&rule, *s);
            let want = seg_toks(&spec_apply(*s, i, pos));
            n += 1;
            if want != seg_toks(s) { nontrivial += 1; }
            if got != want { println!("FINDING c04-apply rule={rule:?} segment={txt:?} bundle=({}) got=({got}) want=({want})", seg_toks(s)); }
            let gm = impl_match(&o, *s);
            let wm = if spec_match(*s, i, pos) { "1" } else { "0" };
            n += 1;
            if gm != wm { println!("FINDING c04-match rule=\"{} > [tone:7]\" segment={txt:?} bundle=({}) got={gm} want={wm}", o.text(), seg_toks(s)); }
        } }
        // [-place], [-node]
        for nd in 3..8 {
            let mut o = Mods::new(); o.nodes[nd] = M::Neg;
            let rule = format!("[] > {}", o.text());
            let got = impl_mrule(&rule, *s);
            let mut w = *s;
            if nd == 3 { w.3 = None } else { node_set(&mut w, nd, None) }
            n += 1;
            if got != seg_toks(&w) { println!("FINDING c04-node-remove rule={rule:?} segment={txt:?} bundle=({}) got=({got}) want=({})", seg_toks(s), seg_toks(&w)); }
        }
    }
    // alphas: [αF] > [αG] / [-αG] carries F's value (no match when F's node is absent)
    let bases = segment_space(false);
    let step = if thorough { 1 } else { 3 };
    for (txt, s) in bases.iter().step_by(step) {
        for i in 0..26 { for j in 0..26 { for inv in [false, true] {
            let mut im = Mods::new(); im.feats[i] = M::Alpha('α');
            let mut om = Mods::new(); om.feats[j] = if inv { M::Inv('α') } else { M::Alpha('α') };
            let rule = format!("{} > {}", im.text(), om.text());
            let got = impl_mrule(&rule, *s);
            let want = match spec_feat(*s, i) { Some(b) => spec_apply(*s, j, b != inv), None => *s };
            n += 1;
            if want != *s { nontrivial += 1; }
            if got != seg_toks(&want) { println!("FINDING c04-alpha rule={rule:?} segment={txt:?} bundle=({}) got=({got}) want=({})", seg_toks(s), seg_toks(&want)); }
        } } }
    }
    // a bound alpha keeps its value at every later use: in `[αF, αG]` / `[αF, -αG]` (F before G in the matrix) G is compared with
    // the value F had; a segment whose node for G is absent matches neither
    let mut reuse = 0u64;
    for (txt, s) in bases.iter().step_by(step) {
        for i in 0..26 { for j in (i + 1)..26 { for inv in [false, true] {
            let mut m = Mods::new(); m.feats[i] = M::Alpha('α'); m.feats[j] = if inv { M::Inv('α') } else { M::Alpha('α') };
            let gm = impl_match(&m, *s);
            let wm = match spec_feat(*s, i) { Some(b) => if spec_match(*s, j, b != inv) { "1" } else { "0" }, None => "0" };
            n += 1; reuse += 1;
            if gm != wm { println!("FINDING c04-alpha-reuse rule=\"{} > [tone:7]\" segment={txt:?} bundle=({}) got={gm} want={wm}", m.text(), seg_toks(s)); }
        } } }
    }
    println!("STAT c04.alpha_reuse_cases {reuse}");
    println!("STAT c04.spec_cases {n}");
    println!("STAT c04.spec_nontrivial {nontrivial}");
    0
}

/// `c04-ops <ops-file> <impl-file> <tier>`
pub fn ops(args: &[String]) -> i32 {
    quiet_panics();
    let mut ops = std::io::BufWriter::new(std::fs::File::create(&args[0]).unwrap());
    let mut imp = std::io::BufWriter::new(std::fs::File::create(&args[1]).unwrap());
    let thorough = args.get(2).map(|s| s == "thorough").unwrap_or(false);
    let segs = segment_space(thorough);
    let bases = segment_space(false);
    let mut n = 0u64;
    let mut changed = 0u64;
    let mut matched = 0u64;
    let empty = Mods::new();
    for (_, s) in &segs {
        // (a) [] > [±F], [] > [±node]; (b) [±F] matches?
        for i in 0..26 { for pol in [M::Pos, M::Neg] {
            let mut o = Mods::new(); o.feats[i] = pol;
            let ans = impl_mrule(&format!("[] > {}", o.text()), *s);
            if ans != seg_toks(s) { changed += 1; }
            writeln!(ops, "mrule {} {} {}", seg_toks(s), empty.toks(), o.toks()).unwrap();
            writeln!(imp, "{ans}").unwrap();
            let ans = impl_match(&o, *s);
            if ans == "1" { matched += 1; }
            writeln!(ops, "match {} {}", seg_toks(s), o.toks()).unwrap();
            writeln!(imp, "{ans}").unwrap();
            n += 2;
        } }
        for i in 3..8 { for pol in [M::Pos, M::Neg] {
            let mut o = Mods::new(); o.nodes[i] = pol;
            writeln!(ops, "mrule {} {} {}", seg_toks(s), empty.toks(), o.toks()).unwrap();
            writeln!(imp, "{}", impl_mrule(&format!("[] > {}", o.text()), *s)).unwrap();
            writeln!(ops, "match {} {}", seg_toks(s), o.toks()).unwrap();
            writeln!(imp, "{}", impl_match(&o, *s)).unwrap();
            n += 2;
        } }
        // two features at once (node creation + negative feature of the same node, etc.): a spread of pairs
        for (i, j) in [(14, 15), (15, 14), (16, 17), (18, 19), (20, 21), (24, 25), (3, 4), (11, 12), (14, 24)] {
            for (pi, pj) in [(M::Pos, M::Neg), (M::Neg, M::Pos), (M::Pos, M::Pos)] {
                let mut o = Mods::new(); o.feats[i] = pi; o.feats[j] = pj;
                writeln!(ops, "mrule {} {} {}", seg_toks(s), empty.toks(), o.toks()).unwrap();
                writeln!(imp, "{}", impl_mrule(&format!("[] > {}", o.text()), *s)).unwrap();
                n += 1;
            }
        }
        // node removed + feature of that node set, in one matrix
        for (nd, f) in [(4, 15), (5, 16), (6, 20), (7, 24), (3, 15)] { for pf in [M::Pos, M::Neg] {
            let mut o = Mods::new(); o.nodes[nd] = M::Neg; o.feats[f] = pf;
            writeln!(ops, "mrule {} {} {}", seg_toks(s), empty.toks(), o.toks()).unwrap();
            writeln!(imp, "{}", impl_mrule(&format!("[] > {}", o.text()), *s)).unwrap();
            n += 1;
        } }
    }
    // (c) alphas: [αF] > [αG] and [αF] > [-αG], all pairs, over the base segments (thorough: every 7th of the full space too)
    let alpha_segs: Vec<&(String, SegS)> = if thorough { bases.iter().chain(segs.iter().step_by(7)).collect() } else { bases.iter().step_by(3).collect() };
    for (_, s) in alpha_segs {
        for i in 0..26 { for j in 0..26 { for inv in [false, true] {
            let mut im = Mods::new(); im.feats[i] = M::Alpha('α');
            let mut om = Mods::new(); om.feats[j] = if inv { M::Inv('α') } else { M::Alpha('α') };
            writeln!(ops, "mrule {} {} {}", seg_toks(s), im.toks(), om.toks()).unwrap();
            writeln!(imp, "{}", impl_mrule(&format!("{} > {}", im.text(), om.text()), *s)).unwrap();
            n += 1;
        } } }
        // node alphas: same node, PLACE, node -> feature coercion, inverse in input
        for nd in 3..8 {
            let mut im = Mods::new(); im.nodes[nd] = M::Alpha('β');
            let mut om = Mods::new(); om.nodes[nd] = M::Alpha('β');
            writeln!(ops, "mrule {} {} {}", seg_toks(s), im.toks(), om.toks()).unwrap();
            writeln!(imp, "{}", impl_mrule(&format!("{} > {}", im.text(), om.text()), *s)).unwrap();
            for f in [15usize, 20, 6] { for inv in [false, true] {
                let mut om = Mods::new(); om.feats[f] = if inv { M::Inv('β') } else { M::Alpha('β') };
                writeln!(ops, "mrule {} {} {}", seg_toks(s), im.toks(), om.toks()).unwrap();
                writeln!(imp, "{}", impl_mrule(&format!("{} > {}", im.text(), om.text()), *s)).unwrap();
                n += 1;
            } }
            // alpha bound to PLACE / a sub-node applied to another node kind
            for nd2 in 3..8 { if nd2 != nd {
                let mut om = Mods::new(); om.nodes[nd2] = M::Alpha('β');
                writeln!(ops, "mrule {} {} {}", seg_toks(s), im.toks(), om.toks()).unwrap();
                writeln!(imp, "{}", impl_mrule(&format!("{} > {}", im.text(), om.text()), *s)).unwrap();
                n += 1;
            } }
            n += 1;
        }
        // unbound alpha in the output, inverted alpha first seen in the input
        let mut om = Mods::new(); om.feats[11] = M::Alpha('γ');
        writeln!(ops, "mrule {} {} {}", seg_toks(s), empty.toks(), om.toks()).unwrap();
        writeln!(imp, "{}", impl_mrule(&format!("[] > {}", om.text()), *s)).unwrap();
        let mut im = Mods::new(); im.feats[6] = M::Inv('δ');
        let mut om = Mods::new(); om.feats[11] = M::Alpha('δ');
        writeln!(ops, "mrule {} {} {}", seg_toks(s), im.toks(), om.toks()).unwrap();
        writeln!(imp, "{}", impl_mrule(&format!("{} > {}", im.text(), om.text()), *s)).unwrap();
        n += 2;
    }
    println!("STAT c04.ops {n}");
    println!("STAT c04.segments {}", segs.len());
    println!("STAT c04.changed_by_single_feature {changed}");
    println!("STAT c04.single_feature_matches {matched}");
    println!("SAMPLE mrule {} | [] > [+voice]", seg_toks(&segs[0].1));
    0
}
