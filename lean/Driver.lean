import AscaVerif.Model.Mods
import AscaVerif.Model.Render
import AscaVerif.Model.ParseWord
import AscaVerif.Model.Alias
import AscaVerif.Model.CliFiles
import AscaVerif.Model.Config
import AscaVerif.Model.Interp.Apply
import AscaVerif.Model.Lexer
import AscaVerif.Model.Parser
import AscaVerif.Model.AliasParser
/-! Line-protocol driver for the model (compiled `lean_exe`; imports the model only — core Lean). -/
open Asca

def o16 (p : Option (BitVec 16)) : String := match p with | some x => toString x.toNat | none => "-"
def o8 (p : Option (BitVec 8)) : String := match p with | some x => toString x.toNat | none => "-"
def b01 (b : Bool) : String := if b then "1" else "0"

def allPlaces : List (Option (BitVec 16)) := none :: (List.range 65536).map (fun n => some (BitVec.ofNat 16 n))

def segLine (s : Seg) : String :=
  s!"{s.root.toNat} {s.manner.toNat} {s.laryngeal.toNat} {o16 s.place}"

def enumC18 : IO Unit := do
  let out ← IO.getStdout
  for p in allPlaces do
    let mut line := s!"P {o16 p}"
    for k in Sub.all do
      line := line ++ " " ++ o8 (Place.getSub k p)
    for k in Sub.all do
      line := line ++ " " ++ o16 (Place.setSub k p none)
      for v in List.range (k.consts.rng.toNat + 1) do
        line := line ++ " " ++ o16 (Place.setSub k p (some (BitVec.ofNat 8 v)))
    out.putStrLn line
  for i in List.range featCount do
    match Gen.featTable[i]? with
    | none => pure ()
    | some (_, _, nk, mask) =>
      match nk.toNode? with
      | none => out.putStrLn s!"F {i} place-node"
      | some node =>
        let base : Seg := { root := 5#8, manner := 0xA5#8, laryngeal := 3#8, place := some 0xA454#16 }
        let emit (tag : String) (s : Seg) : IO Unit :=
          out.putStrLn s!"F {i} {tag} | {segLine (s.setFeat node mask true)} | {segLine (s.setFeat node mask false)} | {o8 (s.getFeat node mask)} {b01 (s.featMatch node mask true)} {b01 (s.featMatch node mask false)}"
        match node with
        | .sub _ =>
          for p in allPlaces do
            emit (o16 p) { base with place := p }
        | .root => for b in List.range 256 do emit (toString b) { base with root := BitVec.ofNat 8 b }
        | .manner => for b in List.range 256 do emit (toString b) { base with manner := BitVec.ofNat 8 b }
        | .laryngeal => for b in List.range 256 do emit (toString b) { base with laryngeal := BitVec.ofNat 8 b }
  for p in allPlaces do
    let s : Seg := { root := 5#8, manner := 0xA5#8, laryngeal := 3#8, place := p }
    let mut line := s!"N {o16 p}"
    for k in Sub.all do
      let cur := Place.getSub k p
      for mv in [none, some 0#8, some 1#8, some k.consts.rng, cur] do
        line := line ++ " " ++ b01 (s.nodeMatch (.sub k) mv)
      line := line ++ " " ++ b01 (s.isNodeSome (.sub k))
    out.putStrLn line

/-- the generated tables as lines, same format as `asca-harness tables` -/
def dumpTables (what : List String) : IO Unit := do
  let out ← IO.getStdout
  if what.contains "feat" then
    for i in List.range featCount do
      match Gen.featTable[i]? with
      | some (_, _, nk, mask) => out.putStrLn s!"feat {i} {nk.toNat} {mask.toNat}"
      | none => pure ()

/-! ## line protocol -/

def parseO16 (t : String) : Option (Option (BitVec 16)) :=
  if t == "-" then some none else t.toNat?.map (fun n => some (BitVec.ofNat 16 n))

def parseSeg : List String → Option (Seg × List String)
  | r :: m :: l :: p :: rest => do
    let r ← r.toNat?; let m ← m.toNat?; let l ← l.toNat?; let p ← parseO16 p
    pure ({ root := BitVec.ofNat 8 r, manner := BitVec.ofNat 8 m, laryngeal := BitVec.ofNat 8 l, place := p }, rest)
  | _ => none

/-- `0` absent, `+`, `-`, `a<codepoint>` alpha, `i<codepoint>` inverted alpha -/
def parseMod (t : String) : Option (Option ModKind) :=
  if t == "0" then some none
  else if t == "+" then some (some (.bin .pos))
  else if t == "-" then some (some (.bin .neg))
  else if t.startsWith "a" then (t.drop 1).toNat?.map (fun c => some (.alpha (.alpha c)))
  else if t.startsWith "i" then (t.drop 1).toNat?.map (fun c => some (.alpha (.inv c)))
  else none

def parseMods (ts : List String) : Option (Modifiers × List String) := do
  let ns ← (ts.take 8).mapM parseMod
  let fs ← ((ts.drop 8).take 26).mapM parseMod
  if ns.length != 8 || fs.length != 26 then none
  else pure ({ nodes := ns, feats := fs }, ts.drop 34)

/-- outcome class only (the panic / loop site is printed by the `…v` verbose ops) -/
def showResClass {α} (f : α → String) : Res α → String
  | .ok a => f a
  | .err e => s!"err {e}"
  | .panic _ => "panic"
  | .outOfFuel _ => "fuel"

def showRes {α} (f : α → String) : Res α → String
  | .ok a => f a
  | .err e => s!"err {e}"
  | .panic p => s!"panic {p}"
  | .outOfFuel p => s!"fuel {p}"

/-- `[in] > [out]` on a one-segment word, as the reference model of C04: match, then apply with the bindings. -/
def opMRule (seg : Seg) (inm outm : Modifiers) : Res Seg :=
  match Match.matchSegMods seg [] inm with
  | .ok (true, al) =>
    match seg.applySegMods al outm.nodes outm.feats false with
    | .ok (s', _) => .ok s'
    | .err e => .err e
    | .panic p => .panic p
    | .outOfFuel p => .outOfFuel p
  | .ok (false, _) => .ok seg
  | .err e => .err e
  | .panic p => .panic p
  | .outOfFuel p => .outOfFuel p

def handleOp0 (line : String) : String :=
  let ts := (line.splitOn " ").filter (· != "")
  match ts with
  | "mrule" :: rest =>
    match parseSeg rest with
    | some (seg, rest) =>
      match parseMods rest with
      | some (inm, rest) =>
        match parseMods rest with
        | some (outm, _) => showRes segLine (opMRule seg inm outm)
        | none => "bad-op"
      | none => "bad-op"
    | none => "bad-op"
  | "match" :: rest =>
    match parseSeg rest with
    | some (seg, rest) =>
      match parseMods rest with
      | some (m, _) => showRes (fun (b : Bool × Alphas) => b01 b.1) (Match.matchSegMods seg [] m)
      | none => "bad-op"
    | none => "bad-op"
  | _ => "bad-op"

/-- flat word format: `<americanist 0/1> <nsyll> { <stress 0/1/2> <tone> <nseg> { r m l p }* }*` -/
def parseSegs : Nat → List String → Option (List Seg × List String)
  | 0, ts => some ([], ts)
  | n + 1, ts => do
    let (s, rest) ← parseSeg ts
    let (ss, rest') ← parseSegs n rest
    pure (s :: ss, rest')

def parseSylls : Nat → List String → Option (List Syll × List String)
  | 0, ts => some ([], ts)
  | n + 1, st :: tone :: nseg :: rest => do
    let st ← st.toNat?; let tone ← tone.toNat?; let nseg ← nseg.toNat?
    let (segs, rest') ← parseSegs nseg rest
    let (σs, rest'') ← parseSylls n rest'
    let stress := if st == 1 then Stress.primary else if st == 2 then Stress.secondary else Stress.unstressed
    pure ({ segs := segs, stress := stress, tone := tone } :: σs, rest'')
  | _, _ => none

def parseWordFlat : List String → Option (Word × List String)
  | am :: ns :: rest => do
    let am ← am.toNat?; let ns ← ns.toNat?
    let (σs, rest') ← parseSylls ns rest
    pure ({ sylls := σs, americanist := am == 1 }, rest')
  | _ => none

def showWord (w : Word) : String :=
  let sy (σ : Syll) : String :=
    let st := match σ.stress with | .primary => "1" | .secondary => "2" | .unstressed => "0"
    s!"{st} {σ.tone} {σ.segs.length}" ++ String.join (σ.segs.map fun s => " " ++ segLine s)
  s!"{if w.americanist then 1 else 0} {w.sylls.length}" ++ String.join (w.sylls.map fun σ => " " ++ sy σ)

def showText (t : Text) : String := " ".intercalate (t.map toString)

/-! ## rule token stream (see `verif::parse_rule_ast`) -/

def parseOptNat (t : String) : Option (Option Nat) := if t == "-" then some none else t.toNat?.map some

def parseFullMods (ts : List String) : Option (Modifiers × List String) := do
  let ns ← (ts.take 8).mapM parseMod
  let fs ← ((ts.drop 8).take 26).mapM parseMod
  match ts.drop 34 with
  | a :: b :: c :: d :: t :: rest =>
    let a ← parseMod a; let b ← parseMod b; let c ← parseMod c; let d ← parseMod d; let t ← parseOptNat t
    if ns.length != 8 || fs.length != 26 then none
    else pure ({ nodes := ns, feats := fs, suprs := { stress := a, secStress := b, long := c, overlong := d, tone := t } }, rest)
  | _ => none

def parseOptMods (ts : List String) : Option (Option Modifiers × List String) :=
  match ts with
  | "0" :: rest => some (none, rest)
  | "1" :: rest => do let (m, r) ← parseFullMods rest; pure (some m, r)
  | _ => none

mutual
partial def parseItem (ts : List String) : Option (Item × List String) :=
  match ts with
  | "E" :: r => some (.emptySet, r)
  | "W" :: r => some (.wordBound, r)
  | "B" :: r => some (.syllBound, r)
  | "L" :: r => some (.ellipsis, r)
  | "M" :: r => some (.metathesis, r)
  | "S" :: r => do let (is, r') ← parseItems r; pure (.set is, r')
  | "I" :: r => do
    let (seg, r1) ← parseSeg r
    let (m, r2) ← parseOptMods r1
    pure (.ipa seg m, r2)
  | "X" :: r => do
    let (m, r1) ← parseFullMods r
    match r1 with
    | v :: r2 => do let v ← parseOptNat v; pure (.matrix m v, r2)
    | _ => none
  | "Y" :: a :: b :: t :: v :: r => do
    let a ← parseMod a; let b ← parseMod b; let t ← parseOptNat t; let v ← parseOptNat v
    pure (.syllable a b t v, r)
  | "T" :: r => do
    let (is, r1) ← parseItems r
    match r1 with
    | a :: b :: t :: v :: r2 => do
      let a ← parseMod a; let b ← parseMod b; let t ← parseOptNat t; let v ← parseOptNat v
      pure (.struct is a b t v, r2)
    | _ => none
  | "O" :: r => do
    let (is, r1) ← parseItems r
    match r1 with
    | mn :: mx :: r2 => do let mn ← mn.toNat?; let mx ← mx.toNat?; pure (.optional is mn mx, r2)
    | _ => none
  | "V" :: n :: r => do
    let n ← n.toNat?
    let (envs, r') ← parseEnvs n r
    pure (.environment envs, r')
  | "N" :: d :: r => do
    let d ← d.toNat?
    let (m, r') ← parseOptMods r
    pure (.variable d m, r')
  | _ => none

partial def parseItems (ts : List String) : Option (List Item × List String) :=
  match ts with
  | n :: r => do let n ← n.toNat?; parseItemsN n r
  | _ => none

partial def parseItemsN (n : Nat) (ts : List String) : Option (List Item × List String) :=
  if n == 0 then some ([], ts) else do
    let (i, r) ← parseItem ts
    let (is, r') ← parseItemsN (n - 1) r
    pure (i :: is, r')

partial def parseEnvs (n : Nat) (ts : List String) : Option (List (List Item × List Item) × List String) :=
  if n == 0 then some ([], ts) else do
    let (b, r1) ← parseItems ts
    let (a, r2) ← parseItems r1
    let (es, r3) ← parseEnvs (n - 1) r2
    pure ((b, a) :: es, r3)
end

partial def parseLists (n : Nat) (ts : List String) : Option (List (List Item) × List String) :=
  if n == 0 then some ([], ts) else do
    let (l, r) ← parseItems ts
    let (ls, r') ← parseLists (n - 1) r
    pure (l :: ls, r')

def parseRule (ts : List String) : Option (Rule × List String) :=
  match ts with
  | ni :: r => do
    let ni ← ni.toNat?
    let (inp, r1) ← parseLists ni r
    match r1 with
    | no :: r2 => do
      let no ← no.toNat?
      let (outp, r3) ← parseLists no r2
      let (ctx, r4) ← parseItems r3
      let (exc, r5) ← parseItems r4
      pure ({ input := inp, output := outp, context := ctx, except := exc }, r5)
    | _ => none
  | _ => none

/-- `apply <fuel> <nrules> {rule}* ; <word>`: the rules applied in order to the word -/
def opApply (verbose : Bool) (ts : List String) : String :=
  match ts with
  | fuel :: n :: rest =>
    match fuel.toNat?, n.toNat? with
    | some fuel, some n =>
      let rec rules (k : Nat) (ts : List String) (acc : List Rule) : Option (List Rule × List String) :=
        match k with
        | 0 => some (acc.reverse, ts)
        | k + 1 => match parseRule ts with | some (r, ts') => rules k ts' (r :: acc) | none => none
      match rules n rest [] with
      | some (rs, ";" :: wts) =>
        match parseWordFlat wts with
        | some (w, _) => (if verbose then showRes else showResClass) showWord (rs.foldlM (fun w r => Interp.applyRule fuel r w) w)
        | none => "bad-op word"
      | _ => "bad-op rules"
    | _, _ => "bad-op"
  | _ => "bad-op"

structure DState where
  ord : Render.Table := Gen.cardinals

/-! ## aliases: `rendera <n> {rom}* <word>` and `parsed <n> {<klen> cps.. <seg>}* <cps..>`
    rom = input (`I <seg>` | `M <k> {<feat> <0/1>}*` | `B`) then output (`R <plus 0/1> <len> cps..` | `E`) -/
def parseNats : Nat → List String → Option (List Nat × List String)
  | 0, ts => some ([], ts)
  | n + 1, t :: ts => do
    let v ← t.toNat?
    let (vs, rest) ← parseNats n ts
    pure (v :: vs, rest)
  | _, _ => none

def parseFeatPairs : Nat → List String → Option (List (Nat × Bool) × List String)
  | 0, ts => some ([], ts)
  | n + 1, i :: p :: ts => do
    let i ← i.toNat?
    let (vs, rest) ← parseFeatPairs n ts
    pure ((i, p == "1") :: vs, rest)
  | _, _ => none

def parseRom (ts : List String) : Option (Alias.Rom × List String) := do
  let (inp, rest) ← (match ts with
    | "I" :: r => (parseSeg r).map fun (s, r') => (Alias.RIn.ipa s, r')
    | "M" :: k :: r => do let k ← k.toNat?; let (fs, r') ← parseFeatPairs k r; pure (Alias.RIn.matrix fs, r')
    | "B" :: r => some (Alias.RIn.bound, r)
    | _ => none)
  match rest with
  | "R" :: plus :: len :: r => do
    let len ← len.toNat?
    let (t, r') ← parseNats len r
    pure (⟨inp, .repl t (plus == "1")⟩, r')
  | "E" :: r => some (⟨inp, .empty⟩, r)
  | _ => none

def parseRoms : Nat → List String → Option (List Alias.Rom × List String)
  | 0, ts => some ([], ts)
  | n + 1, ts => do
    let (r, rest) ← parseRom ts
    let (rs, rest') ← parseRoms n rest
    pure (r :: rs, rest')

def parseDeroms : Nat → List String → Option (List Alias.Derom × List String)
  | 0, ts => some ([], ts)
  | n + 1, k :: ts => do
    let k ← k.toNat?
    let (key, rest) ← parseNats k ts
    let (seg, rest') ← parseSeg rest
    let (ds, rest'') ← parseDeroms n rest'
    pure ((key, seg) :: ds, rest'')
  | _, _ => none

/-! ## command-line file formats: `rsca|wsca|aliasf <cps..>` (readers), `torsca|towsca|toalias <counted texts>` (writers) -/
def jText (t : Text) : String := "[" ++ ",".intercalate (t.map toString) ++ "]"
def jTexts (ts : List Text) : String := "[" ++ ",".intercalate (ts.map jText) ++ "]"
def jGroup (g : Cli.Group) : String := "{\"name\":" ++ jText g.name ++ ",\"rule\":" ++ jTexts g.rules ++ ",\"description\":" ++ jText g.desc ++ "}"

def parseCounted (ts : List String) : Option (Text × List String) :=
  match ts with
  | n :: rest => n.toNat? >>= fun n => parseNats n rest
  | [] => none

def parseCountedList : Nat → List String → Option (List Text × List String)
  | 0, ts => some ([], ts)
  | n + 1, ts => do
    let (t, rest) ← parseCounted ts
    let (tl, rest') ← parseCountedList n rest
    pure (t :: tl, rest')

def parseGroupsIn : Nat → List String → Option (List Cli.Group × List String)
  | 0, ts => some ([], ts)
  | n + 1, ts => do
    let (name, r1) ← parseCounted ts
    match r1 with
    | k :: r2 =>
      let k ← k.toNat?
      let (rules, r3) ← parseCountedList k r2
      let (desc, r4) ← parseCounted r3
      let (gs, r5) ← parseGroupsIn n r4
      pure ({ name := name, rules := rules, desc := desc } :: gs, r5)
    | [] => none

/-! ## `seq` projects: `plan …` (see harness/src/c20.rs) answers, per tag, the validated chain and the groups each entry selects -/
/-- `str::to_lowercase` on the characters the generators use in names: exact on ASCII, Latin-1 and Latin Extended-A
    (U+0130, whose lower case is two characters, is not generated); the identity elsewhere -/
def lowerAscii (t : Text) : Text := t.map fun c =>
  if 65 ≤ c && c ≤ 90 then c + 32
  else if 0xC0 ≤ c && c ≤ 0xDE && c != 0xD7 then c + 32
  else if (0x100 ≤ c && c ≤ 0x137 && c != 0x130) || (0x14A ≤ c && c ≤ 0x177) then (if c % 2 == 0 then c + 1 else c)
  else if (0x139 ≤ c && c ≤ 0x148) || (0x179 ≤ c && c ≤ 0x17E) then (if c % 2 == 1 then c + 1 else c)
  else if c == 0x178 then 0xFF
  else c

def parseOptCounted (ts : List String) : Option (Option Text × List String) :=
  match ts with
  | "-" :: rest => some (none, rest)
  | _ => (parseCounted ts).map fun (t, r) => (some t, r)

def parseFiles : Nat → List String → Option (List (List Text) × List String)
  | 0, ts => some ([], ts)
  | n + 1, k :: ts => do
    let k ← k.toNat?
    let (names, rest) ← parseCountedList k ts
    let (fs, rest') ← parseFiles n rest
    pure (names :: fs, rest')
  | _, _ => none

def parseEntriesC : Nat → List String → Option (List Cfg.Entry × List String)
  | 0, ts => some ([], ts)
  | n + 1, f :: kind :: k :: ts => do
    let f ← f.toNat?; let k ← k.toNat?
    let (names, rest) ← parseCountedList k ts
    let filt ← (match kind with | "N" => some Cfg.Filter.none | "W" => some (Cfg.Filter.without names) | "O" => some (Cfg.Filter.only names) | _ => none)
    let (es, rest') ← parseEntriesC n rest
    pure ({ file := f, filter := filt } :: es, rest')
  | _, _ => none

def parseTagsC : Nat → List String → Option (List Cfg.Seq × List String)
  | 0, ts => some ([], ts)
  | n + 1, ts => do
    let (tag, r1) ← parseCounted ts
    let (frm, r2) ← parseOptCounted r1
    match r2 with
    | ne :: r3 =>
      let ne ← ne.toNat?
      let (es, r4) ← parseEntriesC ne r3
      let (tl, r5) ← parseTagsC n r4
      pure ({ tag := tag, frm := frm, entries := es } :: tl, r5)
    | [] => none

def showPlan (files : List (List Text)) (conf : List Cfg.Seq) : String :=
  if !Cfg.validate conf then "invalid-config" else
  " ; ".intercalate (conf.map fun s =>
    String.ofList (s.tag.map Char.ofNat) ++ " | " ++ " ".intercalate (s.entries.map fun e =>
      match Cfg.select lowerAscii (files.getD e.file []) e.filter with
      | .ok idx => s!"r{e.file}:" ++ ",".intercalate (idx.map toString)
      | .error m => s!"r{e.file}:error"))

/-! the parsed rule as the flat token stream of the `parse_rule_ast` hook (verif.rs) -/
def mkTok : Option ModKind → String
  | none => "0"
  | some (.bin .pos) => "+"
  | some (.bin .neg) => "-"
  | some (.alpha (.alpha c)) => s!"a{c}"
  | some (.alpha (.inv c)) => s!"i{c}"
def optTok : Option Nat → String | some n => toString n | none => "-"
def modsToks (m : Modifiers) : List String :=
  m.nodes.map mkTok ++ m.feats.map mkTok ++ [mkTok m.suprs.stress, mkTok m.suprs.secStress, mkTok m.suprs.long, mkTok m.suprs.overlong, optTok m.suprs.tone]
def optModsToks : Option Modifiers → List String | none => ["0"] | some m => "1" :: modsToks m

mutual
partial def itemToks : Parse.PItem → List String
  | .mk k _ =>
    match k with
    | .emptySet => ["E"] | .wordBound => ["W"] | .syllBound => ["B"] | .ellipsis => ["L"] | .metathesis => ["M"]
    | .set items => "S" :: itemsToks items
    | .ipa sg m => ["I", toString sg.root.toNat, toString sg.manner.toNat, toString sg.laryngeal.toNat,
        (match sg.place with | some p => toString p.toNat | none => "-")] ++ optModsToks m
    | .matrix m v => "X" :: modsToks m ++ [optTok v]
    | .syllable st sec t v => ["Y", mkTok st, mkTok sec, optTok t, optTok v]
    | .struct items st sec t v => "T" :: itemsToks items ++ [mkTok st, mkTok sec, optTok t, optTok v]
    | .optional items lo hi => "O" :: itemsToks items ++ [toString lo, toString hi]
    | .environment envs => "V" :: toString envs.length :: envs.flatMap (fun e => match e with | .mk b a _ => itemsToks b ++ itemsToks a)
    | .variable t m => ["N", Lex.toStr t.value] ++ optModsToks m
partial def itemsToks (items : List Parse.PItem) : List String := toString items.length :: items.flatMap itemToks
end

def ruleToks (r : Parse.PRule) : List String :=
  toString r.input.length :: r.input.flatMap itemsToks ++ toString r.output.length :: r.output.flatMap itemsToks ++
  itemsToks r.context ++ itemsToks r.except

def showParse : Parse.PRes (Option Parse.PRule) → String
  | .ok none => "none"
  | .ok (some r) => "ok " ++ " ".intercalate (ruleToks r)
  | .err e => s!"err {e.name} " ++ " ".intercalate (e.spans.map fun (a, b) => s!"{a} {b}")
  | .panic _ => "panic"
  | .outOfFuel _ => "hang"

/-! alias transformations as the flat stream of the `alias_line` hook -/
def aliasItemToks (it : AParse.AItem) : List String :=
  match it.kind with
  | .empty => ["E"]
  | .syllBound => ["B"]
  | .replacement t plus => ["R", if plus then "1" else "0", if t.isEmpty then "-" else ".".intercalate (t.map toString)]
  | .segments segs => "G" :: toString segs.length :: segs.flatMap fun sg =>
      match sg with
      | .ipa sg m => ["I", toString sg.root.toNat, toString sg.manner.toNat, toString sg.laryngeal.toNat,
          (match sg.place with | some p => toString p.toNat | none => "-")] ++ optModsToks m
      | .matrix m => "X" :: modsToks m

def showAlias : Parse.PRes (List AParse.Transformation) → String
  | .ok ts => "ok " ++ " ".intercalate (toString ts.length :: ts.flatMap fun t => aliasItemToks t.input ++ aliasItemToks t.output)
  | .err e => (s!"err {e.name} " ++ " ".intercalate (e.spans.map fun (a, b) => s!"{a} {b}")).trimRight
  | .panic _ => "panic"
  | .outOfFuel _ => "hang"

/-- `TokenKind` as its `Debug` text -/
def tkName : Lex.TK → String
  | .leftSquare => "LeftSquare" | .rightSquare => "RightSquare" | .leftCurly => "LeftCurly" | .rightCurly => "RightCurly"
  | .rightAngle => "RightAngle" | .leftAngle => "LeftAngle" | .leftBracket => "LeftBracket" | .rightBracket => "RightBracket"
  | .leftColCurly => "LeftColCurly" | .rightColCurly => "RightColCurly" | .greaterThan => "GreaterThan" | .equals => "Equals"
  | .underline => "Underline" | .arrow => "Arrow" | .comma => "Comma" | .colon => "Colon" | .wordBoundary => "WordBoundary"
  | .syllBoundary => "SyllBoundary" | .syllable => "Syllable" | .ampersand => "Ampersand" | .group => "Group" | .number => "Number"
  | .slash => "Slash" | .dubSlash => "DubSlash" | .pipe => "Pipe" | .cardinal => "Cardinal" | .diacritic i => s!"Diacritic({i})"
  | .star => "Star" | .emptySet => "EmptySet" | .ellipsis => "Ellipsis" | .comment => "Comment"
  | .feature k v => s!"Feature({k}({v}))" | .eol => "Eol"

def showLex : Lex.LRes (List Lex.Token) → String
  | .ok ts => "ok " ++ ";".intercalate (ts.map fun t => s!"{tkName t.kind}|{".".intercalate (t.value.map toString)}|{t.start}|{t.stop}")
  | .err e => s!"err {e.name} {e.start} {e.stop}"
  | .panic _ => "panic"
  | .outOfFuel _ => "hang"

def handleOp (st : DState) (line : String) : DState × String :=
  let ts := (line.splitOn " ").filter (· != "")
  match ts with
  | "setorder" :: idx =>
    match idx.mapM String.toNat? with
    | some is =>
      let tbl := is.filterMap (fun i => Gen.cardinals[i]?)
      if tbl.length == Gen.cardinals.length then ({ st with ord := tbl }, "ok") else (st, "bad-op")
    | none => (st, "bad-op")
  | "render" :: rest =>
    match parseWordFlat rest with
    | some (w, _) => (st, showRes showText (Render.renderWord st.ord w))
    | none => (st, "bad-op")
  | "renderseg" :: rest =>
    match parseSeg rest with
    | some (s, _) => (st, showRes (fun o => match o with | some t => showText t | none => "none") (Render.segToText st.ord s))
    | none => (st, "bad-op")
  | "rendera" :: n :: rest =>
    match n.toNat? >>= fun n => parseRoms n rest >>= fun (roms, r) => (parseWordFlat r).map fun (w, _) => (roms, w) with
    | some (roms, w) => (st, showRes showText (Alias.render roms st.ord w))
    | none => (st, "bad-op")
  | "parsed" :: n :: rest =>
    match n.toNat? >>= fun n => parseDeroms n rest >>= fun (ds, r) => (r.mapM String.toNat?).map fun t => (ds, t) with
    | some (ds, t) => (st, showRes showWord (Alias.parseInput ds t))
    | none => (st, "bad-op")
  | "rsca" :: cps =>
    match cps.mapM String.toNat? with
    | some t => (st, "[" ++ ",".intercalate ((Cli.parseRsca t).map jGroup) ++ "]")
    | none => (st, "bad-op")
  | "wsca" :: cps =>
    match cps.mapM String.toNat? with
    | some t => (st, jTexts (Cli.parseWsca t).1)
    | none => (st, "bad-op")
  | "aliasf" :: cps =>
    match cps.mapM String.toNat? with
    | some t => let (i, f) := Cli.parseAlias t; (st, "{\"into\":" ++ jTexts i ++ ",\"from\":" ++ jTexts f ++ "}")
    | none => (st, "bad-op")
  | "torsca" :: n :: rest =>
    match n.toNat? >>= fun n => parseGroupsIn n rest with
    | some (gs, _) => (st, jText (Cli.toRsca gs))
    | none => (st, "bad-op")
  | "towsca" :: n :: rest =>
    match n.toNat? >>= fun n => parseCountedList n rest with
    | some (ws, _) => (st, jText (Cli.toWsca ws))
    | none => (st, "bad-op")
  | "toalias" :: n :: rest =>
    match n.toNat? >>= fun n => parseCountedList n rest >>= fun (i, r) => (match r with | m :: r' => m.toNat? >>= fun m => parseCountedList m r' | [] => none) >>= fun (f, _) => some (i, f) with
    | some (i, f) => (st, jText (Cli.toAlias i f))
    | none => (st, "bad-op")
  | "plan" :: n :: rest =>
    match n.toNat? >>= fun n => parseFiles n rest >>= fun (files, r) => (match r with | m :: r' => m.toNat? >>= fun m => parseTagsC m r' | [] => none) >>= fun (conf, _) => some (files, conf) with
    | some (files, conf) => (st, showPlan files conf)
    | none => (st, "bad-op")
  | "apply" :: rest => (st, opApply false rest)
  | "applyv" :: rest => (st, opApply true rest)
  | "lex" :: cps =>
    match (cps.filter (· != "")).mapM String.toNat? with
    | some t => (st, showLex (Lex.lexLine t))
    | none => (st, "bad-op")
  | "aliasp" :: k :: cps =>
    match (cps.filter (· != "")).mapM String.toNat? with
    | some t => (st, showAlias (AParse.parseLine (k == "1") t))
    | none => (st, "bad-op")
  | "parse" :: cps =>
    match (cps.filter (· != "")).mapM String.toNat? with
    | some t => (st, showParse (Parse.parseLine t))
    | none => (st, "bad-op")
  | "parsew" :: cps =>
    match cps.mapM String.toNat? with
    | some t => (st, showRes showWord (ParseWord.parseInput t))
    | none => (st, "bad-op")
  | _ => (st, handleOp0 line)

partial def opsLoop (h : IO.FS.Stream) (out : IO.FS.Stream) (st : DState) : IO Unit := do
  let line ← h.getLine
  if line.isEmpty then return ()
  let (st', ans) := handleOp st (line.dropRightWhile (· == '\n'))
  out.putStrLn ans
  opsLoop h out st'

def main (args : List String) : IO UInt32 := do
  match args with
  | ["enum-c18"] => enumC18; return 0
  | "tables" :: what => dumpTables what; return 0
  | ["ops"] => opsLoop (← IO.getStdin) (← IO.getStdout) {}; return 0
  | _ => IO.eprintln s!"unknown driver mode {args}"; return 2
