import AscaVerif.Model.Lexer
/-! Step specifications of the lexer model: every recogniser, called on a non-empty source, either declines, or
    consumes at least one character and returns a token spanning exactly what it consumed, or reports an error
    whose span lies inside the line - and never panics or runs out of fuel. -/
namespace Asca
namespace Lex

/-- characters consumed so far + characters left = length of the line -/
def LS.total (s : LS) : Nat := s.pos + s.src.length

/-- a `Number` token holds at least one digit and fits a `usize` (what `get_numeric` guarantees since the repair of D2) -/
def NumOK (t : Token) : Prop := t.kind = .number → t.value ≠ [] ∧ ParseWord.digitsToNat t.value < 2 ^ 64

/-- the sign of a feature token: `+`, `-`, an alpha letter, or `-` and an alpha letter -/
def ModOK (m : Text) : Prop :=
  m = [43] ∨ m = [45] ∨ ∃ c, (isGreek c || isUpper c) = true ∧ (m = [c] ∨ m = [45, c])

/-- what the parser relies on, token by token: a token other than `Eol`/`Comment` has a non-empty value; a number is
    made of digits; a diacritic token indexes the table; a feature token is `tone: digits` or a row of the feature table
    with a sign -/
def TokX (t : Token) : Prop :=
  (t.kind ≠ .eol → t.kind ≠ .comment → t.value ≠ []) ∧
  (t.kind = .number → t.value.all isDigit = true) ∧
  (∀ i, t.kind = .diacritic i → i < Gen.diacritics.length) ∧
  (∀ k v, t.kind = .feature k v →
     (k = "Supr" ∧ v = "Tone" ∧ t.value ≠ [] ∧ t.value.all isDigit = true) ∨
     ((∃ names, (k, v, names) ∈ Gen.featNames) ∧ ModOK t.value))

/-- a kind that is neither a number, a diacritic nor a feature -/
def Plain (k : TK) : Prop := k ≠ .number ∧ (∀ i, k ≠ .diacritic i) ∧ (∀ a b, k ≠ .feature a b)

theorem tokX_plain (k : TK) (v : Text) (a b : Nat) (hp : Plain k) (hv : v ≠ []) : TokX ⟨k, v, a, b⟩ :=
  ⟨fun _ _ => hv, fun h => absurd h hp.1, fun i h => absurd h (hp.2.1 i), fun x y h => absurd h (hp.2.2 x y)⟩

theorem tokX_number (v : Text) (a b : Nat) (hv : v ≠ []) (hd : v.all isDigit = true) : TokX ⟨.number, v, a, b⟩ :=
  ⟨fun _ _ => hv, fun _ => hd, fun i (h : TK.number = TK.diacritic i) => TK.noConfusion h,
   fun k w (h : TK.number = TK.feature k w) => TK.noConfusion h⟩

theorem tokX_comment (v : Text) (a b : Nat) : TokX ⟨.comment, v, a, b⟩ :=
  ⟨fun _ h => absurd rfl h, fun (h : TK.comment = TK.number) => TK.noConfusion h,
   fun i (h : TK.comment = TK.diacritic i) => TK.noConfusion h, fun k w (h : TK.comment = TK.feature k w) => TK.noConfusion h⟩

theorem tokX_diacritic (i : Nat) (v : Text) (a b : Nat) (hv : v ≠ []) (hi : i < Gen.diacritics.length) : TokX ⟨.diacritic i, v, a, b⟩ :=
  ⟨fun _ _ => hv, fun (h : TK.diacritic i = TK.number) => TK.noConfusion h,
   fun j (h : TK.diacritic i = TK.diacritic j) => by cases h; exact hi,
   fun k w (h : TK.diacritic i = TK.feature k w) => TK.noConfusion h⟩

theorem tokX_cardinal (v : Text) (a b : Nat) (hv : v ≠ []) : TokX ⟨.cardinal, v, a, b⟩ :=
  tokX_plain _ _ _ _ ⟨by simp, by simp, by simp⟩ hv

theorem tokX_feature (k w : String) (v : Text) (a b : Nat) (hv : v ≠ [])
    (h : (k = "Supr" ∧ w = "Tone" ∧ v ≠ [] ∧ v.all isDigit = true) ∨ ((∃ names, (k, w, names) ∈ Gen.featNames) ∧ ModOK v)) :
    TokX ⟨.feature k w, v, a, b⟩ :=
  ⟨fun _ _ => hv, fun (h' : TK.feature k w = TK.number) => TK.noConfusion h',
   fun i (h' : TK.feature k w = TK.diacritic i) => TK.noConfusion h',
   fun k' w' (h' : TK.feature k w = TK.feature k' w') => by cases h'; exact h⟩

structure Good (s : LS) (t : Token) (s' : LS) : Prop where
  start_eq : t.start = s.pos
  stop_eq : t.stop = s'.pos
  total_eq : s'.total = s.total
  progress : s'.src.length < s.src.length
  not_eol : t.kind ≠ .eol
  num_ok : NumOK t
  tok_ok : TokX t

/-- the error's span starts at or after the lexer position and ends at most one past the end of the line -/
def ErrIn (s : LS) (e : LErr) : Prop := s.pos ≤ e.start ∧ e.start ≤ e.stop ∧ e.stop ≤ s.total + 1

def StepSpec (s : LS) : Step → Prop
  | .ok none => True
  | .ok (some (t, s')) => Good s t s'
  | .err e => ErrIn s e
  | .panic _ => False
  | .outOfFuel _ => False

macro "err_tac" : tactic => `(tactic| (simp only [StepSpec, ErrIn, LS.total]; omega))

theorem cur_nil (s : LS) (h : s.src = []) : s.cur = 0 := by simp [LS.cur, h]

theorem src_ne_of_cur (s : LS) (h : s.cur ≠ 0) : s.src ≠ [] := by
  intro h'; exact h (cur_nil s h')

theorem advance_ok (s : LS) (h : s.src ≠ []) :
    ∃ s', s.advance = .ok s' ∧ s'.pos = s.pos + 1 ∧ s'.src = s.src.tail ∧ s'.total = s.total ∧ s'.src.length + 1 = s.src.length := by
  obtain ⟨src, pos, a, b, c, d, e⟩ := s
  cases src with
  | nil => exact absurd rfl h
  | cons x r =>
    refine ⟨_, rfl, ?_⟩
    simp [LS.total]; omega

theorem chopWhile_spec (s : LS) (p : Nat → Bool) :
    (s.chopWhile p).2.total = s.total ∧ (s.chopWhile p).2.src.length ≤ s.src.length ∧ s.pos ≤ (s.chopWhile p).2.pos ∧
    (s.chopWhile p).2.pos = s.pos + (s.chopWhile p).1.length := by
  have h := List.takeWhile_append_dropWhile (p := p) (l := s.src)
  have hl : (s.src.takeWhile p).length + (s.src.dropWhile p).length = s.src.length := by
    rw [← List.length_append, h]
  simp only [LS.chopWhile, LS.total]
  exact ⟨by omega, by omega, by omega, trivial⟩

theorem chopWhile_progress (s : LS) (p : Nat → Bool) (h : s.src ≠ []) (hp : p s.cur = true) :
    (s.chopWhile p).2.src.length < s.src.length := by
  obtain ⟨src, pos, a, b, c, d, e⟩ := s
  cases src with
  | nil => exact absurd rfl h
  | cons x r =>
    simp only [LS.cur, List.headD] at hp
    simp only [LS.chopWhile, List.dropWhile_cons, hp, if_true, List.length_cons]
    have := (List.dropWhile_suffix (l := r) p).length_le
    omega

theorem trimWs_spec (s : LS) :
    s.trimWs.total = s.total ∧ s.trimWs.src.length ≤ s.src.length ∧ s.pos ≤ s.trimWs.pos := by
  have := chopWhile_spec s Cli.isWs
  exact ⟨this.1, this.2.1, this.2.2.1⟩

/-! ### the recognisers -/

theorem emit1_spec (k : TK) (v : Text) (s s0 : LS) (h : s.src ≠ []) (hk : k ≠ .eol)
    (hp : s.pos = s0.pos) (hs : s.src = s0.src) (hn : k ≠ .number := by simp)
    (htok : ∀ a b, TokX ⟨k, v, a, b⟩ := by intros; exact tokX_plain _ _ _ _ (by simp [Plain]) (by simp)) :
    StepSpec s0 (emit1 k v s0.pos s) := by
  obtain ⟨s', he, hpos, hsrc, htot, hlen⟩ := advance_ok s h
  simp only [emit1, he, bind, Outcome.bind, pure, StepSpec]
  refine ⟨rfl, rfl, ?_, ?_, hk, fun h => absurd h hn, htok _ _⟩
  · simp only [LS.total] at htot ⊢; rw [htot, hp, hs]
  · rw [← hs]; omega

theorem getBracket_spec (s : LS) (h : s.src ≠ []) : StepSpec s (getBracket s) := by
  unfold getBracket
  split
  · exact emit1_spec _ _ _ s h (by simp) rfl rfl
  split
  · exact emit1_spec _ _ _ s h (by simp) rfl rfl
  split
  · exact emit1_spec _ _ _ s h (by simp) rfl rfl
  split
  · split
    · -- `}:` two characters
      rename_i hn
      obtain ⟨src, pos, a, b, c, d, e⟩ := s
      match src, h, hn with
      | _ :: y :: r, _, hn =>
        simp only [LS.next] at hn
        subst hn
        simp only [LS.advance, emit1, bind, Outcome.bind, pure, StepSpec]
        exact ⟨rfl, rfl, by simp only [LS.total, List.length_cons]; omega, by simp only [List.length_cons]; omega, by simp, by simp [NumOK],
          tokX_plain _ _ _ _ (by simp [Plain]) (by simp)⟩
      | [_], _, hn => simp [LS.next] at hn
    · exact emit1_spec _ _ _ s h (by simp) rfl rfl
  split
  · split
    · err_tac
    · exact emit1_spec _ _ _ s h (by simp) rfl rfl
  split
  · split
    · err_tac
    · exact emit1_spec _ _ _ s h (by simp) rfl rfl
  split
  · split
    · err_tac
    · exact emit1_spec _ _ _ s h (by simp) rfl rfl
  split
  · split
    · err_tac
    · exact emit1_spec _ _ _ s h (by simp) rfl rfl
  · trivial

theorem chop_spec (s s0 : LS) (n : Nat) (k : TK) (hn : 0 < n) (hle : n ≤ s.src.length) (hk : k ≠ .eol)
    (hp : s.pos = s0.pos) (hs : s.src = s0.src) (hnum : k ≠ .number := by first | simp | (split <;> simp))
    (hplain : Plain k := by first | simp [Plain] | (split <;> simp [Plain])) :
    StepSpec s0 (chopTok k n s0.pos s) := by
  simp only [chopTok, LS.chop, hle, if_true, bind, Outcome.bind, pure, StepSpec]
  refine ⟨rfl, rfl, ?_, ?_, hk, fun h => absurd h hnum, tokX_plain _ _ _ _ hplain ?_⟩
  · simp only [LS.total, List.length_drop]; rw [hp, ← hs]; omega
  · simp only [List.length_drop]; rw [← hs]; omega
  · intro h0
    have := congrArg List.length h0
    simp only [List.length_take, List.length_nil] at this
    omega

theorem len_pos_of_ne {α} (l : List α) (h : l ≠ []) : 1 ≤ l.length := by
  cases l with
  | nil => exact absurd rfl h
  | cons _ _ => simp

theorem len_two_of_next (s : LS) (c : Nat) (hc : c ≠ 0) (h : s.next = c) : 2 ≤ s.src.length := by
  obtain ⟨src, pos, a, b, c', d, e⟩ := s
  match src, h with
  | _ :: _ :: _, _ => simp
  | [_], h => simp [LS.next] at h; exact absurd h.symm hc
  | [], h => simp [LS.next] at h; exact absurd h.symm hc

theorem getPrimative_spec (s : LS) (h : s.src ≠ []) : StepSpec s (getPrimative s) := by
  unfold getPrimative
  split
  · trivial
  · exact chop_spec s s 1 .group (by omega) (len_pos_of_ne _ h) (by simp) rfl rfl

theorem isDigit_ne_zero (c : Nat) (h : isDigit c = true) : c ≠ 0 := by
  intro h'; subst h'; simp [isDigit] at h

theorem getNumeric_spec (s : LS) : StepSpec s (getNumeric s) := by
  unfold getNumeric
  split
  · trivial
  · rename_i hd
    have hd : isDigit s.cur = true := by simpa using hd
    have hne := src_ne_of_cur s (isDigit_ne_zero _ hd)
    have hsp := chopWhile_spec s isDigit
    have hpr := chopWhile_progress s isDigit hne hd
    split
    · rename_i hlt
      have hval : (s.chopWhile isDigit).1 ≠ [] := by
        intro h0
        have h4 := hsp.2.2.2
        rw [h0] at h4
        have : (s.chopWhile isDigit).2.total = s.total := hsp.1
        simp only [LS.total, List.length_nil, Nat.add_zero] at h4 this
        omega
      refine ⟨rfl, rfl, hsp.1, hpr, by simp, fun _ => ⟨?_, hlt⟩, tokX_number _ _ _ hval List.all_takeWhile⟩
      intro h0
      have h0' : (s.chopWhile isDigit).1 = [] := h0
      have h4 := hsp.2.2.2
      rw [h0'] at h4
      have : (s.chopWhile isDigit).2.total = s.total := hsp.1
      simp only [LS.total, List.length_nil, Nat.add_zero] at h4 this
      omega
    · -- NumberTooBig underlines the digits
      have : (s.chopWhile isDigit).2.pos ≤ (s.chopWhile isDigit).2.total := by simp only [LS.total]; omega
      simp only [StepSpec, ErrIn]
      have := hsp.1; have := hsp.2.2.1
      omega

theorem whileTok_spec (s : LS) (p : Nat → Bool) (k : TK) (hk : k ≠ .eol) (h : s.src ≠ []) (hp : p s.cur = true)
    (hn : k ≠ .number := by simp) (hplain : Plain k := by simp [Plain]) : StepSpec s (whileTok k p s) :=
  ⟨rfl, rfl, (chopWhile_spec s p).1, chopWhile_progress s p h hp, hk, fun h => absurd h hn,
   tokX_plain _ _ _ _ hplain (by
     intro h0
     have h4 := (chopWhile_spec s p).2.2.2
     have h5 := chopWhile_progress s p h hp
     have h6 := (chopWhile_spec s p).1
     rw [h0] at h4
     simp only [LS.total, List.length_nil, Nat.add_zero] at h4 h6
     omega)⟩

theorem getSpecialChar_spec (s : LS) (h : s.src ≠ []) : StepSpec s (getSpecialChar s) := by
  have h1 := len_pos_of_ne _ h
  unfold getSpecialChar
  by_cases c1 : s.cur = 44
  · rw [if_pos c1]; exact chop_spec s s 1 _ (by omega) h1 (by simp) rfl rfl
  rw [if_neg c1]
  by_cases c2 : s.cur = 35
  · rw [if_pos c2]; exact chop_spec s s 1 _ (by omega) h1 (by simp) rfl rfl
  rw [if_neg c2]
  by_cases c3 : s.cur = 36
  · rw [if_pos c3]; exact chop_spec s s 1 _ (by omega) h1 (by simp) rfl rfl
  rw [if_neg c3]
  by_cases c4 : s.cur = 37
  · rw [if_pos c4]; exact chop_spec s s 1 _ (by omega) h1 (by simp) rfl rfl
  rw [if_neg c4]
  by_cases c5 : s.cur = 42
  · rw [if_pos c5]; exact chop_spec s s 1 _ (by omega) h1 (by simp) rfl rfl
  rw [if_neg c5]
  by_cases c6 : s.cur = 0x2205
  · rw [if_pos c6]; exact chop_spec s s 1 _ (by omega) h1 (by simp) rfl rfl
  rw [if_neg c6]
  by_cases c7 : s.cur = 38
  · rw [if_pos c7]; exact chop_spec s s 1 _ (by omega) h1 (by simp) rfl rfl
  rw [if_neg c7]
  by_cases c8 : s.cur = 95
  · rw [if_pos c8]; exact whileTok_spec s _ _ (by simp) h (by simp [c8])
  rw [if_neg c8]
  by_cases c9 : s.cur = 58
  · rw [if_pos c9]
    by_cases hn : s.next = 123
    · rw [if_pos hn]
      by_cases hf : s.inEnvSet = true
      · rw [if_pos hf]; err_tac
      · rw [if_neg hf]; exact chop_spec _ s 2 _ (by omega) (len_two_of_next s _ (by decide) hn) (by simp) rfl rfl
    · rw [if_neg hn]; exact chop_spec s s 1 _ (by omega) h1 (by simp) rfl rfl
  rw [if_neg c9]
  by_cases c10 : s.cur = 60
  · rw [if_pos c10]
    by_cases hf : s.inSyll = true
    · rw [if_pos hf]; err_tac
    · rw [if_neg hf]; exact chop_spec _ s 1 _ (by omega) h1 (by simp) rfl rfl
  rw [if_neg c10]
  by_cases c11 : s.cur = 62
  · rw [if_pos c11]; exact chop_spec _ s 1 _ (by omega) h1 (by split <;> simp) rfl rfl (by split <;> simp) (by split <;> simp [Plain])
  rw [if_neg c11]
  by_cases c12 : s.cur = 124
  · rw [if_pos c12]; exact chop_spec s s 1 _ (by omega) h1 (by simp) rfl rfl
  rw [if_neg c12]
  by_cases c13 : s.cur = 47
  · rw [if_pos c13]
    by_cases hn : s.next = 47
    · rw [if_pos hn]; exact chop_spec s s 2 _ (by omega) (len_two_of_next s _ (by decide) hn) (by simp) rfl rfl
    · rw [if_neg hn]; exact chop_spec s s 1 _ (by omega) h1 (by simp) rfl rfl
  rw [if_neg c13]
  by_cases c14 : s.cur = 61
  · rw [if_pos c14]
    by_cases hn : s.next = 62
    · rw [if_pos hn]; exact chop_spec s s 2 _ (by omega) (len_two_of_next s _ (by decide) hn) (by simp) rfl rfl
    · rw [if_neg hn]; exact chop_spec s s 1 _ (by omega) h1 (by simp) rfl rfl
  rw [if_neg c14]
  by_cases c15 : s.cur = 45
  · rw [if_pos c15]
    by_cases hn : s.next = 62
    · rw [if_pos hn]; exact chop_spec s s 2 _ (by omega) (len_two_of_next s _ (by decide) hn) (by simp) rfl rfl
    · rw [if_neg hn]; err_tac
  rw [if_neg c15]
  by_cases c16 : (s.cur = 0x2026 || s.cur = 0x22EF) = true
  · rw [if_pos c16]; exact chop_spec s s 1 _ (by omega) h1 (by simp) rfl rfl
  rw [if_neg c16]
  by_cases c17 : s.cur = 46
  · rw [if_pos c17]
    by_cases hn : s.next = 46
    · rw [if_pos hn]; exact whileTok_spec s _ _ (by simp) h (by simp [c17])
    · rw [if_neg hn]; err_tac
  rw [if_neg c17]
  trivial

/-! ### `get_feature` -/

theorem isAlpha_ne_zero (c : Nat) (h : (isAlpha c || c = 46) = true) : c ≠ 0 := by
  intro h'; subst h'; simp [isAlpha, isUpper, isLower] at h

theorem featLoop_spec : ∀ (fuel : Nat) (s : LS) (buf : Text), s.src.length < fuel →
    ∃ buf' s', featLoop fuel s buf = .ok (buf', s') ∧ s'.total = s.total ∧ s'.src.length ≤ s.src.length ∧ s.pos ≤ s'.pos := by
  intro fuel
  induction fuel with
  | zero => intro s buf h; omega
  | succ n ih =>
    intro s buf h
    unfold featLoop
    by_cases hc : (isAlpha s.cur || s.cur = 46) = true
    · rw [if_pos hc]
      obtain ⟨s1, he, hpos, _, htot, hlen⟩ := advance_ok s (src_ne_of_cur s (isAlpha_ne_zero _ hc))
      have ht := trimWs_spec s1
      obtain ⟨b', s', hr, h1, h2, h3⟩ := ih s1.trimWs (buf ++ [s.cur]) (by omega)
      refine ⟨b', s', ?_, by omega, by omega, by omega⟩
      simp only [he, bind, Outcome.bind, hr]
    · rw [if_neg hc]
      exact ⟨buf, s, rfl, rfl, Nat.le_refl _, Nat.le_refl _⟩

theorem greek_upper_ne_zero (c : Nat) (h : (isGreek c || isUpper c) = true) : c ≠ 0 := by
  intro h'; subst h'; simp [isGreek, isUpper] at h

theorem featMod_spec (c : Nat) (s1 : LS) :
    ∃ m s2, featMod c s1 = .ok (m, s2) ∧ s2.total = s1.total ∧ s2.src.length ≤ s1.src.length ∧ s1.pos ≤ s2.pos ∧
      ((c = 43 ∨ c = 45 ∨ (isGreek c || isUpper c) = true) → ModOK m) := by
  unfold featMod
  by_cases hc : (c = 45 && (isGreek s1.cur || isUpper s1.cur)) = true
  · rw [if_pos hc]
    have hg : (isGreek s1.cur || isUpper s1.cur) = true := by
      simp only [Bool.and_eq_true] at hc; exact hc.2
    obtain ⟨s2, he, hpos, _, htot, hlen⟩ := advance_ok s1 (src_ne_of_cur s1 (greek_upper_ne_zero _ hg))
    exact ⟨[45, s1.cur], s2, by simp only [he, bind, Outcome.bind, pure], htot, by omega, by omega,
      fun _ => Or.inr (Or.inr ⟨s1.cur, hg, Or.inr rfl⟩)⟩
  · rw [if_neg hc]
    refine ⟨[c], s1, rfl, rfl, Nat.le_refl _, Nat.le_refl _, fun h => ?_⟩
    rcases h with h | h | h
    · exact Or.inl (by rw [h])
    · exact Or.inr (Or.inl (by rw [h]))
    · exact Or.inr (Or.inr ⟨c, h, Or.inl rfl⟩)

theorem featureMatch_mem (buf : Text) (k w : String) (h : featureMatch buf = some (k, w)) : ∃ names, (k, w, names) ∈ Gen.featNames := by
  unfold featureMatch at h
  match hf : Gen.featNames.find? (fun e => e.2.2.contains (toStr (buf.map lower))), h with
  | some e, h =>
    rw [hf] at h
    simp only [Option.map_some, Option.some.injEq, Prod.mk.injEq] at h
    have hm := List.mem_of_find?_eq_some hf
    exact ⟨e.2.2, by rw [← h.1, ← h.2]; exact hm⟩
  | none, h => rw [hf] at h; simp at h

theorem modOK_ne_nil (m : Text) (h : ModOK m) : m ≠ [] := by
  rcases h with h | h | ⟨c, _, h | h⟩ <;> (rw [h]; simp)

theorem featFinish_spec (s s4 : LS) (m buf : Text) (htot : s4.total = s.total) (hlen : s4.src.length < s.src.length)
    (hpos : s.pos ≤ s4.pos) (hm : ModOK m) : StepSpec s (featFinish s.pos m buf s4) := by
  have hle : s4.pos ≤ s.total := by rw [← htot]; simp only [LS.total]; omega
  unfold featFinish
  split
  · simp only [StepSpec, ErrIn]; omega
  · split
    · simp only [StepSpec, ErrIn]; omega
    · split
      · simp only [StepSpec, ErrIn, LS.total]; omega
      · rename_i kind variant hfm _
        exact ⟨rfl, rfl, htot, hlen, by simp, by simp [NumOK],
          tokX_feature _ _ _ _ _ (modOK_ne_nil m hm) (Or.inr ⟨featureMatch_mem buf kind variant hfm, hm⟩)⟩

theorem getFeature_spec (s : LS) (h : s.src ≠ []) : StepSpec s (getFeature s) := by
  unfold getFeature
  split
  · trivial
  · rename_i hentry
    have hc0 : s.cur = 43 ∨ s.cur = 45 ∨ (isGreek s.cur || isUpper s.cur) = true := by
      by_cases h1 : s.cur = 43
      · exact Or.inl h1
      by_cases h2 : s.cur = 45
      · exact Or.inr (Or.inl h2)
      right; right
      cases hgu : (isGreek s.cur || isUpper s.cur) with
      | true => rfl
      | false =>
        exfalso; apply hentry
        simp only [Bool.or_eq_false_iff] at hgu
        simp [h1, h2, hgu.1, hgu.2]
    obtain ⟨s1, he, hpos, _, htot, hlen⟩ := advance_ok s h
    obtain ⟨m, s2, hm, h1, h2, h3, hmod⟩ := featMod_spec s.cur s1
    have ht := trimWs_spec s2
    obtain ⟨buf, s4, hf, g1, g2, g3⟩ := featLoop_spec (s2.trimWs.src.length + 1) s2.trimWs [] (by omega)
    simp only [he, hm, hf, bind, Outcome.bind]
    exact featFinish_spec s s4 m buf (by omega) (by omega) (by omega) (hmod hc0)

/-! ### `get_diacritic`, `get_comment`, `get_string` -/

theorem getDiacritic_spec (s : LS) (h : s.src ≠ []) : StepSpec s (getDiacritic s) := by
  unfold getDiacritic
  split
  · trivial
  · split
    · rename_i i hi
      have hlt : i < Gen.diacritics.length := by
        unfold diaIndex at hi
        simp only at hi
        split at hi
        · cases hi; assumption
        · cases hi
      exact emit1_spec _ _ s s h (by simp) rfl rfl (by simp) (fun a b => tokX_diacritic i _ a b (by simp) hlt)
    · trivial

theorem getComment_spec (s : LS) (h : s.src ≠ []) : StepSpec s (getComment s) := by
  unfold getComment
  split
  · trivial
  · obtain ⟨s1, he, hpos, _, htot, hlen⟩ := advance_ok s h
    simp only [he, bind, Outcome.bind]
    split
    · have : s1.pos ≤ s1.total := by simp only [LS.total]; omega
      simp only [StepSpec, ErrIn]; omega
    · rename_i hc
      have hc : s1.cur = 59 := by simpa using hc
      obtain ⟨s2, he2, hpos2, _, htot2, hlen2⟩ := advance_ok s1 (src_ne_of_cur s1 (by omega))
      have hw := chopWhile_spec s2 (fun _ => true)
      simp only [he2, pure]
      exact ⟨rfl, rfl, by omega, by omega, by simp, by simp [NumOK], tokX_comment _ _ _⟩

theorem isAlpha_ne_zero' (c : Nat) (h : isAlpha c = true) : c ≠ 0 := by
  intro h'; subst h'; simp [isAlpha, isUpper, isLower] at h

theorem getString_spec (s : LS) (h : s.src ≠ []) : StepSpec s (getString s) := by
  unfold getString
  split
  · trivial
  rename_i ha
  have ha : isAlpha s.cur = true := by simpa using ha
  split
  · err_tac
  have hw := chopWhile_spec s isAlpha
  have hp := chopWhile_progress s isAlpha h ha
  simp only
  split
  · -- UnknownEnbyFeature: the buffer was chopped from the line
    have : s.pos + (s.chopWhile isAlpha).1.length ≤ s.total := by
      have h4 := hw.2.2.2
      have : (s.chopWhile isAlpha).2.pos ≤ (s.chopWhile isAlpha).2.total := by simp only [LS.total]; omega
      omega
    simp only [StepSpec, ErrIn]; omega
  have ht := trimWs_spec (s.chopWhile isAlpha).2
  split
  · rename_i hc
    obtain ⟨s3, he, hpos, _, htot, hlen⟩ := advance_ok (s.chopWhile isAlpha).2.trimWs (src_ne_of_cur _ (by omega))
    have ht4 := trimWs_spec s3
    simp only [he, bind, Outcome.bind]
    have hn := getNumeric_spec s3.trimWs
    split
    · rename_i num s5 hnum
      rw [hnum] at hn
      have hn : Good s3.trimWs num s5 := hn
      simp only [pure, StepSpec]
      have hnk : num.kind = .number := by
        unfold getNumeric at hnum
        split at hnum
        · cases hnum
        · split at hnum
          · cases hnum; rfl
          · cases hnum
      have hv := hn.tok_ok
      have hval : num.value ≠ [] := hv.1 (by rw [hnk]; simp) (by rw [hnk]; simp)
      exact ⟨rfl, rfl, by have := hn.total_eq; omega, by have := hn.progress; omega, by simp, by simp [NumOK],
        tokX_feature _ _ _ _ _ hval (Or.inl ⟨rfl, rfl, hval, hv.2.1 hnk⟩)⟩
    · have : s3.trimWs.pos ≤ s3.trimWs.total := by simp only [LS.total]; omega
      simp only [StepSpec, ErrIn]; omega
    · -- NumberTooBig from `get_numeric`: inside the line, after the start of this token
      rename_i e hnum
      rw [hnum] at hn
      have hn : ErrIn s3.trimWs e := hn
      simp only [StepSpec, ErrIn] at hn ⊢
      have := ht4.1; have := ht4.2.2; have := ht.1; have := ht.2.2; have := hw.1; have := hw.2.2.1
      omega
    · rename_i hnum; rw [hnum] at hn; exact hn
    · rename_i hnum; rw [hnum] at hn; exact hn
  · have : (s.chopWhile isAlpha).2.trimWs.pos ≤ (s.chopWhile isAlpha).2.trimWs.total := by simp only [LS.total]; omega
    simp only [StepSpec, ErrIn]; omega

/-! ### `get_ipa` -/

/-- no grapheme of the table contains the NUL character (which `curr_char` returns at the end of the line) -/
theorem no_zero_key : Gen.cardinals.all (fun k => !k.1.contains 0) = true := by decide +kernel

theorem isPrefixKey_zero (buf : Text) : ParseWord.isPrefixKey (buf ++ [0]) = false := by
  cases hpk : ParseWord.isPrefixKey (buf ++ [0]) with
  | false => rfl
  | true =>
    exfalso
    simp only [ParseWord.isPrefixKey, List.any_eq_true] at hpk
    obtain ⟨k, hk, hp⟩ := hpk
    have hpre : (buf ++ [0]) <+: k.1 := List.isPrefixOf_iff_prefix.mp hp
    have hmem : 0 ∈ k.1 := hpre.subset (by simp)
    have hall := List.all_eq_true.mp no_zero_key k hk
    simp only [Bool.not_eq_true', List.contains_eq_mem, decide_eq_false_iff_not] at hall
    exact hall hmem

theorem asIpa_zero : asIpa 0 = 0 := rfl

theorem prefix_src_ne (s : LS) (buf : Text) (h : ParseWord.isPrefixKey (buf ++ [asIpa s.cur]) = true) : s.src ≠ [] := by
  intro hs
  rw [cur_nil s hs, asIpa_zero, isPrefixKey_zero] at h
  exact Bool.noConfusion h

theorem amer_ne_zero (c : Nat) (t : Text) (h : amer c = some t) : c ≠ 0 := by
  intro h'; subst h'; simp [amer] at h

theorem ipaLoop_spec : ∀ (fuel : Nat) (s : LS) (buf : Text), s.src.length < fuel →
    ∃ buf' s', ipaLoop fuel s buf = .ok (buf', s') ∧ s'.total = s.total ∧ s'.src.length ≤ s.src.length ∧ s.pos ≤ s'.pos ∧
      buf.length ≤ buf'.length := by
  intro fuel
  induction fuel with
  | zero => intro s buf h; omega
  | succ n ih =>
    intro s buf h
    -- one more round after advancing past a character that is known to exist
    have step : ∀ (b : Text), s.src ≠ [] → buf.length ≤ b.length →
        ∃ buf' s', (do let s1 ← s.advance; ipaLoop n s1 b) = .ok (buf', s') ∧ s'.total = s.total ∧
          s'.src.length ≤ s.src.length ∧ s.pos ≤ s'.pos ∧ buf.length ≤ buf'.length := by
      intro b hne hb
      obtain ⟨s1, he, hpos, _, htot, hlen⟩ := advance_ok s hne
      obtain ⟨b', s', hr, h1, h2, h3, h4⟩ := ih s1 b (by omega)
      exact ⟨b', s', by simp only [he, bind, Outcome.bind, hr], by omega, by omega, by omega, by omega⟩
    unfold ipaLoop
    by_cases hp : ParseWord.isPrefixKey (buf ++ [asIpa s.cur]) = true
    · rw [if_pos hp]; exact step _ (prefix_src_ne s buf hp) (by simp)
    rw [if_neg hp]
    split
    · rename_i t ht
      exact step _ (src_ne_of_cur s (amer_ne_zero _ _ ht)) (by simp)
    by_cases hc : s.cur = 94
    · rw [if_pos hc]
      have hne : s.src ≠ [] := src_ne_of_cur s (by omega)
      split; · exact step _ hne (by simp)
      split; · exact step _ hne (by simp)
      split; · exact step _ hne (Nat.le_refl _)
      split; · exact step _ hne (Nat.le_refl _)
      exact ⟨buf, s, rfl, rfl, Nat.le_refl _, Nat.le_refl _, Nat.le_refl _⟩
    · rw [if_neg hc]
      exact ⟨buf, s, rfl, rfl, Nat.le_refl _, Nat.le_refl _, Nat.le_refl _⟩

theorem ipaFirst_ne_nil (c : Nat) : ipaFirst c ≠ [] := by
  unfold ipaFirst
  split
  · rename_i t ht
    unfold amer at ht
    split at ht <;> (try (cases ht; simp)) <;> simp at ht
  · simp

theorem getIpa_spec (s : LS) (h : s.src ≠ []) : StepSpec s (getIpa s) := by
  unfold getIpa
  split
  · trivial
  split
  · obtain ⟨s1, he, hpos, _, htot, hlen⟩ := advance_ok s h
    obtain ⟨b', s', hr, h1, h2, h3, h4⟩ := ipaLoop_spec (s1.src.length + 1) s1 (ipaFirst s.cur) (Nat.lt_succ_self _)
    simp only [he, bind, Outcome.bind, hr, pure]
    have hb : b' ≠ [] := by
      intro h0; rw [h0] at h4
      have := ipaFirst_ne_nil s.cur
      cases hf : ipaFirst s.cur with
      | nil => exact this hf
      | cons _ _ => rw [hf] at h4; simp at h4
    exact ⟨rfl, rfl, by omega, by omega, by simp, by simp [NumOK], tokX_cardinal _ _ _ hb⟩
  · trivial

/-! ### `get_next_token` and `get_line` -/

theorem orElse_spec (s : LS) (x : Step) (y : Unit → Step) (hx : StepSpec s x) (hy : StepSpec s (y ())) :
    StepSpec s (orElse x y) := by
  unfold orElse
  split
  · exact hy
  · exact hx

/-- what `get_next_token` guarantees, whatever the line and the lexer state -/
def TokSpec (s0 : LS) : LRes (Token × LS) → Prop
  | .ok (t, s') =>
    s0.pos ≤ t.start ∧ t.start < t.stop ∧ s'.total = s0.total ∧
    (t.kind = .eol → t.start = s0.total ∧ t.stop = s0.total + 1) ∧
    (t.kind ≠ .eol → t.stop = s'.pos ∧ s'.src.length < s0.src.length) ∧ NumOK t ∧ TokX t
  | .err e => s0.pos ≤ e.start ∧ e.start ≤ e.stop ∧ e.stop ≤ s0.total + 1
  | .panic _ => False
  | .outOfFuel _ => False

theorem getNextToken_spec (s0 : LS) : TokSpec s0 (getNextToken s0) := by
  have ht := trimWs_spec s0
  unfold getNextToken
  simp only
  by_cases he : s0.trimWs.src.isEmpty = true
  · rw [if_pos he]
    have hl : s0.trimWs.src.length = 0 := by simpa using he
    have : s0.trimWs.pos = s0.total := by have := ht.1; simp only [LS.total] at this ⊢; omega
    simp only [TokSpec]
    refine ⟨by omega, by omega, ht.1, fun _ => ⟨this, by omega⟩, fun hk => absurd rfl hk, by simp [NumOK],
      ⟨fun h _ => absurd rfl h, fun (h : TK.eol = TK.number) => TK.noConfusion h,
       fun i (h : TK.eol = TK.diacritic i) => TK.noConfusion h, fun k w (h : TK.eol = TK.feature k w) => TK.noConfusion h⟩⟩
  · rw [if_neg he]
    have hne : s0.trimWs.src ≠ [] := by simpa using he
    have hspec : StepSpec s0.trimWs
        (orElse (getComment s0.trimWs) fun _ => orElse (getBracket s0.trimWs) fun _ => orElse (getPrimative s0.trimWs) fun _ =>
          orElse (getNumeric s0.trimWs) fun _ => orElse (getFeature s0.trimWs) fun _ => orElse (getSpecialChar s0.trimWs) fun _ =>
          orElse (getIpa s0.trimWs) fun _ => orElse (getDiacritic s0.trimWs) fun _ => getString s0.trimWs) := by
      refine orElse_spec _ _ _ (getComment_spec _ hne) ?_
      refine orElse_spec _ _ _ (getBracket_spec _ hne) ?_
      refine orElse_spec _ _ _ (getPrimative_spec _ hne) ?_
      refine orElse_spec _ _ _ (getNumeric_spec _) ?_
      refine orElse_spec _ _ _ (getFeature_spec _ hne) ?_
      refine orElse_spec _ _ _ (getSpecialChar_spec _ hne) ?_
      refine orElse_spec _ _ _ (getIpa_spec _ hne) ?_
      refine orElse_spec _ _ _ (getDiacritic_spec _ hne) ?_
      exact getString_spec _ hne
    revert hspec
    generalize (orElse (getComment s0.trimWs) fun _ => orElse (getBracket s0.trimWs) fun _ => orElse (getPrimative s0.trimWs) fun _ =>
          orElse (getNumeric s0.trimWs) fun _ => orElse (getFeature s0.trimWs) fun _ => orElse (getSpecialChar s0.trimWs) fun _ =>
          orElse (getIpa s0.trimWs) fun _ => orElse (getDiacritic s0.trimWs) fun _ => getString s0.trimWs) = r
    intro hspec
    have hpt : s0.trimWs.pos ≤ s0.trimWs.total := by simp only [LS.total]; omega
    match r, hspec with
    | .ok (some (t, s')), hg =>
      simp only [TokSpec]
      have hg : Good s0.trimWs t s' := hg
      have h1 := hg.start_eq; have h2 := hg.stop_eq; have h3 := hg.total_eq; have h4 := hg.progress
      have : s'.pos + s'.src.length = s0.trimWs.pos + s0.trimWs.src.length := by simpa only [LS.total] using h3
      refine ⟨by omega, by omega, by omega, fun hk => absurd hk hg.not_eol, fun _ => ⟨h2, by omega⟩, hg.num_ok, hg.tok_ok⟩
    | .ok none, _ =>
      simp only [TokSpec]; omega
    | .err e, hg =>
      simp only [TokSpec]
      have hg : ErrIn s0.trimWs e := hg
      unfold ErrIn at hg; omega

/-- consecutive, non-empty spans inside `[lo, total + 1]` -/
def WellSpaced : Nat → Nat → List Token → Prop
  | _, _, [] => True
  | lo, total, t :: ts => lo ≤ t.start ∧ t.start < t.stop ∧ t.stop ≤ total + 1 ∧ WellSpaced t.stop total ts

def LineSpec (s : LS) (acc : List Token) : LRes (List Token) → Prop
  | .ok res => ∃ new, res = acc ++ new ∧ WellSpaced s.pos s.total new ∧
      (∃ t, new.getLast? = some t ∧ t.kind = .eol ∧ t.start = s.total ∧ t.stop = s.total + 1) ∧ ∀ t ∈ new, NumOK t ∧ TokX t
  | .err e => s.pos ≤ e.start ∧ e.start ≤ e.stop ∧ e.stop ≤ s.total + 1
  | .panic _ => False
  | .outOfFuel _ => False

theorem lineLoop_spec : ∀ (fuel : Nat) (s : LS) (acc : List Token), s.src.length < fuel →
    LineSpec s acc (lineLoop fuel s acc) := by
  intro fuel
  induction fuel with
  | zero => intro s acc h; omega
  | succ n ih =>
    intro s acc h
    have hs := getNextToken_spec s
    unfold lineLoop
    match hg : getNextToken s, hs with
    | .ok (t, s'), hs =>
      simp only [TokSpec] at hs
      obtain ⟨h1, h2, h3, h4, h5, h6, h7⟩ := hs
      simp only
      by_cases hk : t.kind = .eol
      · rw [if_pos hk]
        obtain ⟨e1, e2⟩ := h4 hk
        exact ⟨[t], rfl, ⟨h1, h2, by omega, trivial⟩, ⟨t, rfl, hk, e1, e2⟩, fun t' ht' => by simp at ht'; rw [ht']; exact ⟨h6, h7⟩⟩
      · rw [if_neg hk]
        obtain ⟨e1, e2⟩ := h5 hk
        have hrec := ih s' (acc ++ [t]) (by omega)
        have hle : s'.pos ≤ s.total := by rw [← h3]; simp only [LS.total]; omega
        match hr : lineLoop n s' (acc ++ [t]), hrec with
        | .ok res, hrec =>
          obtain ⟨new, hres, hw, ⟨tl, hl1, hl2, hl3, hl4⟩, hnum⟩ := hrec
          refine ⟨t :: new, by rw [hres]; simp, ⟨h1, h2, by omega, by rw [e1, ← h3]; exact hw⟩, ⟨tl, ?_, hl2, by omega, by omega⟩, ?_⟩
          · cases new with
            | nil => simp at hl1
            | cons a b => simpa using hl1
          · intro t' ht'
            rcases List.mem_cons.mp ht' with rfl | hm
            · exact ⟨h6, h7⟩
            · exact hnum t' hm
        | .err e, hrec =>
          simp only [LineSpec] at hrec ⊢
          omega
    | .err e, hs => exact hs

end Lex
end Asca
