import AscaVerif.Model.CliFiles
/-! Lemmas about `lines`, `trim` and `splitOn` used by the round-trip theorems of C19. -/
namespace Asca.Cli

theorem dropWhile_append_of_all {α} (p : α → Bool) (pre l : List α) (h : ∀ x ∈ pre, p x = true) :
    (pre ++ l).dropWhile p = l.dropWhile p := by
  induction pre with
  | nil => rfl
  | cons a as ih =>
    have ha : p a = true := h a (by simp)
    simp only [List.cons_append, List.dropWhile_cons, ha, if_true]
    exact ih (fun x hx => h x (by simp [hx]))

theorem dropWhile_all {α} (p : α → Bool) (l : List α) (h : ∀ x ∈ l, p x = true) : l.dropWhile p = [] := by
  have := dropWhile_append_of_all p l [] h
  simpa using this

/-- no white space at either end -/
def NoEdgeWs (t : Text) : Prop :=
  (∀ c, t.head? = some c → isWs c = false) ∧ (∀ c, t.getLast? = some c → isWs c = false)

theorem noEdgeWs_nil : NoEdgeWs [] := ⟨by simp, by simp⟩

/-- padding with white space on both sides is removed by `trim`, nothing else is -/
theorem trim_pad (pre t post : Text) (hpre : ∀ c ∈ pre, isWs c = true) (hpost : ∀ c ∈ post, isWs c = true)
    (ht : NoEdgeWs t) : trim (pre ++ t ++ post) = t := by
  unfold trim trimStart trimEnd
  rw [List.append_assoc, dropWhile_append_of_all isWs pre _ hpre]
  cases t with
  | nil =>
    simp only [List.nil_append]
    rw [dropWhile_all isWs post hpost]; rfl
  | cons c t' =>
    have hc : isWs c = false := ht.1 c rfl
    simp only [List.cons_append, List.dropWhile_cons, hc]
    simp only [Bool.false_eq_true, if_false]
    rw [← List.cons_append, List.reverse_append]
    rw [dropWhile_append_of_all isWs post.reverse _ (by intro x hx; exact hpost x (List.mem_reverse.mp hx))]
    have hlast : ∃ d l', (c :: t').reverse = d :: l' ∧ isWs d = false := by
      cases hr : (c :: t').reverse with
      | nil => simp at hr
      | cons d l' =>
        refine ⟨d, l', rfl, ?_⟩
        apply ht.2 d
        have : (c :: t').getLast? = (c :: t').reverse.head? := by rw [List.head?_reverse]
        rw [this, hr]; rfl
    obtain ⟨d, l', hr, hd⟩ := hlast
    rw [hr]; simp only [List.dropWhile_cons, hd, Bool.false_eq_true, if_false]
    rw [← hr, List.reverse_reverse]

theorem trim_self (t : Text) (ht : NoEdgeWs t) : trim t = t := by
  have := trim_pad [] t [] (by simp) (by simp) ht
  simpa using this

/-! ### `lines` -/

theorem linesGo_line (cur l rest : Text) (h : 10 ∉ l) :
    linesGo cur (l ++ 10 :: rest) = stripCr (cur ++ l) :: linesGo [] rest := by
  induction l generalizing cur with
  | nil => simp [linesGo]
  | cons c l' ih =>
    have hc : c ≠ 10 := by intro hc; apply h; simp [hc]
    have hl' : 10 ∉ l' := by intro h'; apply h; simp [h']
    simp only [List.cons_append, linesGo, hc, if_false]
    rw [ih (cur ++ [c]) hl']; simp [List.append_assoc]

/-- lines written with a `\n` after each are read back as they were, provided none contains `\n` or ends in `\r` -/
theorem lines_unlines (ls : List Text) (h : ∀ l ∈ ls, 10 ∉ l ∧ l.getLast? ≠ some 13) : lines (unlines ls) = ls := by
  unfold lines
  induction ls with
  | nil => simp [unlines, linesGo]
  | cons l ls ih =>
    have hl := h l (by simp)
    have : unlines (l :: ls) = l ++ 10 :: unlines ls := by simp [unlines]
    rw [this, linesGo_line [] l _ hl.1]
    simp only [List.nil_append]
    rw [ih (fun x hx => h x (by simp [hx]))]
    simp [stripCr, hl.2]

/-! ### `splitOn` -/

theorem splitOn_ne_nil (sep : Nat) (t : Text) : splitOn sep t ≠ [] := by
  induction t with
  | nil => simp [splitOn]
  | cons c cs ih =>
    unfold splitOn
    split
    · simp
    · split <;> simp

theorem splitOn_no_sep (sep : Nat) (t : Text) : ∀ p ∈ splitOn sep t, sep ∉ p := by
  induction t with
  | nil => simp [splitOn]
  | cons c cs ih =>
    unfold splitOn
    split
    · intro p hp
      rcases List.mem_cons.mp hp with rfl | hp
      · simp
      · exact ih p hp
    · rename_i hc
      split
      · intro p hp; simp at hp; subst hp; simp; exact fun h => hc h.symm
      · rename_i p0 ps heq
        intro p hp
        rcases List.mem_cons.mp hp with rfl | hp
        · have := ih p0 (by rw [heq]; simp)
          simp; exact ⟨fun h => hc h.symm, this⟩
        · exact ih p (by rw [heq]; simp [hp])

/-- the pieces joined by the separator are the text -/
theorem splitOn_join (sep : Nat) (t : Text) :
    ∃ p0 ps, splitOn sep t = p0 :: ps ∧ t = p0 ++ ps.flatMap (sep :: ·) := by
  induction t with
  | nil => exact ⟨[], [], rfl, rfl⟩
  | cons c cs ih =>
    obtain ⟨p0, ps, hsp, hj⟩ := ih
    unfold splitOn
    split
    · rename_i hc
      refine ⟨[], p0 :: ps, by rw [hsp], ?_⟩
      simp [hc, ← hj]
    · refine ⟨c :: p0, ps, by rw [hsp], ?_⟩
      simp [← hj]

end Asca.Cli
