import AscaVerif.Model.Parser
import AscaVerif.Props.C02Word
/-! Progress of the parser model: every function that returns an item has consumed at least one real token, so every
    loop of the parser ends.  `Spec R s r` says: `r` is not `outOfFuel`, and if `r` is a success its final state `s'`
    satisfies `R s s'`. -/
namespace Asca
namespace Parse
open Lex (Token TK)

/-- past the end of the token list the current token is the synthetic `Eol` -/
def Inv (s : PS) : Prop := s.toks.length ≤ s.pos → s.cur.kind = .eol

/-- same token list, not moved backwards -/
structure Le (s s' : PS) : Prop where
  toks_eq : s'.toks = s.toks
  le : s.pos ≤ s'.pos
  inv : Inv s'

/-- at least one real token was consumed -/
structure Adv (s s' : PS) : Prop where
  toks_eq : s'.toks = s.toks
  lt : s.pos < s'.pos
  inb : s.pos < s.toks.length
  inv : Inv s'

theorem Le.refl (s : PS) (h : Inv s) : Le s s := ⟨rfl, Nat.le_refl _, h⟩
theorem Adv.toLe {s s' : PS} (h : Adv s s') : Le s s' := ⟨h.toks_eq, Nat.le_of_lt h.lt, h.inv⟩
theorem Le.trans {a b c : PS} (h1 : Le a b) (h2 : Le b c) : Le a c :=
  ⟨h2.toks_eq.trans h1.toks_eq, Nat.le_trans h1.le h2.le, h2.inv⟩
theorem Adv.trans_le {a b c : PS} (h1 : Adv a b) (h2 : Le b c) : Adv a c :=
  ⟨h2.toks_eq.trans h1.toks_eq, Nat.lt_of_lt_of_le h1.lt h2.le, h1.inb, h2.inv⟩
theorem Le.trans_adv {a b c : PS} (h1 : Le a b) (h2 : Adv b c) : Adv a c :=
  ⟨h2.toks_eq.trans h1.toks_eq, Nat.lt_of_le_of_lt h1.le h2.lt,
   by have := h2.inb; rw [h1.toks_eq] at this; exact Nat.lt_of_le_of_lt h1.le this, h2.inv⟩
theorem Adv.trans {a b c : PS} (h1 : Adv a b) (h2 : Adv b c) : Adv a c := h1.trans_le h2.toLe

theorem advance_inv (s : PS) : Inv s.advance := by
  intro h
  simp only [PS.advance] at h ⊢
  have : ¬ (s.pos + 1 < s.toks.length) := by omega
  simp [this]

theorem advance_toks (s : PS) : s.advance.toks = s.toks := rfl
theorem advance_pos (s : PS) : s.advance.pos = s.pos + 1 := rfl

/-- consuming a token that is not `Eol` -/
theorem advance_adv (s : PS) (hi : Inv s) (hk : s.cur.kind ≠ .eol) : Adv s s.advance :=
  ⟨rfl, by simp [advance_pos], by
    apply Classical.byContradiction; intro h
    exact hk (hi (by omega)), advance_inv s⟩

theorem expect_spec (s : PS) (k : TK) (hi : Inv s) (hk : k ≠ .eol) :
    ((s.expect k).1 = true → Adv s (s.expect k).2) ∧ ((s.expect k).1 = false → (s.expect k).2 = s) := by
  unfold PS.expect
  by_cases h : s.cur.kind = k
  · simp only [h, if_true]
    exact ⟨fun _ => advance_adv s hi (by rw [h]; exact hk), fun h' => by simp at h'⟩
  · simp only [h, if_false]
    exact ⟨fun h' => by simp at h', fun _ => trivial⟩

theorem expect_le (s : PS) (k : TK) (hi : Inv s) (hk : k ≠ .eol) : Le s (s.expect k).2 := by
  have := expect_spec s k hi hk
  cases hb : (s.expect k).1 with
  | true => exact (this.1 hb).toLe
  | false => rw [this.2 hb]; exact Le.refl s hi

theorem eatExpect_spec (s : PS) (k : TK) (hi : Inv s) (hk : k ≠ .eol) (t : Token) (s' : PS)
    (h : s.eatExpect k = some (t, s')) : Adv s s' := by
  unfold PS.eatExpect at h
  by_cases hc : s.cur.kind = k
  · simp only [hc, if_true, Option.some.injEq, Prod.mk.injEq] at h
    rw [← h.2]; exact advance_adv s hi (by rw [hc]; exact hk)
  · simp [hc] at h

/-- `r` did not run out of fuel, and a success ends in a state related to `s` by `R` -/
def Spec {α} (R : PS → PS → Prop) (s : PS) : PRes (α × PS) → Prop
  | .ok (_, s') => R s s'
  | .err _ => True
  | .panic _ => True
  | .outOfFuel _ => False

/-- the same for functions that may decline (`Ok(None)`) -/
def OSpec {α} (R : PS → PS → Prop) (s : PS) : PRes (Option (α × PS)) → Prop
  | .ok (some (_, s')) => R s s'
  | .ok none => True
  | .err _ => True
  | .panic _ => True
  | .outOfFuel _ => False

/-- a computation without parser state that cannot run out of fuel -/
def NoFuel {α} : PRes α → Prop
  | .outOfFuel _ => False
  | _ => True

theorem Spec.bind {α β} {R1 R2 R3 : PS → PS → Prop} {s0 s : PS} {x : PRes (α × PS)} {f : α × PS → PRes (β × PS)}
    (hx : Spec R1 s x) (hf : ∀ a s', R1 s s' → Spec R2 s' (f (a, s')))
    (hR : ∀ b c, R1 s b → R2 b c → R3 s0 c) : Spec R3 s0 (x >>= f) := by
  cases x with
  | ok v =>
    obtain ⟨a, s'⟩ := v
    have h1 : R1 s s' := hx
    have h2 := hf a s' h1
    show Spec R3 s0 (f (a, s'))
    cases hfv : f (a, s') with
    | ok w => obtain ⟨b, s''⟩ := w; rw [hfv] at h2; exact hR s' s'' h1 h2
    | err e => trivial
    | panic p => trivial
    | outOfFuel p => rw [hfv] at h2; exact h2
  | err e => trivial
  | panic p => trivial
  | outOfFuel p => exact hx

theorem Spec.bindO {α β} {R1 R2 R3 : PS → PS → Prop} {s0 s : PS} {x : PRes (α × PS)} {f : α × PS → PRes (Option (β × PS))}
    (hx : Spec R1 s x) (hf : ∀ a s', R1 s s' → OSpec R2 s' (f (a, s')))
    (hR : ∀ b c, R1 s b → R2 b c → R3 s0 c) : OSpec R3 s0 (x >>= f) := by
  cases x with
  | ok v =>
    obtain ⟨a, s'⟩ := v
    have h1 : R1 s s' := hx
    have h2 := hf a s' h1
    show OSpec R3 s0 (f (a, s'))
    cases hfv : f (a, s') with
    | ok w =>
      cases w with
      | none => trivial
      | some w => obtain ⟨b, s''⟩ := w; rw [hfv] at h2; exact hR s' s'' h1 h2
    | err e => trivial
    | panic p => trivial
    | outOfFuel p => rw [hfv] at h2; exact h2
  | err e => trivial
  | panic p => trivial
  | outOfFuel p => exact hx

theorem NoFuel.bind {α β} {R : PS → PS → Prop} {s : PS} {x : PRes α} {f : α → PRes (β × PS)}
    (hx : NoFuel x) (hf : ∀ a, Spec R s (f a)) : Spec R s (x >>= f) := by
  cases x with
  | ok a => exact hf a
  | err e => trivial
  | panic p => trivial
  | outOfFuel p => exact hx

theorem NoFuel.bindO {α β} {R : PS → PS → Prop} {s : PS} {x : PRes α} {f : α → PRes (Option (β × PS))}
    (hx : NoFuel x) (hf : ∀ a, OSpec R s (f a)) : OSpec R s (x >>= f) := by
  cases x with
  | ok a => exact hf a
  | err e => trivial
  | panic p => trivial
  | outOfFuel p => exact hx

theorem NoFuel.bindN {α β} {x : PRes α} {f : α → PRes β}
    (hx : NoFuel x) (hf : ∀ a, NoFuel (f a)) : NoFuel (x >>= f) := by
  cases x with
  | ok a => exact hf a
  | err e => trivial
  | panic p => trivial
  | outOfFuel p => exact hx

theorem prev_nofuel (s : PS) : NoFuel s.prev := by
  unfold PS.prev; split
  · trivial
  · split <;> trivial

theorem here_nofuel (s : PS) : NoFuel s.here := by
  unfold PS.here; split <;> trivial

theorem parseUsize_nofuel (site : String) (d : Text) : NoFuel (parseUsize site d) := by
  unfold parseUsize; simp only; split
  · trivial
  · split <;> trivial

theorem Spec.of_le {α} {s s1 : PS} {r : PRes (α × PS)} (h : Le s s1) (hr : Spec Le s1 r) : Spec Le s r := by
  cases r with
  | ok v => obtain ⟨a, s'⟩ := v; exact h.trans hr
  | err e => trivial
  | panic p => trivial
  | outOfFuel p => exact hr

theorem Spec.adv_of_adv {α} {s s1 : PS} {r : PRes (α × PS)} (h : Adv s s1) (hr : Spec Le s1 r) : Spec Adv s r := by
  cases r with
  | ok v => obtain ⟨a, s'⟩ := v; exact h.trans_le hr
  | err e => trivial
  | panic p => trivial
  | outOfFuel p => exact hr

theorem Spec.weaken {α} {s : PS} {r : PRes (α × PS)} (hr : Spec Adv s r) : Spec Le s r := by
  cases r with
  | ok v => obtain ⟨a, s'⟩ := v; exact Adv.toLe hr
  | err e => trivial
  | panic p => trivial
  | outOfFuel p => exact hr

/-- the two outcomes of `expect` on a token kind other than `Eol` -/
theorem expect_cases (s : PS) (k : TK) (hi : Inv s) (hk : k ≠ .eol) :
    (s.expect k = (true, s.advance) ∧ Adv s s.advance) ∨ s.expect k = (false, s) := by
  unfold PS.expect
  by_cases h : s.cur.kind = k
  · left; simp only [h, if_true]; exact ⟨trivial, advance_adv s hi (by rw [h]; exact hk)⟩
  · right; simp only [h, if_false]

theorem eatExpect_cases (s : PS) (k : TK) (hi : Inv s) (hk : k ≠ .eol) :
    (s.eatExpect k = some (s.cur, s.advance) ∧ Adv s s.advance) ∨ s.eatExpect k = none := by
  unfold PS.eatExpect
  by_cases h : s.cur.kind = k
  · left; simp only [h, if_true]; exact ⟨trivial, advance_adv s hi (by rw [h]; exact hk)⟩
  · right; simp only [h, if_false]

/-- after a step forward the remaining distance is smaller -/
theorem measure_lt {s s' : PS} (h : Adv s s') {fuel : Nat} (hf : s.toks.length - s.pos < fuel + 1) :
    s'.toks.length - s'.pos < fuel := by
  have := h.lt; have := h.inb; rw [h.toks_eq]; omega

/-! ### boundaries -/

theorem getSyllBound_spec (s : PS) (hi : Inv s) (x : PItem) (s' : PS) (h : getSyllBound s = some (x, s')) : Adv s s' := by
  unfold getSyllBound at h
  rcases eatExpect_cases s .syllBoundary hi (by decide) with ⟨he, ha⟩ | he
  · simp only [he, Option.some.injEq, Prod.mk.injEq] at h; rw [← h.2]; exact ha
  · simp [he] at h

theorem getWordBound_spec (s : PS) (hi : Inv s) (x : PItem) (s' : PS) (h : getWordBound s = some (x, s')) : Adv s s' := by
  unfold getWordBound at h
  rcases eatExpect_cases s .wordBoundary hi (by decide) with ⟨he, ha⟩ | he
  · simp only [he, Option.some.injEq, Prod.mk.injEq] at h; rw [← h.2]; exact ha
  · simp [he] at h

theorem getBound_spec (s : PS) (hi : Inv s) (x : PItem) (s' : PS) (h : getBound s = some (x, s')) : Adv s s' := by
  unfold getBound at h
  cases hs : getSyllBound s with
  | some r => obtain ⟨y, t⟩ := r; simp only [hs, Option.some.injEq, Prod.mk.injEq] at h; rw [← h.2]; exact getSyllBound_spec s hi y t hs
  | none => simp only [hs] at h; exact getWordBound_spec s hi x s' h

/-! ### matrices -/

theorem toneValue_nofuel (t : Token) (k v : String) : NoFuel (toneValue t k v) := by
  unfold toneValue
  split
  · split <;> trivial
  · trivial

theorem tokenToModifier_nofuel (t : Token) (k v : String) : NoFuel (tokenToModifier t k v) := by
  unfold tokenToModifier
  split
  · trivial
  split
  · trivial
  split
  · trivial
  split
  · trivial
  · exact toneValue_nofuel t k v

theorem putArg_nofuel (a : Modifiers) (k v : String) (m : Mods) : NoFuel (putArg a k v m) := by
  unfold putArg
  split
  · split <;> trivial
  · split
    · split <;> trivial
    · split
      · trivial
      · split <;> trivial
      · split <;> trivial

theorem getParamArgs_spec (isSyll : Bool) : ∀ (fuel : Nat) (s : PS) (args : Modifiers), Inv s → s.toks.length - s.pos < fuel →
    Spec Le s (getParamArgs isSyll fuel s args) := by
  intro fuel
  induction fuel with
  | zero => intro s args _ h; omega
  | succ n ih =>
    intro s args hi hf
    unfold getParamArgs
    split
    · exact Le.refl s hi
    split
    · rename_i hk
      exact (advance_adv s hi (by rw [hk]; decide)).toLe
    split
    · rename_i hk
      have ha := advance_adv s hi (by rw [hk]; decide)
      exact Spec.of_le ha.toLe (ih s.advance args ha.inv (measure_lt ha hf))
    split
    · rename_i kind variant hk
      have ha := advance_adv s hi (by rw [hk]; intro h; cases h)
      have h1 := tokenToModifier_nofuel s.cur kind variant
      split
      · split
        · trivial
        · rename_i mk _ _
          have h2 := putArg_nofuel args kind variant mk
          split
          · exact Spec.of_le ha.toLe (ih s.advance _ ha.inv (measure_lt ha hf))
          · trivial
          · trivial
          · rename_i hp; rw [hp] at h2; exact h2
      · trivial
      · trivial
      · rename_i ht; rw [ht] at h1; exact h1
    · trivial
    · trivial

theorem fuel_ok (s : PS) : s.toks.length - s.pos < s.toks.length + 2 := by omega

theorem getParams_spec (s : PS) (hi : Inv s) : Spec Le s (getParams s) := by
  unfold getParams
  refine NoFuel.bind (prev_nofuel s) (fun open_ => ?_)
  refine Spec.bind (R1 := Le) (R2 := Le) (getParamArgs_spec false _ s _ hi (fuel_ok s)) (fun args s' hle => ?_) (fun b c h1 h2 => h1.trans h2)
  refine NoFuel.bind (prev_nofuel s') (fun close => ?_)
  exact Le.refl s' hle.inv

theorem groupToMatrix_nofuel (t : Token) : NoFuel (groupToMatrix t) := by
  unfold groupToMatrix
  split
  · split <;> trivial
  · trivial

theorem joinGroup_nofuel (a b : PItem) : NoFuel (joinGroupWithParams a b) := by
  unfold joinGroupWithParams
  split <;> trivial

theorem getGroup_spec (s : PS) (hi : Inv s) (hk : s.cur.kind = .group) : Spec Adv s (getGroup s) := by
  unfold getGroup
  refine NoFuel.bind (groupToMatrix_nofuel s.cur) (fun chr => ?_)
  have ha := advance_adv s hi (by rw [hk]; decide)
  simp only
  rcases expect_cases s.advance .colon ha.inv (by decide) with ⟨he, h1⟩ | he
  · simp only [he]
    rcases expect_cases s.advance.advance .leftSquare h1.inv (by decide) with ⟨he2, h2⟩ | he2
    · simp only [he2]
      have hp := getParams_spec s.advance.advance.advance h2.inv
      have h3 : Adv s s.advance.advance.advance := (ha.trans h1).trans h2
      refine Spec.bind (R1 := Le) (R2 := Le) (R3 := Adv) hp (fun params s4 hle => ?_) (fun b c h1' h2' => h3.trans_le (h1'.trans h2'))
      refine NoFuel.bind (joinGroup_nofuel chr params) (fun j => ?_)
      exact Le.refl s4 hle.inv
    · simp only [he2]; trivial
  · simp only [he]
    exact ha

/-! ### segments -/

theorem checkAndApplyDia_nofuel (seg : Seg) (d : Gen.Dia) (hd : C02.diaOK d = true) : NoFuel (checkAndApplyDia seg d) := by
  have hd' := hd
  simp only [C02.diaOK, Bool.and_eq_true] at hd'
  obtain ⟨r, hr⟩ := C02.matchDiaMods_ok seg d.prereqNodes d.prereqFeats hd'.1.1.1 hd'.1.1.2
  obtain ⟨s', hs⟩ := C02.applyDiaPayload_ok seg d hd
  unfold checkAndApplyDia
  rw [hr]
  cases r with
  | none => simp only [hs]; trivial
  | some e => trivial

theorem dia_in_table (i : Nat) (d : Gen.Dia) (h : Gen.diacritics[i]? = some d) : C02.diaOK d = true :=
  List.all_eq_true.mp C02.diacritics_ok d (List.mem_of_getElem? h)

theorem ipaDias_spec (elm : Pos) : ∀ (fuel : Nat) (s : PS) (seg : Seg), Inv s → s.toks.length - s.pos < fuel →
    Spec Le s (ipaDias elm fuel s seg) := by
  intro fuel
  induction fuel with
  | zero => intro s seg _ h; omega
  | succ n ih =>
    intro s seg hi hf
    unfold ipaDias
    split
    · rename_i i hk
      have ha := advance_adv s hi (by rw [hk]; intro h; cases h)
      simp only
      split
      · trivial
      · rename_i d hd
        have h1 := checkAndApplyDia_nofuel seg d (dia_in_table i d hd)
        split
        · exact Spec.of_le ha.toLe (ih s.advance _ ha.inv (measure_lt ha hf))
        · trivial
        · trivial
        · trivial
        · rename_i hp; rw [hp] at h1; exact h1
    · exact Le.refl s hi

theorem getIpa_spec (s : PS) (hi : Inv s) (hk : s.cur.kind = .cardinal) : Spec Adv s (getIpa s) := by
  unfold getIpa
  split
  · trivial
  · rename_i seg0 _
    have ha := advance_adv s hi (by rw [hk]; decide)
    have hd := ipaDias_spec (tokPos s.cur) (s.toks.length + 2) s.advance seg0 ha.inv (by rw [advance_toks]; omega)
    refine Spec.bind (R1 := Le) (R2 := Le) (R3 := Adv) hd (fun seg s1 hle => ?_) (fun b c h1 h2 => ha.trans_le (h1.trans h2))
    rcases expect_cases s1 .colon hle.inv (by decide) with ⟨he, h1⟩ | he
    · simp only [he]
      rcases expect_cases s1.advance .leftSquare h1.inv (by decide) with ⟨he2, h2⟩ | he2
      · simp only [he2]
        have hp := getParams_spec s1.advance.advance h2.inv
        refine Spec.bind (R1 := Le) (R2 := Le) (R3 := Le) hp (fun params s4 hle4 => ?_) (fun b c h1' h2' => ((h1.trans h2).toLe.trans h1').trans h2')
        split
        · exact Le.refl s4 hle4.inv
        · trivial
      · simp only [he2]; trivial
    · simp only [he]
      refine NoFuel.bind (prev_nofuel s1) (fun p => ?_)
      exact Le.refl s1 hle.inv

theorem getVarAssign_nofuel (n : Token) (c : PItem) : NoFuel (getVarAssign n c) := by
  unfold getVarAssign
  refine NoFuel.bindN (parseUsize_nofuel _ _) (fun k => ?_)
  split <;> trivial

theorem varAssignTail_spec (chr : PItem) (s : PS) (hi : Inv s) : OSpec Le s (varAssignTail chr s) := by
  unfold varAssignTail
  rcases expect_cases s .equals hi (by decide) with ⟨he, h1⟩ | he
  · simp only [he, if_true]
    rcases eatExpect_cases s.advance .number h1.inv (by decide) with ⟨he2, h2⟩ | he2
    · simp only [he2]
      refine NoFuel.bindO (getVarAssign_nofuel _ chr) (fun r => ?_)
      exact (h1.trans h2).toLe
    · simp only [he2]; trivial
  · simp only [he]
    exact Le.refl s hi

theorem OSpec.adv_of_adv {α} {s s1 : PS} {r : PRes (Option (α × PS))} (h : Adv s s1) (hr : OSpec Le s1 r) : OSpec Adv s r := by
  cases r with
  | ok v =>
    cases v with
    | none => trivial
    | some w => obtain ⟨a, s'⟩ := w; exact h.trans_le hr
  | err e => trivial
  | panic p => trivial
  | outOfFuel p => exact hr

theorem Spec.bindO' {α β} {R1 R2 R3 : PS → PS → Prop} {s0 s : PS} {x : PRes (α × PS)} {f : α × PS → PRes (Option (β × PS))}
    (hx : Spec R1 s x) (hf : ∀ a s', R1 s s' → OSpec R2 s' (f (a, s')))
    (hR : ∀ b c, R1 s b → R2 b c → R3 s0 c) : OSpec R3 s0 (x >>= f) := Spec.bindO hx hf hR

theorem getSeg_spec (s : PS) (hi : Inv s) : OSpec Adv s (getSeg s) := by
  unfold getSeg
  split
  · rename_i hk
    have hk : s.cur.kind = .cardinal := by simpa [PS.peek] using hk
    refine Spec.bindO (R1 := Adv) (R2 := Le) (R3 := Adv) (getIpa_spec s hi hk) (fun r s' h => ?_) (fun b c h1 h2 => h1.trans_le h2)
    exact Le.refl s' h.inv
  split
  · rename_i hk
    have hk : s.cur.kind = .group := by simpa [PS.peek] using hk
    refine Spec.bindO (R1 := Adv) (R2 := Le) (R3 := Adv) (getGroup_spec s hi hk) (fun chr s1 h => ?_) (fun b c h1 h2 => h1.trans_le h2)
    exact varAssignTail_spec chr s1 h.inv
  · rcases expect_cases s .leftSquare hi (by decide) with ⟨he, h1⟩ | he
    · simp only [he, if_true]
      refine Spec.bindO (R1 := Le) (R2 := Le) (R3 := Adv) (getParams_spec s.advance h1.inv) (fun params s2 h => ?_) (fun b c h1' h2 => h1.trans_le (h1'.trans h2))
      exact varAssignTail_spec params s2 h.inv
    · simp only [he]; trivial

theorem getVar_spec (s : PS) (hi : Inv s) : OSpec Adv s (getVar s) := by
  unfold getVar
  rcases eatExpect_cases s .number hi (by decide) with ⟨he, h1⟩ | he
  · simp only [he]
    rcases expect_cases s.advance .colon h1.inv (by decide) with ⟨he2, h2⟩ | he2
    · simp only [he2]
      rcases expect_cases s.advance.advance .leftSquare h2.inv (by decide) with ⟨he3, h3⟩ | he3
      · simp only [he3]
        refine Spec.bindO (R1 := Le) (R2 := Le) (R3 := Adv) (getParams_spec _ h3.inv) (fun params s4 h => ?_)
          (fun b c h1' h2' => ((h1.trans h2).trans h3).trans_le (h1'.trans h2'))
        split
        · exact Le.refl s4 h.inv
        · trivial
      · simp only [he3]; trivial
    · simp only [he2]
      exact h1
  · simp only [he]; trivial

/-! ### syllables, sets, structures, optionals -/

theorem syllVarTail_spec (s : PS) (hi : Inv s) : Spec Le s (syllVarTail s) := by
  unfold syllVarTail
  rcases expect_cases s .equals hi (by decide) with ⟨he, h1⟩ | he
  · simp only [he, if_true]
    rcases eatExpect_cases s.advance .number h1.inv (by decide) with ⟨he2, h2⟩ | he2
    · simp only [he2]
      refine NoFuel.bind (parseUsize_nofuel _ _) (fun num => ?_)
      exact (h1.trans h2).toLe
    · simp only [he2]; trivial
  · simp only [he]
    exact Le.refl s hi

theorem syllTail_spec (s : PS) (hi : Inv s) : Spec Le s (syllTail s) := by
  unfold syllTail
  rcases expect_cases s .colon hi (by decide) with ⟨he, h1⟩ | he
  · simp only [he]
    rcases expect_cases s.advance .leftSquare h1.inv (by decide) with ⟨he2, h2⟩ | he2
    · simp only [he2]
      refine Spec.bind (R1 := Le) (R2 := Le) (R3 := Le) (getParamArgs_spec true _ _ _ h2.inv (fuel_ok _)) (fun mods s3 h3 => ?_)
        (fun b c h1' h2' => ((h1.trans h2).toLe.trans h1').trans h2')
      refine NoFuel.bind (prev_nofuel s3) (fun p => ?_)
      refine Spec.bind (R1 := Le) (R2 := Le) (R3 := Le) (syllVarTail_spec s3 h3.inv) (fun v s4 h4 => ?_) (fun b c h1' h2' => h1'.trans h2')
      exact Le.refl s4 h4.inv
    · simp only [he2]; trivial
  · simp only [he]
    refine Spec.bind (R1 := Le) (R2 := Le) (R3 := Le) (syllVarTail_spec s hi) (fun v s2 h2 => ?_) (fun b c h1' h2' => h1'.trans h2')
    exact Le.refl s2 h2.inv

theorem getSyll_spec (s : PS) (hi : Inv s) : OSpec Adv s (getSyll s) := by
  unfold getSyll
  rcases expect_cases s .syllable hi (by decide) with ⟨he, h1⟩ | he
  · simp only [he]
    refine Spec.bindO (R1 := Le) (R2 := Le) (R3 := Adv) (syllTail_spec s.advance h1.inv) (fun r s2 h2 => ?_) (fun b c h1' h2' => h1.trans_le (h1'.trans h2'))
    exact Le.refl s2 h2.inv
  · simp only [he]; trivial

/-- continue a loop after an element was consumed -/
theorem loop_step {α} {s s' : PS} {r : PRes (α × PS)} (ha : Adv s s') (hr : Spec Le s' r) : Spec Le s r :=
  Spec.of_le ha.toLe hr

theorem setLoop_spec : ∀ (fuel : Nat) (s : PS) (terms : List PItem), Inv s → s.toks.length - s.pos < fuel →
    Spec Le s (setLoop fuel s terms) := by
  intro fuel
  induction fuel with
  | zero => intro s t _ h; omega
  | succ n ih =>
    intro s terms hi hf
    unfold setLoop
    split
    · exact Le.refl s hi
    split
    · rename_i hk; exact (advance_adv s hi (by rw [hk]; decide)).toLe
    split
    · rename_i hk
      have ha := advance_adv s hi (by rw [hk]; decide)
      exact loop_step ha (ih _ _ ha.inv (measure_lt ha hf))
    have h1 := getSeg_spec s hi
    split
    · rename_i x s' hx; rw [hx] at h1
      have ha : Adv s s' := h1
      exact loop_step ha (ih _ _ ha.inv (measure_lt ha hf))
    · split
      · rename_i x s' hx
        have ha := getBound_spec s hi x s' hx
        exact loop_step ha (ih _ _ ha.inv (measure_lt ha hf))
      · have h2 := getSyll_spec s hi
        split
        · rename_i x s' hx; rw [hx] at h2
          have ha : Adv s s' := h2
          exact loop_step ha (ih _ _ ha.inv (measure_lt ha hf))
        · trivial
        · trivial
        · trivial
        · rename_i hx; rw [hx] at h2; exact h2
    · trivial
    · trivial
    · rename_i hx; rw [hx] at h1; exact h1

theorem getSet_spec (s : PS) (hi : Inv s) : OSpec Adv s (getSet s) := by
  unfold getSet
  rcases expect_cases s .leftCurly hi (by decide) with ⟨he, h1⟩ | he
  · simp only [he]
    refine Spec.bindO (R1 := Le) (R2 := Le) (R3 := Adv) (setLoop_spec _ s.advance [] h1.inv (fuel_ok _)) (fun terms s2 h2 => ?_)
      (fun b c h1' h2' => h1.trans_le (h1'.trans h2'))
    refine NoFuel.bindO (prev_nofuel s2) (fun p => ?_)
    split
    · trivial
    · exact Le.refl s2 h2.inv
  · simp only [he]; trivial

theorem structLoop_spec : ∀ (fuel : Nat) (s : PS) (terms : List PItem), Inv s → s.toks.length - s.pos < fuel →
    Spec Le s (structLoop fuel s terms) := by
  intro fuel
  induction fuel with
  | zero => intro s t _ h; omega
  | succ n ih =>
    intro s terms hi hf
    unfold structLoop
    split
    · exact Le.refl s hi
    split
    · rename_i hk; exact (advance_adv s hi (by rw [hk]; decide)).toLe
    have h1 := getSeg_spec s hi
    split
    · rename_i x s' hx; rw [hx] at h1
      have ha : Adv s s' := h1
      exact loop_step ha (ih _ _ ha.inv (measure_lt ha hf))
    · split
      · rename_i el s' hx
        rcases eatExpect_cases s .ellipsis hi (by decide) with ⟨he, ha⟩ | he
        · rw [he] at hx; cases hx
          exact loop_step ha (ih _ _ ha.inv (measure_lt ha hf))
        · rw [he] at hx; cases hx
      · have h2 := getVar_spec s hi
        split
        · rename_i x s' hx; rw [hx] at h2
          have ha : Adv s s' := h2
          exact loop_step ha (ih _ _ ha.inv (measure_lt ha hf))
        · trivial
        · trivial
        · trivial
        · rename_i hx; rw [hx] at h2; exact h2
    · trivial
    · trivial
    · rename_i hx; rw [hx] at h1; exact h1

theorem getStruct_spec (s : PS) (hi : Inv s) : OSpec Adv s (getStruct s) := by
  unfold getStruct
  rcases expect_cases s .leftAngle hi (by decide) with ⟨he, h1⟩ | he
  · simp only [he]
    refine Spec.bindO (R1 := Le) (R2 := Le) (R3 := Adv) (structLoop_spec _ s.advance [] h1.inv (fuel_ok _)) (fun terms s2 h2 => ?_)
      (fun b c h1' h2' => h1.trans_le (h1'.trans h2'))
    refine Spec.bindO (R1 := Le) (R2 := Le) (R3 := Le) (syllTail_spec s2 h2.inv) (fun r s3 h3 => ?_) (fun b c h1' h2' => h1'.trans h2')
    exact Le.refl s3 h3.inv
  · simp only [he]; trivial

theorem optLoop_spec : ∀ (fuel : Nat) (s : PS) (segs : List PItem), Inv s → s.toks.length - s.pos < fuel →
    Spec Le s (optLoop fuel s segs) := by
  intro fuel
  induction fuel with
  | zero => intro s t _ h; omega
  | succ n ih =>
    intro s segs hi hf
    unfold optLoop
    split
    · exact Le.refl s hi
    split
    · exact Le.refl s hi
    split
    · rename_i x s' hx
      have ha := getBound_spec s hi x s' hx
      exact loop_step ha (ih _ _ ha.inv (measure_lt ha hf))
    have h1 := getSyll_spec s hi
    split
    · rename_i x s' hx; rw [hx] at h1
      have ha : Adv s s' := h1
      exact loop_step ha (ih _ _ ha.inv (measure_lt ha hf))
    · have h2 := getSet_spec s hi
      split
      · rename_i x s' hx; rw [hx] at h2
        have ha : Adv s s' := h2
        exact loop_step ha (ih _ _ ha.inv (measure_lt ha hf))
      · have h3 := getSeg_spec s hi
        split
        · rename_i x s' hx; rw [hx] at h3
          have ha : Adv s s' := h3
          exact loop_step ha (ih _ _ ha.inv (measure_lt ha hf))
        · have h4 := getVar_spec s hi
          split
          · rename_i x s' hx; rw [hx] at h4
            have ha : Adv s s' := h4
            exact loop_step ha (ih _ _ ha.inv (measure_lt ha hf))
          · split
            · exact Le.refl s hi
            · trivial
          · trivial
          · trivial
          · rename_i hx; rw [hx] at h4; exact h4
        · trivial
        · trivial
        · rename_i hx; rw [hx] at h3; exact h3
      · trivial
      · trivial
      · rename_i hx; rw [hx] at h2; exact h2
    · trivial
    · trivial
    · rename_i hx; rw [hx] at h1; exact h1

theorem optItem_spec (start : Nat) (segs : List PItem) (lo hi' : Nat) (s0 s : PS) (h : Le s0 s) :
    OSpec Le s0 (optItem start segs lo hi' s) := by
  unfold optItem
  refine NoFuel.bindO (prev_nofuel s) (fun p => ?_)
  exact h

theorem optClose_spec (start : Nat) (segs : List PItem) (lo hi' : Nat) (s0 s : PS) (h : Le s0 s) :
    OSpec Le s0 (optClose start segs lo hi' s) := by
  unfold optClose
  rcases expect_cases s .rightBracket h.inv (by decide) with ⟨he, h1⟩ | he
  · simp only [he, if_true]; exact optItem_spec _ _ _ _ s0 _ (h.trans h1.toLe)
  · simp only [he]; trivial

theorem optSecond_spec (start : Nat) (segs : List PItem) (first : Nat) (s0 s : PS) (h : Le s0 s) :
    OSpec Le s0 (optSecond start segs first s) := by
  unfold optSecond
  rcases eatExpect_cases s .number h.inv (by decide) with ⟨he, h1⟩ | he
  · simp only [he]
    refine NoFuel.bindO (parseUsize_nofuel _ _) (fun second => ?_)
    split
    · trivial
    · exact optClose_spec _ _ _ _ s0 _ (h.trans h1.toLe)
  · simp only [he]; exact optClose_spec _ _ _ _ s0 _ h

theorem optAfterFirst_spec (start : Nat) (segs : List PItem) (first : Nat) (s0 s : PS) (h : Le s0 s) :
    OSpec Le s0 (optAfterFirst start segs first s) := by
  unfold optAfterFirst
  rcases expect_cases s .rightBracket h.inv (by decide) with ⟨he, h1⟩ | he
  · simp only [he, if_true]; exact optItem_spec _ _ _ _ s0 _ (h.trans h1.toLe)
  · simp only [he]
    rcases expect_cases s .colon h.inv (by decide) with ⟨he2, h2⟩ | he2
    · simp only [he2]; exact optSecond_spec _ _ _ s0 _ (h.trans h2.toLe)
    · simp only [he2]; trivial

theorem optBounds_spec (start : Nat) (segs : List PItem) (s0 s : PS) (h : Le s0 s) :
    OSpec Le s0 (optBounds start segs s) := by
  unfold optBounds
  rcases expect_cases s .rightBracket h.inv (by decide) with ⟨he, h1⟩ | he
  · simp only [he, if_true]; exact optItem_spec _ _ _ _ s0 _ (h.trans h1.toLe)
  · simp only [he]
    rcases expect_cases s .comma h.inv (by decide) with ⟨he2, h2⟩ | he2
    · simp only [he2]
      rcases eatExpect_cases s.advance .number h2.inv (by decide) with ⟨he3, h3⟩ | he3
      · simp only [he3]
        refine NoFuel.bindO (parseUsize_nofuel _ _) (fun first => ?_)
        exact optAfterFirst_spec _ _ _ s0 _ (h.trans (h2.trans h3).toLe)
      · simp only [he3]; exact optAfterFirst_spec _ _ _ s0 _ (h.trans h2.toLe)
    · simp only [he2]; trivial

theorem OSpec.adv_of_le {α} {s s1 : PS} {r : PRes (Option (α × PS))} (h : Adv s s1) (hr : OSpec Le s1 r) : OSpec Adv s r :=
  OSpec.adv_of_adv h hr

theorem getOpt_spec (s : PS) (hi : Inv s) : OSpec Adv s (getOpt s) := by
  unfold getOpt
  rcases expect_cases s .leftBracket hi (by decide) with ⟨he, h1⟩ | he
  · simp only [he]
    refine Spec.bindO (R1 := Le) (R2 := Le) (R3 := Adv) (optLoop_spec _ s.advance [] h1.inv (fuel_ok _)) (fun segs s2 h2 => ?_)
      (fun b c h1' h2' => h1.trans_le (h1'.trans h2'))
    exact optBounds_spec _ _ s2 s2 (Le.refl s2 h2.inv)
  · simp only [he]; trivial

/-- `get_term` declines, fails, or returns an item after consuming a token -/
theorem getTerm_spec (s : PS) (hi : Inv s) : OSpec Adv s (getTerm s) := by
  unfold getTerm
  have h1 := getSyll_spec s hi
  cases hx1 : getSyll s with
  | outOfFuel p => rw [hx1] at h1; exact h1
  | err e => trivial
  | panic p => trivial
  | ok v1 =>
    cases v1 with
    | some r => obtain ⟨x, s'⟩ := r; rw [hx1] at h1; exact h1
    | none =>
      have h2 := getStruct_spec s hi
      cases hx2 : getStruct s with
      | outOfFuel p => rw [hx2] at h2; exact h2
      | err e => trivial
      | panic p => trivial
      | ok v2 =>
        cases v2 with
        | some r => obtain ⟨x, s'⟩ := r; rw [hx2] at h2; exact h2
        | none =>
          have h3 := getSet_spec s hi
          cases hx3 : getSet s with
          | outOfFuel p => rw [hx3] at h3; exact h3
          | err e => trivial
          | panic p => trivial
          | ok v3 =>
            cases v3 with
            | some r => obtain ⟨x, s'⟩ := r; rw [hx3] at h3; exact h3
            | none =>
              have h4 := getSeg_spec s hi
              cases hx4 : getSeg s with
              | outOfFuel p => rw [hx4] at h4; exact h4
              | err e => trivial
              | panic p => trivial
              | ok v4 =>
                cases v4 with
                | some r => obtain ⟨x, s'⟩ := r; rw [hx4] at h4; exact h4
                | none =>
                  have h5 := getVar_spec s hi
                  cases hx5 : getVar s with
                  | outOfFuel p => rw [hx5] at h5; exact h5
                  | err e => trivial
                  | panic p => trivial
                  | ok v5 =>
                    cases v5 with
                    | some r => obtain ⟨x, s'⟩ := r; rw [hx5] at h5; exact h5
                    | none =>
                      have h6 := getOpt_spec s hi
                      cases hx6 : getOpt s with
                      | outOfFuel p => rw [hx6] at h6; exact h6
                      | err e => trivial
                      | panic p => trivial
                      | ok v6 =>
                        cases v6 with
                        | some r => obtain ⟨x, s'⟩ := r; trivial
                        | none => trivial

/-! ### environments -/

theorem envElsLoop_spec : ∀ (fuel : Nat) (s : PS) (els : List PItem) (b : Bool) (wp : Pos), Inv s → s.toks.length - s.pos < fuel →
    Spec Le s (envElsLoop fuel s els b wp) := by
  intro fuel
  induction fuel with
  | zero => intro s _ _ _ _ h; omega
  | succ n ih =>
    intro s els b wp hi hf
    have cont : ∀ (s' : PS) (els' : List PItem) (b' : Bool) (wp' : Pos), Adv s s' →
        Spec Le s (envElsLoop n s' els' b' wp') :=
      fun s' els' b' wp' ha => loop_step ha (ih s' els' b' wp' ha.inv (measure_lt ha hf))
    unfold envElsLoop
    split
    · rename_i x s' hx
      have ha := getWordBound_spec s hi x s' hx
      split
      · trivial
      · exact cont _ _ _ _ ha
    split
    · rename_i x s' hx
      exact cont _ _ _ _ (getSyllBound_spec s hi x s' hx)
    split
    · rename_i el s' hx
      rcases eatExpect_cases s .ellipsis hi (by decide) with ⟨he, ha⟩ | he
      · rw [he] at hx; cases hx; exact cont _ _ _ _ ha
      · rw [he] at hx; cases hx
    have h1 := getOpt_spec s hi
    split
    · rename_i x s' hx; rw [hx] at h1; exact cont _ _ _ _ h1
    · have h2 := getTerm_spec s hi
      split
      · rename_i x s' hx; rw [hx] at h2; exact cont _ _ _ _ h2
      · exact Le.refl s hi
      · trivial
      · trivial
      · rename_i hx; rw [hx] at h2; exact h2
    · trivial
    · trivial
    · rename_i hx; rw [hx] at h1; exact h1

theorem wbCheck_nofuel (a b : Bool) (els : List PItem) (p : Pos) : NoFuel (wbCheck a b els p) := by
  unfold wbCheck
  split
  · split
    · trivial
    · split
      · trivial
      · split <;> trivial
  · trivial

theorem getEnvElements_spec (isAfter : Bool) (s : PS) (hi : Inv s) : Spec Le s (getEnvElements isAfter s) := by
  unfold getEnvElements
  refine Spec.bind (R1 := Le) (R2 := Le) (R3 := Le) (envElsLoop_spec _ s [] false ⟨0, 0⟩ hi (fuel_ok s)) (fun r s' h => ?_) (fun b c h1 h2 => h1.trans h2)
  obtain ⟨els, hasWb, wbPos⟩ := r
  refine NoFuel.bind (wbCheck_nofuel _ _ _ _) (fun _ => ?_)
  exact Le.refl s' h.inv

theorem getEnvTerm_spec (s : PS) (hi : Inv s) : Spec Adv s (getEnvTerm s) := by
  unfold getEnvTerm
  refine Spec.bind (R1 := Le) (R2 := Adv) (R3 := Adv) (getEnvElements_spec false s hi) (fun before s1 h1 => ?_) (fun b c h1' h2' => h1'.trans_adv h2')
  rcases expect_cases s1 .underline h1.inv (by decide) with ⟨he, h2⟩ | he
  · simp only [he]
    refine Spec.bind (R1 := Le) (R2 := Le) (R3 := Adv) (getEnvElements_spec true s1.advance h2.inv) (fun after s3 h3 => ?_) (fun b c h1' h2' => h2.trans_le (h1'.trans h2'))
    split
    · trivial
    · refine NoFuel.bind (prev_nofuel s3) (fun p => ?_)
      exact Le.refl s3 h3.inv
  · simp only [he]; trivial

theorem jumpAdvance_le (s0 s : PS) (k : Nat) (ht : s.toks = s0.toks) (hk : s0.pos ≤ k + 1) : Le s0 (s.jumpAdvance k) :=
  ⟨by simp [PS.jumpAdvance, PS.advance, ht], by simp only [PS.jumpAdvance, PS.advance]; omega, advance_inv _⟩

theorem jumpTo_le (s0 s : PS) (ht : s.toks = s0.toks) (hb : s0.pos < s0.toks.length) : Le s0 (s.jumpTo s0.pos) :=
  ⟨by simp [PS.jumpTo, ht], by simp [PS.jumpTo], by intro h; simp only [PS.jumpTo, ht] at h; omega⟩

theorem getSpecEnv_spec (s : PS) (hi : Inv s) : Spec Le s (getSpecEnv s) := by
  unfold getSpecEnv
  rcases expect_cases s .underline hi (by decide) with ⟨he, h1⟩ | he
  · simp only [he]
    rcases expect_cases s.advance .comma h1.inv (by decide) with ⟨he2, h2⟩ | he2
    · simp only [he2]
      refine Spec.bind (R1 := Le) (R2 := fun _ c => Le s c) (R3 := Le) (getEnvElements_spec false s.advance.advance h2.inv) (fun x s3 h3 => ?_) (fun b c _ h => h)
      rcases expect_cases s3 .underline h3.inv (by decide) with ⟨he4, h4⟩ | he4
      · simp only [he4, if_true]
        exact jumpTo_le s _ (by rw [advance_toks, h3.toks_eq]; rfl) h1.inb
      · simp only [he4]
        refine NoFuel.bind (prev_nofuel s3) (fun p => ?_)
        exact ((h1.trans h2).toLe.trans h3)
    · simp only [he2]
      exact jumpTo_le s _ rfl h1.inb
  · simp only [he]
    exact Le.refl s hi

theorem envsLoop_spec : ∀ (fuel : Nat) (s : PS) (envs : List PEnv), Inv s → s.toks.length - s.pos < fuel →
    Spec Le s (envsLoop fuel s envs) := by
  intro fuel
  induction fuel with
  | zero => intro s _ _ h; omega
  | succ n ih =>
    intro s envs hi hf
    unfold envsLoop
    rcases expect_cases s .rightColCurly hi (by decide) with ⟨he, h1⟩ | he
    · simp only [he, if_true]; exact h1.toLe
    · simp only [he, Bool.false_eq_true, if_false]
      rcases expect_cases s .comma hi (by decide) with ⟨he2, h2⟩ | he2
      · simp only [he2, if_true]
        have h3 := getEnvTerm_spec s.advance h2.inv
        split
        · rename_i x s3 hx; rw [hx] at h3
          have ha : Adv s s3 := h2.trans h3
          exact loop_step ha (ih _ _ ha.inv (measure_lt ha hf))
        · trivial
        · trivial
        · rename_i hx; rw [hx] at h3; exact h3
      · simp only [he2, Bool.false_eq_true, if_false]; trivial

theorem getEnvs_spec (s : PS) (hi : Inv s) : Spec Adv s (getEnvs s) := by
  unfold getEnvs
  rcases expect_cases s .leftColCurly hi (by decide) with ⟨he, h1⟩ | he
  · simp only [he]
    refine Spec.bind (R1 := Adv) (R2 := Le) (R3 := Adv) (getEnvTerm_spec s.advance h1.inv) (fun e1 s2 h2 => ?_) (fun b c h1' h2' => (h1.trans h1').trans_le h2')
    refine Spec.bind (R1 := Le) (R2 := Le) (R3 := Le) (envsLoop_spec _ s2 [e1] h2.inv (fuel_ok _)) (fun envs s3 h3 => ?_) (fun b c h1' h2' => h1'.trans h2')
    refine NoFuel.bind (prev_nofuel s3) (fun p => ?_)
    exact Le.refl s3 h3.inv
  · simp only [he]
    refine Spec.bind (R1 := Adv) (R2 := Le) (R3 := Adv) (getEnvTerm_spec s hi) (fun env s2 h2 => ?_) (fun b c h1' h2' => h1'.trans_le h2')
    exact Le.refl s2 h2.inv

theorem envLoop_spec : ∀ (fuel : Nat) (s : PS) (envs : List PItem), Inv s → s.toks.length - s.pos < fuel →
    Spec Le s (envLoop fuel s envs) := by
  intro fuel
  induction fuel with
  | zero => intro s _ _ h; omega
  | succ n ih =>
    intro s envs hi hf
    unfold envLoop
    have h1 := getEnvs_spec s hi
    split
    · rename_i x s1 hx; rw [hx] at h1
      have h1 : Adv s s1 := h1
      rcases expect_cases s1 .comma h1.inv (by decide) with ⟨he, h2⟩ | he
      · simp only [he, if_true]
        have ha := h1.trans h2
        exact loop_step ha (ih _ _ ha.inv (measure_lt ha hf))
      · simp only [he]; exact h1.toLe
    · trivial
    · trivial
    · rename_i hx; rw [hx] at h1; exact h1

theorem getEnv_spec (s : PS) (hi : Inv s) : Spec Le s (getEnv s) := by
  unfold getEnv
  refine Spec.bind (R1 := Le) (R2 := Le) (R3 := Le) (getSpecEnv_spec s hi) (fun spec s1 h1 => ?_) (fun b c h1 h2 => h1.trans h2)
  cases spec with
  | some v => exact Le.refl s1 h1.inv
  | none => exact envLoop_spec _ s1 [] h1.inv (fuel_ok _)

theorem getExceptBlock_spec (s : PS) (hi : Inv s) : Spec Le s (getExceptBlock s) := by
  unfold getExceptBlock
  rcases expect_cases s .pipe hi (by decide) with ⟨he, h1⟩ | he
  · simp only [he, if_true]; exact Spec.of_le h1.toLe (getEnv_spec _ h1.inv)
  · simp only [he]
    rcases expect_cases s .dubSlash hi (by decide) with ⟨he2, h2⟩ | he2
    · simp only [he2, if_true]; exact Spec.of_le h2.toLe (getEnv_spec _ h2.inv)
    · simp only [he2]; exact Le.refl s hi

theorem getContext_spec (s : PS) (hi : Inv s) : Spec Le s (getContext s) := by
  unfold getContext
  rcases expect_cases s .slash hi (by decide) with ⟨he, h1⟩ | he
  · simp only [he, if_true]; exact Spec.of_le h1.toLe (getEnv_spec _ h1.inv)
  · simp only [he]; exact Le.refl s hi

/-! ### input, output, the rule -/

theorem inputElsLoop_spec : ∀ (fuel : Nat) (s : PS) (els : List PItem), Inv s → s.toks.length - s.pos < fuel →
    Spec Le s (inputElsLoop fuel s els) := by
  intro fuel
  induction fuel with
  | zero => intro s _ _ h; omega
  | succ n ih =>
    intro s els hi hf
    have cont : ∀ (s' : PS) (els' : List PItem), Adv s s' → Spec Le s (inputElsLoop n s' els') :=
      fun s' els' ha => loop_step ha (ih s' els' ha.inv (measure_lt ha hf))
    unfold inputElsLoop
    split
    · rename_i el s' hx
      rcases eatExpect_cases s .ellipsis hi (by decide) with ⟨he, ha⟩ | he
      · rw [he] at hx; cases hx; exact cont _ _ ha
      · rw [he] at hx; cases hx
    split
    · rename_i x s' hx
      exact cont _ _ (getSyllBound_spec s hi x s' hx)
    have h1 := getTerm_spec s hi
    split
    · rename_i x s' hx; rw [hx] at h1; exact cont _ _ h1
    · split
      · trivial
      · exact Le.refl s hi
    · trivial
    · trivial
    · rename_i hx; rw [hx] at h1; exact h1

theorem getOutputEl_spec (s : PS) (hi : Inv s) : OSpec Adv s (getOutputEl s) := by
  unfold getOutputEl
  have h1 := getSyll_spec s hi
  cases hx1 : getSyll s with
  | outOfFuel p => rw [hx1] at h1; exact h1
  | err e => trivial
  | panic p => trivial
  | ok v1 =>
    cases v1 with
    | some r => obtain ⟨x, s'⟩ := r; rw [hx1] at h1; exact h1
    | none =>
      have h2 := getStruct_spec s hi
      cases hx2 : getStruct s with
      | outOfFuel p => rw [hx2] at h2; exact h2
      | err e => trivial
      | panic p => trivial
      | ok v2 =>
        cases v2 with
        | some r => obtain ⟨x, s'⟩ := r; rw [hx2] at h2; exact h2
        | none =>
          have h3 := getSet_spec s hi
          cases hx3 : getSet s with
          | outOfFuel p => rw [hx3] at h3; exact h3
          | err e => trivial
          | panic p => trivial
          | ok v3 =>
            cases v3 with
            | some r => obtain ⟨x, s'⟩ := r; rw [hx3] at h3; exact h3
            | none =>
              have h4 := getSeg_spec s hi
              cases hx4 : getSeg s with
              | outOfFuel p => rw [hx4] at h4; exact h4
              | err e => trivial
              | panic p => trivial
              | ok v4 =>
                cases v4 with
                | some r => obtain ⟨x, s'⟩ := r; rw [hx4] at h4; exact h4
                | none =>
                  have h5 := getVar_spec s hi
                  cases hx5 : getVar s with
                  | outOfFuel p => rw [hx5] at h5; exact h5
                  | err e => trivial
                  | panic p => trivial
                  | ok v5 =>
                    cases v5 with
                    | some r => obtain ⟨x, s'⟩ := r; rw [hx5] at h5; exact h5
                    | none =>
                      show OSpec Adv s (pure (getSyllBound s))
                      cases hx6 : getSyllBound s with
                      | none => trivial
                      | some r => obtain ⟨x, s'⟩ := r; exact getSyllBound_spec s hi x s' hx6

theorem outputElsLoop_spec : ∀ (fuel : Nat) (s : PS) (els : List PItem), Inv s → s.toks.length - s.pos < fuel →
    Spec Le s (outputElsLoop fuel s els) := by
  intro fuel
  induction fuel with
  | zero => intro s _ _ h; omega
  | succ n ih =>
    intro s els hi hf
    unfold outputElsLoop
    have h1 := getOutputEl_spec s hi
    split
    · rename_i x s' hx; rw [hx] at h1
      have ha : Adv s s' := h1
      exact loop_step ha (ih s' _ ha.inv (measure_lt ha hf))
    · exact Le.refl s hi
    · trivial
    · trivial
    · rename_i hx; rw [hx] at h1; exact h1

theorem getEmpty_spec (s : PS) (hi : Inv s) (x : PItem) (s' : PS) (h : getEmpty s = some (x, s')) : Adv s s' := by
  unfold getEmpty at h
  split at h
  · cases h
  · rename_i hc
    simp only [Option.some.injEq, Prod.mk.injEq] at h
    rw [← h.2]
    refine advance_adv s hi ?_
    intro hk
    simp [PS.peek, hk] at hc

/-- what `termStep` guarantees about the state it hands back -/
def TermSpec (s1 : PS) : PRes TermStep → Prop
  | .ok (.stop s2) => Le s1 s2
  | .ok (.skip s2) => Adv s1 s2
  | .ok (.push s3 true) => Adv s1 s3
  | .ok (.push s3 false) => Le s1 s3
  | .outOfFuel _ => False
  | _ => True

theorem termStep_spec (term : List PItem) (s1 : PS) (hi : Inv s1) : TermSpec s1 (termStep term s1) := by
  unfold termStep
  by_cases ht : term.isEmpty = true
  · simp only [ht, if_true]
    rcases expect_cases s1 .comma hi (by decide) with ⟨he, h1⟩ | he
    · simp only [he, if_true]; exact h1
    · simp only [he, Bool.false_eq_true, if_false]
      exact Le.refl s1 hi
  · simp only [ht, Bool.false_eq_true, if_false]
    split
    · trivial
    · rcases expect_cases s1 .comma hi (by decide) with ⟨he2, h2⟩ | he2
      · simp only [he2]; exact h2
      · simp only [he2]; exact Le.refl s1 hi

theorem inputLoop_spec : ∀ (fuel : Nat) (s : PS) (inputs : List (List PItem)), Inv s → s.toks.length - s.pos < fuel →
    Spec Le s (inputLoop fuel s inputs) := by
  intro fuel
  induction fuel with
  | zero => intro s _ _ h; omega
  | succ n ih =>
    intro s inputs hi hf
    unfold inputLoop
    split
    · rename_i e s1 hx
      have h1 := getEmpty_spec s hi e s1 hx
      rcases expect_cases s1 .comma h1.inv (by decide) with ⟨he, h2⟩ | he
      · simp only [he]
        split
        · trivial
        · have ha := h1.trans h2
          exact loop_step ha (ih _ _ ha.inv (measure_lt ha hf))
      · simp only [he]
        split
        · trivial
        · exact loop_step h1 (ih _ _ h1.inv (measure_lt h1 hf))
    · have h1 := inputElsLoop_spec (s.toks.length + 2) s [] hi (fuel_ok s)
      split
      · rename_i term s1 hx; rw [hx] at h1
        have h1 : Le s s1 := h1
        split
        · split <;> trivial
        · have h2 := termStep_spec term s1 h1.inv
          split
          · rename_i s2 hy; rw [hy] at h2; exact h1.trans h2
          · rename_i s2 hy; rw [hy] at h2
            have ha : Adv s s2 := h1.trans_adv h2
            exact loop_step ha (ih _ _ ha.inv (measure_lt ha hf))
          · rename_i s3 hy; rw [hy] at h2
            have ha : Adv s s3 := h1.trans_adv h2
            exact loop_step ha (ih _ _ ha.inv (measure_lt ha hf))
          · rename_i s3 hy; rw [hy] at h2; exact h1.trans h2
          · trivial
          · trivial
          · rename_i hy; rw [hy] at h2; exact h2
      · trivial
      · trivial
      · rename_i hx; rw [hx] at h1; exact h1

theorem getInput_spec (s : PS) (hi : Inv s) : Spec Le s (getInput s) := by
  unfold getInput
  refine Spec.bind (R1 := Le) (R2 := Le) (R3 := Le) (inputLoop_spec _ s [] hi (fuel_ok s)) (fun inputs s' h => ?_) (fun b c h1 h2 => h1.trans h2)
  show Spec Le s' (if inputs.isEmpty = true then _ else _)
  by_cases he : inputs.isEmpty = true
  · rw [if_pos he]
    refine NoFuel.bind (here_nofuel s') (fun t => ?_); trivial
  · rw [if_neg he]
    exact Le.refl s' h.inv

theorem outputLoop_spec : ∀ (fuel : Nat) (s : PS) (outputs : List (List PItem)), Inv s → s.toks.length - s.pos < fuel →
    Spec Le s (outputLoop fuel s outputs) := by
  intro fuel
  induction fuel with
  | zero => intro s _ _ h; omega
  | succ n ih =>
    intro s outputs hi hf
    unfold outputLoop
    split
    · rename_i el s1 hx
      rcases eatExpect_cases s .ampersand hi (by decide) with ⟨he0, h1⟩ | he0
      · rw [he0] at hx; cases hx
        rcases expect_cases s.advance .comma h1.inv (by decide) with ⟨he, h2⟩ | he
        · simp only [he]
          split
          · trivial
          · have ha := h1.trans h2
            exact loop_step ha (ih _ _ ha.inv (measure_lt ha hf))
        · simp only [he]
          split
          · trivial
          · exact loop_step h1 (ih _ _ h1.inv (measure_lt h1 hf))
      · rw [he0] at hx; cases hx
    split
    · rename_i e s1 hx
      have h1 := getEmpty_spec s hi e s1 hx
      rcases expect_cases s1 .comma h1.inv (by decide) with ⟨he, h2⟩ | he
      · simp only [he]
        split
        · trivial
        · have ha := h1.trans h2
          exact loop_step ha (ih _ _ ha.inv (measure_lt ha hf))
      · simp only [he]
        split
        · trivial
        · exact loop_step h1 (ih _ _ h1.inv (measure_lt h1 hf))
    · have h1 := outputElsLoop_spec (s.toks.length + 2) s [] hi (fuel_ok s)
      split
      · rename_i term s1 hx; rw [hx] at h1
        have h1 : Le s s1 := h1
        split
        · have := here_nofuel s1
          split
          · trivial
          · trivial
          · trivial
          · rename_i hy; rw [hy] at this; exact this
        · have h2 := termStep_spec term s1 h1.inv
          split
          · rename_i s2 hy; rw [hy] at h2; exact h1.trans h2
          · rename_i s2 hy; rw [hy] at h2
            have ha : Adv s s2 := h1.trans_adv h2
            exact loop_step ha (ih _ _ ha.inv (measure_lt ha hf))
          · rename_i s3 hy; rw [hy] at h2
            have ha : Adv s s3 := h1.trans_adv h2
            exact loop_step ha (ih _ _ ha.inv (measure_lt ha hf))
          · rename_i s3 hy; rw [hy] at h2; exact h1.trans h2
          · trivial
          · trivial
          · rename_i hy; rw [hy] at h2; exact h2
      · trivial
      · trivial
      · rename_i hx; rw [hx] at h1; exact h1

theorem getOutput_spec (s : PS) (hi : Inv s) : Spec Le s (getOutput s) := by
  unfold getOutput
  refine Spec.bind (R1 := Le) (R2 := Le) (R3 := Le) (outputLoop_spec _ s [] hi (fuel_ok s)) (fun outputs s' h => ?_) (fun b c h1 h2 => h1.trans h2)
  show Spec Le s' (if outputs.isEmpty = true then _ else _)
  by_cases he : outputs.isEmpty = true
  · rw [if_pos he]
    refine NoFuel.bind (here_nofuel s') (fun t => ?_); trivial
  · rw [if_neg he]
    exact Le.refl s' h.inv

end Parse
end Asca
