import AscaVerif.Lemmas.ParseSpans
/-! Positions of the items the rule parser returns (for `UnexpectedDiacritic`, which underlines the last item of a
    term and then the stray diacritic token): an item returned in state `s'` occupies a proper interval of the line
    that ends where the token under the cursor of `s'` begins, or earlier. -/
namespace Asca.Parse.Spans
open Asca.Parse
open Lex (Token TK)

variable {L : Nat}

/-- a proper interval of the line that ends at or before the start of the token under the cursor -/
def ItemOK (L : Nat) (s : PS) (p : Pos) : Prop :=
  p.start ≤ p.stop ∧ p.stop ≤ L + 1 ∧ ∀ t, s.toks[s.pos]? = some t → p.stop ≤ t.start

/-- from the start of the token at `j` to the end of the token at `i ≥ j`, both before the cursor -/
theorem itemOK_span (s : PS) (hi : Inv L s) (j i : Nat) (tj ti : Token) (hji : j ≤ i) (hip : i < s.pos)
    (hj : s.toks[j]? = some tj) (hti : s.toks[i]? = some ti) : ItemOK L s ⟨tj.start, ti.stop⟩ := by
  have h := span_ij s.toks hi.1 j i tj ti hji hj hti
  exact ⟨h.1, h.2, fun t ht => hi.1.sorted i s.pos ti t hip hti ht⟩

theorem ItemOK.mono {s s' : PS} {p : Pos} (h : ItemOK L s p) (hi : Inv L s) (hle : Le L s s') : ItemOK L s' p := by
  refine ⟨h.1, h.2.1, fun t ht => ?_⟩
  rw [hle.toks_eq] at ht
  rcases Nat.lt_or_eq_of_le hle.le with hlt | heq
  · have hex : ∃ t0, s.toks[s.pos]? = some t0 := ⟨_, List.getElem?_eq_getElem hi.2.1⟩
    obtain ⟨t0, ht0⟩ := hex
    have h1 := h.2.2 t0 ht0
    have h2 := hi.1.sorted s.pos s'.pos t0 t hlt ht0 ht
    have h3 := hi.1.span t0 (List.mem_of_getElem? ht0)
    omega
  · rw [← heq] at ht; exact h.2.2 t ht

/-- the token just consumed -/
theorem eaten_ok (s : PS) (hi : Inv L s) (hk : s.cur.kind ≠ .eol) : ItemOK L s.advance (tokPos s.cur) := by
  have hr := cur_real s hi hk
  have ha := advance_adv s hi hk
  have := itemOK_span s.advance ha.inv s.pos s.pos s.cur s.cur (Nat.le_refl _) (by simp [advance_pos]) hr hr
  exact this

theorem getSyllBound_item (s : PS) (hi : Inv L s) (x : PItem) (s' : PS) (h : getSyllBound s = some (x, s')) : ItemOK L s' x.pos := by
  unfold getSyllBound at h
  rcases eatExpect_cases s .syllBoundary hi (by decide) with ⟨he, ha⟩ | he
  · simp only [he, Option.some.injEq, Prod.mk.injEq] at h
    rw [← h.1, ← h.2]
    have hk : s.cur.kind ≠ .eol := by
      have := (eatExpect_kind s _ _ _ he).2; rw [this]; decide
    exact eaten_ok s hi hk
  · simp [he] at h

theorem getWordBound_item (s : PS) (hi : Inv L s) (x : PItem) (s' : PS) (h : getWordBound s = some (x, s')) : ItemOK L s' x.pos := by
  unfold getWordBound at h
  rcases eatExpect_cases s .wordBoundary hi (by decide) with ⟨he, ha⟩ | he
  · simp only [he, Option.some.injEq, Prod.mk.injEq] at h
    rw [← h.1, ← h.2]
    have hk : s.cur.kind ≠ .eol := by
      have := (eatExpect_kind s _ _ _ he).2; rw [this]; decide
    exact eaten_ok s hi hk
  · simp [he] at h

theorem getBound_item (s : PS) (hi : Inv L s) (x : PItem) (s' : PS) (h : getBound s = some (x, s')) : ItemOK L s' x.pos := by
  unfold getBound at h
  cases hs : getSyllBound s with
  | some r => obtain ⟨y, t⟩ := r; simp only [hs, Option.some.injEq, Prod.mk.injEq] at h; rw [← h.1, ← h.2]; exact getSyllBound_item s hi y t hs
  | none => simp only [hs] at h; exact getWordBound_item s hi x s' h

/-- the spec of a successful call, as a fact about its result -/
theorem Spec.ok_rel {α} {R : PS → PS → Prop} {s : PS} {r : PRes (α × PS)} {a : α} {s' : PS} (h : Spec L R s r) (he : r = .ok (a, s')) : R s s' := by
  rw [he] at h; exact h

/-- the matrix item of `get_params`: from the `[` before the entry cursor to the last token consumed -/
theorem getParams_pos (s : PS) (hi : Inv L s) (hp : 1 ≤ s.pos) (x : PItem) (s' : PS) (h : getParams s = .ok (x, s')) :
    Le L s s' ∧ ∃ o c, s.toks[s.pos - 1]? = some o ∧ s.toks[s'.pos - 1]? = some c ∧ x.pos = ⟨o.start, c.stop⟩ := by
  have hle : Le L s s' := Spec.ok_rel (getParams_spec s hi hp) h
  refine ⟨hle, ?_⟩
  unfold getParams at h
  cases h1 : s.prev with
  | ok o =>
    simp only [h1, bind, Outcome.bind] at h
    cases h2 : getParamArgs false (s.toks.length + 2) s Modifiers.empty with
    | ok v =>
      obtain ⟨args, s1⟩ := v
      simp only [h2] at h
      cases h3 : s1.prev with
      | ok c =>
        simp only [h3, pure, Outcome.ok.injEq, Prod.mk.injEq] at h
        obtain ⟨_, ho⟩ := prev_spec s o h1
        obtain ⟨_, hc⟩ := prev_spec s1 c h3
        rw [h.2] at hc
        rw [hle.toks_eq] at hc
        exact ⟨o, c, ho, hc, by rw [← h.1]; rfl⟩
      | err e => simp [h3] at h
      | panic q => simp [h3] at h
      | outOfFuel q => simp [h3] at h
    | err e => simp [h2] at h
    | panic q => simp [h2] at h
    | outOfFuel q => simp [h2] at h
  | err e => simp [h1, bind, Outcome.bind] at h
  | panic q => simp [h1, bind, Outcome.bind] at h
  | outOfFuel q => simp [h1, bind, Outcome.bind] at h

/-- an item that begins at the token at `j` and ends with the matrix `get_params` returned -/
theorem params_tail_item (s0 s s' : PS) (hi : Inv L s) (hp : 1 ≤ s.pos) (x : PItem) (h : getParams s = .ok (x, s'))
    (j : Nat) (tj : Token) (hj : s.toks[j]? = some tj) (hjs : j < s.pos) (_h0 : s0.toks = s.toks) :
    ItemOK L s' ⟨tj.start, x.pos.stop⟩ := by
  obtain ⟨hle, o, c, ho, hc, hx⟩ := getParams_pos s hi hp x s' h
  rw [hx]
  have hpos : 1 ≤ s'.pos := Nat.le_trans hp hle.le
  have := itemOK_span s' hle.inv j (s'.pos - 1) tj c (by have := hle.le; omega) (by omega)
    (by rw [hle.toks_eq]; exact hj) (by rw [hle.toks_eq]; exact hc)
  exact this

theorem getParams_item (s : PS) (hi : Inv L s) (hp : 1 ≤ s.pos) (x : PItem) (s' : PS) (h : getParams s = .ok (x, s')) : ItemOK L s' x.pos := by
  obtain ⟨hle, o, c, ho, hc, hx⟩ := getParams_pos s hi hp x s' h
  have := params_tail_item s s s' hi hp x h (s.pos - 1) o ho (by omega) rfl
  rw [hx] at this ⊢
  exact this

theorem groupToMatrix_pos (t : Token) (x : PItem) (h : groupToMatrix t = .ok x) : x.pos = tokPos t := by
  unfold groupToMatrix at h
  split at h
  · split at h
    · cases h; rfl
    · cases h
  · cases h

theorem joinGroup_pos (a b x : PItem) (h : joinGroupWithParams a b = .ok x) : x.pos = ⟨a.pos.start, b.pos.stop⟩ := by
  unfold joinGroupWithParams at h
  split at h
  · cases h; rfl
  · cases h

theorem getGroup_item (s : PS) (hi : Inv L s) (hk : s.cur.kind = .group) (x : PItem) (s' : PS) (h : getGroup s = .ok (x, s')) :
    ItemOK L s' x.pos := by
  have hne : s.cur.kind ≠ .eol := by rw [hk]; decide
  have hr := cur_real s hi hne
  have ha := advance_adv s hi hne
  have hadv : Adv L s s' := Spec.ok_rel (getGroup_spec s hi hk) h
  unfold getGroup at h
  cases h1 : groupToMatrix s.cur with
  | ok chr =>
    have hcp := groupToMatrix_pos s.cur chr h1
    simp only [h1, bind, Outcome.bind] at h
    rcases expect_cases s.advance .colon ha.inv (by decide) with ⟨he, h1a⟩ | he
    · simp only [he, Bool.not_true, Bool.false_eq_true, if_false] at h
      rcases expect_cases s.advance.advance .leftSquare h1a.inv (by decide) with ⟨he2, h2⟩ | he2
      · simp only [he2, Bool.not_true, Bool.false_eq_true, if_false] at h
        cases hp : getParams s.advance.advance.advance with
        | ok v =>
          obtain ⟨params, s4⟩ := v
          simp only [hp] at h
          cases hj : joinGroupWithParams chr params with
          | ok j =>
            simp only [hj, pure, Outcome.ok.injEq, Prod.mk.injEq] at h
            have hjp := joinGroup_pos chr params j hj
            rw [← h.1, ← h.2, hjp, hcp]
            have h3 : Adv L s s.advance.advance.advance := (ha.trans h1a).trans h2
            exact params_tail_item s _ s4 h2.inv h2.pos_pos params hp s.pos s.cur (by rw [h3.toks_eq]; exact hr) h3.lt h3.toks_eq.symm
          | err e => simp [hj] at h
          | panic q => simp [hj] at h
          | outOfFuel q => simp [hj] at h
        | err e => simp [hp] at h
        | panic q => simp [hp] at h
        | outOfFuel q => simp [hp] at h
      · simp [he2] at h
    · simp only [he, Bool.not_false, if_true, pure, Outcome.ok.injEq, Prod.mk.injEq] at h
      rw [← h.1, ← h.2, hcp]
      exact eaten_ok s hi hne
  | err e => simp [h1, bind, Outcome.bind] at h
  | panic q => simp [h1, bind, Outcome.bind] at h
  | outOfFuel q => simp [h1, bind, Outcome.bind] at h

theorem getIpa_item (s : PS) (hi : Inv L s) (hk : s.cur.kind = .cardinal) (x : PItem) (s' : PS) (h : getIpa s = .ok (x, s')) :
    ItemOK L s' x.pos := by
  have hne : s.cur.kind ≠ .eol := by rw [hk]; decide
  have hr := cur_real s hi hne
  have ha := advance_adv s hi hne
  unfold getIpa at h
  split at h
  · cases h
  · rename_i seg0 _
    have hd := ipaDias_spec (L := L) (tokPos s.cur) s.pos s.cur rfl (s.toks.length + 2) s.advance seg0 ha.inv
      hr (by simp [advance_pos]) (by rw [advance_toks]; omega)
    cases h1 : ipaDias (tokPos s.cur) (s.toks.length + 2) s.advance seg0 with
    | ok v =>
      obtain ⟨seg, s1⟩ := v
      have hle : Le L s.advance s1 := Spec.ok_rel hd h1
      simp only [h1, bind, Outcome.bind] at h
      have hs1 : Adv L s s1 := ha.trans_le hle
      rcases expect_cases s1 .colon hle.inv (by decide) with ⟨he, h1a⟩ | he
      · simp only [he, Bool.not_true, Bool.false_eq_true, if_false] at h
        rcases expect_cases s1.advance .leftSquare h1a.inv (by decide) with ⟨he2, h2⟩ | he2
        · simp only [he2, Bool.not_true, Bool.false_eq_true, if_false] at h
          cases hp : getParams s1.advance.advance with
          | ok v2 =>
            obtain ⟨params, s4⟩ := v2
            simp only [hp] at h
            cases hq : params.kind.asMatrix with
            | none => simp [hq] at h
            | some m =>
              simp only [hq, pure, Outcome.ok.injEq, Prod.mk.injEq] at h
              rw [← h.1, ← h.2]
              have h3 : Adv L s s1.advance.advance := (hs1.trans h1a).trans h2
              exact params_tail_item s _ s4 h2.inv h2.pos_pos params hp s.pos s.cur (by rw [h3.toks_eq]; exact hr) h3.lt h3.toks_eq.symm
          | err e => simp [hp] at h
          | panic q => simp [hp] at h
          | outOfFuel q => simp [hp] at h
        · simp [he2] at h
      · simp only [he, Bool.not_false, if_true] at h
        cases hp : s1.prev with
        | ok p =>
          simp only [hp, pure, Outcome.ok.injEq, Prod.mk.injEq] at h
          rw [← h.1, ← h.2]
          obtain ⟨hp1, hp2⟩ := prev_spec s1 p hp
          have := hs1.lt
          exact itemOK_span s1 hle.inv s.pos (s1.pos - 1) s.cur p (by omega) (by omega) (by rw [hs1.toks_eq]; exact hr) hp2
        | err e => simp [hp] at h
        | panic q => simp [hp] at h
        | outOfFuel q => simp [hp] at h
    | err e => simp [h1, bind, Outcome.bind] at h
    | panic q => simp [h1, bind, Outcome.bind] at h
    | outOfFuel q => simp [h1, bind, Outcome.bind] at h

theorem getVarAssign_pos (n : Token) (c x : PItem) (h : getVarAssign n c = .ok x) : x.pos = c.pos := by
  unfold getVarAssign at h
  cases h1 : parseUsize "get_var_assign: number-too-large" n.value with
  | ok k =>
    simp only [h1, bind, Outcome.bind] at h
    split at h
    · cases h; rfl
    · cases h
  | err e => simp [h1, bind, Outcome.bind] at h
  | panic q => simp [h1, bind, Outcome.bind] at h
  | outOfFuel q => simp [h1, bind, Outcome.bind] at h

theorem varAssignTail_item (chr : PItem) (s : PS) (hi : Inv L s) (hm : IsMatrix chr) (hc : ItemOK L s chr.pos) (x : PItem) (s' : PS)
    (h : varAssignTail chr s = .ok (some (x, s'))) : ItemOK L s' x.pos := by
  have hle : Le L s s' := by
    have := varAssignTail_spec chr s hi hm
    rw [h] at this; exact this
  unfold varAssignTail at h
  rcases expect_cases s .equals hi (by decide) with ⟨he, h1⟩ | he
  · simp only [he, if_true] at h
    cases hx : s.advance.eatExpect .number with
    | none => simp [hx] at h
    | some r =>
      obtain ⟨n, s2⟩ := r
      simp only [hx] at h
      cases hv : getVarAssign n chr with
      | ok r2 =>
        simp only [hv, bind, Outcome.bind, pure, Outcome.ok.injEq, Option.some.injEq, Prod.mk.injEq] at h
        rw [← h.1, getVarAssign_pos n chr r2 hv]
        exact hc.mono hi hle
      | err e => simp [hv, bind, Outcome.bind] at h
      | panic q => simp [hv, bind, Outcome.bind] at h
      | outOfFuel q => simp [hv, bind, Outcome.bind] at h
  · simp only [he, Bool.false_eq_true, if_false, pure, Outcome.ok.injEq, Option.some.injEq, Prod.mk.injEq] at h
    rw [← h.1]
    exact hc.mono hi hle

theorem OSpec.ok_rel {α} {R : PS → PS → Prop} {s : PS} {r : PRes (Option (α × PS))} {a : α} {s' : PS} (h : OSpec L R s r)
    (he : r = .ok (some (a, s'))) : R s s' := by
  rw [he] at h; exact h

theorem getSeg_item (s : PS) (hi : Inv L s) (x : PItem) (s' : PS) (h : getSeg s = .ok (some (x, s'))) : ItemOK L s' x.pos := by
  unfold getSeg at h
  split at h
  · rename_i hk
    have hk : s.cur.kind = .cardinal := by simpa [PS.peek] using hk
    cases h1 : getIpa s with
    | ok r =>
      obtain ⟨y, t⟩ := r
      simp only [h1, bind, Outcome.bind, pure, Outcome.ok.injEq, Option.some.injEq, Prod.mk.injEq] at h
      rw [← h.1, ← h.2]; exact getIpa_item s hi hk y t h1
    | err e => simp [h1, bind, Outcome.bind] at h
    | panic q => simp [h1, bind, Outcome.bind] at h
    | outOfFuel q => simp [h1, bind, Outcome.bind] at h
  split at h
  · rename_i hk
    have hk : s.cur.kind = .group := by simpa [PS.peek] using hk
    cases h1 : getGroup s with
    | ok r =>
      obtain ⟨chr, s1⟩ := r
      simp only [h1, bind, Outcome.bind] at h
      have hadv : Adv L s s1 := Spec.ok_rel (getGroup_spec s hi hk) h1
      exact varAssignTail_item chr s1 hadv.inv (getGroup_matrix _ _ _ h1) (getGroup_item s hi hk chr s1 h1) x s' h
    | err e => simp [h1, bind, Outcome.bind] at h
    | panic q => simp [h1, bind, Outcome.bind] at h
    | outOfFuel q => simp [h1, bind, Outcome.bind] at h
  · rcases expect_cases s .leftSquare hi (by decide) with ⟨he, h1⟩ | he
    · simp only [he, if_true] at h
      cases h2 : getParams s.advance with
      | ok r =>
        obtain ⟨params, s2⟩ := r
        simp only [h2, bind, Outcome.bind] at h
        have hle : Le L s.advance s2 := Spec.ok_rel (getParams_spec s.advance h1.inv h1.pos_pos) h2
        exact varAssignTail_item params s2 hle.inv (getParams_matrix _ _ _ h2) (getParams_item _ h1.inv h1.pos_pos params s2 h2) x s' h
      | err e => simp [h2, bind, Outcome.bind] at h
      | panic q => simp [h2, bind, Outcome.bind] at h
      | outOfFuel q => simp [h2, bind, Outcome.bind] at h
    · simp [he, pure] at h

theorem getVar_item (s : PS) (hi : Inv L s) (x : PItem) (s' : PS) (h : getVar s = .ok (some (x, s'))) : ItemOK L s' x.pos := by
  unfold getVar at h
  rcases eatExpect_cases s .number hi (by decide) with ⟨he, h1⟩ | he
  · have hkn : s.cur.kind = .number := (eatExpect_kind _ _ _ _ he).2
    have hne : s.cur.kind ≠ .eol := by rw [hkn]; decide
    have hr := cur_real s hi hne
    simp only [he] at h
    rcases expect_cases s.advance .colon h1.inv (by decide) with ⟨he2, h2⟩ | he2
    · simp only [he2, Bool.not_true, Bool.false_eq_true, if_false] at h
      rcases expect_cases s.advance.advance .leftSquare h2.inv (by decide) with ⟨he3, h3⟩ | he3
      · simp only [he3, Bool.not_true, Bool.false_eq_true, if_false] at h
        cases hp : getParams s.advance.advance.advance with
        | ok v =>
          obtain ⟨params, s4⟩ := v
          simp only [hp, bind, Outcome.bind] at h
          cases hq : params.kind.asMatrix with
          | none => simp [hq] at h
          | some m =>
            simp only [hq, pure, Outcome.ok.injEq, Option.some.injEq, Prod.mk.injEq] at h
            rw [← h.1, ← h.2]
            have h4 : Adv L s s.advance.advance.advance := (h1.trans h2).trans h3
            exact params_tail_item s _ s4 h3.inv h3.pos_pos params hp s.pos s.cur (by rw [h4.toks_eq]; exact hr) h4.lt h4.toks_eq.symm
        | err e => simp [hp, bind, Outcome.bind] at h
        | panic q => simp [hp, bind, Outcome.bind] at h
        | outOfFuel q => simp [hp, bind, Outcome.bind] at h
      · simp [he3] at h
    · simp only [he2, Bool.not_false, if_true, pure, Outcome.ok.injEq, Option.some.injEq, Prod.mk.injEq] at h
      rw [← h.1, ← h.2]
      exact eaten_ok s hi hne
  · simp [he, pure] at h

/-- the end column `get_syll` / `get_struct` compute: one before the next token when no `:[...]` follows, the end of the
    last token of the parameters otherwise; together with the start of the opening token it is a proper interval -/
theorem syllTail_end (s : PS) (hi : Inv L s) (hreal : s.toks[s.pos]? = some s.cur) (j : Nat) (tj : Token)
    (hj : s.toks[j]? = some tj) (hjs : j < s.pos) (a b : Option ModKind) (c d : Option Nat) (e : Nat) (s' : PS)
    (h : syllTail s = .ok ((a, b, c, d, e), s')) : ItemOK L s' ⟨tj.start, e⟩ := by
  unfold syllTail at h
  rcases expect_cases s .colon hi (by decide) with ⟨he, h1⟩ | he
  · simp only [he, Bool.not_true, Bool.false_eq_true, if_false] at h
    rcases expect_cases s.advance .leftSquare h1.inv (by decide) with ⟨he2, h2⟩ | he2
    · simp only [he2, Bool.not_true, Bool.false_eq_true, if_false] at h
      cases hg : getParamArgs true (s.advance.advance.toks.length + 2) s.advance.advance Modifiers.empty with
      | ok v =>
        obtain ⟨mods, s3⟩ := v
        have h3 : Le L s.advance.advance s3 := Spec.ok_rel (getParamArgs_spec true _ _ _ h2.inv (fuel_ok _)) hg
        simp only [hg, bind, Outcome.bind] at h
        cases hp : s3.prev with
        | ok p =>
          simp only [hp] at h
          cases hv : syllVarTail s3 with
          | ok w =>
            obtain ⟨v, s4⟩ := w
            have h4 : Le L s3 s4 := Spec.ok_rel (syllVarTail_spec s3 h3.inv) hv
            simp only [hv, pure, Outcome.ok.injEq, Prod.mk.injEq] at h
            obtain ⟨⟨_, _, _, _, he5⟩, hs⟩ := h
            rw [← he5, ← hs]
            obtain ⟨hp1, hp2⟩ := prev_spec s3 p hp
            have hadv : Adv L s s3 := (h1.trans h2).trans_le h3
            have hlt := hadv.lt
            have := itemOK_span s3 h3.inv j (s3.pos - 1) tj p (by omega) (by omega) (by rw [hadv.toks_eq]; exact hj) hp2
            exact this.mono h3.inv h4
          | err e' => simp [hv] at h
          | panic q => simp [hv] at h
          | outOfFuel q => simp [hv] at h
        | err e' => simp [hp] at h
        | panic q => simp [hp] at h
        | outOfFuel q => simp [hp] at h
      | err e' => simp [hg, bind, Outcome.bind] at h
      | panic q => simp [hg, bind, Outcome.bind] at h
      | outOfFuel q => simp [hg, bind, Outcome.bind] at h
    · simp [he2] at h
  · simp only [he, Bool.not_false, if_true] at h
    cases hv : syllVarTail s with
    | ok w =>
      obtain ⟨v, s2⟩ := w
      have h2 : Le L s s2 := Spec.ok_rel (syllVarTail_spec s hi) hv
      simp only [hv, bind, Outcome.bind, pure, Outcome.ok.injEq, Prod.mk.injEq] at h
      obtain ⟨⟨_, _, _, _, he5⟩, hs⟩ := h
      rw [← he5, ← hs]
      have hsort := hi.1.sorted j s.pos tj s.cur hjs hj hreal
      have hspan := hi.1.span tj (List.mem_of_getElem? hj)
      have hcur := hi.1.span s.cur (List.mem_of_getElem? hreal)
      have hw : wpred s.cur.start = s.cur.start - 1 := by
        unfold wpred; have : ¬ s.cur.start = 0 := by omega
        rw [if_neg this]
      have hat : ItemOK L s ⟨tj.start, wpred s.cur.start⟩ := by
        refine ⟨by rw [hw]; show tj.start ≤ s.cur.start - 1; omega, by rw [hw]; show s.cur.start - 1 ≤ L + 1; omega, fun t ht => ?_⟩
        rw [hreal] at ht; cases ht
        rw [hw]; show s.cur.start - 1 ≤ s.cur.start; omega
      exact hat.mono hi h2
    | err e' => simp [hv, bind, Outcome.bind] at h
    | panic q => simp [hv, bind, Outcome.bind] at h
    | outOfFuel q => simp [hv, bind, Outcome.bind] at h

/-- after `advance` from a token that is neither `Eol` nor a comment the current token is a token of the list -/
theorem advance_real (s : PS) (hi : Inv L s) (hk : s.cur.kind ≠ .eol) (hc : s.cur.kind ≠ .comment) :
    s.advance.toks[s.advance.pos]? = some s.advance.cur := by
  have hr := cur_real s hi hk
  have hn := hi.1.notLast s.pos s.cur hr hk
  have hcb : (s.cur.kind != TK.comment) = true := by simpa using hc
  simp only [PS.advance, hn, hcb, decide_true, Bool.and_self, if_true]
  rw [List.getD_eq_getElem?_getD, List.getElem?_eq_getElem hn]; rfl

theorem getSyll_item (s : PS) (hi : Inv L s) (x : PItem) (s' : PS) (h : getSyll s = .ok (some (x, s'))) : ItemOK L s' x.pos := by
  unfold getSyll at h
  rcases expect_cases s .syllable hi (by decide) with ⟨he, h1⟩ | he
  · have hk : s.cur.kind = .syllable := expect_true_kind s _ _ he
    have hne : s.cur.kind ≠ .eol := by rw [hk]; decide
    have hr := cur_real s hi hne
    simp only [he, Bool.not_true, Bool.false_eq_true, if_false] at h
    cases ht : syllTail s.advance with
    | ok v =>
      obtain ⟨⟨a, b, c, d, e⟩, s2⟩ := v
      simp only [ht, bind, Outcome.bind, pure, Outcome.ok.injEq, Option.some.injEq, Prod.mk.injEq] at h
      rw [← h.1, ← h.2]
      exact syllTail_end s.advance h1.inv (advance_real s hi hne (by rw [hk]; decide)) s.pos s.cur (by rw [advance_toks]; exact hr)
        (by simp [advance_pos]) a b c d e s2 ht
    | err e' => simp [ht, bind, Outcome.bind] at h
    | panic q => simp [ht, bind, Outcome.bind] at h
    | outOfFuel q => simp [ht, bind, Outcome.bind] at h
  · simp [he, pure] at h

theorem getSet_item (s : PS) (hi : Inv L s) (x : PItem) (s' : PS) (h : getSet s = .ok (some (x, s'))) : ItemOK L s' x.pos := by
  unfold getSet at h
  rcases expect_cases s .leftCurly hi (by decide) with ⟨he, h1⟩ | he
  · have hk := expect_true_kind s _ _ he
    have hreal := cur_real s hi (by rw [hk]; decide)
    simp only [he, Bool.not_true, Bool.false_eq_true, if_false] at h
    cases hl : setLoop (s.advance.toks.length + 2) s.advance [] with
    | ok v =>
      obtain ⟨terms, s2⟩ := v
      have h2 : Le L s.advance s2 := Spec.ok_rel (setLoop_spec _ s.advance [] h1.inv (fuel_ok _)) hl
      simp only [hl, bind, Outcome.bind] at h
      cases hp : s2.prev with
      | ok p =>
        simp only [hp] at h
        split at h
        · cases h
        · simp only [pure, Outcome.ok.injEq, Option.some.injEq, Prod.mk.injEq] at h
          rw [← h.1, ← h.2]
          obtain ⟨hp1, hp2⟩ := prev_spec s2 p hp
          have hadv : Adv L s s2 := h1.trans_le h2
          have hlt := hadv.lt
          exact itemOK_span s2 h2.inv s.pos (s2.pos - 1) s.cur p (by omega) (by omega) (by rw [hadv.toks_eq]; exact hreal) hp2
      | err e => simp [hp] at h
      | panic q => simp [hp] at h
      | outOfFuel q => simp [hp] at h
    | err e => simp [hl, bind, Outcome.bind] at h
    | panic q => simp [hl, bind, Outcome.bind] at h
    | outOfFuel q => simp [hl, bind, Outcome.bind] at h
  · simp [he, pure] at h

/-- the loop of `get_struct` ends on a token of the list (it stops after a `⟩`, which is not a comment) -/
theorem structLoop_real : ∀ (fuel : Nat) (s : PS) (terms : List PItem) (ts : List PItem) (s' : PS), Inv L s → s.toks.length - s.pos < fuel →
    structLoop fuel s terms = .ok (ts, s') → s'.toks[s'.pos]? = some s'.cur := by
  intro fuel
  induction fuel with
  | zero => intro s t _ _ _ h; omega
  | succ n ih =>
    intro s terms ts s' hi hf h
    unfold structLoop at h
    split at h
    · rename_i hm; exfalso; have := hi.2.1; simp [PS.hasMore] at hm; omega
    split at h
    · rename_i hk
      simp only [Outcome.ok.injEq, Prod.mk.injEq] at h
      rw [← h.2]
      exact advance_real s hi (by rw [hk]; decide) (by rw [hk]; decide)
    have h1 := getSeg_spec s hi
    split at h
    · rename_i x s1 hx; rw [hx] at h1
      have ha : Adv L s s1 := h1
      exact ih _ _ _ _ ha.inv (measure_lt ha hf) h
    · split at h
      · rename_i el s1 hx
        rcases eatExpect_cases s .ellipsis hi (by decide) with ⟨he, ha⟩ | he
        · rw [he] at hx; cases hx
          exact ih _ _ _ _ ha.inv (measure_lt ha hf) h
        · rw [he] at hx; cases hx
      · have h2 := getVar_spec s hi
        split at h
        · rename_i x s1 hx; rw [hx] at h2
          have ha : Adv L s s1 := h2
          exact ih _ _ _ _ ha.inv (measure_lt ha hf) h
        · cases h
        · cases h
        · cases h
        · cases h
    · cases h
    · cases h
    · cases h

theorem getStruct_item (s : PS) (hi : Inv L s) (x : PItem) (s' : PS) (h : getStruct s = .ok (some (x, s'))) : ItemOK L s' x.pos := by
  unfold getStruct at h
  rcases expect_cases s .leftAngle hi (by decide) with ⟨he, h1⟩ | he
  · have hk := expect_true_kind s _ _ he
    have hreal := cur_real s hi (by rw [hk]; decide)
    simp only [he, Bool.not_true, Bool.false_eq_true, if_false] at h
    cases hl : structLoop (s.advance.toks.length + 2) s.advance [] with
    | ok v =>
      obtain ⟨terms, s2⟩ := v
      have h2 : Le L s.advance s2 := Spec.ok_rel (structLoop_spec _ s.advance [] h1.inv (fuel_ok _)) hl
      have hr2 := structLoop_real _ s.advance [] terms s2 h1.inv (fuel_ok _) hl
      simp only [hl, bind, Outcome.bind] at h
      cases ht : syllTail s2 with
      | ok w =>
        obtain ⟨⟨a, b, c, d, e⟩, s3⟩ := w
        simp only [ht, pure, Outcome.ok.injEq, Option.some.injEq, Prod.mk.injEq] at h
        rw [← h.1, ← h.2]
        have hadv : Adv L s s2 := h1.trans_le h2
        exact syllTail_end s2 h2.inv hr2 s.pos s.cur (by rw [hadv.toks_eq]; exact hreal) hadv.lt a b c d e s3 ht
      | err e' => simp [ht] at h
      | panic q => simp [ht] at h
      | outOfFuel q => simp [ht] at h
    | err e => simp [hl, bind, Outcome.bind] at h
    | panic q => simp [hl, bind, Outcome.bind] at h
    | outOfFuel q => simp [hl, bind, Outcome.bind] at h
  · simp [he, pure] at h

theorem getTerm_item (s : PS) (hi : Inv L s) (x : PItem) (s' : PS) (h : getTerm s = .ok (some (x, s'))) : ItemOK L s' x.pos := by
  unfold getTerm at h
  cases hx1 : getSyll s with
  | ok v1 =>
    cases v1 with
    | some r =>
      obtain ⟨y, t⟩ := r
      simp only [hx1, bind, Outcome.bind, pure, Outcome.ok.injEq, Option.some.injEq, Prod.mk.injEq] at h
      rw [← h.1, ← h.2]; exact getSyll_item s hi y t hx1
    | none =>
      simp only [hx1, bind, Outcome.bind] at h
      cases hx2 : getStruct s with
      | ok v2 =>
        cases v2 with
        | some r =>
          obtain ⟨y, t⟩ := r
          simp only [hx2, bind, Outcome.bind, pure, Outcome.ok.injEq, Option.some.injEq, Prod.mk.injEq] at h
          rw [← h.1, ← h.2]; exact getStruct_item s hi y t hx2
        | none =>
          simp only [hx2, bind, Outcome.bind] at h
          cases hx3 : getSet s with
          | ok v3 =>
            cases v3 with
            | some r =>
              obtain ⟨y, t⟩ := r
              simp only [hx3, bind, Outcome.bind, pure, Outcome.ok.injEq, Option.some.injEq, Prod.mk.injEq] at h
              rw [← h.1, ← h.2]; exact getSet_item s hi y t hx3
            | none =>
              simp only [hx3, bind, Outcome.bind] at h
              cases hx4 : getSeg s with
              | ok v4 =>
                cases v4 with
                | some r =>
                  obtain ⟨y, t⟩ := r
                  simp only [hx4, bind, Outcome.bind, pure, Outcome.ok.injEq, Option.some.injEq, Prod.mk.injEq] at h
                  rw [← h.1, ← h.2]; exact getSeg_item s hi y t hx4
                | none =>
                  simp only [hx4, bind, Outcome.bind] at h
                  cases hx5 : getVar s with
                  | ok v5 =>
                    cases v5 with
                    | some r =>
                      obtain ⟨y, t⟩ := r
                      simp only [hx5, bind, Outcome.bind, pure, Outcome.ok.injEq, Option.some.injEq, Prod.mk.injEq] at h
                      rw [← h.1, ← h.2]; exact getVar_item s hi y t hx5
                    | none =>
                      simp only [hx5, bind, Outcome.bind] at h
                      cases hx6 : getOpt s with
                      | ok v6 =>
                        cases v6 with
                        | some r => obtain ⟨y, t⟩ := r; simp [hx6] at h
                        | none => simp [hx6, pure] at h
                      | err e => simp [hx6] at h
                      | panic q => simp [hx6] at h
                      | outOfFuel q => simp [hx6] at h
                  | err e => simp [hx5, bind, Outcome.bind] at h
                  | panic q => simp [hx5, bind, Outcome.bind] at h
                  | outOfFuel q => simp [hx5, bind, Outcome.bind] at h
              | err e => simp [hx4, bind, Outcome.bind] at h
              | panic q => simp [hx4, bind, Outcome.bind] at h
              | outOfFuel q => simp [hx4, bind, Outcome.bind] at h
          | err e => simp [hx3, bind, Outcome.bind] at h
          | panic q => simp [hx3, bind, Outcome.bind] at h
          | outOfFuel q => simp [hx3, bind, Outcome.bind] at h
      | err e => simp [hx2, bind, Outcome.bind] at h
      | panic q => simp [hx2, bind, Outcome.bind] at h
      | outOfFuel q => simp [hx2, bind, Outcome.bind] at h
  | err e => simp [hx1, bind, Outcome.bind] at h
  | panic q => simp [hx1, bind, Outcome.bind] at h
  | outOfFuel q => simp [hx1, bind, Outcome.bind] at h

theorem getOutputEl_item (s : PS) (hi : Inv L s) (x : PItem) (s' : PS) (h : getOutputEl s = .ok (some (x, s'))) : ItemOK L s' x.pos := by
  unfold getOutputEl at h
  cases hx1 : getSyll s with
  | ok v1 =>
    cases v1 with
    | some r =>
      obtain ⟨y, t⟩ := r
      simp only [hx1, bind, Outcome.bind, pure, Outcome.ok.injEq, Option.some.injEq, Prod.mk.injEq] at h
      rw [← h.1, ← h.2]; exact getSyll_item s hi y t hx1
    | none =>
      simp only [hx1, bind, Outcome.bind] at h
      cases hx2 : getStruct s with
      | ok v2 =>
        cases v2 with
        | some r =>
          obtain ⟨y, t⟩ := r
          simp only [hx2, bind, Outcome.bind, pure, Outcome.ok.injEq, Option.some.injEq, Prod.mk.injEq] at h
          rw [← h.1, ← h.2]; exact getStruct_item s hi y t hx2
        | none =>
          simp only [hx2, bind, Outcome.bind] at h
          cases hx3 : getSet s with
          | ok v3 =>
            cases v3 with
            | some r =>
              obtain ⟨y, t⟩ := r
              simp only [hx3, bind, Outcome.bind, pure, Outcome.ok.injEq, Option.some.injEq, Prod.mk.injEq] at h
              rw [← h.1, ← h.2]; exact getSet_item s hi y t hx3
            | none =>
              simp only [hx3, bind, Outcome.bind] at h
              cases hx4 : getSeg s with
              | ok v4 =>
                cases v4 with
                | some r =>
                  obtain ⟨y, t⟩ := r
                  simp only [hx4, bind, Outcome.bind, pure, Outcome.ok.injEq, Option.some.injEq, Prod.mk.injEq] at h
                  rw [← h.1, ← h.2]; exact getSeg_item s hi y t hx4
                | none =>
                  simp only [hx4, bind, Outcome.bind] at h
                  cases hx5 : getVar s with
                  | ok v5 =>
                    cases v5 with
                    | some r =>
                      obtain ⟨y, t⟩ := r
                      simp only [hx5, bind, Outcome.bind, pure, Outcome.ok.injEq, Option.some.injEq, Prod.mk.injEq] at h
                      rw [← h.1, ← h.2]; exact getVar_item s hi y t hx5
                    | none =>
                      simp only [hx5, bind, Outcome.bind] at h
                      simp only [pure, Outcome.ok.injEq] at h
                      exact getSyllBound_item s hi x s' h
                  | err e => simp [hx5, bind, Outcome.bind] at h
                  | panic q => simp [hx5, bind, Outcome.bind] at h
                  | outOfFuel q => simp [hx5, bind, Outcome.bind] at h
              | err e => simp [hx4, bind, Outcome.bind] at h
              | panic q => simp [hx4, bind, Outcome.bind] at h
              | outOfFuel q => simp [hx4, bind, Outcome.bind] at h
          | err e => simp [hx3, bind, Outcome.bind] at h
          | panic q => simp [hx3, bind, Outcome.bind] at h
          | outOfFuel q => simp [hx3, bind, Outcome.bind] at h
      | err e => simp [hx2, bind, Outcome.bind] at h
      | panic q => simp [hx2, bind, Outcome.bind] at h
      | outOfFuel q => simp [hx2, bind, Outcome.bind] at h
  | err e => simp [hx1, bind, Outcome.bind] at h
  | panic q => simp [hx1, bind, Outcome.bind] at h
  | outOfFuel q => simp [hx1, bind, Outcome.bind] at h

/-- the last item of what `get_input_els` returns ends at or before the token under the final cursor -/
theorem inputElsLoop_last : ∀ (fuel : Nat) (s : PS) (els term : List PItem) (s1 : PS), Inv L s → s.toks.length - s.pos < fuel →
    (∀ it, els.getLast? = some it → ItemOK L s it.pos) → inputElsLoop fuel s els = .ok (term, s1) →
    ∀ it, term.getLast? = some it → ItemOK L s1 it.pos := by
  intro fuel
  induction fuel with
  | zero => intro s _ _ _ _ h; omega
  | succ n ih =>
    intro s els term s1 hi hf hels h
    have cont : ∀ (s' : PS) (x : PItem), Adv L s s' → ItemOK L s' x.pos → inputElsLoop n s' (els ++ [x]) = .ok (term, s1) →
        ∀ it, term.getLast? = some it → ItemOK L s1 it.pos :=
      fun s' x ha hx hr => ih s' (els ++ [x]) term s1 ha.inv (measure_lt ha hf)
        (fun it hit => by simp only [List.getLast?_append, List.getLast?_singleton, Option.some_or] at hit; cases hit; exact hx) hr
    unfold inputElsLoop at h
    split at h
    · rename_i el s' hx
      rcases eatExpect_cases s .ellipsis hi (by decide) with ⟨he, ha⟩ | he
      · rw [he] at hx; cases hx
        have hk : s.cur.kind ≠ .eol := by have := (eatExpect_kind _ _ _ _ he).2; rw [this]; decide
        exact cont _ (.mk .ellipsis (tokPos s.cur)) ha (eaten_ok s hi hk) h
      · rw [he] at hx; cases hx
    split at h
    · rename_i x s' hx
      exact cont _ x (getSyllBound_spec s hi x s' hx) (getSyllBound_item s hi x s' hx) h
    have h1 := getTerm_spec s hi
    split at h
    · rename_i x s' hx; rw [hx] at h1
      exact cont _ x h1 (getTerm_item s hi x s' hx) h
    · split at h
      · cases h
      · simp only [Outcome.ok.injEq, Prod.mk.injEq] at h
        rw [← h.1, ← h.2]; exact hels
    · cases h
    · cases h
    · cases h

theorem outputElsLoop_last : ∀ (fuel : Nat) (s : PS) (els term : List PItem) (s1 : PS), Inv L s → s.toks.length - s.pos < fuel →
    (∀ it, els.getLast? = some it → ItemOK L s it.pos) → outputElsLoop fuel s els = .ok (term, s1) →
    ∀ it, term.getLast? = some it → ItemOK L s1 it.pos := by
  intro fuel
  induction fuel with
  | zero => intro s _ _ _ _ h; omega
  | succ n ih =>
    intro s els term s1 hi hf hels h
    unfold outputElsLoop at h
    have h1 := getOutputEl_spec s hi
    split at h
    · rename_i x s' hx; rw [hx] at h1
      have ha : Adv L s s' := h1
      exact ih s' (els ++ [x]) term s1 ha.inv (measure_lt ha hf)
        (fun it hit => by simp only [List.getLast?_append, List.getLast?_singleton, Option.some_or] at hit; cases hit; exact getOutputEl_item s hi x s' hx) h
    · simp only [Outcome.ok.injEq, Prod.mk.injEq] at h
      rw [← h.1, ← h.2]; exact hels
    · cases h
    · cases h
    · cases h

end Asca.Parse.Spans
