import AscaVerif.Model.AliasParser
import AscaVerif.Lemmas.ParseSpans
import AscaVerif.Lemmas.ALex
/-! The alias parser under the invariant the alias lexer establishes (the scheme of `Lemmas/ParseSpans.lean`): the token
    list ends with `Eol`, every token satisfies `ALex.ATokX`, the cursor is inside the list and the current token is the
    token under it.  Under this invariant a panic is not an acceptable outcome (`Spec`, `NoFuel` map `.panic _` to
    `False`): every index, `expect()` and `unreachable!()` site of `alias/parser.rs` is shown unreachable. -/
namespace Asca.AParse.T
open Asca.AParse
open ALex (AToken ATK ATokX)
open Parse (PErr PRes)

/-- what the alias lexer guarantees about the token list of a line -/
structure AToksOK (toks : List AToken) : Prop where
  lastEol : ∃ t, toks.getLast? = some t ∧ t.kind = .eol
  vals : ∀ t ∈ toks, ATokX t

def Inv (s : APS) : Prop := AToksOK s.toks ∧ s.pos < s.toks.length ∧ s.toks[s.pos]? = some s.cur

structure Le (s s' : APS) : Prop where
  toks_eq : s'.toks = s.toks
  le : s.pos ≤ s'.pos
  inv : Inv s'

structure Adv (s s' : APS) : Prop where
  toks_eq : s'.toks = s.toks
  lt : s.pos < s'.pos
  inb : s.pos < s.toks.length
  inv : Inv s'

theorem Le.refl (s : APS) (h : Inv s) : Le s s := ⟨rfl, Nat.le_refl _, h⟩
theorem Adv.toLe {s s' : APS} (h : Adv s s') : Le s s' := ⟨h.toks_eq, Nat.le_of_lt h.lt, h.inv⟩
theorem Le.trans {a b c : APS} (h1 : Le a b) (h2 : Le b c) : Le a c :=
  ⟨h2.toks_eq.trans h1.toks_eq, Nat.le_trans h1.le h2.le, h2.inv⟩
theorem Adv.trans_le {a b c : APS} (h1 : Adv a b) (h2 : Le b c) : Adv a c :=
  ⟨h2.toks_eq.trans h1.toks_eq, Nat.lt_of_lt_of_le h1.lt h2.le, h1.inb, h2.inv⟩
theorem Le.trans_adv {a b c : APS} (h1 : Le a b) (h2 : Adv b c) : Adv a c :=
  ⟨h2.toks_eq.trans h1.toks_eq, Nat.lt_of_le_of_lt h1.le h2.lt,
   by have := h2.inb; rw [h1.toks_eq] at this; exact Nat.lt_of_le_of_lt h1.le this, h2.inv⟩

theorem advance_adv (s : APS) (hi : Inv s) (hk : s.cur.kind ≠ .eol) : Adv s s.advance := by
  obtain ⟨hok, hlt, hcur⟩ := hi
  have hnl : s.pos + 1 < s.toks.length := by
    apply Classical.byContradiction; intro h
    obtain ⟨t, hl, hte⟩ := hok.lastEol
    rw [List.getLast?_eq_getElem?] at hl
    have : s.toks.length - 1 = s.pos := by omega
    rw [this, hcur] at hl
    cases hl; exact hk hte
  refine ⟨rfl, by simp [APS.advance], hlt, hok, by simpa [APS.advance] using hnl, ?_⟩
  simp only [APS.advance, hnl, if_true]
  rw [List.getD_eq_getElem?_getD, List.getElem?_eq_getElem hnl]; rfl

theorem cur_tokx (s : APS) (hi : Inv s) : ATokX s.cur := hi.1.vals s.cur (List.mem_of_getElem? hi.2.2)

theorem expect_cases (s : APS) (k : ATK) (hi : Inv s) (hk : k ≠ .eol) :
    (s.expect k = (true, s.advance) ∧ Adv s s.advance) ∨ s.expect k = (false, s) := by
  unfold APS.expect
  by_cases h : s.cur.kind = k
  · left; simp only [h, if_true]; exact ⟨trivial, advance_adv s hi (by rw [h]; exact hk)⟩
  · right; simp only [h, if_false]

theorem eatExpect_cases (s : APS) (k : ATK) (hi : Inv s) (hk : k ≠ .eol) :
    (s.eatExpect k = some (s.cur, s.advance) ∧ Adv s s.advance) ∨ s.eatExpect k = none := by
  unfold APS.eatExpect
  by_cases h : s.cur.kind = k
  · left; simp only [h, if_true]; exact ⟨trivial, advance_adv s hi (by rw [h]; exact hk)⟩
  · right; simp only [h, if_false]

theorem measure_lt {s s' : APS} (h : Adv s s') {fuel : Nat} (hf : s.toks.length - s.pos < fuel + 1) :
    s'.toks.length - s'.pos < fuel := by
  have := h.lt; have := h.inb; rw [h.toks_eq]; omega

/-- neither out of fuel nor a panic, and a success did not move backwards -/
def Spec {α} (R : APS → APS → Prop) (s : APS) : PRes (α × APS) → Prop
  | .ok (_, s') => R s s'
  | .err _ => True
  | .panic _ => False
  | .outOfFuel _ => False

def NoFuel {α} : PRes α → Prop
  | .ok _ => True
  | .err _ => True
  | .panic _ => False
  | .outOfFuel _ => False

theorem Spec.of_le {α} {s s1 : APS} {r : PRes (α × APS)} (h : Le s s1) (hr : Spec Le s1 r) : Spec Le s r := by
  cases r with
  | ok v => obtain ⟨a, s'⟩ := v; exact h.trans hr
  | err e => trivial
  | panic p => exact hr
  | outOfFuel p => exact hr

theorem Spec.weaken {α} {s : APS} {r : PRes (α × APS)} (hr : Spec Adv s r) : Spec Le s r := by
  cases r with
  | ok v => obtain ⟨a, s'⟩ := v; exact Adv.toLe hr
  | err e => trivial
  | panic p => exact hr
  | outOfFuel p => exact hr

theorem Spec.bind {α β} {R1 R2 R3 : APS → APS → Prop} {s0 s : APS} {x : PRes (α × APS)} {f : α × APS → PRes (β × APS)}
    (hx : Spec R1 s x) (hf : ∀ a s', R1 s s' → Spec R2 s' (f (a, s')))
    (hR : ∀ b c, R1 s b → R2 b c → R3 s0 c) : Spec R3 s0 (x >>= f) := by
  cases x with
  | ok v =>
    obtain ⟨a, s'⟩ := v
    have h1 : R1 s s' := hx
    have h2 := hf a s' h1
    show Spec R3 s0 (f (a, s'))
    cases hfv : f (a, s') with
    | ok w => obtain ⟨b, s''⟩ := w; rw [hfv] at h2; exact hR s' s'' h1 h2
    | err e => trivial
    | panic p => rw [hfv] at h2; exact h2
    | outOfFuel p => rw [hfv] at h2; exact h2
  | err e => trivial
  | panic p => exact hx
  | outOfFuel p => exact hx

theorem Spec.bindN {α β} {R : APS → APS → Prop} {s : APS} {x : PRes (α × APS)} {f : α × APS → PRes β}
    (hx : Spec R s x) (hf : ∀ a s', R s s' → NoFuel (f (a, s'))) : NoFuel (x >>= f) := by
  cases x with
  | ok v => obtain ⟨a, s'⟩ := v; exact hf a s' hx
  | err e => trivial
  | panic p => exact hx
  | outOfFuel p => exact hx

theorem NoFuel.bind {α β} {R : APS → APS → Prop} {s : APS} {x : PRes α} {f : α → PRes (β × APS)}
    (hx : NoFuel x) (hf : ∀ a, Spec R s (f a)) : Spec R s (x >>= f) := by
  cases x with
  | ok a => exact hf a
  | err e => trivial
  | panic p => exact hx
  | outOfFuel p => exact hx

theorem prev_nofuel (s : APS) (hi : Inv s) (hp : 0 < s.pos) : NoFuel s.prev := by
  unfold APS.prev
  have h1 : ¬ s.pos = 0 := by omega
  rw [if_neg h1]
  have : s.pos - 1 < s.toks.length := by have := hi.2.1; omega
  rw [List.getElem?_eq_getElem this]
  trivial

theorem here_nofuel (s : APS) (hi : Inv s) : NoFuel s.here := by
  unfold APS.here
  rw [hi.2.2]
  trivial

theorem fuel_ok (s : APS) : s.toks.length - s.pos < s.toks.length + 2 := by omega

/-! ### replacements -/

theorem getEmpty_spec (s : APS) (hi : Inv s) (x : AItem) (s' : APS) (h : getEmpty s = some (x, s')) : Adv s s' := by
  unfold getEmpty at h
  split at h
  · cases h
  · rename_i hc
    simp only [Option.some.injEq, Prod.mk.injEq] at h
    rw [← h.2]
    refine advance_adv s hi ?_
    intro hk
    simp [APS.peek, hk] at hc

/-- `get_replacement_term` never moves backwards, and a term consumed a token -/
theorem getReplacementTerm_spec (s : APS) (hi : Inv s) :
    Le s (getReplacementTerm s).2 ∧ ∀ r, (getReplacementTerm s).1 = some r → Adv s (getReplacementTerm s).2 := by
  unfold getReplacementTerm
  cases he : getEmpty s with
  | some r =>
    obtain ⟨x, s'⟩ := r
    have := getEmpty_spec s hi x s' he
    exact ⟨this.toLe, fun _ _ => this⟩
  | none =>
    simp only
    rcases expect_cases s .plus hi (by decide) with ⟨hp, h1⟩ | hp
    · simp only [hp]
      split
      · exact ⟨h1.toLe, fun _ h => by cases h⟩
      · rename_i hs
        have hk : s.advance.cur.kind ≠ .eol := by
          intro hk; simp [APS.peek, hk] at hs
        have h2 := advance_adv s.advance h1.inv hk
        exact ⟨(h1.toLe.trans h2.toLe), fun _ _ => ⟨h2.toks_eq.trans h1.toks_eq, Nat.lt_trans h1.lt h2.lt, h1.inb, h2.inv⟩⟩
    · simp only [hp]
      split
      · exact ⟨Le.refl s hi, fun _ h => by cases h⟩
      · rename_i hs
        have hk : s.cur.kind ≠ .eol := by
          intro hk; simp [APS.peek, hk] at hs
        have h2 := advance_adv s hi hk
        exact ⟨h2.toLe, fun _ _ => h2⟩

theorem replLoop_spec : ∀ (fuel : Nat) (s : APS) (acc : List AItem), Inv s → s.toks.length - s.pos < fuel →
    Spec Le s (replLoop fuel s acc) := by
  intro fuel
  induction fuel with
  | zero => intro s _ _ h; omega
  | succ n ih =>
    intro s acc hi hf
    unfold replLoop
    rcases expect_cases s .comma hi (by decide) with ⟨he, h1⟩ | he
    · simp only [he]
      have ht := getReplacementTerm_spec s.advance h1.inv
      rcases hr : getReplacementTerm s.advance with ⟨o, s2⟩
      rw [hr] at ht
      simp only [Bool.not_true, Bool.false_eq_true, if_false]
      cases o with
      | some r =>
        obtain ⟨x, sx⟩ := r
        have ha : Adv s s2 := h1.trans_le (ht.2 _ rfl).toLe
        exact Spec.of_le ha.toLe (ih s2 _ ha.inv (measure_lt ha hf))
      | none => exact h1.toLe.trans ht.1
    · simp only [he, Bool.not_false, if_true]
      exact Le.refl s hi

theorem getReplacements_spec (s : APS) (hi : Inv s) : Spec Le s (getReplacements s) := by
  unfold getReplacements
  have ht := getReplacementTerm_spec s hi
  rcases hr : getReplacementTerm s with ⟨o, s1⟩
  rw [hr] at ht
  cases o with
  | some r =>
    obtain ⟨x, sx⟩ := r
    exact Spec.of_le ht.1 (replLoop_spec _ s1 _ ht.1.inv (by rw [ht.1.toks_eq]; have := ht.1.le; omega))
  | none =>
    simp only
    have := here_nofuel s1 ht.1.inv
    split
    · trivial
    · trivial
    · rename_i hx; rw [hx] at this; exact this
    · rename_i hx; rw [hx] at this; exact this

/-! ### segments -/

/-- every row of the alias feature table names a node, a feature or a suprasegmental the alias parser knows (checked
    by the kernel over the regenerated table) -/
theorem arows_ok : Gen.aliasFeatNames.all (fun r =>
    (r.1 == "Node" && (Parse.nodeIndex r.2.1).isSome) || (r.1 == "Feat" && (Parse.featIndex r.2.1).isSome) ||
    (r.1 == "Supr" && (r.2.1 == "Long" || r.2.1 == "Overlong" || r.2.1 == "Stress" || r.2.1 == "SecStress" || r.2.1 == "Tone"))) = true := by
  decide +kernel

theorem isDigit_43 : Lex.isDigit 43 = false := by decide
theorem isDigit_45 : Lex.isDigit 45 = false := by decide

/-- `curr_token_to_modifier` and the `match ft` of `get_param_args` on a feature token of the lexer: no `unreachable!()`,
    no failed `parse()`, no index out of the node / feature arrays -/
theorem putArg_nofuel (a : Modifiers) (t : AToken) (k v : String) (hx : ATokX t) (hk : t.kind = .feature k v) :
    NoFuel (putArg a t k v) := by
  rcases hx.2 k v hk with ⟨rfl, rfl, hne, hdig, hlt⟩ | ⟨⟨names, hrow⟩, hnt, hval⟩
  · -- a tone: digits below 2^16
    have h43 : t.value ≠ [43] := by
      intro h; rw [h] at hdig; simp [isDigit_43] at hdig
    have h45 : t.value ≠ [45] := by
      intro h; rw [h] at hdig; simp [isDigit_45] at hdig
    have hemp : t.value.isEmpty = false := by cases hv : t.value with | nil => exact absurd hv hne | cons _ _ => rfl
    unfold putArg
    simp only [h43, h45, if_false, Bool.and_self, decide_true, if_true, hemp, Bool.not_false, hdig, hlt]
    trivial
  · have hr := List.all_eq_true.mp arows_ok _ hrow
    simp only [Bool.or_eq_true, Bool.and_eq_true, beq_iff_eq] at hr
    have hb : ∃ b, (if t.value = [43] then some BinMod.pos else if t.value = [45] then some BinMod.neg else none) = some b := by
      rcases hval with h | h
      · exact ⟨.pos, by rw [if_pos h]⟩
      · exact ⟨.neg, by rw [h]; simp⟩
    obtain ⟨b, hb⟩ := hb
    unfold putArg
    simp only [hb]
    rcases hr with (⟨rfl, hn⟩ | ⟨rfl, hf⟩) | ⟨rfl, hs⟩
    · simp only [if_true]
      cases hni : Parse.nodeIndex v with
      | none => rw [hni] at hn; cases hn
      | some i => trivial
    · have : ¬ ("Feat" = "Node") := by decide
      simp only [this, if_false, if_true]
      cases hfi : Parse.featIndex v with
      | none => rw [hfi] at hf; cases hf
      | some i => trivial
    · have h1 : ¬ ("Supr" = "Node") := by decide
      have h2 : ¬ ("Supr" = "Feat") := by decide
      simp only [h1, h2, if_false]
      rcases hs with (((rfl | rfl) | rfl) | rfl) | rfl
      · trivial
      · trivial
      · trivial
      · trivial
      · exact absurd ⟨rfl, rfl⟩ hnt

theorem getParamArgs_spec : ∀ (fuel : Nat) (s : APS) (args : Modifiers), Inv s → s.toks.length - s.pos < fuel →
    Spec Le s (getParamArgs fuel s args) := by
  intro fuel
  induction fuel with
  | zero => intro s _ _ h; omega
  | succ n ih =>
    intro s args hi hf
    unfold getParamArgs
    split
    · exact Le.refl s hi
    split
    · rename_i hk; exact (advance_adv s hi (by rw [hk]; decide)).toLe
    split
    · rename_i hk
      have ha := advance_adv s hi (by rw [hk]; decide)
      exact Spec.of_le ha.toLe (ih _ _ ha.inv (measure_lt ha hf))
    split
    · rename_i kind variant hk
      have ha := advance_adv s hi (by rw [hk]; intro h; cases h)
      have h1 := putArg_nofuel args s.cur kind variant (cur_tokx s hi) hk
      split
      · exact Spec.of_le ha.toLe (ih _ _ ha.inv (measure_lt ha hf))
      · trivial
      · rename_i hx; rw [hx] at h1; exact h1
      · rename_i hx; rw [hx] at h1; exact h1
    · trivial
    · trivial

theorem getParams_spec (s : APS) (hi : Inv s) (hp : 0 < s.pos) : Spec Le s (getParams s) := by
  unfold getParams
  refine NoFuel.bind (prev_nofuel s hi hp) (fun open_ => ?_)
  refine Spec.bind (R1 := Le) (R2 := Le) (getParamArgs_spec _ s _ hi (fuel_ok s)) (fun args s' hle => ?_) (fun b c h1 h2 => h1.trans h2)
  refine NoFuel.bind (prev_nofuel s' hle.inv (Nat.lt_of_lt_of_le hp hle.le)) (fun close => ?_)
  exact Le.refl s' hle.inv

theorem ipaDias_spec (elm : Parse.Pos) : ∀ (fuel : Nat) (s : APS) (seg : Seg), Inv s → s.toks.length - s.pos < fuel →
    Spec Le s (ipaDias elm fuel s seg) := by
  intro fuel
  induction fuel with
  | zero => intro s _ _ h; omega
  | succ n ih =>
    intro s seg hi hf
    unfold ipaDias
    split
    · rename_i i hk
      have ha := advance_adv s hi (by rw [hk]; intro h; cases h)
      have hlt : i < Gen.diacritics.length := (cur_tokx s hi).1 i hk
      simp only
      split
      · rename_i hd; rw [List.getElem?_eq_getElem hlt] at hd; cases hd
      · rename_i d hd
        have h1 := Parse.Spans.checkAndApplyDia_nofuel (L := 0) seg d (Parse.Spans.dia_in_table i d hd)
        split
        · exact Spec.of_le ha.toLe (ih _ _ ha.inv (measure_lt ha hf))
        · trivial
        · trivial
        · rename_i hp; rw [hp] at h1; exact h1
        · rename_i hp; rw [hp] at h1; exact h1
    · exact Le.refl s hi

theorem getIpa_spec (s : APS) (hi : Inv s) (hk : s.cur.kind = .cardinal) : Spec Adv s (getIpa s) := by
  unfold getIpa
  split
  · trivial
  · rename_i seg0 _
    have ha := advance_adv s hi (by rw [hk]; decide)
    have hd := ipaDias_spec (tokPos s.cur) (s.toks.length + 2) s.advance seg0 ha.inv (by simp [APS.advance]; omega)
    refine Spec.bind (R1 := Le) (R2 := Le) (R3 := Adv) hd (fun seg s1 hle => ?_) (fun b c h1 h2 => ha.trans_le (h1.trans h2))
    have hp1 : 0 < s1.pos := Nat.lt_of_lt_of_le (Nat.lt_of_le_of_lt (Nat.zero_le _) ha.lt) hle.le
    rcases expect_cases s1 .colon hle.inv (by decide) with ⟨he, h1⟩ | he
    · simp only [he]
      rcases expect_cases s1.advance .leftSquare h1.inv (by decide) with ⟨he2, h2⟩ | he2
      · simp only [he2]
        refine Spec.bind (R1 := Le) (R2 := Le) (R3 := Le) (getParams_spec _ h2.inv (Nat.lt_of_le_of_lt (Nat.zero_le _) h2.lt)) (fun p s4 hle4 => ?_)
          (fun b c h1' h2' => ((h1.toLe.trans h2.toLe).trans h1').trans h2')
        exact Le.refl s4 hle4.inv
      · simp only [he2]; trivial
    · simp only [he]
      refine NoFuel.bind (prev_nofuel s1 hle.inv hp1) (fun p => ?_)
      exact Le.refl s1 hle.inv

theorem groupToMatrix_nofuel (t : AToken) : NoFuel (groupToMatrix t) := by
  unfold groupToMatrix
  split
  · split <;> trivial
  · trivial

theorem getGroup_spec (s : APS) (hi : Inv s) (hk : s.cur.kind = .group) : Spec Adv s (getGroup s) := by
  unfold getGroup
  refine NoFuel.bind (groupToMatrix_nofuel s.cur) (fun chr => ?_)
  have ha := advance_adv s hi (by rw [hk]; decide)
  simp only
  rcases expect_cases s.advance .colon ha.inv (by decide) with ⟨he, h1⟩ | he
  · simp only [he]
    rcases expect_cases s.advance.advance .leftSquare h1.inv (by decide) with ⟨he2, h2⟩ | he2
    · simp only [he2]
      refine Spec.bind (R1 := Le) (R2 := Le) (R3 := Adv) (getParams_spec _ h2.inv (Nat.lt_of_le_of_lt (Nat.zero_le _) h2.lt)) (fun p s4 hle => ?_)
        (fun b c h1' h2' => ha.trans_le (((h1.toLe.trans h2.toLe).trans h1').trans h2'))
      exact Le.refl s4 hle.inv
    · simp only [he2]; trivial
  · simp only [he]
    exact ha

theorem segLoop_spec : ∀ (fuel : Nat) (s : APS) (acc : List SegType) (st : Option Nat) (sp : Nat), Inv s → s.toks.length - s.pos < fuel →
    Spec Le s (segLoop fuel s acc st sp) := by
  intro fuel
  induction fuel with
  | zero => intro s _ _ _ _ h; omega
  | succ n ih =>
    intro s acc st sp hi hf
    unfold segLoop
    split
    · exact Le.refl s hi
    split
    · rename_i hk
      have hk : s.cur.kind = .cardinal := by simpa [APS.peek] using hk
      have h1 := getIpa_spec s hi hk
      split
      · rename_i seg params pos s' hx; rw [hx] at h1
        have ha : Adv s s' := h1
        exact Spec.of_le ha.toLe (ih _ _ _ _ ha.inv (measure_lt ha hf))
      · trivial
      · rename_i hx; rw [hx] at h1; exact h1
      · rename_i hx; rw [hx] at h1; exact h1
    split
    · rename_i hk
      have hk : s.cur.kind = .group := by simpa [APS.peek] using hk
      have h1 := getGroup_spec s hi hk
      split
      · rename_i params pos s' hx; rw [hx] at h1
        have ha : Adv s s' := h1
        exact Spec.of_le ha.toLe (ih _ _ _ _ ha.inv (measure_lt ha hf))
      · trivial
      · rename_i hx; rw [hx] at h1; exact h1
      · rename_i hx; rw [hx] at h1; exact h1
    · rcases expect_cases s .leftSquare hi (by decide) with ⟨he, h1⟩ | he
      · simp only [he, if_true]
        have h2 := getParams_spec s.advance h1.inv (Nat.lt_of_le_of_lt (Nat.zero_le _) h1.lt)
        split
        · rename_i params pos s' hx; rw [hx] at h2
          have ha : Adv s s' := h1.trans_le h2
          exact Spec.of_le ha.toLe (ih _ _ _ _ ha.inv (measure_lt ha hf))
        · trivial
        · rename_i hx; rw [hx] at h2; exact h2
        · rename_i hx; rw [hx] at h2; exact h2
      · simp only [he, Bool.false_eq_true, if_false]
        exact Le.refl s hi

/-- `get_segment`: did not move backwards; a segment item consumed a token -/
def TermSpec (s : APS) : PRes (Option AItem × APS) → Prop
  | .ok (some _, s') => Adv s s'
  | .ok (none, s') => Le s s'
  | .err _ => True
  | .panic _ => False
  | .outOfFuel _ => False

/-- the first start is recorded together with the first segment -/
theorem segLoop_start : ∀ (fuel : Nat) (s : APS) (acc : List SegType) (st : Option Nat) (sp : Nat) (segs : List SegType) (st' : Option Nat)
    (sp' : Nat) (s' : APS), segLoop fuel s acc st sp = .ok ((segs, st', sp'), s') → (acc ≠ [] → st.isSome = true) →
    (segs ≠ [] → st'.isSome = true) := by
  intro fuel
  induction fuel with
  | zero => intro s _ _ _ _ _ _ _ h; cases h
  | succ n ih =>
    intro s acc st sp segs st' sp' s' h hacc
    have hsome : ∀ (x : Nat), (if st.isNone = true then some x else st).isSome = true := by
      intro x; cases st <;> simp
    unfold segLoop at h
    split at h
    · cases h; exact hacc
    split at h
    · split at h
      · exact ih _ _ _ _ _ _ _ _ h (fun _ => hsome _)
      · cases h
      · cases h
      · cases h
    split at h
    · split at h
      · exact ih _ _ _ _ _ _ _ _ h (fun _ => hsome _)
      · cases h
      · cases h
      · cases h
    · simp only at h
      split at h
      · split at h
        · exact ih _ _ _ _ _ _ _ _ h (fun _ => hsome _)
        · cases h
        · cases h
        · cases h
      · cases h; exact hacc

theorem segLoop_adv : ∀ (fuel : Nat) (s : APS) (acc : List SegType) (st : Option Nat) (sp : Nat) (segs : List SegType) (st' : Option Nat)
    (sp' : Nat) (s' : APS), Inv s → segLoop fuel s acc st sp = .ok ((segs, st', sp'), s') → s.toks.length - s.pos < fuel →
    (segs = acc ∧ s' = s) ∨ (s.pos < s'.pos ∧ s.pos < s.toks.length) := by
  intro fuel
  induction fuel with
  | zero => intro s _ _ _ _ _ _ _ _ _ h; omega
  | succ n ih =>
    intro s acc st sp segs st' sp' s' hi h hf
    unfold segLoop at h
    split at h
    · cases h; exact Or.inl ⟨rfl, rfl⟩
    split at h
    · rename_i hk
      have hk : s.cur.kind = .cardinal := by simpa [APS.peek] using hk
      have h1 := getIpa_spec s hi hk
      split at h
      · rename_i seg params pos s1 hx; rw [hx] at h1
        have ha : Adv s s1 := h1
        rcases ih s1 _ _ _ segs st' sp' s' ha.inv h (measure_lt ha hf) with ⟨_, rfl⟩ | ⟨g1, _⟩
        · exact Or.inr ⟨ha.lt, ha.inb⟩
        · exact Or.inr ⟨Nat.lt_trans ha.lt g1, ha.inb⟩
      · cases h
      · cases h
      · cases h
    split at h
    · rename_i hk
      have hk : s.cur.kind = .group := by simpa [APS.peek] using hk
      have h1 := getGroup_spec s hi hk
      split at h
      · rename_i params pos s1 hx; rw [hx] at h1
        have ha : Adv s s1 := h1
        rcases ih s1 _ _ _ segs st' sp' s' ha.inv h (measure_lt ha hf) with ⟨_, rfl⟩ | ⟨g1, _⟩
        · exact Or.inr ⟨ha.lt, ha.inb⟩
        · exact Or.inr ⟨Nat.lt_trans ha.lt g1, ha.inb⟩
      · cases h
      · cases h
      · cases h
    · rcases expect_cases s .leftSquare hi (by decide) with ⟨he, h1⟩ | he
      · simp only [he, if_true] at h
        have h2 := getParams_spec s.advance h1.inv (Nat.lt_of_le_of_lt (Nat.zero_le _) h1.lt)
        split at h
        · rename_i params pos s1 hx; rw [hx] at h2
          have ha : Adv s s1 := h1.trans_le h2
          rcases ih s1 _ _ _ segs st' sp' s' ha.inv h (measure_lt ha hf) with ⟨_, rfl⟩ | ⟨g1, _⟩
          · exact Or.inr ⟨ha.lt, ha.inb⟩
          · exact Or.inr ⟨Nat.lt_trans ha.lt g1, ha.inb⟩
        · cases h
        · cases h
        · cases h
      · simp only [he, Bool.false_eq_true, if_false] at h
        cases h; exact Or.inl ⟨rfl, rfl⟩

theorem getSegment_spec (s : APS) (hi : Inv s) : TermSpec s (getSegment s) := by
  unfold getSegment
  have hl := segLoop_spec (s.toks.length + 2) s [] none 0 hi (fuel_ok s)
  cases hx : segLoop (s.toks.length + 2) s [] none 0 with
  | ok v =>
    obtain ⟨⟨segs, st, sp⟩, s'⟩ := v
    rw [hx] at hl
    have hle : Le s s' := hl
    have hadv := segLoop_adv _ s [] none 0 segs st sp s' hi hx (fuel_ok s)
    show TermSpec s (if segs.isEmpty = true then pure (none, s') else _)
    split
    · exact hle
    · rename_i hne
      rcases hadv with ⟨rfl, _⟩ | ⟨g1, g2⟩
      · simp at hne
      · have hst := segLoop_start _ s [] none 0 segs st sp s' hx (fun h => absurd rfl h) (by intro h; simp [h] at hne)
        cases st with
        | some x => exact ⟨hle.toks_eq, g1, g2, hle.inv⟩
        | none => cases hst
  | err e => trivial
  | panic q => rw [hx] at hl; exact hl
  | outOfFuel q => rw [hx] at hl; exact hl

theorem getInputTerm_spec (s : APS) (hi : Inv s) : TermSpec s (getInputTerm s) := by
  unfold getInputTerm
  split
  · rename_i x s' hx
    unfold getSyllBound at hx
    rcases eatExpect_cases s .syllBoundary hi (by decide) with ⟨he, ha⟩ | he
    · simp only [he, Option.some.injEq, Prod.mk.injEq] at hx; rw [← hx.2]; exact ha
    · simp [he] at hx
  · exact getSegment_spec s hi

theorem inputLoop_spec : ∀ (fuel : Nat) (s : APS) (acc : List AItem), Inv s → s.toks.length - s.pos < fuel →
    Spec Le s (inputLoop fuel s acc) := by
  intro fuel
  induction fuel with
  | zero => intro s _ _ h; omega
  | succ n ih =>
    intro s acc hi hf
    unfold inputLoop
    rcases expect_cases s .comma hi (by decide) with ⟨he, h1⟩ | he
    · simp only [he, Bool.not_true, Bool.false_eq_true, if_false]
      have ht := getInputTerm_spec s.advance h1.inv
      split
      · rename_i t s2 hx; rw [hx] at ht
        have ha : Adv s s2 := h1.trans_le (Adv.toLe ht)
        exact Spec.of_le ha.toLe (ih _ _ ha.inv (measure_lt ha hf))
      · rename_i s2 hx; rw [hx] at ht
        exact h1.toLe.trans ht
      · trivial
      · rename_i hx; rw [hx] at ht; exact ht
      · rename_i hx; rw [hx] at ht; exact ht
    · simp only [he, Bool.not_false, if_true]
      exact Le.refl s hi

theorem getInput_spec (s : APS) (hi : Inv s) : Spec Le s (getInput s) := by
  unfold getInput
  have ht := getInputTerm_spec s hi
  cases hx : getInputTerm s with
  | ok v =>
    obtain ⟨t, s1⟩ := v
    rw [hx] at ht
    cases t with
    | some x =>
      have ha : Adv s s1 := ht
      exact Spec.of_le ha.toLe (inputLoop_spec _ s1 _ ha.inv (by rw [ha.toks_eq]; have := ha.lt; omega))
    | none =>
      show Spec Le s (s1.here >>= fun h => _)
      have hle1 : Le s s1 := ht
      have := here_nofuel s1 hle1.inv
      cases hh : s1.here with
      | ok t => trivial
      | err e => trivial
      | panic q => rw [hh] at this; exact this
      | outOfFuel q => rw [hh] at this; exact this
  | err e => trivial
  | panic q => rw [hx] at ht; exact ht
  | outOfFuel q => rw [hx] at ht; exact ht

end Asca.AParse.T
