import AscaVerif.Model.AliasParser
import AscaVerif.Lemmas.ParseSpans
import AscaVerif.Lemmas.ALex
/-! The alias parser under the invariant the alias lexer establishes (the scheme of `Lemmas/ParseSpans.lean`): the token
    list of a line of `L` characters ends with `Eol`, its tokens lie inside the line in order, every token satisfies
    `ALex.ATokX`, the cursor is inside the list and the current token is the token under it.  Under this invariant a
    panic is not an acceptable outcome (`Spec`, `NoFuel` map `.panic _` to `False`): every index, `expect()` and
    `unreachable!()` site of `alias/parser.rs` is shown unreachable; and every error is well placed (`SpansOK`). -/
namespace Asca.AParse.T
open Asca.AParse
open ALex (AToken ATK ATokX)
open Parse (PErr PRes Pos)
open Parse.Spans (SpansOK spansOK_one)

/-- what the alias lexer guarantees about the token list of a line of `L` characters -/
structure AToksOK (L : Nat) (toks : List AToken) : Prop where
  lastEol : ∃ t, toks.getLast? = some t ∧ t.kind = .eol
  vals : ∀ t ∈ toks, ATokX t
  span : ∀ t ∈ toks, t.start < t.stop ∧ t.stop ≤ L + 1
  sorted : ∀ (i j : Nat) (ti tj : AToken), i < j → toks[i]? = some ti → toks[j]? = some tj → ti.stop ≤ tj.start

def Inv (L : Nat) (s : APS) : Prop := AToksOK L s.toks ∧ s.pos < s.toks.length ∧ s.toks[s.pos]? = some s.cur

structure Le (L : Nat) (s s' : APS) : Prop where
  toks_eq : s'.toks = s.toks
  le : s.pos ≤ s'.pos
  inv : Inv L s'

structure Adv (L : Nat) (s s' : APS) : Prop where
  toks_eq : s'.toks = s.toks
  lt : s.pos < s'.pos
  inb : s.pos < s.toks.length
  inv : Inv L s'

variable {L : Nat}

theorem Le.refl (s : APS) (h : Inv L s) : Le L s s := ⟨rfl, Nat.le_refl _, h⟩
theorem Adv.toLe {s s' : APS} (h : Adv L s s') : Le L s s' := ⟨h.toks_eq, Nat.le_of_lt h.lt, h.inv⟩
theorem Le.trans {a b c : APS} (h1 : Le L a b) (h2 : Le L b c) : Le L a c :=
  ⟨h2.toks_eq.trans h1.toks_eq, Nat.le_trans h1.le h2.le, h2.inv⟩
theorem Adv.trans_le {a b c : APS} (h1 : Adv L a b) (h2 : Le L b c) : Adv L a c :=
  ⟨h2.toks_eq.trans h1.toks_eq, Nat.lt_of_lt_of_le h1.lt h2.le, h1.inb, h2.inv⟩
theorem Le.trans_adv {a b c : APS} (h1 : Le L a b) (h2 : Adv L b c) : Adv L a c :=
  ⟨h2.toks_eq.trans h1.toks_eq, Nat.lt_of_le_of_lt h1.le h2.lt,
   by have := h2.inb; rw [h1.toks_eq] at this; exact Nat.lt_of_le_of_lt h1.le this, h2.inv⟩

theorem Adv.trans {a b c : APS} (h1 : Adv L a b) (h2 : Adv L b c) : Adv L a c := h1.trans_le h2.toLe

theorem advance_adv (s : APS) (hi : Inv L s) (hk : s.cur.kind ≠ .eol) : Adv L s s.advance := by
  obtain ⟨hok, hlt, hcur⟩ := hi
  have hnl : s.pos + 1 < s.toks.length := by
    apply Classical.byContradiction; intro h
    obtain ⟨t, hl, hte⟩ := hok.lastEol
    rw [List.getLast?_eq_getElem?] at hl
    have : s.toks.length - 1 = s.pos := by omega
    rw [this, hcur] at hl
    cases hl; exact hk hte
  refine ⟨rfl, by simp [APS.advance], hlt, hok, by simpa [APS.advance] using hnl, ?_⟩
  simp only [APS.advance, hnl, if_true]
  rw [List.getD_eq_getElem?_getD, List.getElem?_eq_getElem hnl]; rfl

theorem cur_tokx (s : APS) (hi : Inv L s) : ATokX s.cur := hi.1.vals s.cur (List.mem_of_getElem? hi.2.2)

theorem expect_cases (s : APS) (k : ATK) (hi : Inv L s) (hk : k ≠ .eol) :
    (s.expect k = (true, s.advance) ∧ Adv L s s.advance) ∨ s.expect k = (false, s) := by
  unfold APS.expect
  by_cases h : s.cur.kind = k
  · left; simp only [h, if_true]; exact ⟨trivial, advance_adv s hi (by rw [h]; exact hk)⟩
  · right; simp only [h, if_false]

theorem eatExpect_cases (s : APS) (k : ATK) (hi : Inv L s) (hk : k ≠ .eol) :
    (s.eatExpect k = some (s.cur, s.advance) ∧ Adv L s s.advance) ∨ s.eatExpect k = none := by
  unfold APS.eatExpect
  by_cases h : s.cur.kind = k
  · left; simp only [h, if_true]; exact ⟨trivial, advance_adv s hi (by rw [h]; exact hk)⟩
  · right; simp only [h, if_false]

theorem measure_lt {s s' : APS} (h : Adv L s s') {fuel : Nat} (hf : s.toks.length - s.pos < fuel + 1) :
    s'.toks.length - s'.pos < fuel := by
  have := h.lt; have := h.inb; rw [h.toks_eq]; omega

/-- neither out of fuel nor a panic, and a success did not move backwards -/
def Spec (L : Nat) {α} (R : APS → APS → Prop) (s : APS) : PRes (α × APS) → Prop
  | .ok (_, s') => R s s'
  | .err e => SpansOK L e.spans
  | .panic _ => False
  | .outOfFuel _ => False

def NoFuel (L : Nat) {α} : PRes α → Prop
  | .ok _ => True
  | .err e => SpansOK L e.spans
  | .panic _ => False
  | .outOfFuel _ => False

theorem Spec.of_le {α} {s s1 : APS} {r : PRes (α × APS)} (h : Le L s s1) (hr : Spec L (Le L) s1 r) : Spec L (Le L) s r := by
  cases r with
  | ok v => obtain ⟨a, s'⟩ := v; exact h.trans hr
  | err e => exact hr
  | panic p => exact hr
  | outOfFuel p => exact hr

theorem Spec.weaken {α} {s : APS} {r : PRes (α × APS)} (hr : Spec L (Adv L) s r) : Spec L (Le L) s r := by
  cases r with
  | ok v => obtain ⟨a, s'⟩ := v; exact Adv.toLe hr
  | err e => exact hr
  | panic p => exact hr
  | outOfFuel p => exact hr

theorem Spec.bind {α β} {R1 R2 R3 : APS → APS → Prop} {s0 s : APS} {x : PRes (α × APS)} {f : α × APS → PRes (β × APS)}
    (hx : Spec L R1 s x) (hf : ∀ a s', R1 s s' → Spec L R2 s' (f (a, s')))
    (hR : ∀ b c, R1 s b → R2 b c → R3 s0 c) : Spec L R3 s0 (x >>= f) := by
  cases x with
  | ok v =>
    obtain ⟨a, s'⟩ := v
    have h1 : R1 s s' := hx
    have h2 := hf a s' h1
    show Spec L R3 s0 (f (a, s'))
    cases hfv : f (a, s') with
    | ok w => obtain ⟨b, s''⟩ := w; rw [hfv] at h2; exact hR s' s'' h1 h2
    | err e => rw [hfv] at h2; exact h2
    | panic p => rw [hfv] at h2; exact h2
    | outOfFuel p => rw [hfv] at h2; exact h2
  | err e => exact hx
  | panic p => exact hx
  | outOfFuel p => exact hx

/-- `bind` that remembers the equation of the first call -/
theorem Spec.bindE {α β} {R1 R2 R3 : APS → APS → Prop} {s0 s : APS} {x : PRes (α × APS)} {f : α × APS → PRes (β × APS)}
    (hx : Spec L R1 s x) (hf : ∀ a s', x = .ok (a, s') → R1 s s' → Spec L R2 s' (f (a, s')))
    (hR : ∀ b c, R1 s b → R2 b c → R3 s0 c) : Spec L R3 s0 (x >>= f) := by
  cases x with
  | ok v =>
    obtain ⟨a, s'⟩ := v
    have h1 : R1 s s' := hx
    have h2 := hf a s' rfl h1
    show Spec L R3 s0 (f (a, s'))
    cases hfv : f (a, s') with
    | ok w => obtain ⟨b, s''⟩ := w; rw [hfv] at h2; exact hR s' s'' h1 h2
    | err e => rw [hfv] at h2; exact h2
    | panic p => rw [hfv] at h2; exact h2
    | outOfFuel p => rw [hfv] at h2; exact h2
  | err e => exact hx
  | panic p => exact hx
  | outOfFuel p => exact hx

theorem Spec.bindN {α β} {R : APS → APS → Prop} {s : APS} {x : PRes (α × APS)} {f : α × APS → PRes β}
    (hx : Spec L R s x) (hf : ∀ a s', R s s' → NoFuel L (f (a, s'))) : NoFuel L (x >>= f) := by
  cases x with
  | ok v => obtain ⟨a, s'⟩ := v; exact hf a s' hx
  | err e => exact hx
  | panic p => exact hx
  | outOfFuel p => exact hx

theorem Spec.bindNE {α β} {R : APS → APS → Prop} {s : APS} {x : PRes (α × APS)} {f : α × APS → PRes β}
    (hx : Spec L R s x) (hf : ∀ a s', x = .ok (a, s') → R s s' → NoFuel L (f (a, s'))) : NoFuel L (x >>= f) := by
  cases x with
  | ok v => obtain ⟨a, s'⟩ := v; exact hf a s' rfl hx
  | err e => exact hx
  | panic p => exact hx
  | outOfFuel p => exact hx

theorem NoFuel.bind {α β} {R : APS → APS → Prop} {s : APS} {x : PRes α} {f : α → PRes (β × APS)}
    (hx : NoFuel L x) (hf : ∀ a, Spec L R s (f a)) : Spec L R s (x >>= f) := by
  cases x with
  | ok a => exact hf a
  | err e => exact hx
  | panic p => exact hx
  | outOfFuel p => exact hx

theorem NoFuel.bindE {α β} {R : APS → APS → Prop} {s : APS} {x : PRes α} {f : α → PRes (β × APS)}
    (hx : NoFuel L x) (hf : ∀ a, x = .ok a → Spec L R s (f a)) : Spec L R s (x >>= f) := by
  cases x with
  | ok a => exact hf a rfl
  | err e => exact hx
  | panic p => exact hx
  | outOfFuel p => exact hx

/-- the token under the cursor lies strictly inside the line -/
theorem cur_span (s : APS) (hi : Inv L s) : s.cur.start < s.cur.stop ∧ s.cur.stop ≤ L + 1 :=
  hi.1.span s.cur (List.mem_of_getElem? hi.2.2)

/-- an error that underlines the current token -/
theorem tokErr_ok (name : String) (s : APS) (hi : Inv L s) : SpansOK L (tokErr name s.cur).spans := by
  have := cur_span s hi
  exact spansOK_one _ _ (by omega)

/-- from the start of the token at `j` to the end of the token at `i ≥ j` -/
theorem span_ij (toks : List AToken) (hT : AToksOK L toks) (i j : Nat) (ti tj : AToken) (hij : i ≤ j)
    (hi : toks[i]? = some ti) (hj : toks[j]? = some tj) : ti.start ≤ tj.stop ∧ tj.stop ≤ L + 1 := by
  have h1 := hT.span ti (List.mem_of_getElem? hi)
  have h2 := hT.span tj (List.mem_of_getElem? hj)
  rcases Nat.lt_or_eq_of_le hij with hlt | heq
  · have := hT.sorted i j ti tj hlt hi hj; omega
  · subst heq; rw [hi] at hj; cases hj; omega

theorem prev_nofuel (s : APS) (hi : Inv L s) (hp : 0 < s.pos) : NoFuel L s.prev := by
  unfold APS.prev
  have h1 : ¬ s.pos = 0 := by omega
  rw [if_neg h1]
  have : s.pos - 1 < s.toks.length := by have := hi.2.1; omega
  rw [List.getElem?_eq_getElem this]
  trivial

theorem here_nofuel (s : APS) (hi : Inv L s) : NoFuel L s.here := by
  unfold APS.here
  rw [hi.2.2]
  trivial

theorem fuel_ok (s : APS) : s.toks.length - s.pos < s.toks.length + 2 := by omega

/-! ### replacements -/

theorem getEmpty_spec (s : APS) (hi : Inv L s) (x : AItem) (s' : APS) (h : getEmpty s = some (x, s')) : Adv L s s' := by
  unfold getEmpty at h
  split at h
  · cases h
  · rename_i hc
    simp only [Option.some.injEq, Prod.mk.injEq] at h
    rw [← h.2]
    refine advance_adv s hi ?_
    intro hk
    simp [APS.peek, hk] at hc

/-- `get_replacement_term` never moves backwards, and a term consumed a token -/
theorem getReplacementTerm_spec (s : APS) (hi : Inv L s) :
    Le L s (getReplacementTerm s).2 ∧ ∀ r, (getReplacementTerm s).1 = some r → Adv L s (getReplacementTerm s).2 := by
  unfold getReplacementTerm
  cases he : getEmpty s with
  | some r =>
    obtain ⟨x, s'⟩ := r
    have := getEmpty_spec s hi x s' he
    exact ⟨this.toLe, fun _ _ => this⟩
  | none =>
    simp only
    rcases expect_cases s .plus hi (by decide) with ⟨hp, h1⟩ | hp
    · simp only [hp]
      split
      · exact ⟨h1.toLe, fun _ h => by cases h⟩
      · rename_i hs
        have hk : s.advance.cur.kind ≠ .eol := by
          intro hk; simp [APS.peek, hk] at hs
        have h2 := advance_adv s.advance h1.inv hk
        exact ⟨(h1.toLe.trans h2.toLe), fun _ _ => ⟨h2.toks_eq.trans h1.toks_eq, Nat.lt_trans h1.lt h2.lt, h1.inb, h2.inv⟩⟩
    · simp only [hp]
      split
      · exact ⟨Le.refl s hi, fun _ h => by cases h⟩
      · rename_i hs
        have hk : s.cur.kind ≠ .eol := by
          intro hk; simp [APS.peek, hk] at hs
        have h2 := advance_adv s hi hk
        exact ⟨h2.toLe, fun _ _ => h2⟩

theorem replLoop_spec : ∀ (fuel : Nat) (s : APS) (acc : List AItem), Inv L s → s.toks.length - s.pos < fuel →
    Spec L (Le L) s (replLoop fuel s acc) := by
  intro fuel
  induction fuel with
  | zero => intro s _ _ h; omega
  | succ n ih =>
    intro s acc hi hf
    unfold replLoop
    rcases expect_cases s .comma hi (by decide) with ⟨he, h1⟩ | he
    · simp only [he]
      have ht := getReplacementTerm_spec s.advance h1.inv
      rcases hr : getReplacementTerm s.advance with ⟨o, s2⟩
      rw [hr] at ht
      simp only [Bool.not_true, Bool.false_eq_true, if_false]
      cases o with
      | some r =>
        obtain ⟨x, sx⟩ := r
        have ha : Adv L s s2 := h1.trans_le (ht.2 _ rfl).toLe
        exact Spec.of_le ha.toLe (ih s2 _ ha.inv (measure_lt ha hf))
      | none => exact h1.toLe.trans ht.1
    · simp only [he, Bool.not_false, if_true]
      exact Le.refl s hi

theorem getReplacements_spec (s : APS) (hi : Inv L s) : Spec L (Le L) s (getReplacements s) := by
  unfold getReplacements
  have ht := getReplacementTerm_spec s hi
  rcases hr : getReplacementTerm s with ⟨o, s1⟩
  rw [hr] at ht
  cases o with
  | some r =>
    obtain ⟨x, sx⟩ := r
    exact Spec.of_le ht.1 (replLoop_spec _ s1 _ ht.1.inv (by rw [ht.1.toks_eq]; have := ht.1.le; omega))
  | none =>
    simp only
    have := here_nofuel s1 ht.1.inv
    split
    · rename_i t hx
      -- EmptyReplacements underlines the first column of the token under the cursor
      unfold APS.here at hx; rw [ht.1.inv.2.2] at hx; cases hx
      have hc := cur_span s1 ht.1.inv
      exact spansOK_one _ _ (by show s1.cur.start ≤ s1.cur.start + 1 ∧ s1.cur.start + 1 ≤ L + 1; omega)
    · rename_i hx; rw [hx] at this; exact this
    · rename_i hx; rw [hx] at this; exact this
    · rename_i hx; rw [hx] at this; exact this

/-! ### segments -/

/-- every row of the alias feature table names a node, a feature or a suprasegmental the alias parser knows (checked
    by the kernel over the regenerated table) -/
theorem arows_ok : Gen.aliasFeatNames.all (fun r =>
    (r.1 == "Node" && (Parse.nodeIndex r.2.1).isSome) || (r.1 == "Feat" && (Parse.featIndex r.2.1).isSome) ||
    (r.1 == "Supr" && (r.2.1 == "Long" || r.2.1 == "Overlong" || r.2.1 == "Stress" || r.2.1 == "SecStress" || r.2.1 == "Tone"))) = true := by
  decide +kernel

theorem isDigit_43 : Lex.isDigit 43 = false := by decide
theorem isDigit_45 : Lex.isDigit 45 = false := by decide

/-- `curr_token_to_modifier` and the `match ft` of `get_param_args` on a feature token of the lexer: no `unreachable!()`,
    no failed `parse()`, no index out of the node / feature arrays -/
theorem putArg_nofuel (a : Modifiers) (t : AToken) (k v : String) (hx : ATokX t) (hk : t.kind = .feature k v) :
    NoFuel L (putArg a t k v) := by
  rcases hx.2 k v hk with ⟨rfl, rfl, hne, hdig, hlt⟩ | ⟨⟨names, hrow⟩, hnt, hval⟩
  · -- a tone: digits below 2^16
    have h43 : t.value ≠ [43] := by
      intro h; rw [h] at hdig; simp [isDigit_43] at hdig
    have h45 : t.value ≠ [45] := by
      intro h; rw [h] at hdig; simp [isDigit_45] at hdig
    have hemp : t.value.isEmpty = false := by cases hv : t.value with | nil => exact absurd hv hne | cons _ _ => rfl
    unfold putArg
    simp only [h43, h45, if_false, Bool.and_self, decide_true, if_true, hemp, Bool.not_false, hdig, hlt]
    trivial
  · have hr := List.all_eq_true.mp arows_ok _ hrow
    simp only [Bool.or_eq_true, Bool.and_eq_true, beq_iff_eq] at hr
    have hb : ∃ b, (if t.value = [43] then some BinMod.pos else if t.value = [45] then some BinMod.neg else none) = some b := by
      rcases hval with h | h
      · exact ⟨.pos, by rw [if_pos h]⟩
      · exact ⟨.neg, by rw [h]; simp⟩
    obtain ⟨b, hb⟩ := hb
    unfold putArg
    simp only [hb]
    rcases hr with (⟨rfl, hn⟩ | ⟨rfl, hf⟩) | ⟨rfl, hs⟩
    · simp only [if_true]
      cases hni : Parse.nodeIndex v with
      | none => rw [hni] at hn; cases hn
      | some i => trivial
    · have : ¬ ("Feat" = "Node") := by decide
      simp only [this, if_false, if_true]
      cases hfi : Parse.featIndex v with
      | none => rw [hfi] at hf; cases hf
      | some i => trivial
    · have h1 : ¬ ("Supr" = "Node") := by decide
      have h2 : ¬ ("Supr" = "Feat") := by decide
      simp only [h1, h2, if_false]
      rcases hs with (((rfl | rfl) | rfl) | rfl) | rfl
      · trivial
      · trivial
      · trivial
      · trivial
      · exact absurd ⟨rfl, rfl⟩ hnt

theorem getParamArgs_spec : ∀ (fuel : Nat) (s : APS) (args : Modifiers), Inv L s → s.toks.length - s.pos < fuel →
    Spec L (Le L) s (getParamArgs fuel s args) := by
  intro fuel
  induction fuel with
  | zero => intro s _ _ h; omega
  | succ n ih =>
    intro s args hi hf
    unfold getParamArgs
    split
    · exact Le.refl s hi
    split
    · rename_i hk; exact (advance_adv s hi (by rw [hk]; decide)).toLe
    split
    · rename_i hk
      have ha := advance_adv s hi (by rw [hk]; decide)
      exact Spec.of_le ha.toLe (ih _ _ ha.inv (measure_lt ha hf))
    split
    · rename_i kind variant hk
      have ha := advance_adv s hi (by rw [hk]; intro h; cases h)
      have h1 := putArg_nofuel (L := L) args s.cur kind variant (cur_tokx s hi) hk
      split
      · exact Spec.of_le ha.toLe (ih _ _ ha.inv (measure_lt ha hf))
      · rename_i hx; rw [hx] at h1; exact h1
      · rename_i hx; rw [hx] at h1; exact h1
      · rename_i hx; rw [hx] at h1; exact h1
    · exact tokErr_ok _ s hi
    · exact tokErr_ok _ s hi

theorem getParams_spec (s : APS) (hi : Inv L s) (hp : 0 < s.pos) : Spec L (Le L) s (getParams s) := by
  unfold getParams
  refine NoFuel.bind (prev_nofuel s hi hp) (fun open_ => ?_)
  refine Spec.bind (R1 := Le L) (R2 := Le L) (getParamArgs_spec _ s _ hi (fuel_ok s)) (fun args s' hle => ?_) (fun b c h1 h2 => h1.trans h2)
  refine NoFuel.bind (prev_nofuel s' hle.inv (Nat.lt_of_lt_of_le hp hle.le)) (fun close => ?_)
  exact Le.refl s' hle.inv

theorem checkAndApplyDia_ok (seg : Seg) (d : Gen.Dia) (hd : C02.diaOK d = true) : ∃ r, Parse.checkAndApplyDia seg d = .ok r := by
  have hd' := hd
  simp only [C02.diaOK, Bool.and_eq_true] at hd'
  obtain ⟨r, hr⟩ := C02.matchDiaMods_ok seg d.prereqNodes d.prereqFeats hd'.1.1.1 hd'.1.1.2
  obtain ⟨s', hs⟩ := C02.applyDiaPayload_ok seg d hd
  unfold Parse.checkAndApplyDia
  rw [hr]
  cases r with
  | none => simp only [hs]; exact ⟨_, rfl⟩
  | some e => exact ⟨_, rfl⟩

theorem ipaDias_spec (elm : Parse.Pos) (i0 : Nat) (t0 : AToken) (helm : elm = tokPos t0) : ∀ (fuel : Nat) (s : APS) (seg : Seg), Inv L s →
    s.toks[i0]? = some t0 → i0 < s.pos → s.toks.length - s.pos < fuel → Spec L (Le L) s (ipaDias elm fuel s seg) := by
  intro fuel
  induction fuel with
  | zero => intro s _ _ _ _ h; omega
  | succ n ih =>
    intro s seg hi h0 hlt0 hf
    unfold ipaDias
    split
    · rename_i i hk
      have ha := advance_adv s hi (by rw [hk]; intro h; cases h)
      have hlt : i < Gen.diacritics.length := (cur_tokx s hi).1 i hk
      simp only
      split
      · rename_i hd; rw [List.getElem?_eq_getElem hlt] at hd; cases hd
      · rename_i d hd
        obtain ⟨r, hr⟩ := checkAndApplyDia_ok seg d (Parse.Spans.dia_in_table i d hd)
        rw [hr]
        cases r with
        | ok seg' =>
          exact Spec.of_le ha.toLe (ih _ _ ha.inv (by rw [ha.toks_eq]; exact h0) (Nat.lt_trans hlt0 ha.lt) (measure_lt ha hf))
        | error e =>
          -- the segment's token, then the diacritic's token: in the line, in this order
          obtain ⟨e1, isNode⟩ := e
          have hs0 := hi.1.span t0 (List.mem_of_getElem? h0)
          have hsc := cur_span s hi
          have hord := hi.1.sorted i0 s.pos t0 s.cur hlt0 h0 hi.2.2
          subst helm
          refine ⟨fun sp hsp => ?_, ?_⟩
          · simp only [List.mem_cons, List.mem_nil_iff, or_false] at hsp
            rcases hsp with rfl | rfl
            · simp only [tokPos]; omega
            · omega
          · simp only [List.pairwise_cons, List.mem_singleton, forall_eq, List.mem_nil_iff, false_imp_iff, implies_true, List.Pairwise.nil, and_true]
            exact hord
    · exact Le.refl s hi

theorem getIpa_spec (s : APS) (hi : Inv L s) (hk : s.cur.kind = .cardinal) : Spec L (Adv L) s (getIpa s) := by
  unfold getIpa
  split
  · exact tokErr_ok _ s hi
  · rename_i seg0 _
    have ha := advance_adv s hi (by rw [hk]; decide)
    have hd := ipaDias_spec (L := L) (tokPos s.cur) s.pos s.cur rfl (s.toks.length + 2) s.advance seg0 ha.inv
      (by rw [ha.toks_eq]; exact hi.2.2) ha.lt (by simp [APS.advance]; omega)
    refine Spec.bind (R1 := Le L) (R2 := Le L) (R3 := Adv L) hd (fun seg s1 hle => ?_) (fun b c h1 h2 => ha.trans_le (h1.trans h2))
    have hp1 : 0 < s1.pos := Nat.lt_of_lt_of_le (Nat.lt_of_le_of_lt (Nat.zero_le _) ha.lt) hle.le
    rcases expect_cases s1 .colon hle.inv (by decide) with ⟨he, h1⟩ | he
    · simp only [he]
      rcases expect_cases s1.advance .leftSquare h1.inv (by decide) with ⟨he2, h2⟩ | he2
      · simp only [he2]
        refine Spec.bind (R1 := Le L) (R2 := Le L) (R3 := Le L) (getParams_spec _ h2.inv (Nat.lt_of_le_of_lt (Nat.zero_le _) h2.lt)) (fun p s4 hle4 => ?_)
          (fun b c h1' h2' => ((h1.toLe.trans h2.toLe).trans h1').trans h2')
        exact Le.refl s4 hle4.inv
      · simp only [he2]; exact tokErr_ok _ _ h1.inv
    · simp only [he]
      refine NoFuel.bind (prev_nofuel s1 hle.inv hp1) (fun p => ?_)
      exact Le.refl s1 hle.inv

theorem groupToMatrix_nofuel (s : APS) (hi : Inv L s) : NoFuel L (groupToMatrix s.cur) := by
  unfold groupToMatrix
  split
  · split
    · trivial
    · exact tokErr_ok _ s hi
  · exact tokErr_ok _ s hi

theorem getGroup_spec (s : APS) (hi : Inv L s) (hk : s.cur.kind = .group) : Spec L (Adv L) s (getGroup s) := by
  unfold getGroup
  refine NoFuel.bind (groupToMatrix_nofuel s hi) (fun chr => ?_)
  have ha := advance_adv s hi (by rw [hk]; decide)
  simp only
  rcases expect_cases s.advance .colon ha.inv (by decide) with ⟨he, h1⟩ | he
  · simp only [he]
    rcases expect_cases s.advance.advance .leftSquare h1.inv (by decide) with ⟨he2, h2⟩ | he2
    · simp only [he2]
      refine Spec.bind (R1 := Le L) (R2 := Le L) (R3 := Adv L) (getParams_spec _ h2.inv (Nat.lt_of_le_of_lt (Nat.zero_le _) h2.lt)) (fun p s4 hle => ?_)
        (fun b c h1' h2' => ha.trans_le (((h1.toLe.trans h2.toLe).trans h1').trans h2'))
      exact Le.refl s4 hle.inv
    · simp only [he2]; exact tokErr_ok _ _ h1.inv
  · simp only [he]
    exact ha

theorem segLoop_spec : ∀ (fuel : Nat) (s : APS) (acc : List SegType) (st : Option Nat) (sp : Nat), Inv L s → s.toks.length - s.pos < fuel →
    Spec L (Le L) s (segLoop fuel s acc st sp) := by
  intro fuel
  induction fuel with
  | zero => intro s _ _ _ _ h; omega
  | succ n ih =>
    intro s acc st sp hi hf
    unfold segLoop
    split
    · exact Le.refl s hi
    split
    · rename_i hk
      have hk : s.cur.kind = .cardinal := by simpa [APS.peek] using hk
      have h1 := getIpa_spec s hi hk
      split
      · rename_i seg params pos s' hx; rw [hx] at h1
        have ha : Adv L s s' := h1
        exact Spec.of_le ha.toLe (ih _ _ _ _ ha.inv (measure_lt ha hf))
      · rename_i hx; rw [hx] at h1; exact h1
      · rename_i hx; rw [hx] at h1; exact h1
      · rename_i hx; rw [hx] at h1; exact h1
    split
    · rename_i hk
      have hk : s.cur.kind = .group := by simpa [APS.peek] using hk
      have h1 := getGroup_spec s hi hk
      split
      · rename_i params pos s' hx; rw [hx] at h1
        have ha : Adv L s s' := h1
        exact Spec.of_le ha.toLe (ih _ _ _ _ ha.inv (measure_lt ha hf))
      · rename_i hx; rw [hx] at h1; exact h1
      · rename_i hx; rw [hx] at h1; exact h1
      · rename_i hx; rw [hx] at h1; exact h1
    · rcases expect_cases s .leftSquare hi (by decide) with ⟨he, h1⟩ | he
      · simp only [he, if_true]
        have h2 := getParams_spec s.advance h1.inv (Nat.lt_of_le_of_lt (Nat.zero_le _) h1.lt)
        split
        · rename_i params pos s' hx; rw [hx] at h2
          have ha : Adv L s s' := h1.trans_le h2
          exact Spec.of_le ha.toLe (ih _ _ _ _ ha.inv (measure_lt ha hf))
        · rename_i hx; rw [hx] at h2; exact h2
        · rename_i hx; rw [hx] at h2; exact h2
        · rename_i hx; rw [hx] at h2; exact h2
      · simp only [he, Bool.false_eq_true, if_false]
        exact Le.refl s hi

/-- `get_segment`: did not move backwards; a segment item consumed a token -/
def TermSpec (L : Nat) (s : APS) : PRes (Option AItem × APS) → Prop
  | .ok (some _, s') => Adv L s s'
  | .ok (none, s') => Le L s s'
  | .err e => SpansOK L e.spans
  | .panic _ => False
  | .outOfFuel _ => False

/-- the first start is recorded together with the first segment -/
theorem segLoop_start : ∀ (fuel : Nat) (s : APS) (acc : List SegType) (st : Option Nat) (sp : Nat) (segs : List SegType) (st' : Option Nat)
    (sp' : Nat) (s' : APS), segLoop fuel s acc st sp = .ok ((segs, st', sp'), s') → (acc ≠ [] → st.isSome = true) →
    (segs ≠ [] → st'.isSome = true) := by
  intro fuel
  induction fuel with
  | zero => intro s _ _ _ _ _ _ _ h; cases h
  | succ n ih =>
    intro s acc st sp segs st' sp' s' h hacc
    have hsome : ∀ (x : Nat), (if st.isNone = true then some x else st).isSome = true := by
      intro x; cases st <;> simp
    unfold segLoop at h
    split at h
    · cases h; exact hacc
    split at h
    · split at h
      · exact ih _ _ _ _ _ _ _ _ h (fun _ => hsome _)
      · cases h
      · cases h
      · cases h
    split at h
    · split at h
      · exact ih _ _ _ _ _ _ _ _ h (fun _ => hsome _)
      · cases h
      · cases h
      · cases h
    · simp only at h
      split at h
      · split at h
        · exact ih _ _ _ _ _ _ _ _ h (fun _ => hsome _)
        · cases h
        · cases h
        · cases h
      · cases h; exact hacc

theorem segLoop_adv : ∀ (fuel : Nat) (s : APS) (acc : List SegType) (st : Option Nat) (sp : Nat) (segs : List SegType) (st' : Option Nat)
    (sp' : Nat) (s' : APS), Inv L s → segLoop fuel s acc st sp = .ok ((segs, st', sp'), s') → s.toks.length - s.pos < fuel →
    (segs = acc ∧ s' = s) ∨ (s.pos < s'.pos ∧ s.pos < s.toks.length) := by
  intro fuel
  induction fuel with
  | zero => intro s _ _ _ _ _ _ _ _ _ h; omega
  | succ n ih =>
    intro s acc st sp segs st' sp' s' hi h hf
    unfold segLoop at h
    split at h
    · cases h; exact Or.inl ⟨rfl, rfl⟩
    split at h
    · rename_i hk
      have hk : s.cur.kind = .cardinal := by simpa [APS.peek] using hk
      have h1 := getIpa_spec s hi hk
      split at h
      · rename_i seg params pos s1 hx; rw [hx] at h1
        have ha : Adv L s s1 := h1
        rcases ih s1 _ _ _ segs st' sp' s' ha.inv h (measure_lt ha hf) with ⟨_, rfl⟩ | ⟨g1, _⟩
        · exact Or.inr ⟨ha.lt, ha.inb⟩
        · exact Or.inr ⟨Nat.lt_trans ha.lt g1, ha.inb⟩
      · cases h
      · cases h
      · cases h
    split at h
    · rename_i hk
      have hk : s.cur.kind = .group := by simpa [APS.peek] using hk
      have h1 := getGroup_spec s hi hk
      split at h
      · rename_i params pos s1 hx; rw [hx] at h1
        have ha : Adv L s s1 := h1
        rcases ih s1 _ _ _ segs st' sp' s' ha.inv h (measure_lt ha hf) with ⟨_, rfl⟩ | ⟨g1, _⟩
        · exact Or.inr ⟨ha.lt, ha.inb⟩
        · exact Or.inr ⟨Nat.lt_trans ha.lt g1, ha.inb⟩
      · cases h
      · cases h
      · cases h
    · rcases expect_cases s .leftSquare hi (by decide) with ⟨he, h1⟩ | he
      · simp only [he, if_true] at h
        have h2 := getParams_spec s.advance h1.inv (Nat.lt_of_le_of_lt (Nat.zero_le _) h1.lt)
        split at h
        · rename_i params pos s1 hx; rw [hx] at h2
          have ha : Adv L s s1 := h1.trans_le h2
          rcases ih s1 _ _ _ segs st' sp' s' ha.inv h (measure_lt ha hf) with ⟨_, rfl⟩ | ⟨g1, _⟩
          · exact Or.inr ⟨ha.lt, ha.inb⟩
          · exact Or.inr ⟨Nat.lt_trans ha.lt g1, ha.inb⟩
        · cases h
        · cases h
        · cases h
      · simp only [he, Bool.false_eq_true, if_false] at h
        cases h; exact Or.inl ⟨rfl, rfl⟩

theorem getSegment_spec (s : APS) (hi : Inv L s) : TermSpec L s (getSegment s) := by
  unfold getSegment
  have hl := segLoop_spec (s.toks.length + 2) s [] none 0 hi (fuel_ok s)
  cases hx : segLoop (s.toks.length + 2) s [] none 0 with
  | ok v =>
    obtain ⟨⟨segs, st, sp⟩, s'⟩ := v
    rw [hx] at hl
    have hle : Le L s s' := hl
    have hadv := segLoop_adv _ s [] none 0 segs st sp s' hi hx (fuel_ok s)
    show TermSpec L s (if segs.isEmpty = true then pure (none, s') else _)
    split
    · exact hle
    · rename_i hne
      rcases hadv with ⟨rfl, _⟩ | ⟨g1, g2⟩
      · simp at hne
      · have hst := segLoop_start _ s [] none 0 segs st sp s' hx (fun h => absurd rfl h) (by intro h; simp [h] at hne)
        cases st with
        | some x => exact ⟨hle.toks_eq, g1, g2, hle.inv⟩
        | none => cases hst
  | err e => rw [hx] at hl; exact hl
  | panic q => rw [hx] at hl; exact hl
  | outOfFuel q => rw [hx] at hl; exact hl

theorem getInputTerm_spec (s : APS) (hi : Inv L s) : TermSpec L s (getInputTerm s) := by
  unfold getInputTerm
  split
  · rename_i x s' hx
    unfold getSyllBound at hx
    rcases eatExpect_cases s .syllBoundary hi (by decide) with ⟨he, ha⟩ | he
    · simp only [he, Option.some.injEq, Prod.mk.injEq] at hx; rw [← hx.2]; exact ha
    · simp [he] at hx
  · exact getSegment_spec s hi

theorem inputLoop_spec : ∀ (fuel : Nat) (s : APS) (acc : List AItem), Inv L s → s.toks.length - s.pos < fuel →
    Spec L (Le L) s (inputLoop fuel s acc) := by
  intro fuel
  induction fuel with
  | zero => intro s _ _ h; omega
  | succ n ih =>
    intro s acc hi hf
    unfold inputLoop
    rcases expect_cases s .comma hi (by decide) with ⟨he, h1⟩ | he
    · simp only [he, Bool.not_true, Bool.false_eq_true, if_false]
      have ht := getInputTerm_spec s.advance h1.inv
      split
      · rename_i t s2 hx; rw [hx] at ht
        have ha : Adv L s s2 := h1.trans_le (Adv.toLe ht)
        exact Spec.of_le ha.toLe (ih _ _ ha.inv (measure_lt ha hf))
      · rename_i s2 hx; rw [hx] at ht
        exact h1.toLe.trans ht
      · rename_i hx; rw [hx] at ht; exact ht
      · rename_i hx; rw [hx] at ht; exact ht
      · rename_i hx; rw [hx] at ht; exact ht
    · simp only [he, Bool.not_false, if_true]
      exact Le.refl s hi

theorem getInput_spec (s : APS) (hi : Inv L s) : Spec L (Le L) s (getInput s) := by
  unfold getInput
  have ht := getInputTerm_spec s hi
  cases hx : getInputTerm s with
  | ok v =>
    obtain ⟨t, s1⟩ := v
    rw [hx] at ht
    cases t with
    | some x =>
      have ha : Adv L s s1 := ht
      exact Spec.of_le ha.toLe (inputLoop_spec _ s1 _ ha.inv (by rw [ha.toks_eq]; have := ha.lt; omega))
    | none =>
      show Spec L (Le L) s (s1.here >>= fun h => _)
      have hle1 : Le L s s1 := ht
      have := here_nofuel s1 hle1.inv
      cases hh : s1.here with
      | ok t =>
        -- EmptyInput underlines the first column of the token under the cursor
        unfold APS.here at hh; rw [hle1.inv.2.2] at hh; cases hh
        have hc := cur_span s1 hle1.inv
        exact spansOK_one _ _ (by show s1.cur.start ≤ s1.cur.start + 1 ∧ s1.cur.start + 1 ≤ L + 1; omega)
      | err e => rw [hh] at this; exact this
      | panic q => rw [hh] at this; exact this
      | outOfFuel q => rw [hh] at this; exact this
  | err e => rw [hx] at ht; exact ht
  | panic q => rw [hx] at ht; exact ht
  | outOfFuel q => rw [hx] at ht; exact ht

/-! ### item positions (for `UnbalancedIO`, which underlines from the first item of a side to its last) -/

/-- the position covers the tokens `j..i`, `lo ≤ j ≤ i`, all of them consumed -/
def ItemSpan (s : APS) (lo : Nat) (p : Pos) : Prop :=
  ∃ j i tj ti, lo ≤ j ∧ j ≤ i ∧ i < s.pos ∧ s.toks[j]? = some tj ∧ s.toks[i]? = some ti ∧ p = ⟨tj.start, ti.stop⟩

theorem ItemSpan.mono {s s' : APS} {lo lo' : Nat} {p : Pos} (h : ItemSpan s lo p) (hle : Le L s s') (hlo : lo' ≤ lo) : ItemSpan s' lo' p := by
  obtain ⟨j, i, tj, ti, h1, h2, h3, h4, h5, h6⟩ := h
  exact ⟨j, i, tj, ti, Nat.le_trans hlo h1, h2, Nat.lt_of_lt_of_le h3 hle.le, by rw [hle.toks_eq]; exact h4, by rw [hle.toks_eq]; exact h5, h6⟩

theorem Spec.ok_rel {α} {R : APS → APS → Prop} {s : APS} {r : PRes (α × APS)} {a : α} {s' : APS} (h : Spec L R s r) (he : r = .ok (a, s')) : R s s' := by
  rw [he] at h; exact h

/-- the token just consumed -/
theorem eaten_span (s : APS) (hi : Inv L s) : ItemSpan s.advance s.pos (tokPos s.cur) :=
  ⟨s.pos, s.pos, s.cur, s.cur, Nat.le_refl _, Nat.le_refl _, by simp [APS.advance], hi.2.2, hi.2.2, rfl⟩

theorem getEmpty_item (s : APS) (hi : Inv L s) (x : AItem) (s' : APS) (h : getEmpty s = some (x, s')) : ItemSpan s' s.pos x.pos := by
  unfold getEmpty at h
  split at h
  · cases h
  · simp only [Option.some.injEq, Prod.mk.injEq] at h
    rw [← h.1, ← h.2]; exact eaten_span s hi

theorem getReplacementTerm_item (s : APS) (hi : Inv L s) (x : AItem) (sx : APS) (h : (getReplacementTerm s).1 = some (x, sx)) :
    ItemSpan (getReplacementTerm s).2 s.pos x.pos := by
  unfold getReplacementTerm at h ⊢
  cases he : getEmpty s with
  | some r =>
    obtain ⟨y, s'⟩ := r
    simp only [he, Option.some.injEq, Prod.mk.injEq] at h ⊢
    rw [← h.1]; exact getEmpty_item s hi y s' he
  | none =>
    simp only [he] at h ⊢
    rcases expect_cases s .plus hi (by decide) with ⟨hp, h1⟩ | hp
    · simp only [hp] at h ⊢
      split at h
      · cases h
      · rename_i hs
        simp only [Option.some.injEq, Prod.mk.injEq] at h
        simp only [hs, Bool.not_true, Bool.false_eq_true, if_false]
        rw [← h.1]
        have := eaten_span s.advance h1.inv
        obtain ⟨j, i, tj, ti, g1, g2, g3, g4, g5, g6⟩ := this
        exact ⟨j, i, tj, ti, by have := h1.lt; omega, g2, g3, g4, g5, g6⟩
    · simp only [hp] at h ⊢
      split at h
      · cases h
      · rename_i hs
        simp only [Option.some.injEq, Prod.mk.injEq] at h
        simp only [hs, Bool.not_true, Bool.false_eq_true, if_false]
        rw [← h.1]
        exact eaten_span s hi

/-- a list of items produced so far: each covers consumed tokens, and none ends before the first one begins -/
def AccOK (s : APS) (l : List AItem) : Prop :=
  (∀ it ∈ l, ItemSpan s 0 it.pos) ∧ ∀ h, l.head? = some h → ∀ it ∈ l, h.pos.start ≤ it.pos.stop

theorem AccOK.nil (s : APS) : AccOK s [] := ⟨fun _ h => by simp at h, fun _ h => by simp at h⟩

theorem AccOK.mono {s s' : APS} {l : List AItem} (h : AccOK s l) (hle : Le L s s') : AccOK s' l :=
  ⟨fun it hit => (h.1 it hit).mono hle (Nat.le_refl _), h.2⟩

theorem ItemSpan.proper {s : APS} {lo : Nat} {p : Pos} (h : ItemSpan s lo p) (hi : Inv L s) : p.start ≤ p.stop ∧ p.stop ≤ L + 1 := by
  obtain ⟨j, i, tj, ti, _, h2, _, h4, h5, h6⟩ := h
  rw [h6]; exact span_ij s.toks hi.1 j i tj ti h2 h4 h5

/-- one more item, made of tokens at or after the cursor the list was built up to -/
theorem AccOK.snoc {s s' : APS} {l : List AItem} {x : AItem} (hl : AccOK s l) (hle : Le L s s') (hx : ItemSpan s' s.pos x.pos) :
    AccOK s' (l ++ [x]) := by
  have hl' := hl.mono hle
  refine ⟨fun it hit => ?_, fun h hh it hit => ?_⟩
  · rcases List.mem_append.mp hit with hm | hm
    · exact hl'.1 it hm
    · simp only [List.mem_singleton] at hm; subst hm; exact hx.mono (Le.refl s' hle.inv) (Nat.zero_le _)
  · cases l with
    | nil =>
      simp only [List.nil_append, List.head?_cons, Option.some.injEq] at hh
      simp only [List.nil_append, List.mem_singleton] at hit
      subst hh; subst hit
      exact (hx.proper hle.inv).1
    | cons a t =>
      simp only [List.cons_append, List.head?_cons, Option.some.injEq] at hh
      subst hh
      rcases List.mem_append.mp hit with hm | hm
      · exact hl.2 a rfl it hm
      · simp only [List.mem_singleton] at hm; subst hm
        obtain ⟨j1, i1, tj1, ti1, _, a2, a3, a4, a5, a6⟩ := hl.1 a (by simp)
        obtain ⟨j, i, tj, ti, b1, b2, b3, b4, b5, b6⟩ := hx
        rw [a6, b6]
        have := span_ij s'.toks hle.inv.1 j1 i tj1 ti (by omega) (by rw [hle.toks_eq]; exact a4) b5
        exact this.1

theorem replLoop_items : ∀ (fuel : Nat) (s : APS) (acc res : List AItem) (s' : APS), Inv L s → s.toks.length - s.pos < fuel →
    AccOK s acc → replLoop fuel s acc = .ok (res, s') → AccOK s' res := by
  intro fuel
  induction fuel with
  | zero => intro s _ _ _ _ h; omega
  | succ n ih =>
    intro s acc res s' hi hf hacc h
    have hle : Le L s s' := Spec.ok_rel (replLoop_spec (n + 1) s acc hi hf) h
    unfold replLoop at h
    rcases expect_cases s .comma hi (by decide) with ⟨he, h1⟩ | he
    · simp only [he, Bool.not_true, Bool.false_eq_true, if_false] at h
      have ht := getReplacementTerm_spec s.advance h1.inv
      have hit := getReplacementTerm_item s.advance h1.inv
      rcases hr : getReplacementTerm s.advance with ⟨o, s2⟩
      rw [hr] at ht hit h
      cases o with
      | some r =>
        obtain ⟨x, sx⟩ := r
        simp only at h
        have ha : Adv L s s2 := h1.trans_le (ht.2 _ rfl).toLe
        have hx := hit x sx rfl
        have hsn : AccOK s2 (acc ++ [x]) := hacc.snoc ha.toLe (hx.mono (Le.refl s2 ha.inv) (by simp [APS.advance]))
        exact ih s2 _ res s' ha.inv (measure_lt ha hf) hsn h
      | none =>
        simp only [Outcome.ok.injEq, Prod.mk.injEq] at h
        rw [← h.1]; exact hacc.mono hle
    · simp only [he, Bool.not_false, if_true, Outcome.ok.injEq, Prod.mk.injEq] at h
      rw [← h.1]; exact hacc.mono hle

theorem getReplacements_items (s : APS) (hi : Inv L s) (res : List AItem) (s' : APS) (h : getReplacements s = .ok (res, s')) : AccOK s' res := by
  unfold getReplacements at h
  have ht := getReplacementTerm_spec s hi
  have hit := getReplacementTerm_item s hi
  rcases hr : getReplacementTerm s with ⟨o, s1⟩
  rw [hr] at ht hit h
  cases o with
  | some r =>
    obtain ⟨x, sx⟩ := r
    simp only at h
    have hx := hit x sx rfl
    have h0 : AccOK s1 ([] ++ [x]) := (AccOK.nil s).snoc ht.1 hx
    exact replLoop_items _ s1 [x] res s' ht.1.inv (by rw [ht.1.toks_eq]; have := ht.1.le; omega) h0 h
  | none =>
    simp only at h
    split at h <;> cases h

theorem prev_spec (s : APS) (p : AToken) (h : s.prev = .ok p) : 1 ≤ s.pos ∧ s.toks[s.pos - 1]? = some p := by
  unfold APS.prev at h
  split at h
  · cases h
  · split at h
    · rename_i t ht; cases h; exact ⟨by omega, ht⟩
    · cases h

/-- the matrix of `get_params`: from the `[` before the entry cursor to the last token consumed -/
theorem getParams_span (s : APS) (hi : Inv L s) (hp : 0 < s.pos) (a : Modifiers) (pos : Pos) (s' : APS)
    (h : getParams s = .ok ((a, pos), s')) : ItemSpan s' (s.pos - 1) pos := by
  have hle : Le L s s' := Spec.ok_rel (getParams_spec s hi hp) h
  unfold getParams at h
  cases h1 : s.prev with
  | ok o =>
    simp only [h1, bind, Outcome.bind] at h
    cases h2 : getParamArgs (s.toks.length + 2) s Modifiers.empty with
    | ok v =>
      obtain ⟨args, s1⟩ := v
      simp only [h2] at h
      cases h3 : s1.prev with
      | ok c =>
        simp only [h3, pure, Outcome.ok.injEq, Prod.mk.injEq] at h
        obtain ⟨_, ho⟩ := prev_spec s o h1
        obtain ⟨_, hc⟩ := prev_spec s1 c h3
        rw [h.2] at hc
        have := hle.le
        exact ⟨s.pos - 1, s'.pos - 1, o, c, Nat.le_refl _, by omega, by omega, by rw [hle.toks_eq]; exact ho, hc, h.1.2.symm⟩
      | err e => simp [h3] at h
      | panic q => simp [h3] at h
      | outOfFuel q => simp [h3] at h
    | err e => simp [h2] at h
    | panic q => simp [h2] at h
    | outOfFuel q => simp [h2] at h
  | err e => simp [h1, bind, Outcome.bind] at h
  | panic q => simp [h1, bind, Outcome.bind] at h
  | outOfFuel q => simp [h1, bind, Outcome.bind] at h

/-- the token at `j`, then a matrix: from the start of that token to the end of the matrix -/
theorem span_join {s' : APS} {lo j : Nat} {tj : AToken} {pos : Pos} (hj : s'.toks[j]? = some tj) (hjl : j ≤ lo) (h : ItemSpan s' lo pos) :
    ItemSpan s' j ⟨tj.start, pos.stop⟩ := by
  obtain ⟨j2, i, tj2, ti, g1, g2, g3, g4, g5, g6⟩ := h
  exact ⟨j, i, tj, ti, Nat.le_refl _, by omega, g3, hj, g5, by rw [g6]⟩

theorem getIpa_span (s : APS) (hi : Inv L s) (hk : s.cur.kind = .cardinal) (seg : Seg) (pr : Option Modifiers) (pos : Pos) (s' : APS)
    (h : getIpa s = .ok ((seg, pr, pos), s')) : ItemSpan s' s.pos pos := by
  have hne : s.cur.kind ≠ .eol := by rw [hk]; decide
  have ha := advance_adv s hi hne
  unfold getIpa at h
  split at h
  · cases h
  · rename_i seg0 _
    have hd := ipaDias_spec (L := L) (tokPos s.cur) s.pos s.cur rfl (s.toks.length + 2) s.advance seg0 ha.inv
      (by rw [ha.toks_eq]; exact hi.2.2) ha.lt (by simp [APS.advance]; omega)
    cases h1 : ipaDias (tokPos s.cur) (s.toks.length + 2) s.advance seg0 with
    | ok v =>
      obtain ⟨sg, s1⟩ := v
      have hle : Le L s.advance s1 := Spec.ok_rel hd h1
      have hs1 : Adv L s s1 := ha.trans_le hle
      simp only [h1, bind, Outcome.bind] at h
      rcases expect_cases s1 .colon hle.inv (by decide) with ⟨he, h1a⟩ | he
      · simp only [he, Bool.not_true, Bool.false_eq_true, if_false] at h
        rcases expect_cases s1.advance .leftSquare h1a.inv (by decide) with ⟨he2, h2⟩ | he2
        · simp only [he2, Bool.not_true, Bool.false_eq_true, if_false] at h
          cases hp : getParams s1.advance.advance with
          | ok v2 =>
            obtain ⟨⟨params, ppos⟩, s4⟩ := v2
            simp only [hp, pure, Outcome.ok.injEq, Prod.mk.injEq] at h
            have h3 : Adv L s s1.advance.advance := (hs1.trans h1a).trans h2
            have hps := getParams_span _ h2.inv (Nat.lt_of_le_of_lt (Nat.zero_le _) h2.lt) params ppos s4 hp
            have hle4 : Le L s1.advance.advance s4 := Spec.ok_rel (getParams_spec _ h2.inv (Nat.lt_of_le_of_lt (Nat.zero_le _) h2.lt)) hp
            rw [← h.2, ← h.1.2.2]
            have := span_join (s' := s4) (j := s.pos) (tj := s.cur) (by rw [hle4.toks_eq, h3.toks_eq]; exact hi.2.2)
              (by have := h3.lt; omega) hps
            exact this
          | err e => simp [hp] at h
          | panic q => simp [hp] at h
          | outOfFuel q => simp [hp] at h
        · simp [he2] at h
      · simp only [he, Bool.not_false, if_true] at h
        cases hp : s1.prev with
        | ok p =>
          simp only [hp, pure, Outcome.ok.injEq, Prod.mk.injEq] at h
          obtain ⟨hp1, hp2⟩ := prev_spec s1 p hp
          rw [← h.2, ← h.1.2.2]
          have := hs1.lt
          exact ⟨s.pos, s1.pos - 1, s.cur, p, Nat.le_refl _, by omega, by omega, by rw [hs1.toks_eq]; exact hi.2.2, hp2, rfl⟩
        | err e => simp [hp] at h
        | panic q => simp [hp] at h
        | outOfFuel q => simp [hp] at h
    | err e => simp [h1, bind, Outcome.bind] at h
    | panic q => simp [h1, bind, Outcome.bind] at h
    | outOfFuel q => simp [h1, bind, Outcome.bind] at h

theorem groupToMatrix_pos (t : AToken) (m : Modifiers) (pos : Pos) (h : groupToMatrix t = .ok (m, pos)) : pos = tokPos t := by
  unfold groupToMatrix at h
  split at h
  · split at h
    · simp only [Outcome.ok.injEq, Prod.mk.injEq] at h; exact h.2.symm
    · cases h
  · cases h

theorem getGroup_span (s : APS) (hi : Inv L s) (hk : s.cur.kind = .group) (m : Modifiers) (pos : Pos) (s' : APS)
    (h : getGroup s = .ok ((m, pos), s')) : ItemSpan s' s.pos pos := by
  have hne : s.cur.kind ≠ .eol := by rw [hk]; decide
  have ha := advance_adv s hi hne
  have hadv : Adv L s s' := Spec.ok_rel (getGroup_spec s hi hk) h
  unfold getGroup at h
  cases h1 : groupToMatrix s.cur with
  | ok chr =>
    obtain ⟨cm, cpos⟩ := chr
    have hcp := groupToMatrix_pos s.cur cm cpos h1
    simp only [h1, bind, Outcome.bind] at h
    rcases expect_cases s.advance .colon ha.inv (by decide) with ⟨he, h1a⟩ | he
    · simp only [he, Bool.not_true, Bool.false_eq_true, if_false] at h
      rcases expect_cases s.advance.advance .leftSquare h1a.inv (by decide) with ⟨he2, h2⟩ | he2
      · simp only [he2, Bool.not_true, Bool.false_eq_true, if_false] at h
        cases hp : getParams s.advance.advance.advance with
        | ok v =>
          obtain ⟨⟨params, ppos⟩, s4⟩ := v
          simp only [hp, pure, Outcome.ok.injEq, Prod.mk.injEq, joinGroup] at h
          have h3 : Adv L s s.advance.advance.advance := (ha.trans h1a).trans h2
          have hps := getParams_span _ h2.inv (Nat.lt_of_le_of_lt (Nat.zero_le _) h2.lt) params ppos s4 hp
          have hle4 : Le L s.advance.advance.advance s4 := Spec.ok_rel (getParams_spec _ h2.inv (Nat.lt_of_le_of_lt (Nat.zero_le _) h2.lt)) hp
          rw [← h.2, ← h.1.2, hcp]
          exact span_join (s' := s4) (j := s.pos) (tj := s.cur) (by rw [hle4.toks_eq, h3.toks_eq]; exact hi.2.2) (by have := h3.lt; omega) hps
        | err e => simp [hp] at h
        | panic q => simp [hp] at h
        | outOfFuel q => simp [hp] at h
      · simp [he2] at h
    · simp only [he, Bool.not_false, if_true, pure, Outcome.ok.injEq, Prod.mk.injEq] at h
      rw [← h.1.2, ← h.2, hcp]
      exact eaten_span s hi
  | err e => simp [h1, bind, Outcome.bind] at h
  | panic q => simp [h1, bind, Outcome.bind] at h
  | outOfFuel q => simp [h1, bind, Outcome.bind] at h

/-- what the loop of `get_segment` has accumulated: nothing yet, or the span from the first element to the last -/
def SegAcc (s : APS) (lo : Nat) (acc : List SegType) (start : Option Nat) (stop : Nat) : Prop :=
  (acc = [] ∧ start = none) ∨ (acc ≠ [] ∧ ∃ a, start = some a ∧ ItemSpan s lo ⟨a, stop⟩)

theorem SegAcc.step {s s' : APS} {lo : Nat} {acc : List SegType} {start : Option Nat} {stop : Nat} {pos : Pos} (x : SegType)
    (h : SegAcc s lo acc start stop) (hle : Le L s s') (hlo : lo ≤ s.pos) (hx : ItemSpan s' s.pos pos) :
    SegAcc s' lo (acc ++ [x]) (if start.isNone then some pos.start else start) pos.stop := by
  refine Or.inr ⟨by simp, ?_⟩
  rcases h with ⟨_, rfl⟩ | ⟨_, a, rfl, hsp⟩
  · refine ⟨pos.start, by simp, ?_⟩
    obtain ⟨j, i, tj, ti, g1, g2, g3, g4, g5, g6⟩ := hx
    exact ⟨j, i, tj, ti, by omega, g2, g3, g4, g5, by rw [g6]⟩
  · refine ⟨a, by simp, ?_⟩
    obtain ⟨j0, i0, tj0, ti0, a1, a2, a3, a4, a5, a6⟩ := hsp
    obtain ⟨j, i, tj, ti, g1, g2, g3, g4, g5, g6⟩ := hx
    simp only [Pos.mk.injEq] at a6
    exact ⟨j0, i, tj0, ti, a1, by omega, g3, by rw [hle.toks_eq]; exact a4, g5, by rw [g6, a6.1]⟩

theorem segLoop_acc : ∀ (fuel : Nat) (s : APS) (lo : Nat) (acc : List SegType) (st : Option Nat) (sp : Nat) (segs : List SegType)
    (st' : Option Nat) (sp' : Nat) (s' : APS), Inv L s → s.toks.length - s.pos < fuel → lo ≤ s.pos → SegAcc s lo acc st sp →
    segLoop fuel s acc st sp = .ok ((segs, st', sp'), s') → SegAcc s' lo segs st' sp' := by
  intro fuel
  induction fuel with
  | zero => intro s _ _ _ _ _ _ _ _ _ h; omega
  | succ n ih =>
    intro s lo acc st sp segs st' sp' s' hi hf hlo hacc h
    have hmono : ∀ (s1 : APS), Le L s s1 → SegAcc s lo acc st sp → SegAcc s1 lo acc st sp := by
      intro s1 hle1 hh
      rcases hh with hh | ⟨g1, a, g2, g3⟩
      · exact Or.inl hh
      · exact Or.inr ⟨g1, a, g2, g3.mono hle1 (Nat.le_refl _)⟩
    unfold segLoop at h
    split at h
    · simp only [Outcome.ok.injEq, Prod.mk.injEq] at h
      obtain ⟨⟨e1, e2, e3⟩, e4⟩ := h
      subst e1 e2 e3 e4; exact hacc
    split at h
    · rename_i hk
      have hk : s.cur.kind = .cardinal := by simpa [APS.peek] using hk
      have h1 := getIpa_spec s hi hk
      split at h
      · rename_i seg params pos s1 hx; rw [hx] at h1
        have ha : Adv L s s1 := h1
        exact ih s1 lo _ _ _ segs st' sp' s' ha.inv (measure_lt ha hf) (by have := ha.lt; omega)
          (hacc.step (.ipa seg params) ha.toLe hlo (getIpa_span s hi hk seg params pos s1 hx)) h
      · cases h
      · cases h
      · cases h
    split at h
    · rename_i hk
      have hk : s.cur.kind = .group := by simpa [APS.peek] using hk
      have h1 := getGroup_spec s hi hk
      split at h
      · rename_i params pos s1 hx; rw [hx] at h1
        have ha : Adv L s s1 := h1
        exact ih s1 lo _ _ _ segs st' sp' s' ha.inv (measure_lt ha hf) (by have := ha.lt; omega)
          (hacc.step (.matrix params) ha.toLe hlo (getGroup_span s hi hk params pos s1 hx)) h
      · cases h
      · cases h
      · cases h
    · rcases expect_cases s .leftSquare hi (by decide) with ⟨he, h1⟩ | he
      · simp only [he, if_true] at h
        have hpp : 0 < s.advance.pos := Nat.lt_of_le_of_lt (Nat.zero_le _) h1.lt
        have h2 := getParams_spec s.advance h1.inv hpp
        split at h
        · rename_i params pos s1 hx; rw [hx] at h2
          have hle2 : Le L s.advance s1 := h2
          have ha : Adv L s s1 := h1.trans_le hle2
          have hps := getParams_span s.advance h1.inv hpp params pos s1 hx
          have hps' : ItemSpan s1 s.pos pos := by
            obtain ⟨j, i, tj, ti, g1, g2, g3, g4, g5, g6⟩ := hps
            exact ⟨j, i, tj, ti, by simp [APS.advance] at g1; omega, g2, g3, g4, g5, g6⟩
          exact ih s1 lo _ _ _ segs st' sp' s' ha.inv (measure_lt ha hf) (by have := ha.lt; omega)
            (hacc.step (.matrix params) ha.toLe hlo hps') h
        · cases h
        · cases h
        · cases h
      · simp only [he, Bool.false_eq_true, if_false, Outcome.ok.injEq, Prod.mk.injEq] at h
        obtain ⟨⟨e1, e2, e3⟩, e4⟩ := h
        subst e1 e2 e3 e4; exact hacc

theorem getSegment_item (s : APS) (hi : Inv L s) (x : AItem) (s' : APS) (h : getSegment s = .ok (some x, s')) : ItemSpan s' s.pos x.pos := by
  unfold getSegment at h
  cases hx : segLoop (s.toks.length + 2) s [] none 0 with
  | ok v =>
    obtain ⟨⟨segs, st, sp⟩, s1⟩ := v
    have hacc := segLoop_acc _ s s.pos [] none 0 segs st sp s1 hi (fuel_ok s) (Nat.le_refl _) (Or.inl ⟨rfl, rfl⟩) hx
    simp only [hx, bind, Outcome.bind] at h
    split at h
    · simp [pure] at h
    · cases st with
      | some a =>
        simp only [pure, Outcome.ok.injEq, Prod.mk.injEq, Option.some.injEq] at h
        rw [← h.1, ← h.2]
        rcases hacc with ⟨_, hn⟩ | ⟨_, a', ha', hsp⟩
        · cases hn
        · cases ha'; exact hsp
      | none => simp at h
  | err e => simp [hx, bind, Outcome.bind] at h
  | panic q => simp [hx, bind, Outcome.bind] at h
  | outOfFuel q => simp [hx, bind, Outcome.bind] at h

theorem getInputTerm_item (s : APS) (hi : Inv L s) (x : AItem) (s' : APS) (h : getInputTerm s = .ok (some x, s')) : ItemSpan s' s.pos x.pos := by
  unfold getInputTerm at h
  split at h
  · rename_i y t hy
    simp only [pure, Outcome.ok.injEq, Prod.mk.injEq, Option.some.injEq] at h
    unfold getSyllBound at hy
    rcases eatExpect_cases s .syllBoundary hi (by decide) with ⟨he, ha⟩ | he
    · simp only [he, Option.some.injEq, Prod.mk.injEq] at hy
      rw [← h.1, ← h.2, ← hy.1, ← hy.2]; exact eaten_span s hi
    · simp [he] at hy
  · exact getSegment_item s hi x s' h

theorem inputLoop_items : ∀ (fuel : Nat) (s : APS) (acc res : List AItem) (s' : APS), Inv L s → s.toks.length - s.pos < fuel →
    AccOK s acc → inputLoop fuel s acc = .ok (res, s') → AccOK s' res := by
  intro fuel
  induction fuel with
  | zero => intro s _ _ _ _ h; omega
  | succ n ih =>
    intro s acc res s' hi hf hacc h
    have hle : Le L s s' := Spec.ok_rel (inputLoop_spec (n + 1) s acc hi hf) h
    unfold inputLoop at h
    rcases expect_cases s .comma hi (by decide) with ⟨he, h1⟩ | he
    · simp only [he, Bool.not_true, Bool.false_eq_true, if_false] at h
      have ht := getInputTerm_spec s.advance h1.inv
      split at h
      · rename_i t s2 hx; rw [hx] at ht
        have ha2 : Adv L s.advance s2 := ht
        have ha : Adv L s s2 := h1.trans ha2
        have hx' := getInputTerm_item s.advance h1.inv t s2 hx
        exact ih s2 _ res s' ha.inv (measure_lt ha hf) (hacc.snoc ha.toLe (hx'.mono (Le.refl s2 ha.inv) (by simp [APS.advance]))) h
      · simp only [Outcome.ok.injEq, Prod.mk.injEq] at h
        rw [← h.1]; exact hacc.mono hle
      · cases h
      · cases h
      · cases h
    · simp only [he, Bool.not_false, if_true, Outcome.ok.injEq, Prod.mk.injEq] at h
      rw [← h.1]; exact hacc.mono hle

theorem getInput_items (s : APS) (hi : Inv L s) (res : List AItem) (s' : APS) (h : getInput s = .ok (res, s')) : AccOK s' res := by
  unfold getInput at h
  have ht := getInputTerm_spec s hi
  cases hx : getInputTerm s with
  | ok v =>
    obtain ⟨t, s1⟩ := v
    rw [hx] at ht
    simp only [hx, bind, Outcome.bind] at h
    cases t with
    | some x =>
      have ha : Adv L s s1 := ht
      have hx' := getInputTerm_item s hi x s1 hx
      have h0 : AccOK s1 ([] ++ [x]) := (AccOK.nil s).snoc ha.toLe hx'
      exact inputLoop_items _ s1 [x] res s' ha.inv (by rw [ha.toks_eq]; have := ha.lt; omega) h0 h
    | none =>
      simp only at h
      cases hh : s1.here with
      | ok t => simp [hh] at h
      | err e => simp [hh] at h
      | panic q => simp [hh] at h
      | outOfFuel q => simp [hh] at h
  | err e => simp [hx, bind, Outcome.bind] at h
  | panic q => simp [hx, bind, Outcome.bind] at h
  | outOfFuel q => simp [hx, bind, Outcome.bind] at h

end Asca.AParse.T
