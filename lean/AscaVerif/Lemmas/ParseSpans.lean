import AscaVerif.Model.Parser
import AscaVerif.Props.C02Word
import AscaVerif.Lemmas.Lex
/-! Spans of the parser's errors.  The step lemmas of `Lemmas/Parse.lean` once more, with a stronger invariant - the
    token list is the lexer's (spans inside a line of `L` characters, non-empty, the last token `Eol`), the cursor is
    inside the list, and the current token is the token under the cursor or the synthetic `Eol` the parser makes up
    after a comment - and a stronger specification: a result is not `outOfFuel`, a success is related to the start
    state as before, AND an error either belongs to the variants that underline an ITEM (whose positions are not
    tracked here) or underlines columns inside `[0, L + 1]` with `start ≤ end`. -/
namespace Asca.Parse.Spans
open Asca.Parse
open Lex (Token TK)

/-- what the lexer guarantees about the token list of a line of `L` characters -/
structure ToksOK (L : Nat) (toks : List Token) : Prop where
  span : ∀ t ∈ toks, t.start < t.stop ∧ t.stop ≤ L + 1
  count : toks.length ≤ L + 1
  notLast : ∀ (i : Nat) (t : Token), toks[i]? = some t → t.kind ≠ .eol → i + 1 < toks.length
  nums : ∀ t ∈ toks, Lex.NumOK t
  vals : ∀ t ∈ toks, Lex.TokX t
  nonempty : toks ≠ []
  sorted : ∀ (i j : Nat) (ti tj : Token), i < j → toks[i]? = some ti → toks[j]? = some tj → ti.stop ≤ tj.start

/-- the `Eol` the parser makes up (`advance`): its "position" is the token index -/
def synth (p : Nat) : Token := ⟨.eol, [], p, p + 1⟩

/-- the lexer's tokens, the cursor inside the list, the current token real or made up -/
def Inv (L : Nat) (s : PS) : Prop :=
  ToksOK L s.toks ∧ s.pos < s.toks.length ∧ (s.toks[s.pos]? = some s.cur ∨ s.cur = synth s.pos)

structure Le (L : Nat) (s s' : PS) : Prop where
  toks_eq : s'.toks = s.toks
  le : s.pos ≤ s'.pos
  inv : Inv L s'

structure Adv (L : Nat) (s s' : PS) : Prop where
  toks_eq : s'.toks = s.toks
  lt : s.pos < s'.pos
  inb : s.pos < s.toks.length
  inv : Inv L s'

variable {L : Nat}

theorem Le.refl (s : PS) (h : Inv L s) : Le L s s := ⟨rfl, Nat.le_refl _, h⟩
theorem Adv.toLe {s s' : PS} (h : Adv L s s') : Le L s s' := ⟨h.toks_eq, Nat.le_of_lt h.lt, h.inv⟩
theorem Le.trans {a b c : PS} (h1 : Le L a b) (h2 : Le L b c) : Le L a c :=
  ⟨h2.toks_eq.trans h1.toks_eq, Nat.le_trans h1.le h2.le, h2.inv⟩
theorem Adv.trans_le {a b c : PS} (h1 : Adv L a b) (h2 : Le L b c) : Adv L a c :=
  ⟨h2.toks_eq.trans h1.toks_eq, Nat.lt_of_lt_of_le h1.lt h2.le, h1.inb, h2.inv⟩
theorem Le.trans_adv {a b c : PS} (h1 : Le L a b) (h2 : Adv L b c) : Adv L a c :=
  ⟨h2.toks_eq.trans h1.toks_eq, Nat.lt_of_le_of_lt h1.le h2.lt,
   by have := h2.inb; rw [h1.toks_eq] at this; exact Nat.lt_of_le_of_lt h1.le this, h2.inv⟩
theorem Adv.trans {a b c : PS} (h1 : Adv L a b) (h2 : Adv L b c) : Adv L a c := h1.trans_le h2.toLe

/-- the error variants exempt from the span claim: none (`UnexpectedDiacritic`, the last one, is covered through the
    item positions of `Lemmas/ParseItems.lean`) -/
def itemErrNames : List String :=
  []

/-- every span has `start ≤ end ≤ L + 1`, and a second span begins where the first ends or later (what the
    formatter's `" ".repeat(b.start - a.end)` needs) -/
def SpansOK (L : Nat) (spans : List (Nat × Nat)) : Prop :=
  (∀ sp ∈ spans, sp.1 ≤ sp.2 ∧ sp.2 ≤ L + 1) ∧ spans.Pairwise (fun a b => a.2 ≤ b.1)

/-- the error is the one exempt variant, or its spans are well placed -/
def ErrOK (L : Nat) (e : PErr) : Prop :=
  e.name ∈ itemErrNames ∨ SpansOK L e.spans

theorem spansOK_one (a b : Nat) (h : a ≤ b ∧ b ≤ L + 1) : SpansOK L [(a, b)] :=
  ⟨fun sp hsp => by simp only [List.mem_singleton] at hsp; subst hsp; exact h, List.pairwise_singleton _ _⟩

theorem advance_toks (s : PS) : s.advance.toks = s.toks := rfl
theorem advance_pos (s : PS) : s.advance.pos = s.pos + 1 := rfl

/-- the current token of a state that satisfies the invariant is not made up unless it is `Eol` -/
theorem cur_real (s : PS) (hi : Inv L s) (hk : s.cur.kind ≠ .eol) : s.toks[s.pos]? = some s.cur := by
  rcases hi.2.2 with h | h
  · exact h
  · exfalso; apply hk; rw [h]; rfl

/-- the state after `advance` from position `p - 1` satisfies the invariant whenever `p` is inside the list -/
theorem inv_after (toks : List Token) (p : Nat) (c : Token) (ht : ToksOK L toks) (hp : p < toks.length) :
    Inv L { toks := toks, pos := p,
            cur := if p < toks.length && c.kind != .comment then toks.getD p default else ⟨.eol, [], p, p + 1⟩ } := by
  refine ⟨ht, hp, ?_⟩
  by_cases hc : (p < toks.length && c.kind != .comment) = true
  · left; simp only [hc, if_true]
    rw [List.getD_eq_getElem?_getD]
    cases h : toks[p]? with
    | some t => rfl
    | none => exfalso; have := List.getElem?_eq_none_iff.mp h; omega
  · right; simp only [hc]; rfl

/-- consuming a token that is not `Eol` -/
theorem advance_adv (s : PS) (hi : Inv L s) (hk : s.cur.kind ≠ .eol) : Adv L s s.advance := by
  have hr := cur_real s hi hk
  have hn := hi.1.notLast s.pos s.cur hr hk
  refine ⟨rfl, by simp [advance_pos], hi.2.1, ?_⟩
  exact inv_after s.toks (s.pos + 1) s.cur hi.1 hn

theorem cur_ok (s : PS) (hi : Inv L s) : s.cur.start ≤ s.cur.stop ∧ s.cur.stop ≤ L + 1 := by
  rcases hi.2.2 with h | h
  · have := hi.1.span s.cur (List.mem_of_getElem? h); omega
  · rw [h]; simp only [synth]; have := hi.1.count; have := hi.2.1; omega

theorem tokErr_ok (name : String) (s : PS) (hi : Inv L s) : ErrOK L (tokErr name s.cur) :=
  Or.inr (spansOK_one _ _ (cur_ok s hi))

/-- an error that underlines the position of the current token (as an item built from it carries it) -/
theorem posErr_cur (name : String) (s : PS) (hi : Inv L s) : ErrOK L (posErr name (tokPos s.cur)) :=
  Or.inr (spansOK_one _ _ (cur_ok s hi))

/-- the token under the cursor, when it is not `Eol`, lies strictly inside the line -/
theorem cur_strict (s : PS) (hi : Inv L s) (hk : s.cur.kind ≠ .eol) : s.cur.start < s.cur.stop ∧ s.cur.stop ≤ L + 1 :=
  hi.1.span s.cur (List.mem_of_getElem? (cur_real s hi hk))

theorem colErr_ok (name : String) (c : Nat) (h : c ≤ L) : ErrOK L (colErr name c) :=
  Or.inr (spansOK_one _ _ (by omega))

/-- `self.token_list[self.pos-1]`, when it exists, is the token before the cursor -/
theorem prev_spec (s : PS) (p : Token) (h : s.prev = .ok p) : 1 ≤ s.pos ∧ s.toks[s.pos - 1]? = some p := by
  unfold PS.prev at h
  split at h
  · cases h
  · rename_i hp
    split at h
    · rename_i t ht; cases h; exact ⟨by omega, ht⟩
    · cases h

/-- a span from the start of the token at `i` to the end of the token at `j ≥ i` -/
theorem span_ij (toks : List Token) (hT : ToksOK L toks) (i j : Nat) (ti tj : Token) (hij : i ≤ j)
    (hi : toks[i]? = some ti) (hj : toks[j]? = some tj) : ti.start ≤ tj.stop ∧ tj.stop ≤ L + 1 := by
  have h1 := hT.span ti (List.mem_of_getElem? hi)
  have h2 := hT.span tj (List.mem_of_getElem? hj)
  rcases Nat.lt_or_eq_of_le hij with hlt | heq
  · have := hT.sorted i j ti tj hlt hi hj; omega
  · subst heq; rw [hi] at hj; cases hj; omega

theorem itemErr_ok (name : String) (spans : List (Nat × Nat)) (h : name ∈ itemErrNames) : ErrOK L ⟨name, spans⟩ := Or.inl h

theorem here_col (s : PS) (hi : Inv L s) (t : Token) (h : s.here = .ok t) : t.start ≤ L := by
  unfold PS.here at h
  split at h
  · rename_i t' ht
    cases h
    have := hi.1.span t (List.mem_of_getElem? ht); omega
  · cases h

theorem pos_le (s : PS) (hi : Inv L s) : s.pos ≤ L := by have := hi.1.count; have := hi.2.1; omega

theorem expect_spec (s : PS) (k : TK) (hi : Inv L s) (hk : k ≠ .eol) :
    ((s.expect k).1 = true → Adv L s (s.expect k).2) ∧ ((s.expect k).1 = false → (s.expect k).2 = s) := by
  unfold PS.expect
  by_cases h : s.cur.kind = k
  · simp only [h, if_true]
    exact ⟨fun _ => advance_adv s hi (by rw [h]; exact hk), fun h' => by simp at h'⟩
  · simp only [h, if_false]
    exact ⟨fun h' => by simp at h', fun _ => trivial⟩

theorem expect_le (s : PS) (k : TK) (hi : Inv L s) (hk : k ≠ .eol) : Le L s (s.expect k).2 := by
  have := expect_spec s k hi hk
  cases hb : (s.expect k).1 with
  | true => exact (this.1 hb).toLe
  | false => rw [this.2 hb]; exact Le.refl s hi

/-- the `panic` sites of the parser model that stand for `parse::<usize>().unwrap()` / `expect()` on a number token -/
def numberSites : List String :=
  ["get_var_assign: number-too-large", "get_syll/get_struct: number-too-large", "get_opt: number-too-large"]

/-- no panic is acceptable: every `panic` site of the parser model has to be shown unreachable -/
def PanicOK (_p : String) : Prop := False

/-- a `Number` token under the cursor of a state that satisfies the invariant fits a `usize` -/
theorem num_of_cur (s : PS) (hi : Inv L s) (hk : s.cur.kind = .number) :
    s.cur.value ≠ [] ∧ ParseWord.digitsToNat s.cur.value < 2 ^ 64 := by
  have hr := cur_real s hi (by rw [hk]; decide)
  exact hi.1.nums s.cur (List.mem_of_getElem? hr) hk

theorem eatExpect_kind (s : PS) (k : TK) (t : Token) (s' : PS) (h : s.eatExpect k = some (t, s')) : t = s.cur ∧ s.cur.kind = k := by
  unfold PS.eatExpect at h
  by_cases hc : s.cur.kind = k
  · simp only [hc, if_true, Option.some.injEq, Prod.mk.injEq] at h; exact ⟨h.1.symm, hc⟩
  · simp [hc] at h

theorem expect_true_kind (s : PS) (k : TK) (s' : PS) (h : s.expect k = (true, s')) : s.cur.kind = k := by
  unfold PS.expect at h
  by_cases hc : s.cur.kind = k
  · exact hc
  · simp [hc] at h

theorem getWordBound_pos (s : PS) (x : PItem) (s' : PS) (h : getWordBound s = some (x, s')) :
    x.pos = tokPos s.cur ∧ s.cur.kind = .wordBoundary := by
  unfold getWordBound at h
  cases he : s.eatExpect .wordBoundary with
  | none => simp [he] at h
  | some r =>
    obtain ⟨t, s1⟩ := r
    have hk := eatExpect_kind s _ t s1 he
    simp only [he, Option.some.injEq, Prod.mk.injEq] at h
    rw [← h.1, hk.1]; exact ⟨rfl, hk.2⟩

/-- not `outOfFuel`; a success ends in a state related to `s` by `R`; an error is well placed; a panic is not a
    failed number parse -/
def Spec (L : Nat) {α} (R : PS → PS → Prop) (s : PS) : PRes (α × PS) → Prop
  | .ok (_, s') => R s s'
  | .err e => ErrOK L e
  | .panic p => PanicOK p
  | .outOfFuel _ => False

def OSpec (L : Nat) {α} (R : PS → PS → Prop) (s : PS) : PRes (Option (α × PS)) → Prop
  | .ok (some (_, s')) => R s s'
  | .ok none => True
  | .err e => ErrOK L e
  | .panic p => PanicOK p
  | .outOfFuel _ => False

/-- a computation without parser state: not `outOfFuel`, errors well placed -/
def NoFuel (L : Nat) {α} : PRes α → Prop
  | .outOfFuel _ => False
  | .err e => ErrOK L e
  | .panic p => PanicOK p
  | .ok _ => True

/-- close an error goal: an item error, or an error that underlines the current token of a state whose invariant is
    among the hypotheses (directly, or as the `.inv` of a step relation) -/
macro "errtac" : tactic => `(tactic| (show ErrOK _ _; first
  | exact itemErr_ok _ _ (by decide)
  | (apply tokErr_ok; first | assumption | exact Le.inv (by assumption) | exact Adv.inv (by assumption))))

macro "triv" : tactic => `(tactic| first | trivial | errtac)

theorem Spec.bind {α β} {R1 R2 R3 : PS → PS → Prop} {s0 s : PS} {x : PRes (α × PS)} {f : α × PS → PRes (β × PS)}
    (hx : Spec L R1 s x) (hf : ∀ a s', R1 s s' → Spec L R2 s' (f (a, s')))
    (hR : ∀ b c, R1 s b → R2 b c → R3 s0 c) : Spec L R3 s0 (x >>= f) := by
  cases x with
  | ok v =>
    obtain ⟨a, s'⟩ := v
    have h1 : R1 s s' := hx
    have h2 := hf a s' h1
    show Spec L R3 s0 (f (a, s'))
    cases hfv : f (a, s') with
    | ok w => obtain ⟨b, s''⟩ := w; rw [hfv] at h2; exact hR s' s'' h1 h2
    | err e => rw [hfv] at h2; exact h2
    | panic p => rw [hfv] at h2; exact h2
    | outOfFuel p => rw [hfv] at h2; exact h2
  | err e => exact hx
  | panic p => exact hx
  | outOfFuel p => exact hx

theorem Spec.bindO {α β} {R1 R2 R3 : PS → PS → Prop} {s0 s : PS} {x : PRes (α × PS)} {f : α × PS → PRes (Option (β × PS))}
    (hx : Spec L R1 s x) (hf : ∀ a s', R1 s s' → OSpec L R2 s' (f (a, s')))
    (hR : ∀ b c, R1 s b → R2 b c → R3 s0 c) : OSpec L R3 s0 (x >>= f) := by
  cases x with
  | ok v =>
    obtain ⟨a, s'⟩ := v
    have h1 : R1 s s' := hx
    have h2 := hf a s' h1
    show OSpec L R3 s0 (f (a, s'))
    cases hfv : f (a, s') with
    | ok w =>
      cases w with
      | none => trivial
      | some w => obtain ⟨b, s''⟩ := w; rw [hfv] at h2; exact hR s' s'' h1 h2
    | err e => rw [hfv] at h2; exact h2
    | panic p => rw [hfv] at h2; exact h2
    | outOfFuel p => rw [hfv] at h2; exact h2
  | err e => exact hx
  | panic p => exact hx
  | outOfFuel p => exact hx

/-- `bind` with the equation of the first computation available to the continuation -/
theorem Spec.bindE {α β} {R1 R2 R3 : PS → PS → Prop} {s0 s : PS} {x : PRes (α × PS)} {f : α × PS → PRes (β × PS)}
    (hx : Spec L R1 s x) (hf : ∀ a s', x = .ok (a, s') → R1 s s' → Spec L R2 s' (f (a, s')))
    (hR : ∀ b c, R1 s b → R2 b c → R3 s0 c) : Spec L R3 s0 (x >>= f) := by
  cases x with
  | ok v =>
    obtain ⟨a, s'⟩ := v
    have h1 : R1 s s' := hx
    have h2 := hf a s' rfl h1
    show Spec L R3 s0 (f (a, s'))
    cases hfv : f (a, s') with
    | ok w => obtain ⟨b, s''⟩ := w; rw [hfv] at h2; exact hR s' s'' h1 h2
    | err e => rw [hfv] at h2; exact h2
    | panic p => rw [hfv] at h2; exact h2
    | outOfFuel p => rw [hfv] at h2; exact h2
  | err e => exact hx
  | panic p => exact hx
  | outOfFuel p => exact hx

theorem Spec.bindOE {α β} {R1 R2 R3 : PS → PS → Prop} {s0 s : PS} {x : PRes (α × PS)} {f : α × PS → PRes (Option (β × PS))}
    (hx : Spec L R1 s x) (hf : ∀ a s', x = .ok (a, s') → R1 s s' → OSpec L R2 s' (f (a, s')))
    (hR : ∀ b c, R1 s b → R2 b c → R3 s0 c) : OSpec L R3 s0 (x >>= f) := by
  cases x with
  | ok v =>
    obtain ⟨a, s'⟩ := v
    have h1 : R1 s s' := hx
    have h2 := hf a s' rfl h1
    show OSpec L R3 s0 (f (a, s'))
    cases hfv : f (a, s') with
    | ok w =>
      cases w with
      | none => trivial
      | some w => obtain ⟨b, s''⟩ := w; rw [hfv] at h2; exact hR s' s'' h1 h2
    | err e => rw [hfv] at h2; exact h2
    | panic p => rw [hfv] at h2; exact h2
    | outOfFuel p => rw [hfv] at h2; exact h2
  | err e => exact hx
  | panic p => exact hx
  | outOfFuel p => exact hx

theorem NoFuel.bindE {α β} {R : PS → PS → Prop} {s : PS} {x : PRes α} {f : α → PRes (β × PS)}
    (hx : NoFuel L x) (hf : ∀ a, x = .ok a → Spec L R s (f a)) : Spec L R s (x >>= f) := by
  cases x with
  | ok a => exact hf a rfl
  | err e => exact hx
  | panic p => exact hx
  | outOfFuel p => exact hx

theorem NoFuel.bind {α β} {R : PS → PS → Prop} {s : PS} {x : PRes α} {f : α → PRes (β × PS)}
    (hx : NoFuel L x) (hf : ∀ a, Spec L R s (f a)) : Spec L R s (x >>= f) := by
  cases x with
  | ok a => exact hf a
  | err e => exact hx
  | panic p => exact hx
  | outOfFuel p => exact hx

theorem NoFuel.bindO {α β} {R : PS → PS → Prop} {s : PS} {x : PRes α} {f : α → PRes (Option (β × PS))}
    (hx : NoFuel L x) (hf : ∀ a, OSpec L R s (f a)) : OSpec L R s (x >>= f) := by
  cases x with
  | ok a => exact hf a
  | err e => exact hx
  | panic p => exact hx
  | outOfFuel p => exact hx

theorem NoFuel.bindN {α β} {x : PRes α} {f : α → PRes β}
    (hx : NoFuel L x) (hf : ∀ a, NoFuel L (f a)) : NoFuel L (x >>= f) := by
  cases x with
  | ok a => exact hf a
  | err e => exact hx
  | panic p => exact hx
  | outOfFuel p => exact hx

theorem prev_ok (s : PS) (hi : Inv L s) (hp : 1 ≤ s.pos) : ∃ p, s.prev = .ok p := by
  unfold PS.prev
  have hlt := hi.2.1
  rw [if_neg (by omega)]
  cases h : s.toks[s.pos - 1]? with
  | some t => exact ⟨t, rfl⟩
  | none => exfalso; have := List.getElem?_eq_none_iff.mp h; omega

theorem prev_nofuel (s : PS) (hi : Inv L s) (hp : 1 ≤ s.pos) : NoFuel L s.prev := by
  obtain ⟨p, h⟩ := prev_ok s hi hp
  rw [h]; trivial

theorem here_ok (s : PS) (hi : Inv L s) : ∃ t, s.here = .ok t := by
  unfold PS.here
  cases h : s.toks[s.pos]? with
  | some t => exact ⟨t, rfl⟩
  | none => exfalso; have := List.getElem?_eq_none_iff.mp h; have := hi.2.1; omega

theorem here_nofuel (s : PS) (hi : Inv L s) : NoFuel L s.here := by
  obtain ⟨t, h⟩ := here_ok s hi
  rw [h]; trivial

theorem Adv.pos_pos {s s' : PS} (h : Adv L s s') : 1 ≤ s'.pos := by have := h.lt; omega

/-- a number that fits parses -/
theorem parseUsize_nofuel (site : String) (d : Text) (h : d ≠ [] ∧ ParseWord.digitsToNat d < 2 ^ 64) : NoFuel L (parseUsize site d) := by
  unfold parseUsize
  have h1 : d.isEmpty = false := by
    cases d with
    | nil => exact absurd rfl h.1
    | cons _ _ => rfl
  simp only [h1, Bool.false_eq_true, if_false, h.2, if_true]
  trivial

theorem Spec.of_le {α} {s s1 : PS} {r : PRes (α × PS)} (h : Le L s s1) (hr : Spec L (Le L) s1 r) : Spec L (Le L) s r := by
  cases r with
  | ok v => obtain ⟨a, s'⟩ := v; exact h.trans hr
  | err e => trivial
  | panic p => trivial
  | outOfFuel p => exact hr

theorem Spec.adv_of_adv {α} {s s1 : PS} {r : PRes (α × PS)} (h : Adv L s s1) (hr : Spec L (Le L) s1 r) : Spec L (Adv L) s r := by
  cases r with
  | ok v => obtain ⟨a, s'⟩ := v; exact h.trans_le hr
  | err e => trivial
  | panic p => trivial
  | outOfFuel p => exact hr

theorem Spec.weaken {α} {s : PS} {r : PRes (α × PS)} (hr : Spec L (Adv L) s r) : Spec L (Le L) s r := by
  cases r with
  | ok v => obtain ⟨a, s'⟩ := v; exact Adv.toLe hr
  | err e => trivial
  | panic p => trivial
  | outOfFuel p => exact hr

/-- the two outcomes of `expect` on a token kind other than `Eol` -/
theorem expect_cases (s : PS) (k : TK) (hi : Inv L s) (hk : k ≠ .eol) :
    (s.expect k = (true, s.advance) ∧ Adv L s s.advance) ∨ s.expect k = (false, s) := by
  unfold PS.expect
  by_cases h : s.cur.kind = k
  · left; simp only [h, if_true]; exact ⟨trivial, advance_adv s hi (by rw [h]; exact hk)⟩
  · right; simp only [h, if_false]

theorem eatExpect_cases (s : PS) (k : TK) (hi : Inv L s) (hk : k ≠ .eol) :
    (s.eatExpect k = some (s.cur, s.advance) ∧ Adv L s s.advance) ∨ s.eatExpect k = none := by
  unfold PS.eatExpect
  by_cases h : s.cur.kind = k
  · left; simp only [h, if_true]; exact ⟨trivial, advance_adv s hi (by rw [h]; exact hk)⟩
  · right; simp only [h, if_false]

/-- after a step forward the remaining distance is smaller -/
theorem measure_lt {s s' : PS} (h : Adv L s s') {fuel : Nat} (hf : s.toks.length - s.pos < fuel + 1) :
    s'.toks.length - s'.pos < fuel := by
  have := h.lt; have := h.inb; rw [h.toks_eq]; omega

/-! ### boundaries -/

theorem getSyllBound_spec (s : PS) (hi : Inv L s) (x : PItem) (s' : PS) (h : getSyllBound s = some (x, s')) : Adv L s s' := by
  unfold getSyllBound at h
  rcases eatExpect_cases s .syllBoundary hi (by decide) with ⟨he, ha⟩ | he
  · simp only [he, Option.some.injEq, Prod.mk.injEq] at h; rw [← h.2]; exact ha
  · simp [he] at h

theorem getWordBound_spec (s : PS) (hi : Inv L s) (x : PItem) (s' : PS) (h : getWordBound s = some (x, s')) : Adv L s s' := by
  unfold getWordBound at h
  rcases eatExpect_cases s .wordBoundary hi (by decide) with ⟨he, ha⟩ | he
  · simp only [he, Option.some.injEq, Prod.mk.injEq] at h; rw [← h.2]; exact ha
  · simp [he] at h

theorem getBound_spec (s : PS) (hi : Inv L s) (x : PItem) (s' : PS) (h : getBound s = some (x, s')) : Adv L s s' := by
  unfold getBound at h
  cases hs : getSyllBound s with
  | some r => obtain ⟨y, t⟩ := r; simp only [hs, Option.some.injEq, Prod.mk.injEq] at h; rw [← h.2]; exact getSyllBound_spec s hi y t hs
  | none => simp only [hs] at h; exact getWordBound_spec s hi x s' h

/-! ### matrices -/

/-- what the lexer guarantees about the token under the cursor, when it is a real one -/
theorem cur_tokx (s : PS) (hi : Inv L s) (hk : s.cur.kind ≠ .eol) : Lex.TokX s.cur :=
  hi.1.vals s.cur (List.mem_of_getElem? (cur_real s hi hk))

/-- every row of the feature table names a node, a feature or one of the four binary suprasegmentals the parser knows
    (checked by the kernel over the regenerated table) -/
theorem rows_ok : Gen.featNames.all (fun r =>
    (r.1 == "Node" && (nodeIndex r.2.1).isSome) || (r.1 == "Feat" && (featIndex r.2.1).isSome) ||
    (r.1 == "Supr" && (r.2.1 == "Long" || r.2.1 == "Overlong" || r.2.1 == "Stress" || r.2.1 == "SecStress"))) = true := by
  decide +kernel

/-- the modifier read from a feature token fits the token's feature: a sign or an alpha for a row of the table, a number
    for a tone -/
def ArgOK (k v : String) : Mods → Prop
  | .number _ => k = "Supr" ∧ v = "Tone"
  | _ => ∃ names, (k, v, names) ∈ Gen.featNames

def TTMSpec (L : Nat) (k v : String) : PRes Mods → Prop
  | .ok mk => ArgOK k v mk
  | .err e => ErrOK L e
  | .panic _ => False
  | .outOfFuel _ => False

theorem tokenToModifier_spec (s : PS) (hi : Inv L s) (k v : String) (hk : s.cur.kind = .feature k v) :
    TTMSpec L k v (tokenToModifier s.cur k v) := by
  have hx := (cur_tokx s hi (by rw [hk]; intro h; cases h)).2.2.2 k v hk
  unfold tokenToModifier
  rcases hx with ⟨rfl, rfl, hne, hdig⟩ | ⟨hrow, hmod⟩
  · -- a tone: its value is made of digits, none of the sign shapes applies
    have tone : TTMSpec L "Supr" "Tone" (toneValue s.cur "Supr" "Tone") := by
      unfold toneValue
      simp only [Bool.and_self, decide_true, if_true]
      split
      · exact tokErr_ok _ s hi
      · exact ⟨rfl, rfl⟩
    have hd : ∀ c ∈ s.cur.value, Lex.isDigit c = true := fun c hc => List.all_eq_true.mp hdig c hc
    have hdigit_not_alpha : ∀ c, Lex.isDigit c = true → isAlphaLetter c = false := by
      intro c hdc
      simp only [Lex.isDigit, Bool.and_eq_true, decide_eq_true_eq] at hdc
      simp only [isAlphaLetter, Lex.isGreek, Lex.isUpper, Bool.or_eq_false_iff, Bool.and_eq_false_iff, decide_eq_false_iff_not]
      omega
    split
    · rename_i h43; have := hd 43 (by rw [h43]; simp); simp [Lex.isDigit] at this
    split
    · rename_i h45; have := hd 45 (by rw [h45]; simp); simp [Lex.isDigit] at this
    split
    · rename_i hc
      simp only [Bool.and_eq_true, decide_eq_true_eq] at hc
      cases hv : s.cur.value with
      | nil => exact absurd hv hne
      | cons c r =>
        rw [hv] at hc
        have := hdigit_not_alpha c (hd c (by rw [hv]; simp))
        simp [this] at hc
    split
    · rename_i hc
      simp only [Bool.and_eq_true, decide_eq_true_eq] at hc
      cases hv : s.cur.value with
      | nil => exact absurd hv hne
      | cons c r =>
        rw [hv] at hc
        have := hd c (by rw [hv]; simp)
        simp only [List.headD_cons] at hc
        rw [hc.1.2] at this; simp [Lex.isDigit] at this
    · exact tone
  · rcases hmod with h | h | ⟨c, hc, h | h⟩
    · simp only [h, if_true]; exact hrow
    · simp only [h]; simp; exact hrow
    · have hc' : isAlphaLetter c = true := hc
      have h43 : c ≠ 43 := by intro h'; subst h'; simp [Lex.isGreek, Lex.isUpper] at hc
      have h45 : c ≠ 45 := by intro h'; subst h'; simp [Lex.isGreek, Lex.isUpper] at hc
      simp only [h, List.cons.injEq, and_true, h43, h45, if_false, List.length_cons, List.length_nil, List.headD_cons, hc', decide_true,
        Bool.and_self, if_true]
      exact hrow
    · have hc' : isAlphaLetter c = true := hc
      simp [h, hc']
      exact hrow

theorem putArg_nofuel (a : Modifiers) (k v : String) (m : Mods) (h : ArgOK k v m) : NoFuel L (putArg a k v m) := by
  unfold putArg
  cases m with
  | number n =>
    obtain ⟨rfl, rfl⟩ := h
    simp
    trivial
  | bin b =>
    obtain ⟨names, hrow⟩ := h
    have hr := List.all_eq_true.mp rows_ok _ hrow
    simp only [Bool.or_eq_true, Bool.and_eq_true, beq_iff_eq, Option.isSome_iff_exists] at hr
    rcases hr with (⟨rfl, i, hi⟩ | ⟨rfl, i, hi⟩) | ⟨rfl, hv⟩
    · simp [hi]; trivial
    · simp [hi]; trivial
    · rcases hv with ((rfl | rfl) | rfl) | rfl <;> (simp; trivial)
  | alpha al =>
    obtain ⟨names, hrow⟩ := h
    have hr := List.all_eq_true.mp rows_ok _ hrow
    simp only [Bool.or_eq_true, Bool.and_eq_true, beq_iff_eq, Option.isSome_iff_exists] at hr
    rcases hr with (⟨rfl, i, hi⟩ | ⟨rfl, i, hi⟩) | ⟨rfl, hv⟩
    · simp [hi]; trivial
    · simp [hi]; trivial
    · rcases hv with ((rfl | rfl) | rfl) | rfl <;> (simp; trivial)

theorem getParamArgs_spec (isSyll : Bool) : ∀ (fuel : Nat) (s : PS) (args : Modifiers), Inv L s → s.toks.length - s.pos < fuel →
    Spec L (Le L) s (getParamArgs isSyll fuel s args) := by
  intro fuel
  induction fuel with
  | zero => intro s args _ h; omega
  | succ n ih =>
    intro s args hi hf
    unfold getParamArgs
    split
    · exact Le.refl s hi
    split
    · rename_i hk
      exact (advance_adv s hi (by rw [hk]; decide)).toLe
    split
    · rename_i hk
      have ha := advance_adv s hi (by rw [hk]; decide)
      exact Spec.of_le ha.toLe (ih s.advance args ha.inv (measure_lt ha hf))
    split
    · rename_i kind variant hk
      have ha := advance_adv s hi (by rw [hk]; intro h; cases h)
      have h1 := tokenToModifier_spec s hi kind variant hk
      split
      · split
        · exact tokErr_ok _ s hi
        · rename_i mk hmk _
          rw [hmk] at h1
          have h2 := putArg_nofuel (L := L) args kind variant mk h1
          split
          · exact Spec.of_le ha.toLe (ih s.advance _ ha.inv (measure_lt ha hf))
          · rename_i hp; rw [hp] at h2; exact h2
          · rename_i hp; rw [hp] at h2; exact h2
          · rename_i hp; rw [hp] at h2; exact h2
      · rename_i ht; rw [ht] at h1; exact h1
      · rename_i ht; rw [ht] at h1; exact h1
      · rename_i ht; rw [ht] at h1; exact h1
    · exact tokErr_ok _ s hi
    · exact tokErr_ok _ s hi

theorem fuel_ok (s : PS) : s.toks.length - s.pos < s.toks.length + 2 := by omega

theorem getParams_spec (s : PS) (hi : Inv L s) (hp : 1 ≤ s.pos) : Spec L (Le L) s (getParams s) := by
  unfold getParams
  refine NoFuel.bind (prev_nofuel s hi hp) (fun open_ => ?_)
  refine Spec.bind (R1 := Le L) (R2 := Le L) (getParamArgs_spec false _ s _ hi (fuel_ok s)) (fun args s' hle => ?_) (fun b c h1 h2 => h1.trans h2)
  refine NoFuel.bind (prev_nofuel s' hle.inv (Nat.le_trans hp hle.le)) (fun close => ?_)
  exact Le.refl s' hle.inv

theorem groupToMatrix_nofuel (s : PS) (hi : Inv L s) : NoFuel L (groupToMatrix s.cur) := by
  unfold groupToMatrix
  split
  · split
    · triv
    · exact tokErr_ok _ s hi
  · exact tokErr_ok _ s hi

/-- the item is a matrix (what `join_group_with_params`, `get_var_assign`, `get_ipa` and `get_var` `expect`) -/
def IsMatrix (x : PItem) : Prop := x.kind.asMatrix.isSome = true

theorem groupToMatrix_matrix (t : Token) (x : PItem) (h : groupToMatrix t = .ok x) : IsMatrix x := by
  unfold groupToMatrix at h
  split at h
  · split at h
    · cases h; rfl
    · cases h
  · cases h

theorem getParams_matrix (s : PS) (x : PItem) (s' : PS) (h : getParams s = .ok (x, s')) : IsMatrix x := by
  unfold getParams at h
  cases h1 : s.prev with
  | ok o =>
    simp only [h1, bind, Outcome.bind] at h
    cases h2 : getParamArgs false (s.toks.length + 2) s Modifiers.empty with
    | ok v =>
      obtain ⟨args, s1⟩ := v
      simp only [h2] at h
      cases h3 : s1.prev with
      | ok c => simp only [h3, pure, Outcome.ok.injEq, Prod.mk.injEq] at h; rw [← h.1]; rfl
      | err e => simp [h3] at h
      | panic q => simp [h3] at h
      | outOfFuel q => simp [h3] at h
    | err e => simp [h2] at h
    | panic q => simp [h2] at h
    | outOfFuel q => simp [h2] at h
  | err e => simp [h1, bind, Outcome.bind] at h
  | panic q => simp [h1, bind, Outcome.bind] at h
  | outOfFuel q => simp [h1, bind, Outcome.bind] at h

theorem joinGroup_ok (a b : PItem) (ha : IsMatrix a) (hb : IsMatrix b) : ∃ x, joinGroupWithParams a b = .ok x ∧ IsMatrix x := by
  unfold joinGroupWithParams
  unfold IsMatrix at ha hb
  cases h1 : a.kind.asMatrix with
  | none => rw [h1] at ha; cases ha
  | some c =>
    cases h2 : b.kind.asMatrix with
    | none => rw [h2] at hb; cases hb
    | some p => exact ⟨_, rfl, rfl⟩

theorem getGroup_spec (s : PS) (hi : Inv L s) (hk : s.cur.kind = .group) : Spec L (Adv L) s (getGroup s) := by
  unfold getGroup
  refine NoFuel.bindE (groupToMatrix_nofuel s hi) (fun chr hchr => ?_)
  have hcm := groupToMatrix_matrix s.cur chr hchr
  have ha := advance_adv s hi (by rw [hk]; decide)
  simp only
  rcases expect_cases s.advance .colon ha.inv (by decide) with ⟨he, h1⟩ | he
  · simp only [he]
    rcases expect_cases s.advance.advance .leftSquare h1.inv (by decide) with ⟨he2, h2⟩ | he2
    · simp only [he2]
      have hp := getParams_spec s.advance.advance.advance h2.inv h2.pos_pos
      have h3 : Adv L s s.advance.advance.advance := (ha.trans h1).trans h2
      refine Spec.bindE (R1 := Le L) (R2 := Le L) (R3 := Adv L) hp (fun params s4 hpe hle => ?_) (fun b c h1' h2' => h3.trans_le (h1'.trans h2'))
      obtain ⟨j, hj, _⟩ := joinGroup_ok chr params hcm (getParams_matrix _ _ _ hpe)
      simp only [hj, bind, Outcome.bind, pure]
      exact Le.refl s4 hle.inv
    · simp only [he2]; exact tokErr_ok _ _ h1.inv
  · simp only [he]
    exact ha

theorem getGroup_matrix (s : PS) (x : PItem) (s' : PS) (h : getGroup s = .ok (x, s')) : IsMatrix x := by
  unfold getGroup at h
  cases h1 : groupToMatrix s.cur with
  | ok chr =>
    have hcm := groupToMatrix_matrix s.cur chr h1
    simp only [h1, bind, Outcome.bind] at h
    rcases hx : s.advance.expect .colon with ⟨colon, s2⟩
    rw [hx] at h
    simp only at h
    cases colon with
    | false => simp only [Bool.not_false, if_true, pure, Outcome.ok.injEq, Prod.mk.injEq] at h; rw [← h.1]; exact hcm
    | true =>
      simp only [Bool.not_true, Bool.false_eq_true, if_false] at h
      rcases hy : s2.expect .leftSquare with ⟨sq, s3⟩
      rw [hy] at h
      simp only at h
      cases sq with
      | false => simp at h
      | true =>
        simp only [Bool.not_true, Bool.false_eq_true, if_false] at h
        cases hp : getParams s3 with
        | ok v =>
          obtain ⟨params, s4⟩ := v
          obtain ⟨j, hj, hjm⟩ := joinGroup_ok chr params hcm (getParams_matrix _ _ _ hp)
          simp only [hp, hj, pure, Outcome.ok.injEq, Prod.mk.injEq] at h
          rw [← h.1]; exact hjm
        | err e => simp [hp] at h
        | panic q => simp [hp] at h
        | outOfFuel q => simp [hp] at h
  | err e => simp [h1, bind, Outcome.bind] at h
  | panic q => simp [h1, bind, Outcome.bind] at h
  | outOfFuel q => simp [h1, bind, Outcome.bind] at h

/-! ### segments -/

theorem checkAndApplyDia_nofuel (seg : Seg) (d : Gen.Dia) (hd : C02.diaOK d = true) : NoFuel L (checkAndApplyDia seg d) := by
  have hd' := hd
  simp only [C02.diaOK, Bool.and_eq_true] at hd'
  obtain ⟨r, hr⟩ := C02.matchDiaMods_ok seg d.prereqNodes d.prereqFeats hd'.1.1.1 hd'.1.1.2
  obtain ⟨s', hs⟩ := C02.applyDiaPayload_ok seg d hd
  unfold checkAndApplyDia
  rw [hr]
  cases r with
  | none => simp only [hs]; triv
  | some e => triv

theorem dia_in_table (i : Nat) (d : Gen.Dia) (h : Gen.diacritics[i]? = some d) : C02.diaOK d = true :=
  List.all_eq_true.mp C02.diacritics_ok d (List.mem_of_getElem? h)

theorem ipaDias_spec (elm : Pos) (i0 : Nat) (t0 : Token) (helm : elm = tokPos t0) : ∀ (fuel : Nat) (s : PS) (seg : Seg), Inv L s →
    s.toks[i0]? = some t0 → i0 < s.pos → s.toks.length - s.pos < fuel → Spec L (Le L) s (ipaDias elm fuel s seg) := by
  intro fuel
  induction fuel with
  | zero => intro s seg _ _ _ h; omega
  | succ n ih =>
    intro s seg hi ht0 hlt hf
    unfold ipaDias
    split
    · rename_i i hk
      have hne : s.cur.kind ≠ .eol := by rw [hk]; intro h; cases h
      have ha := advance_adv s hi hne
      simp only
      split
      · -- the lexer only hands over diacritic tokens that index the table
        rename_i hnone
        have hlt := (cur_tokx s hi hne).2.2.1 i hk
        have := List.getElem?_eq_none_iff.mp hnone
        omega
      · rename_i d hd
        have h1 := checkAndApplyDia_nofuel (L := L) seg d (dia_in_table i d hd)
        split
        · exact Spec.of_le ha.toLe (ih s.advance _ ha.inv ht0 (by simp only [advance_pos]; omega) (measure_lt ha hf))
        · -- DiacriticDoesNotMeetPreReqs underlines the segment's token and the diacritic's token, in that order
          rename_i isNode _
          have hreal := cur_real s hi hne
          have h0 := hi.1.span t0 (List.mem_of_getElem? ht0)
          have hc := cur_strict s hi hne
          have hs := hi.1.sorted i0 s.pos t0 s.cur hlt ht0 hreal
          refine Or.inr ⟨fun sp hsp => ?_, ?_⟩
          · simp only [List.mem_cons, List.mem_nil_iff, or_false] at hsp
            rcases hsp with rfl | rfl
            · rw [helm]; simp only [tokPos]; omega
            · simp only; omega
          · rw [helm]; simp only [tokPos, List.pairwise_cons, List.mem_singleton, forall_eq, List.not_mem_nil, false_imp_iff, implies_true, List.Pairwise.nil, and_true]
            exact hs
        · rename_i hp; rw [hp] at h1; exact h1
        · rename_i hp; rw [hp] at h1; exact h1
        · rename_i hp; rw [hp] at h1; exact h1
    · exact Le.refl s hi

theorem getIpa_spec (s : PS) (hi : Inv L s) (hk : s.cur.kind = .cardinal) : Spec L (Adv L) s (getIpa s) := by
  unfold getIpa
  split
  · exact tokErr_ok _ s hi
  · rename_i seg0 _
    have ha := advance_adv s hi (by rw [hk]; decide)
    have hd := ipaDias_spec (tokPos s.cur) s.pos s.cur rfl (s.toks.length + 2) s.advance seg0 ha.inv
      (cur_real s hi (by rw [hk]; decide)) (by simp [advance_pos]) (by rw [advance_toks]; omega)
    refine Spec.bind (R1 := Le L) (R2 := Le L) (R3 := Adv L) hd (fun seg s1 hle => ?_) (fun b c h1 h2 => ha.trans_le (h1.trans h2))
    rcases expect_cases s1 .colon hle.inv (by decide) with ⟨he, h1⟩ | he
    · simp only [he]
      rcases expect_cases s1.advance .leftSquare h1.inv (by decide) with ⟨he2, h2⟩ | he2
      · simp only [he2]
        have hp := getParams_spec s1.advance.advance h2.inv h2.pos_pos
        refine Spec.bindE (R1 := Le L) (R2 := Le L) (R3 := Le L) hp (fun params s4 hg hle4 => ?_) (fun b c h1' h2' => ((h1.trans h2).toLe.trans h1').trans h2')
        have hm := getParams_matrix _ _ _ hg
        unfold IsMatrix at hm
        cases hq : params.kind.asMatrix with
        | none => rw [hq] at hm; cases hm
        | some m => exact Le.refl s4 hle4.inv
      · simp only [he2]; exact tokErr_ok _ _ h1.inv
    · simp only [he]
      refine NoFuel.bind (prev_nofuel s1 hle.inv (Nat.le_trans ha.pos_pos hle.le)) (fun p => ?_)
      exact Le.refl s1 hle.inv

theorem getVarAssign_nofuel (n : Token) (c : PItem) (hn : n.value ≠ [] ∧ ParseWord.digitsToNat n.value < 2 ^ 64)
    (hm : IsMatrix c) : NoFuel L (getVarAssign n c) := by
  unfold getVarAssign
  refine NoFuel.bindN (parseUsize_nofuel _ _ hn) (fun k => ?_)
  unfold IsMatrix at hm
  cases h1 : c.kind.asMatrix with
  | none => rw [h1] at hm; cases hm
  | some m => trivial

theorem varAssignTail_spec (chr : PItem) (s : PS) (hi : Inv L s) (hm : IsMatrix chr) : OSpec L (Le L) s (varAssignTail chr s) := by
  unfold varAssignTail
  rcases expect_cases s .equals hi (by decide) with ⟨he, h1⟩ | he
  · simp only [he, if_true]
    rcases eatExpect_cases s.advance .number h1.inv (by decide) with ⟨he2, h2⟩ | he2
    · simp only [he2]
      refine NoFuel.bindO (getVarAssign_nofuel _ chr (num_of_cur s.advance h1.inv (eatExpect_kind _ _ _ _ he2).2) hm) (fun r => ?_)
      exact (h1.trans h2).toLe
    · simp only [he2]; triv
  · simp only [he]
    exact Le.refl s hi

theorem OSpec.adv_of_adv {α} {s s1 : PS} {r : PRes (Option (α × PS))} (h : Adv L s s1) (hr : OSpec L (Le L) s1 r) : OSpec L (Adv L) s r := by
  cases r with
  | ok v =>
    cases v with
    | none => triv
    | some w => obtain ⟨a, s'⟩ := w; exact h.trans_le hr
  | err e => triv
  | panic p => triv
  | outOfFuel p => exact hr

theorem Spec.bindO' {α β} {R1 R2 R3 : PS → PS → Prop} {s0 s : PS} {x : PRes (α × PS)} {f : α × PS → PRes (Option (β × PS))}
    (hx : Spec L R1 s x) (hf : ∀ a s', R1 s s' → OSpec L R2 s' (f (a, s')))
    (hR : ∀ b c, R1 s b → R2 b c → R3 s0 c) : OSpec L R3 s0 (x >>= f) := Spec.bindO hx hf hR

theorem getSeg_spec (s : PS) (hi : Inv L s) : OSpec L (Adv L) s (getSeg s) := by
  unfold getSeg
  split
  · rename_i hk
    have hk : s.cur.kind = .cardinal := by simpa [PS.peek] using hk
    refine Spec.bindO (R1 := Adv L) (R2 := Le L) (R3 := Adv L) (getIpa_spec s hi hk) (fun r s' h => ?_) (fun b c h1 h2 => h1.trans_le h2)
    exact Le.refl s' h.inv
  split
  · rename_i hk
    have hk : s.cur.kind = .group := by simpa [PS.peek] using hk
    refine Spec.bindOE (R1 := Adv L) (R2 := Le L) (R3 := Adv L) (getGroup_spec s hi hk) (fun chr s1 hg h => ?_) (fun b c h1 h2 => h1.trans_le h2)
    exact varAssignTail_spec chr s1 h.inv (getGroup_matrix _ _ _ hg)
  · rcases expect_cases s .leftSquare hi (by decide) with ⟨he, h1⟩ | he
    · simp only [he, if_true]
      refine Spec.bindOE (R1 := Le L) (R2 := Le L) (R3 := Adv L) (getParams_spec s.advance h1.inv h1.pos_pos) (fun params s2 hg h => ?_) (fun b c h1' h2 => h1.trans_le (h1'.trans h2))
      exact varAssignTail_spec params s2 h.inv (getParams_matrix _ _ _ hg)
    · simp only [he]; triv

theorem getVar_spec (s : PS) (hi : Inv L s) : OSpec L (Adv L) s (getVar s) := by
  unfold getVar
  rcases eatExpect_cases s .number hi (by decide) with ⟨he, h1⟩ | he
  · simp only [he]
    rcases expect_cases s.advance .colon h1.inv (by decide) with ⟨he2, h2⟩ | he2
    · simp only [he2]
      rcases expect_cases s.advance.advance .leftSquare h2.inv (by decide) with ⟨he3, h3⟩ | he3
      · simp only [he3]
        refine Spec.bindOE (R1 := Le L) (R2 := Le L) (R3 := Adv L) (getParams_spec _ h3.inv h3.pos_pos) (fun params s4 hg h => ?_)
          (fun b c h1' h2' => ((h1.trans h2).trans h3).trans_le (h1'.trans h2'))
        have hm := getParams_matrix _ _ _ hg
        unfold IsMatrix at hm
        cases hq : params.kind.asMatrix with
        | none => rw [hq] at hm; cases hm
        | some m => exact Le.refl s4 h.inv
      · simp only [he3]; triv
    · simp only [he2]
      exact h1
  · simp only [he]; triv

/-! ### syllables, sets, structures, optionals -/

theorem syllVarTail_spec (s : PS) (hi : Inv L s) : Spec L (Le L) s (syllVarTail s) := by
  unfold syllVarTail
  rcases expect_cases s .equals hi (by decide) with ⟨he, h1⟩ | he
  · simp only [he, if_true]
    rcases eatExpect_cases s.advance .number h1.inv (by decide) with ⟨he2, h2⟩ | he2
    · simp only [he2]
      refine NoFuel.bind (parseUsize_nofuel _ _ (num_of_cur s.advance h1.inv (eatExpect_kind _ _ _ _ he2).2)) (fun num => ?_)
      exact (h1.trans h2).toLe
    · simp only [he2]; triv
  · simp only [he]
    exact Le.refl s hi

theorem syllTail_spec (s : PS) (hi : Inv L s) : Spec L (Le L) s (syllTail s) := by
  unfold syllTail
  rcases expect_cases s .colon hi (by decide) with ⟨he, h1⟩ | he
  · simp only [he]
    rcases expect_cases s.advance .leftSquare h1.inv (by decide) with ⟨he2, h2⟩ | he2
    · simp only [he2]
      refine Spec.bind (R1 := Le L) (R2 := Le L) (R3 := Le L) (getParamArgs_spec true _ _ _ h2.inv (fuel_ok _)) (fun mods s3 h3 => ?_)
        (fun b c h1' h2' => ((h1.trans h2).toLe.trans h1').trans h2')
      refine NoFuel.bind (prev_nofuel s3 h3.inv (Nat.le_trans h2.pos_pos h3.le)) (fun p => ?_)
      refine Spec.bind (R1 := Le L) (R2 := Le L) (R3 := Le L) (syllVarTail_spec s3 h3.inv) (fun v s4 h4 => ?_) (fun b c h1' h2' => h1'.trans h2')
      exact Le.refl s4 h4.inv
    · simp only [he2]; triv
  · simp only [he]
    refine Spec.bind (R1 := Le L) (R2 := Le L) (R3 := Le L) (syllVarTail_spec s hi) (fun v s2 h2 => ?_) (fun b c h1' h2' => h1'.trans h2')
    exact Le.refl s2 h2.inv

theorem getSyll_spec (s : PS) (hi : Inv L s) : OSpec L (Adv L) s (getSyll s) := by
  unfold getSyll
  rcases expect_cases s .syllable hi (by decide) with ⟨he, h1⟩ | he
  · simp only [he]
    refine Spec.bindO (R1 := Le L) (R2 := Le L) (R3 := Adv L) (syllTail_spec s.advance h1.inv) (fun r s2 h2 => ?_) (fun b c h1' h2' => h1.trans_le (h1'.trans h2'))
    exact Le.refl s2 h2.inv
  · simp only [he]; triv

/-- continue a loop after an element was consumed -/
theorem loop_step {α} {s s' : PS} {r : PRes (α × PS)} (ha : Adv L s s') (hr : Spec L (Le L) s' r) : Spec L (Le L) s r :=
  Spec.of_le ha.toLe hr

theorem setLoop_spec : ∀ (fuel : Nat) (s : PS) (terms : List PItem), Inv L s → s.toks.length - s.pos < fuel →
    Spec L (Le L) s (setLoop fuel s terms) := by
  intro fuel
  induction fuel with
  | zero => intro s t _ h; omega
  | succ n ih =>
    intro s terms hi hf
    unfold setLoop
    split
    · exact Le.refl s hi
    split
    · rename_i hk; exact (advance_adv s hi (by rw [hk]; decide)).toLe
    split
    · rename_i hk
      have ha := advance_adv s hi (by rw [hk]; decide)
      exact loop_step ha (ih _ _ ha.inv (measure_lt ha hf))
    have h1 := getSeg_spec s hi
    split
    · rename_i x s' hx; rw [hx] at h1
      have ha : Adv L s s' := h1
      exact loop_step ha (ih _ _ ha.inv (measure_lt ha hf))
    · split
      · rename_i x s' hx
        have ha := getBound_spec s hi x s' hx
        exact loop_step ha (ih _ _ ha.inv (measure_lt ha hf))
      · have h2 := getSyll_spec s hi
        split
        · rename_i x s' hx; rw [hx] at h2
          have ha : Adv L s s' := h2
          exact loop_step ha (ih _ _ ha.inv (measure_lt ha hf))
        · triv
        · rename_i hx; rw [hx] at h2; exact h2
        · rename_i hx; rw [hx] at h2; exact h2
        · rename_i hx; rw [hx] at h2; exact h2
    · rename_i hx; rw [hx] at h1; exact h1
    · rename_i hx; rw [hx] at h1; exact h1
    · rename_i hx; rw [hx] at h1; exact h1

theorem getSet_spec (s : PS) (hi : Inv L s) : OSpec L (Adv L) s (getSet s) := by
  unfold getSet
  rcases expect_cases s .leftCurly hi (by decide) with ⟨he, h1⟩ | he
  · simp only [he]
    refine Spec.bindO (R1 := Le L) (R2 := Le L) (R3 := Adv L) (setLoop_spec _ s.advance [] h1.inv (fuel_ok _)) (fun terms s2 h2 => ?_)
      (fun b c h1' h2' => h1.trans_le (h1'.trans h2'))
    cases hp : s2.prev with
    | ok p =>
      show OSpec L (Le L) s2 (if terms.isEmpty = true then _ else _)
      split
      · -- EmptySet: from the `{` to the last token consumed
        obtain ⟨hp1, hp2⟩ := prev_spec s2 p hp
        have hk := expect_true_kind s _ _ he
        have hreal := cur_real s hi (by rw [hk]; decide)
        have hlt := h1.lt; have hle := h2.le
        have ht : s2.toks = s.toks := h2.toks_eq
        rw [ht] at hp2
        exact Or.inr (spansOK_one _ _ (span_ij s.toks hi.1 s.pos (s2.pos - 1) s.cur p (by omega) hreal hp2))
      · exact Le.refl s2 h2.inv
    | err e => have := prev_nofuel (L := L) s2 h2.inv (Nat.le_trans h1.pos_pos h2.le); rw [hp] at this; exact this
    | panic q => have := prev_nofuel (L := L) s2 h2.inv (Nat.le_trans h1.pos_pos h2.le); rw [hp] at this; exact this
    | outOfFuel q => have := prev_nofuel (L := L) s2 h2.inv (Nat.le_trans h1.pos_pos h2.le); rw [hp] at this; exact this
  · simp only [he]; triv

theorem structLoop_spec : ∀ (fuel : Nat) (s : PS) (terms : List PItem), Inv L s → s.toks.length - s.pos < fuel →
    Spec L (Le L) s (structLoop fuel s terms) := by
  intro fuel
  induction fuel with
  | zero => intro s t _ h; omega
  | succ n ih =>
    intro s terms hi hf
    unfold structLoop
    split
    · exact Le.refl s hi
    split
    · rename_i hk; exact (advance_adv s hi (by rw [hk]; decide)).toLe
    have h1 := getSeg_spec s hi
    split
    · rename_i x s' hx; rw [hx] at h1
      have ha : Adv L s s' := h1
      exact loop_step ha (ih _ _ ha.inv (measure_lt ha hf))
    · split
      · rename_i el s' hx
        rcases eatExpect_cases s .ellipsis hi (by decide) with ⟨he, ha⟩ | he
        · rw [he] at hx; cases hx
          exact loop_step ha (ih _ _ ha.inv (measure_lt ha hf))
        · rw [he] at hx; cases hx
      · have h2 := getVar_spec s hi
        split
        · rename_i x s' hx; rw [hx] at h2
          have ha : Adv L s s' := h2
          exact loop_step ha (ih _ _ ha.inv (measure_lt ha hf))
        · triv
        · rename_i hx; rw [hx] at h2; exact h2
        · rename_i hx; rw [hx] at h2; exact h2
        · rename_i hx; rw [hx] at h2; exact h2
    · rename_i hx; rw [hx] at h1; exact h1
    · rename_i hx; rw [hx] at h1; exact h1
    · rename_i hx; rw [hx] at h1; exact h1

theorem getStruct_spec (s : PS) (hi : Inv L s) : OSpec L (Adv L) s (getStruct s) := by
  unfold getStruct
  rcases expect_cases s .leftAngle hi (by decide) with ⟨he, h1⟩ | he
  · simp only [he]
    refine Spec.bindO (R1 := Le L) (R2 := Le L) (R3 := Adv L) (structLoop_spec _ s.advance [] h1.inv (fuel_ok _)) (fun terms s2 h2 => ?_)
      (fun b c h1' h2' => h1.trans_le (h1'.trans h2'))
    refine Spec.bindO (R1 := Le L) (R2 := Le L) (R3 := Le L) (syllTail_spec s2 h2.inv) (fun r s3 h3 => ?_) (fun b c h1' h2' => h1'.trans h2')
    exact Le.refl s3 h3.inv
  · simp only [he]; triv

theorem optLoop_spec : ∀ (fuel : Nat) (s : PS) (segs : List PItem), Inv L s → s.toks.length - s.pos < fuel →
    Spec L (Le L) s (optLoop fuel s segs) := by
  intro fuel
  induction fuel with
  | zero => intro s t _ h; omega
  | succ n ih =>
    intro s segs hi hf
    unfold optLoop
    split
    · exact Le.refl s hi
    split
    · exact Le.refl s hi
    split
    · rename_i x s' hx
      have ha := getBound_spec s hi x s' hx
      exact loop_step ha (ih _ _ ha.inv (measure_lt ha hf))
    have h1 := getSyll_spec s hi
    split
    · rename_i x s' hx; rw [hx] at h1
      have ha : Adv L s s' := h1
      exact loop_step ha (ih _ _ ha.inv (measure_lt ha hf))
    · have h2 := getSet_spec s hi
      split
      · rename_i x s' hx; rw [hx] at h2
        have ha : Adv L s s' := h2
        exact loop_step ha (ih _ _ ha.inv (measure_lt ha hf))
      · have h3 := getSeg_spec s hi
        split
        · rename_i x s' hx; rw [hx] at h3
          have ha : Adv L s s' := h3
          exact loop_step ha (ih _ _ ha.inv (measure_lt ha hf))
        · have h4 := getVar_spec s hi
          split
          · rename_i x s' hx; rw [hx] at h4
            have ha : Adv L s s' := h4
            exact loop_step ha (ih _ _ ha.inv (measure_lt ha hf))
          · split
            · exact Le.refl s hi
            · triv
          · rename_i hx; rw [hx] at h4; exact h4
          · rename_i hx; rw [hx] at h4; exact h4
          · rename_i hx; rw [hx] at h4; exact h4
        · rename_i hx; rw [hx] at h3; exact h3
        · rename_i hx; rw [hx] at h3; exact h3
        · rename_i hx; rw [hx] at h3; exact h3
      · rename_i hx; rw [hx] at h2; exact h2
      · rename_i hx; rw [hx] at h2; exact h2
      · rename_i hx; rw [hx] at h2; exact h2
    · rename_i hx; rw [hx] at h1; exact h1
    · rename_i hx; rw [hx] at h1; exact h1
    · rename_i hx; rw [hx] at h1; exact h1

theorem optItem_spec (start : Nat) (segs : List PItem) (lo hi' : Nat) (s0 s : PS) (h : Le L s0 s) (hp : 1 ≤ s.pos) :
    OSpec L (Le L) s0 (optItem start segs lo hi' s) := by
  unfold optItem
  refine NoFuel.bindO (prev_nofuel s h.inv hp) (fun p => ?_)
  exact h

theorem optClose_spec (start : Nat) (segs : List PItem) (lo hi' : Nat) (s0 s : PS) (h : Le L s0 s) (hp : 1 ≤ s.pos) :
    OSpec L (Le L) s0 (optClose start segs lo hi' s) := by
  unfold optClose
  rcases expect_cases s .rightBracket h.inv (by decide) with ⟨he, h1⟩ | he
  · simp only [he, if_true]; exact optItem_spec _ _ _ _ s0 _ (h.trans h1.toLe) h1.pos_pos
  · simp only [he]; triv

theorem optSecond_spec (start : Nat) (segs : List PItem) (first : Nat) (s0 s : PS) (h : Le L s0 s) (hp : 1 ≤ s.pos) :
    OSpec L (Le L) s0 (optSecond start segs first s) := by
  unfold optSecond
  rcases eatExpect_cases s .number h.inv (by decide) with ⟨he, h1⟩ | he
  · simp only [he]
    refine NoFuel.bindO (parseUsize_nofuel _ _ (num_of_cur s h.inv (eatExpect_kind _ _ _ _ he).2)) (fun second => ?_)
    split
    · triv
    · exact optClose_spec _ _ _ _ s0 _ (h.trans h1.toLe) h1.pos_pos
  · simp only [he]; exact optClose_spec _ _ _ _ s0 _ h hp

theorem optAfterFirst_spec (start : Nat) (segs : List PItem) (first : Nat) (s0 s : PS) (h : Le L s0 s) (hp : 1 ≤ s.pos) :
    OSpec L (Le L) s0 (optAfterFirst start segs first s) := by
  unfold optAfterFirst
  rcases expect_cases s .rightBracket h.inv (by decide) with ⟨he, h1⟩ | he
  · simp only [he, if_true]; exact optItem_spec _ _ _ _ s0 _ (h.trans h1.toLe) h1.pos_pos
  · simp only [he]
    rcases expect_cases s .colon h.inv (by decide) with ⟨he2, h2⟩ | he2
    · simp only [he2]; exact optSecond_spec _ _ _ s0 _ (h.trans h2.toLe) h2.pos_pos
    · simp only [he2]; triv

theorem optBounds_spec (start : Nat) (segs : List PItem) (s0 s : PS) (h : Le L s0 s) (hp : 1 ≤ s.pos) :
    OSpec L (Le L) s0 (optBounds start segs s) := by
  unfold optBounds
  rcases expect_cases s .rightBracket h.inv (by decide) with ⟨he, h1⟩ | he
  · simp only [he, if_true]; exact optItem_spec _ _ _ _ s0 _ (h.trans h1.toLe) h1.pos_pos
  · simp only [he]
    rcases expect_cases s .comma h.inv (by decide) with ⟨he2, h2⟩ | he2
    · simp only [he2]
      rcases eatExpect_cases s.advance .number h2.inv (by decide) with ⟨he3, h3⟩ | he3
      · simp only [he3]
        refine NoFuel.bindO (parseUsize_nofuel _ _ (num_of_cur s.advance h2.inv (eatExpect_kind _ _ _ _ he3).2)) (fun first => ?_)
        exact optAfterFirst_spec _ _ _ s0 _ (h.trans (h2.trans h3).toLe) h3.pos_pos
      · simp only [he3]; exact optAfterFirst_spec _ _ _ s0 _ (h.trans h2.toLe) h2.pos_pos
    · simp only [he2]; triv

theorem OSpec.adv_of_le {α} {s s1 : PS} {r : PRes (Option (α × PS))} (h : Adv L s s1) (hr : OSpec L (Le L) s1 r) : OSpec L (Adv L) s r :=
  OSpec.adv_of_adv h hr

theorem getOpt_spec (s : PS) (hi : Inv L s) : OSpec L (Adv L) s (getOpt s) := by
  unfold getOpt
  rcases expect_cases s .leftBracket hi (by decide) with ⟨he, h1⟩ | he
  · simp only [he]
    refine Spec.bindO (R1 := Le L) (R2 := Le L) (R3 := Adv L) (optLoop_spec _ s.advance [] h1.inv (fuel_ok _)) (fun segs s2 h2 => ?_)
      (fun b c h1' h2' => h1.trans_le (h1'.trans h2'))
    exact optBounds_spec _ _ s2 s2 (Le.refl s2 h2.inv) (Nat.le_trans h1.pos_pos h2.le)
  · simp only [he]; triv

/-- the position of the `Optional` item: from `start` to the end of the token before the cursor of the final state -/
def OptPos (start : Nat) : PRes (Option It) → Prop
  | .ok (some (x, s')) => x.pos.start = start ∧ ∃ p, s'.prev = .ok p ∧ x.pos.stop = p.stop
  | _ => True

theorem optItem_pos (start : Nat) (segs : List PItem) (lo hi' : Nat) (s : PS) : OptPos start (optItem start segs lo hi' s) := by
  unfold optItem
  cases hp : s.prev with
  | ok p => exact ⟨rfl, p, hp, rfl⟩
  | err e => trivial
  | panic q => trivial
  | outOfFuel q => trivial

theorem optClose_pos (start : Nat) (segs : List PItem) (lo hi' : Nat) (s : PS) : OptPos start (optClose start segs lo hi' s) := by
  unfold optClose
  rcases hx : s.expect .rightBracket with ⟨rb, s'⟩
  simp only
  cases rb with
  | true => exact optItem_pos _ _ _ _ _
  | false => trivial

theorem optSecond_pos (start : Nat) (segs : List PItem) (first : Nat) (s : PS) : OptPos start (optSecond start segs first s) := by
  unfold optSecond
  cases hx : s.eatExpect .number with
  | none => exact optClose_pos _ _ _ _ _
  | some r =>
    obtain ⟨n, s'⟩ := r
    show OptPos start (parseUsize _ n.value >>= fun second => _)
    cases hpu : parseUsize "get_opt: number-too-large" n.value with
    | ok second =>
      show OptPos start (if second < first then _ else _)
      split
      · trivial
      · exact optClose_pos _ _ _ _ _
    | err e => trivial
    | panic q => trivial
    | outOfFuel q => trivial

theorem optAfterFirst_pos (start : Nat) (segs : List PItem) (first : Nat) (s : PS) : OptPos start (optAfterFirst start segs first s) := by
  unfold optAfterFirst
  rcases hx : s.expect .rightBracket with ⟨rb, s1⟩
  simp only
  cases rb with
  | true => exact optItem_pos _ _ _ _ _
  | false =>
    simp only [Bool.false_eq_true, if_false]
    rcases hy : s1.expect .colon with ⟨cl, s2⟩
    simp only
    cases cl with
    | true => exact optSecond_pos _ _ _ _
    | false => trivial

theorem optBounds_pos (start : Nat) (segs : List PItem) (s : PS) : OptPos start (optBounds start segs s) := by
  unfold optBounds
  rcases hx : s.expect .rightBracket with ⟨rb, s1⟩
  simp only
  cases rb with
  | true => exact optItem_pos _ _ _ _ _
  | false =>
    simp only [Bool.false_eq_true, if_false]
    rcases hy : s1.expect .comma with ⟨cm, s2⟩
    simp only
    cases cm with
    | false => trivial
    | true =>
      simp only [Bool.not_true, Bool.false_eq_true, if_false]
      cases hz : s2.eatExpect .number with
      | none => exact optAfterFirst_pos _ _ _ _
      | some r =>
        obtain ⟨n, s3⟩ := r
        show OptPos start (parseUsize _ n.value >>= fun first => _)
        cases hpu : parseUsize "get_opt: number-too-large" n.value with
        | ok first => exact optAfterFirst_pos _ _ _ _
        | err e => trivial
        | panic q => trivial
        | outOfFuel q => trivial

/-- the `Optional` item `get_opt` returns spans from its `(` to the last token it consumed -/
theorem getOpt_pos (s : PS) (x : PItem) (s' : PS) (h : getOpt s = .ok (some (x, s'))) :
    s.cur.kind = .leftBracket ∧ x.pos.start = s.cur.start ∧ ∃ p, s'.prev = .ok p ∧ x.pos.stop = p.stop := by
  unfold getOpt at h
  rcases hx : s.expect .leftBracket with ⟨lb, s1⟩
  rw [hx] at h
  simp only at h
  cases lb with
  | false => simp [pure] at h
  | true =>
    have hk := expect_true_kind s _ _ hx
    simp only [Bool.not_true, Bool.false_eq_true, if_false] at h
    cases hl : optLoop (s1.toks.length + 2) s1 [] with
    | ok v =>
      obtain ⟨segs, s2⟩ := v
      rw [hl] at h
      have h' : optBounds s.cur.start segs s2 = .ok (some (x, s')) := h
      have hp := optBounds_pos s.cur.start segs s2
      rw [h'] at hp
      exact ⟨hk, hp.1, hp.2⟩
    | err e => rw [hl] at h; cases h
    | panic q => rw [hl] at h; cases h
    | outOfFuel q => rw [hl] at h; cases h

/-- `get_term` declines, fails, or returns an item after consuming a token -/
theorem getTerm_spec (s : PS) (hi : Inv L s) : OSpec L (Adv L) s (getTerm s) := by
  unfold getTerm
  have h1 := getSyll_spec s hi
  cases hx1 : getSyll s with
  | outOfFuel p => rw [hx1] at h1; exact h1
  | err e => rw [hx1] at h1; exact h1
  | panic p => rw [hx1] at h1; exact h1
  | ok v1 =>
    cases v1 with
    | some r => obtain ⟨x, s'⟩ := r; rw [hx1] at h1; exact h1
    | none =>
      have h2 := getStruct_spec s hi
      cases hx2 : getStruct s with
      | outOfFuel p => rw [hx2] at h2; exact h2
      | err e => rw [hx2] at h2; exact h2
      | panic p => rw [hx2] at h2; exact h2
      | ok v2 =>
        cases v2 with
        | some r => obtain ⟨x, s'⟩ := r; rw [hx2] at h2; exact h2
        | none =>
          have h3 := getSet_spec s hi
          cases hx3 : getSet s with
          | outOfFuel p => rw [hx3] at h3; exact h3
          | err e => rw [hx3] at h3; exact h3
          | panic p => rw [hx3] at h3; exact h3
          | ok v3 =>
            cases v3 with
            | some r => obtain ⟨x, s'⟩ := r; rw [hx3] at h3; exact h3
            | none =>
              have h4 := getSeg_spec s hi
              cases hx4 : getSeg s with
              | outOfFuel p => rw [hx4] at h4; exact h4
              | err e => rw [hx4] at h4; exact h4
              | panic p => rw [hx4] at h4; exact h4
              | ok v4 =>
                cases v4 with
                | some r => obtain ⟨x, s'⟩ := r; rw [hx4] at h4; exact h4
                | none =>
                  have h5 := getVar_spec s hi
                  cases hx5 : getVar s with
                  | outOfFuel p => rw [hx5] at h5; exact h5
                  | err e => rw [hx5] at h5; exact h5
                  | panic p => rw [hx5] at h5; exact h5
                  | ok v5 =>
                    cases v5 with
                    | some r => obtain ⟨x, s'⟩ := r; rw [hx5] at h5; exact h5
                    | none =>
                      have h6 := getOpt_spec s hi
                      cases hx6 : getOpt s with
                      | outOfFuel p => rw [hx6] at h6; exact h6
                      | err e => rw [hx6] at h6; exact h6
                      | panic p => rw [hx6] at h6; exact h6
                      | ok v6 =>
                        cases v6 with
                        | some r =>
                          -- OptLocError underlines the optional: from its `(` to the last token it consumed
                          obtain ⟨x, s'⟩ := r
                          rw [hx6] at h6
                          have h6 : Adv L s s' := h6
                          obtain ⟨hk, hst, p, hp, hstop⟩ := getOpt_pos s x s' hx6
                          obtain ⟨hp1, hp2⟩ := prev_spec s' p hp
                          have hreal := cur_real s hi (by rw [hk]; decide)
                          have hlt := h6.lt
                          rw [h6.toks_eq] at hp2
                          have := span_ij s.toks hi.1 s.pos (s'.pos - 1) s.cur p (by omega) hreal hp2
                          show ErrOK L (posErr "OptLocError" x.pos)
                          exact Or.inr (spansOK_one _ _ (by rw [hst, hstop]; exact this))
                        | none => triv

/-! ### environments -/

/-- what the loop of `get_env_elements` guarantees: the state, and that the word-boundary position it reports (if any)
    is a column of the line -/
def EnvLoopSpec (L : Nat) (s : PS) : PRes ((List PItem × Bool × Pos) × PS) → Prop
  | .ok ((els, hw, wp), s') => Le L s s' ∧ wp.start ≤ L ∧ (hw = true → els ≠ [])
  | .err e => ErrOK L e
  | .panic p => PanicOK p
  | .outOfFuel _ => False

theorem EnvLoopSpec.of_adv {s s1 : PS} {r : PRes ((List PItem × Bool × Pos) × PS)} (h : Adv L s s1) (hr : EnvLoopSpec L s1 r) :
    EnvLoopSpec L s r := by
  cases r with
  | ok v => obtain ⟨⟨els, b, wp⟩, s'⟩ := v; exact ⟨h.toLe.trans hr.1, hr.2.1, hr.2.2⟩
  | err e => exact hr
  | panic p => exact hr
  | outOfFuel p => exact hr

theorem envElsLoop_spec : ∀ (fuel : Nat) (s : PS) (els : List PItem) (b : Bool) (wp : Pos), Inv L s → wp.start ≤ L →
    (b = true → els ≠ []) → s.toks.length - s.pos < fuel → EnvLoopSpec L s (envElsLoop fuel s els b wp) := by
  intro fuel
  induction fuel with
  | zero => intro s _ _ _ _ _ _ h; omega
  | succ n ih =>
    intro s els b wp hi hwp hne hf
    have cont : ∀ (s' : PS) (x : PItem) (b' : Bool) (wp' : Pos), Adv L s s' → wp'.start ≤ L →
        EnvLoopSpec L s (envElsLoop n s' (els ++ [x]) b' wp') :=
      fun s' x b' wp' ha hw => EnvLoopSpec.of_adv ha (ih s' (els ++ [x]) b' wp' ha.inv hw (fun _ => by simp) (measure_lt ha hf))
    unfold envElsLoop
    split
    · rename_i x s' hx
      have ha := getWordBound_spec s hi x s' hx
      obtain ⟨hpos, hk⟩ := getWordBound_pos s x s' hx
      have hcs := cur_strict s hi (by rw [hk]; decide)
      split
      · -- TooManyWordBoundaries underlines the first column of the second `#`
        rw [hpos]
        exact Or.inr (spansOK_one _ _ (by simp only [tokPos]; omega))
      · exact cont _ _ _ _ ha (by rw [hpos]; simp only [tokPos]; omega)
    split
    · rename_i x s' hx
      exact cont _ _ _ _ (getSyllBound_spec s hi x s' hx) hwp
    split
    · rename_i el s' hx
      rcases eatExpect_cases s .ellipsis hi (by decide) with ⟨he, ha⟩ | he
      · rw [he] at hx; cases hx; exact cont _ _ _ _ ha hwp
      · rw [he] at hx; cases hx
    have h1 := getOpt_spec s hi
    split
    · rename_i x s' hx; rw [hx] at h1; exact cont _ _ _ _ h1 hwp
    · have h2 := getTerm_spec s hi
      split
      · rename_i x s' hx; rw [hx] at h2; exact cont _ _ _ _ h2 hwp
      · exact ⟨Le.refl s hi, hwp, hne⟩
      · rename_i hx; rw [hx] at h2; exact h2
      · rename_i hx; rw [hx] at h2; exact h2
      · rename_i hx; rw [hx] at h2; exact h2
    · rename_i hx; rw [hx] at h1; exact h1
    · rename_i hx; rw [hx] at h1; exact h1
    · rename_i hx; rw [hx] at h1; exact h1

theorem wbCheck_nofuel (a b : Bool) (els : List PItem) (p : Pos) (hp : p.start ≤ L) (hne : b = true → els ≠ []) :
    NoFuel L (wbCheck a b els p) := by
  unfold wbCheck
  split
  · rename_i hb
    split
    · rename_i he
      exact absurd (by simpa using he) (hne hb)
    · split
      · exact Or.inr (spansOK_one _ _ (by omega))
      · split
        · exact Or.inr (spansOK_one _ _ (by omega))
        · triv
  · triv

theorem getEnvElements_spec (isAfter : Bool) (s : PS) (hi : Inv L s) : Spec L (Le L) s (getEnvElements isAfter s) := by
  unfold getEnvElements
  have h := envElsLoop_spec (s.toks.length + 2) s [] false ⟨0, 0⟩ hi (Nat.zero_le _) (fun h => by cases h) (fuel_ok s)
  cases hx : envElsLoop (s.toks.length + 2) s [] false ⟨0, 0⟩ with
  | ok v =>
    obtain ⟨⟨els, hasWb, wbPos⟩, s'⟩ := v
    rw [hx] at h
    obtain ⟨hle, hw, hne⟩ : Le L s s' ∧ wbPos.start ≤ L ∧ (hasWb = true → els ≠ []) := h
    show Spec L (Le L) s (wbCheck isAfter hasWb els wbPos >>= fun _ => pure (els, s'))
    have hc := wbCheck_nofuel (L := L) isAfter hasWb els wbPos hw hne
    cases hwc : wbCheck isAfter hasWb els wbPos with
    | ok u => exact hle
    | err e => rw [hwc] at hc; exact hc
    | panic q => rw [hwc] at hc; exact hc
    | outOfFuel q => rw [hwc] at hc; exact hc
  | err e => rw [hx] at h; exact h
  | panic q => rw [hx] at h; exact h
  | outOfFuel q => rw [hx] at h; exact h

theorem getEnvTerm_spec (s : PS) (hi : Inv L s) : Spec L (Adv L) s (getEnvTerm s) := by
  unfold getEnvTerm
  refine Spec.bind (R1 := Le L) (R2 := Adv L) (R3 := Adv L) (getEnvElements_spec false s hi) (fun before s1 h1 => ?_) (fun b c h1' h2' => h1'.trans_adv h2')
  rcases expect_cases s1 .underline h1.inv (by decide) with ⟨he, h2⟩ | he
  · simp only [he]
    refine Spec.bind (R1 := Le L) (R2 := Le L) (R3 := Adv L) (getEnvElements_spec true s1.advance h2.inv) (fun after s3 h3 => ?_) (fun b c h1' h2' => h2.trans_le (h1'.trans h2'))
    split
    · triv
    · refine NoFuel.bind (prev_nofuel s3 h3.inv (Nat.le_trans h2.pos_pos h3.le)) (fun p => ?_)
      exact Le.refl s3 h3.inv
  · simp only [he]; triv

theorem jumpAdvance_le (s0 s : PS) (k : Nat) (ht : s.toks = s0.toks) (hT : ToksOK L s0.toks) (hk : s0.pos ≤ k + 1)
    (hb : k + 1 < s0.toks.length) : Le L s0 (s.jumpAdvance k) := by
  refine ⟨by simp [PS.jumpAdvance, PS.advance, ht], by simp only [PS.jumpAdvance, PS.advance]; omega, ?_⟩
  have := inv_after (L := L) s.toks (k + 1) s.cur (by rw [ht]; exact hT) (by rw [ht]; exact hb)
  exact this

theorem jumpTo_le (s0 s : PS) (ht : s.toks = s0.toks) (hi : Inv L s0) : Le L s0 (s.jumpTo s0.pos) := by
  refine ⟨by simp [PS.jumpTo, ht], by simp [PS.jumpTo], ?_⟩
  refine ⟨by simp only [PS.jumpTo, ht]; exact hi.1, by simp only [PS.jumpTo, ht]; exact hi.2.1, Or.inl ?_⟩
  simp only [PS.jumpTo, ht]
  rw [List.getD_eq_getElem?_getD, List.getElem?_eq_getElem hi.2.1]; rfl

theorem getSpecEnv_spec (s : PS) (hi : Inv L s) : Spec L (Le L) s (getSpecEnv s) := by
  unfold getSpecEnv
  rcases expect_cases s .underline hi (by decide) with ⟨he, h1⟩ | he
  · simp only [he]
    rcases expect_cases s.advance .comma h1.inv (by decide) with ⟨he2, h2⟩ | he2
    · simp only [he2]
      refine Spec.bind (R1 := Le L) (R2 := fun _ c => Le L s c) (R3 := Le L) (getEnvElements_spec false s.advance.advance h2.inv) (fun x s3 h3 => ?_) (fun b c _ h => h)
      rcases expect_cases s3 .underline h3.inv (by decide) with ⟨he4, h4⟩ | he4
      · simp only [he4, if_true]
        exact jumpTo_le s _ (by rw [advance_toks, h3.toks_eq]; rfl) hi
      · simp only [he4]
        refine NoFuel.bind (prev_nofuel s3 h3.inv (Nat.le_trans h2.pos_pos h3.le)) (fun p => ?_)
        exact ((h1.trans h2).toLe.trans h3)
    · simp only [he2]
      exact jumpTo_le s _ rfl hi
  · simp only [he]
    exact Le.refl s hi

theorem envsLoop_spec : ∀ (fuel : Nat) (s : PS) (envs : List PEnv), Inv L s → s.toks.length - s.pos < fuel →
    Spec L (Le L) s (envsLoop fuel s envs) := by
  intro fuel
  induction fuel with
  | zero => intro s _ _ h; omega
  | succ n ih =>
    intro s envs hi hf
    unfold envsLoop
    rcases expect_cases s .rightColCurly hi (by decide) with ⟨he, h1⟩ | he
    · simp only [he, if_true]; exact h1.toLe
    · simp only [he, Bool.false_eq_true, if_false]
      rcases expect_cases s .comma hi (by decide) with ⟨he2, h2⟩ | he2
      · simp only [he2, if_true]
        have h3 := getEnvTerm_spec s.advance h2.inv
        split
        · rename_i x s3 hx; rw [hx] at h3
          have ha : Adv L s s3 := h2.trans h3
          exact loop_step ha (ih _ _ ha.inv (measure_lt ha hf))
        · rename_i hx; rw [hx] at h3; exact h3
        · rename_i hx; rw [hx] at h3; exact h3
        · rename_i hx; rw [hx] at h3; exact h3
      · simp only [he2, Bool.false_eq_true, if_false]; triv

theorem getEnvs_spec (s : PS) (hi : Inv L s) : Spec L (Adv L) s (getEnvs s) := by
  unfold getEnvs
  rcases expect_cases s .leftColCurly hi (by decide) with ⟨he, h1⟩ | he
  · simp only [he]
    refine Spec.bind (R1 := Adv L) (R2 := Le L) (R3 := Adv L) (getEnvTerm_spec s.advance h1.inv) (fun e1 s2 h2 => ?_) (fun b c h1' h2' => (h1.trans h1').trans_le h2')
    refine Spec.bind (R1 := Le L) (R2 := Le L) (R3 := Le L) (envsLoop_spec _ s2 [e1] h2.inv (fuel_ok _)) (fun envs s3 h3 => ?_) (fun b c h1' h2' => h1'.trans h2')
    refine NoFuel.bind (prev_nofuel s3 h3.inv (Nat.le_trans h2.pos_pos h3.le)) (fun p => ?_)
    exact Le.refl s3 h3.inv
  · simp only [he]
    refine Spec.bind (R1 := Adv L) (R2 := Le L) (R3 := Adv L) (getEnvTerm_spec s hi) (fun env s2 h2 => ?_) (fun b c h1' h2' => h1'.trans_le h2')
    exact Le.refl s2 h2.inv

theorem envLoop_spec : ∀ (fuel : Nat) (s : PS) (envs : List PItem), Inv L s → s.toks.length - s.pos < fuel →
    Spec L (Le L) s (envLoop fuel s envs) := by
  intro fuel
  induction fuel with
  | zero => intro s _ _ h; omega
  | succ n ih =>
    intro s envs hi hf
    unfold envLoop
    have h1 := getEnvs_spec s hi
    split
    · rename_i x s1 hx; rw [hx] at h1
      have h1 : Adv L s s1 := h1
      rcases expect_cases s1 .comma h1.inv (by decide) with ⟨he, h2⟩ | he
      · simp only [he, if_true]
        have ha := h1.trans h2
        exact loop_step ha (ih _ _ ha.inv (measure_lt ha hf))
      · simp only [he]; exact h1.toLe
    · rename_i hx; rw [hx] at h1; exact h1
    · rename_i hx; rw [hx] at h1; exact h1
    · rename_i hx; rw [hx] at h1; exact h1

theorem getEnv_spec (s : PS) (hi : Inv L s) : Spec L (Le L) s (getEnv s) := by
  unfold getEnv
  refine Spec.bind (R1 := Le L) (R2 := Le L) (R3 := Le L) (getSpecEnv_spec s hi) (fun spec s1 h1 => ?_) (fun b c h1 h2 => h1.trans h2)
  cases spec with
  | some v => exact Le.refl s1 h1.inv
  | none => exact envLoop_spec _ s1 [] h1.inv (fuel_ok _)

theorem getExceptBlock_spec (s : PS) (hi : Inv L s) : Spec L (Le L) s (getExceptBlock s) := by
  unfold getExceptBlock
  rcases expect_cases s .pipe hi (by decide) with ⟨he, h1⟩ | he
  · simp only [he, if_true]; exact Spec.of_le h1.toLe (getEnv_spec _ h1.inv)
  · simp only [he]
    rcases expect_cases s .dubSlash hi (by decide) with ⟨he2, h2⟩ | he2
    · simp only [he2, if_true]; exact Spec.of_le h2.toLe (getEnv_spec _ h2.inv)
    · simp only [he2]; exact Le.refl s hi

theorem getContext_spec (s : PS) (hi : Inv L s) : Spec L (Le L) s (getContext s) := by
  unfold getContext
  rcases expect_cases s .slash hi (by decide) with ⟨he, h1⟩ | he
  · simp only [he, if_true]; exact Spec.of_le h1.toLe (getEnv_spec _ h1.inv)
  · simp only [he]; exact Le.refl s hi

/-! ### input, output, the rule -/

theorem inputElsLoop_spec : ∀ (fuel : Nat) (s : PS) (els : List PItem), Inv L s → s.toks.length - s.pos < fuel →
    Spec L (Le L) s (inputElsLoop fuel s els) := by
  intro fuel
  induction fuel with
  | zero => intro s _ _ h; omega
  | succ n ih =>
    intro s els hi hf
    have cont : ∀ (s' : PS) (els' : List PItem), Adv L s s' → Spec L (Le L) s (inputElsLoop n s' els') :=
      fun s' els' ha => loop_step ha (ih s' els' ha.inv (measure_lt ha hf))
    unfold inputElsLoop
    split
    · rename_i el s' hx
      rcases eatExpect_cases s .ellipsis hi (by decide) with ⟨he, ha⟩ | he
      · rw [he] at hx; cases hx; exact cont _ _ ha
      · rw [he] at hx; cases hx
    split
    · rename_i x s' hx
      exact cont _ _ (getSyllBound_spec s hi x s' hx)
    have h1 := getTerm_spec s hi
    split
    · rename_i x s' hx; rw [hx] at h1; exact cont _ _ h1
    · split
      · rename_i w sw hw
        obtain ⟨hpos, _⟩ := getWordBound_pos s w sw hw
        show ErrOK L (posErr "WordBoundLoc" w.pos)
        rw [hpos]; exact posErr_cur _ s hi
      · exact Le.refl s hi
    · rename_i hx; rw [hx] at h1; exact h1
    · rename_i hx; rw [hx] at h1; exact h1
    · rename_i hx; rw [hx] at h1; exact h1

theorem getOutputEl_spec (s : PS) (hi : Inv L s) : OSpec L (Adv L) s (getOutputEl s) := by
  unfold getOutputEl
  have h1 := getSyll_spec s hi
  cases hx1 : getSyll s with
  | outOfFuel p => rw [hx1] at h1; exact h1
  | err e => rw [hx1] at h1; exact h1
  | panic p => rw [hx1] at h1; exact h1
  | ok v1 =>
    cases v1 with
    | some r => obtain ⟨x, s'⟩ := r; rw [hx1] at h1; exact h1
    | none =>
      have h2 := getStruct_spec s hi
      cases hx2 : getStruct s with
      | outOfFuel p => rw [hx2] at h2; exact h2
      | err e => rw [hx2] at h2; exact h2
      | panic p => rw [hx2] at h2; exact h2
      | ok v2 =>
        cases v2 with
        | some r => obtain ⟨x, s'⟩ := r; rw [hx2] at h2; exact h2
        | none =>
          have h3 := getSet_spec s hi
          cases hx3 : getSet s with
          | outOfFuel p => rw [hx3] at h3; exact h3
          | err e => rw [hx3] at h3; exact h3
          | panic p => rw [hx3] at h3; exact h3
          | ok v3 =>
            cases v3 with
            | some r => obtain ⟨x, s'⟩ := r; rw [hx3] at h3; exact h3
            | none =>
              have h4 := getSeg_spec s hi
              cases hx4 : getSeg s with
              | outOfFuel p => rw [hx4] at h4; exact h4
              | err e => rw [hx4] at h4; exact h4
              | panic p => rw [hx4] at h4; exact h4
              | ok v4 =>
                cases v4 with
                | some r => obtain ⟨x, s'⟩ := r; rw [hx4] at h4; exact h4
                | none =>
                  have h5 := getVar_spec s hi
                  cases hx5 : getVar s with
                  | outOfFuel p => rw [hx5] at h5; exact h5
                  | err e => rw [hx5] at h5; exact h5
                  | panic p => rw [hx5] at h5; exact h5
                  | ok v5 =>
                    cases v5 with
                    | some r => obtain ⟨x, s'⟩ := r; rw [hx5] at h5; exact h5
                    | none =>
                      show OSpec L (Adv L) s (pure (getSyllBound s))
                      cases hx6 : getSyllBound s with
                      | none => triv
                      | some r => obtain ⟨x, s'⟩ := r; exact getSyllBound_spec s hi x s' hx6

theorem outputElsLoop_spec : ∀ (fuel : Nat) (s : PS) (els : List PItem), Inv L s → s.toks.length - s.pos < fuel →
    Spec L (Le L) s (outputElsLoop fuel s els) := by
  intro fuel
  induction fuel with
  | zero => intro s _ _ h; omega
  | succ n ih =>
    intro s els hi hf
    unfold outputElsLoop
    have h1 := getOutputEl_spec s hi
    split
    · rename_i x s' hx; rw [hx] at h1
      have ha : Adv L s s' := h1
      exact loop_step ha (ih s' _ ha.inv (measure_lt ha hf))
    · exact Le.refl s hi
    · rename_i hx; rw [hx] at h1; exact h1
    · rename_i hx; rw [hx] at h1; exact h1
    · rename_i hx; rw [hx] at h1; exact h1

theorem getEmpty_spec (s : PS) (hi : Inv L s) (x : PItem) (s' : PS) (h : getEmpty s = some (x, s')) : Adv L s s' := by
  unfold getEmpty at h
  split at h
  · cases h
  · rename_i hc
    simp only [Option.some.injEq, Prod.mk.injEq] at h
    rw [← h.2]
    refine advance_adv s hi ?_
    intro hk
    simp [PS.peek, hk] at hc

end Asca.Parse.Spans
