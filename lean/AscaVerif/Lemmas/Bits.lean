import AscaVerif.Model.Seg
import Std.Tactic.BVDecide
/-! Closed bit-vector facts about the four sub-node layouts of `place.rs`, proved by `bv_decide`
    against the constants the translator generated from the current source.  (`bv_decide` checks a SAT
    certificate with compiled code: each use adds a `…._native.bv_decide.ax_*` axiom; declared in the
    trusted base, DESIGN.md §3.)  Everything else in the project is proved from these by plain case analysis. -/
namespace Asca.Place
open Asca

macro "unfold_consts" : tactic =>
  `(tactic| simp only [InRange, Sub.consts, Gen.labConsts, Gen.corConsts, Gen.dorConsts, Gen.phrConsts,
      rawSetSome, rawGet, rawNew, rawUnset] at *)

/-- the presence test on a raw value -/
def present (n : Sub) (x : BitVec 16) : Bool := (n.consts.isAnd &&& x) == n.consts.isEq

theorem present_zero (n : Sub) : present n 0#16 = false := by
  cases n <;> simp only [present, Sub.consts, Gen.labConsts, Gen.corConsts, Gen.dorConsts, Gen.phrConsts] <;> decide

theorem raw_setSome (n : Sub) (d : BitVec 16) (m : BitVec 8) (h : InRange n m) :
    rawSetSome n.consts d m ≠ 0#16 ∧ present n (rawSetSome n.consts d m) = true
    ∧ rawGet n.consts (rawSetSome n.consts d m) = m := by
  unfold present
  cases n <;> unfold_consts <;> bv_decide

theorem raw_new (n : Sub) (m : BitVec 8) (h : InRange n m) :
    rawNew n.consts m ≠ 0#16 ∧ present n (rawNew n.consts m) = true
    ∧ rawGet n.consts (rawNew n.consts m) = m := by
  unfold present
  cases n <;> unfold_consts <;> bv_decide

theorem raw_unset (n : Sub) (d : BitVec 16) :
    present n (rawUnset n.consts d) = false ∧ (rawUnset n.consts d &&& n.consts.unLow) = 0#16 := by
  unfold present
  cases n <;> unfold_consts <;> bv_decide

/-- setting sub-node `n` on an existing raw value leaves sub-node `n'` alone. -/
theorem raw_setSome_frame (n n' : Sub) (hne : n ≠ n') (d : BitVec 16) (m : BitVec 8) (h : InRange n m) :
    present n' (rawSetSome n.consts d m) = present n' d
    ∧ rawGet n'.consts (rawSetSome n.consts d m) = rawGet n'.consts d := by
  unfold present
  cases n <;> cases n' <;> first | (exact absurd rfl hne) | (unfold_consts; bv_decide)

theorem raw_new_frame (n n' : Sub) (hne : n ≠ n') (m : BitVec 8) (h : InRange n m) :
    present n' (rawNew n.consts m) = false := by
  unfold present
  cases n <;> cases n' <;> first | (exact absurd rfl hne) | (unfold_consts; bv_decide)

theorem raw_unset_frame (n n' : Sub) (hne : n ≠ n') (d : BitVec 16) :
    present n' (rawUnset n.consts d) = present n' d
    ∧ rawGet n'.consts (rawUnset n.consts d) = rawGet n'.consts d := by
  unfold present
  cases n <;> cases n' <;> first | (exact absurd rfl hne) | (unfold_consts; bv_decide)

/-- writing back what was read changes nothing (sub-node present). -/
theorem raw_setSome_get (n : Sub) (d : BitVec 16) (hp : present n d = true) :
    rawSetSome n.consts d (rawGet n.consts d) = d := by
  unfold present at hp
  cases n <;> unfold_consts <;> bv_decide

theorem raw_get_inRange (n : Sub) (d : BitVec 16) : InRange n (rawGet n.consts d) := by
  cases n <;> unfold_consts <;> bv_decide

/-- payload bits of sub-node `n` are clear -/
def payloadClear (n : Sub) (x : BitVec 16) : Bool := (x &&& n.consts.unLow) == 0#16

theorem raw_unset_absent_clean (n : Sub) (d : BitVec 16) (hp : present n d = false)
    (hc : payloadClear n d = true) : rawUnset n.consts d = d := by
  unfold present at hp; unfold payloadClear at hc
  cases n <;> unfold_consts <;> bv_decide

/-- if every *other* sub-node is absent with clear payload, un-setting `n` leaves nothing. -/
theorem raw_unset_last (n : Sub) (d : BitVec 16)
    (h : ∀ n', n' ≠ n → present n' d = false ∧ payloadClear n' d = true) : rawUnset n.consts d = 0#16 := by
  cases n
  · have h1 := h .cor (by decide); have h2 := h .dor (by decide); have h3 := h .phr (by decide)
    unfold present payloadClear at *; unfold_consts; bv_decide
  · have h1 := h .lab (by decide); have h2 := h .dor (by decide); have h3 := h .phr (by decide)
    unfold present payloadClear at *; unfold_consts; bv_decide
  · have h1 := h .lab (by decide); have h2 := h .cor (by decide); have h3 := h .phr (by decide)
    unfold present payloadClear at *; unfold_consts; bv_decide
  · have h1 := h .lab (by decide); have h2 := h .cor (by decide); have h3 := h .dor (by decide)
    unfold present payloadClear at *; unfold_consts; bv_decide

/-- un-setting keeps the other sub-nodes' payload-cleanliness; setting keeps it too. -/
theorem raw_unset_clean_frame (n n' : Sub) (d : BitVec 16) (hc : payloadClear n' d = true) :
    payloadClear n' (rawUnset n.consts d) = true := by
  unfold payloadClear at *
  cases n <;> cases n' <;> unfold_consts <;> bv_decide

theorem raw_setSome_clean_frame (n n' : Sub) (hne : n ≠ n') (d : BitVec 16) (m : BitVec 8) (h : InRange n m)
    (hc : payloadClear n' d = true) : payloadClear n' (rawSetSome n.consts d m) = true := by
  unfold payloadClear at *
  cases n <;> cases n' <;> first | (exact absurd rfl hne) | (unfold_consts; bv_decide)

theorem raw_new_clean_frame (n n' : Sub) (hne : n ≠ n') (m : BitVec 8) (h : InRange n m) :
    payloadClear n' (rawNew n.consts m) = true := by
  unfold payloadClear at *
  cases n <;> cases n' <;> first | (exact absurd rfl hne) | (unfold_consts; bv_decide)

end Asca.Place
