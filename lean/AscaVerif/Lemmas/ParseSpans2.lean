import AscaVerif.Lemmas.ParseItems
/-! Second half of `Lemmas/ParseSpans.lean`: terms, input, output and the rule, using the item positions of
    `Lemmas/ParseItems.lean` for `UnexpectedDiacritic`. -/
namespace Asca.Parse.Spans
open Asca.Parse
open Lex (Token TK)

variable {L : Nat}

/-- what `termStep` guarantees about the state it hands back -/
def TermSpec (L : Nat) (s1 : PS) : PRes TermStep → Prop
  | .ok (.stop s2) => Le L s1 s2
  | .ok (.skip s2) => Adv L s1 s2
  | .ok (.push s3 true) => Adv L s1 s3
  | .ok (.push s3 false) => Le L s1 s3
  | .err e => ErrOK L e
  | .outOfFuel _ => False
  | .panic p => PanicOK p

/-- `UnexpectedDiacritic` underlines the last item of the term and then the stray diacritic token: the item ends where
    that token begins or earlier, both lie inside the line -/
theorem unexpectedDiacritic_ok (s : PS) (hi : Inv L s) (hk : isDiacritic s.cur.kind = true) (it : PItem) (hit : ItemOK L s it.pos) :
    ErrOK L ⟨"UnexpectedDiacritic", [(it.pos.start, it.pos.stop), (s.cur.start, s.cur.stop)]⟩ := by
  have hne : s.cur.kind ≠ .eol := by intro h; rw [h] at hk; cases hk
  have hr := cur_real s hi hne
  have hc := cur_ok s hi
  refine Or.inr ⟨fun sp hsp => ?_, ?_⟩
  · simp only [List.mem_cons, List.mem_nil_iff, or_false] at hsp
    rcases hsp with rfl | rfl
    · exact ⟨hit.1, hit.2.1⟩
    · exact hc
  · simp only [List.pairwise_cons, List.mem_singleton, forall_eq, List.mem_nil_iff, false_imp_iff, implies_true, List.Pairwise.nil, and_true]
    exact hit.2.2 s.cur hr

theorem termStep_spec (term : List PItem) (s1 : PS) (hi : Inv L s1) (hterm : ∀ it, term.getLast? = some it → ItemOK L s1 it.pos) :
    TermSpec L s1 (termStep term s1) := by
  unfold termStep
  by_cases ht : term.isEmpty = true
  · simp only [ht, if_true]
    rcases expect_cases s1 .comma hi (by decide) with ⟨he, h1⟩ | he
    · simp only [he, if_true]; exact h1
    · simp only [he, Bool.false_eq_true, if_false]
      exact Le.refl s1 hi
  · simp only [ht, Bool.false_eq_true, if_false]
    split
    · rename_i it hm
      by_cases hd : isDiacritic s1.cur.kind = true
      · rw [if_pos hd] at hm
        exact unexpectedDiacritic_ok s1 hi hd it (hterm it hm)
      · rw [if_neg hd] at hm; cases hm
    · rcases expect_cases s1 .comma hi (by decide) with ⟨he2, h2⟩ | he2
      · simp only [he2]; exact h2
      · simp only [he2]; exact Le.refl s1 hi

/-- only an empty term is skipped -/
theorem termStep_skip_empty (term : List PItem) (s1 s2 : PS) (h : termStep term s1 = .ok (.skip s2)) : term.isEmpty = true := by
  unfold termStep at h
  by_cases ht : term.isEmpty = true
  · exact ht
  · simp only [ht, Bool.false_eq_true, if_false] at h
    split at h
    · cases h
    · rcases hx : s1.expect .comma with ⟨c, s3⟩
      rw [hx] at h; cases h

/-- `get_input_els` either returns what it was given without moving, or a longer list -/
theorem inputElsLoop_grow : ∀ (fuel : Nat) (s : PS) (acc term : List PItem) (s1 : PS),
    inputElsLoop fuel s acc = .ok (term, s1) → (term = acc ∧ s1 = s) ∨ acc.length < term.length := by
  intro fuel
  induction fuel with
  | zero => intro s acc term s1 h; simp [inputElsLoop] at h
  | succ n ih =>
    intro s acc term s1 h
    have grow : ∀ (s' : PS) (x : PItem), inputElsLoop n s' (acc ++ [x]) = .ok (term, s1) → acc.length < term.length := by
      intro s' x hx
      rcases ih s' (acc ++ [x]) term s1 hx with ⟨rfl, _⟩ | hl
      · simp
      · simp only [List.length_append, List.length_cons, List.length_nil] at hl; omega
    unfold inputElsLoop at h
    split at h
    · exact Or.inr (grow _ _ h)
    split at h
    · exact Or.inr (grow _ _ h)
    split at h
    · exact Or.inr (grow _ _ h)
    · split at h
      · cases h
      · cases h; exact Or.inl ⟨rfl, rfl⟩
    · cases h
    · cases h
    · cases h

theorem inputLoop_spec : ∀ (fuel : Nat) (s : PS) (inputs : List (List PItem)), Inv L s →
    (inputs = [] → s.cur.kind ≠ .eol ∧ s.cur.kind ≠ .comment) → s.toks.length - s.pos < fuel →
    Spec L (Le L) s (inputLoop fuel s inputs) := by
  intro fuel
  induction fuel with
  | zero => intro s _ _ _ h; omega
  | succ n ih =>
    intro s inputs hi h0 hf
    unfold inputLoop
    split
    · rename_i e s1 hx
      have h1 := getEmpty_spec s hi e s1 hx
      rcases expect_cases s1 .comma h1.inv (by decide) with ⟨he, h2⟩ | he
      · simp only [he]
        split
        · triv
        · have ha := h1.trans h2
          exact loop_step ha (ih _ _ ha.inv (fun h => by simp at h) (measure_lt ha hf))
      · simp only [he]
        split
        · triv
        · exact loop_step h1 (ih _ _ h1.inv (fun h => by simp at h) (measure_lt h1 hf))
    · have h1 := inputElsLoop_spec (s.toks.length + 2) s [] hi (fuel_ok s)
      split
      · rename_i term s1 hx; rw [hx] at h1
        have h1 : Le L s s1 := h1
        split
        · rename_i hboth
          split
          · exact colErr_ok _ _ (pos_le s1 h1.inv)
          · -- the first token of a rule is neither `Eol` nor a comment, so its text is not empty
            rename_i hnone
            exfalso
            simp only [Bool.and_eq_true, List.isEmpty_iff] at hboth
            obtain ⟨ht, hin⟩ := hboth
            rcases inputElsLoop_grow _ s [] term s1 hx with ⟨_, rfl⟩ | hl
            · obtain ⟨k1, k2⟩ := h0 hin
              have := (cur_tokx s1 hi k1).1 k1 k2
              cases hv : s1.cur.value with
              | nil => exact this hv
              | cons a b => rw [hv] at hnone; simp at hnone
            · rw [ht] at hl; simp at hl
        · rename_i hnb
          have h2 := termStep_spec term s1 h1.inv
            (inputElsLoop_last (s.toks.length + 2) s [] term s1 hi (fuel_ok s) (fun it hit => by simp at hit) hx)
          split
          · rename_i s2 hy; rw [hy] at h2; exact h1.trans h2
          · rename_i s2 hy
            have hte := termStep_skip_empty term s1 s2 hy
            rw [hy] at h2
            have ha : Adv L s s2 := h1.trans_adv h2
            refine loop_step ha (ih _ _ ha.inv (fun hnil => ?_) (measure_lt ha hf))
            exfalso; apply hnb
            simp [hte, hnil]
          · rename_i s3 hy; rw [hy] at h2
            have ha : Adv L s s3 := h1.trans_adv h2
            exact loop_step ha (ih _ _ ha.inv (fun h => by simp at h) (measure_lt ha hf))
          · rename_i s3 hy; rw [hy] at h2; exact h1.trans h2
          · rename_i hy; rw [hy] at h2; exact h2
          · rename_i hy; rw [hy] at h2; exact h2
          · rename_i hy; rw [hy] at h2; exact h2
      · rename_i hx; rw [hx] at h1; exact h1
      · rename_i hx; rw [hx] at h1; exact h1
      · rename_i hx; rw [hx] at h1; exact h1

theorem getInput_spec (s : PS) (hi : Inv L s) (h0 : s.cur.kind ≠ .eol ∧ s.cur.kind ≠ .comment) : Spec L (Le L) s (getInput s) := by
  unfold getInput
  refine Spec.bind (R1 := Le L) (R2 := Le L) (R3 := Le L) (inputLoop_spec _ s [] hi (fun _ => h0) (fuel_ok s)) (fun inputs s' h => ?_) (fun b c h1 h2 => h1.trans h2)
  show Spec L (Le L) s' (if inputs.isEmpty = true then _ else _)
  by_cases he : inputs.isEmpty = true
  · rw [if_pos he]
    cases hh : s'.here with
    | ok t => exact colErr_ok _ _ (here_col s' h.inv t hh)
    | err e => have := here_nofuel (L := L) s' h.inv; rw [hh] at this; exact this
    | panic q => have := here_nofuel (L := L) s' h.inv; rw [hh] at this; exact this
    | outOfFuel q => have := here_nofuel (L := L) s' h.inv; rw [hh] at this; exact this
  · rw [if_neg he]
    exact Le.refl s' h.inv

theorem outputLoop_spec : ∀ (fuel : Nat) (s : PS) (outputs : List (List PItem)), Inv L s → s.toks.length - s.pos < fuel →
    Spec L (Le L) s (outputLoop fuel s outputs) := by
  intro fuel
  induction fuel with
  | zero => intro s _ _ h; omega
  | succ n ih =>
    intro s outputs hi hf
    unfold outputLoop
    split
    · rename_i el s1 hx
      rcases eatExpect_cases s .ampersand hi (by decide) with ⟨he0, h1⟩ | he0
      · rw [he0] at hx; cases hx
        rcases expect_cases s.advance .comma h1.inv (by decide) with ⟨he, h2⟩ | he
        · simp only [he]
          split
          · triv
          · have ha := h1.trans h2
            exact loop_step ha (ih _ _ ha.inv (measure_lt ha hf))
        · simp only [he]
          split
          · triv
          · exact loop_step h1 (ih _ _ h1.inv (measure_lt h1 hf))
      · rw [he0] at hx; cases hx
    split
    · rename_i e s1 hx
      have h1 := getEmpty_spec s hi e s1 hx
      rcases expect_cases s1 .comma h1.inv (by decide) with ⟨he, h2⟩ | he
      · simp only [he]
        split
        · triv
        · have ha := h1.trans h2
          exact loop_step ha (ih _ _ ha.inv (measure_lt ha hf))
      · simp only [he]
        split
        · triv
        · exact loop_step h1 (ih _ _ h1.inv (measure_lt h1 hf))
    · have h1 := outputElsLoop_spec (s.toks.length + 2) s [] hi (fuel_ok s)
      split
      · rename_i term s1 hx; rw [hx] at h1
        have h1 : Le L s s1 := h1
        split
        · have := here_nofuel (L := L) s1 h1.inv
          split
          · rename_i t hy; exact colErr_ok _ _ (here_col s1 h1.inv t hy)
          · rename_i hy; rw [hy] at this; exact this
          · rename_i hy; rw [hy] at this; exact this
          · rename_i hy; rw [hy] at this; exact this
        · have h2 := termStep_spec term s1 h1.inv
            (outputElsLoop_last (s.toks.length + 2) s [] term s1 hi (fuel_ok s) (fun it hit => by simp at hit) hx)
          split
          · rename_i s2 hy; rw [hy] at h2; exact h1.trans h2
          · rename_i s2 hy; rw [hy] at h2
            have ha : Adv L s s2 := h1.trans_adv h2
            exact loop_step ha (ih _ _ ha.inv (measure_lt ha hf))
          · rename_i s3 hy; rw [hy] at h2
            have ha : Adv L s s3 := h1.trans_adv h2
            exact loop_step ha (ih _ _ ha.inv (measure_lt ha hf))
          · rename_i s3 hy; rw [hy] at h2; exact h1.trans h2
          · rename_i hy; rw [hy] at h2; exact h2
          · rename_i hy; rw [hy] at h2; exact h2
          · rename_i hy; rw [hy] at h2; exact h2
      · rename_i hx; rw [hx] at h1; exact h1
      · rename_i hx; rw [hx] at h1; exact h1
      · rename_i hx; rw [hx] at h1; exact h1

theorem getOutput_spec (s : PS) (hi : Inv L s) : Spec L (Le L) s (getOutput s) := by
  unfold getOutput
  refine Spec.bind (R1 := Le L) (R2 := Le L) (R3 := Le L) (outputLoop_spec _ s [] hi (fuel_ok s)) (fun outputs s' h => ?_) (fun b c h1 h2 => h1.trans h2)
  show Spec L (Le L) s' (if outputs.isEmpty = true then _ else _)
  by_cases he : outputs.isEmpty = true
  · rw [if_pos he]
    cases hh : s'.here with
    | ok t => exact colErr_ok _ _ (here_col s' h.inv t hh)
    | err e => have := here_nofuel (L := L) s' h.inv; rw [hh] at this; exact this
    | panic q => have := here_nofuel (L := L) s' h.inv; rw [hh] at this; exact this
    | outOfFuel q => have := here_nofuel (L := L) s' h.inv; rw [hh] at this; exact this
  · rw [if_neg he]
    exact Le.refl s' h.inv

end Asca.Parse.Spans
