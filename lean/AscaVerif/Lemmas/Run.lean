import AscaVerif.Model.Run
/-! Helper lemmas about `List.mapM` / `List.foldlM` in the `Outcome` monad and about the runner. -/
namespace Asca
open Outcome

namespace Outcome
variable {ε α β γ : Type}

theorem isOk_iff {x : Outcome ε α} : x.isOk = true ↔ ∃ a, x = .ok a := by
  cases x <;> simp [isOk]

theorem mapM_nil (f : α → Outcome ε β) : ([] : List α).mapM f = .ok [] := by
  simp [List.mapM_nil]

theorem mapM_cons (f : α → Outcome ε β) (a : α) (as : List α) :
    (a :: as).mapM f = (f a >>= fun b => as.mapM f >>= fun bs => .ok (b :: bs)) := by
  simp [List.mapM_cons]

theorem mapM_cons_ok {f : α → Outcome ε β} {a : α} {as : List α} {r : List β} :
    (a :: as).mapM f = .ok r ↔ ∃ b bs, f a = .ok b ∧ as.mapM f = .ok bs ∧ r = b :: bs := by
  rw [mapM_cons]
  cases hf : f a <;> simp
  cases hm : as.mapM f <;> simp
  exact ⟨fun h => h.symm, fun h => h.symm⟩

/-- `mapM` succeeds with `ys` iff it succeeds pointwise. -/
theorem mapM_ok_iff {f : α → Outcome ε β} {xs : List α} {ys : List β} :
    xs.mapM f = .ok ys ↔ xs.length = ys.length ∧ ∀ i (h : i < xs.length) (h' : i < ys.length), f xs[i] = .ok ys[i] := by
  induction xs generalizing ys with
  | nil =>
    rw [mapM_nil]
    constructor
    · intro h; cases h; simp
    · intro ⟨h, _⟩; cases ys <;> simp_all
  | cons a as ih =>
    rw [mapM_cons_ok]
    constructor
    · rintro ⟨b, bs, hb, hbs, rfl⟩
      obtain ⟨hl, hp⟩ := ih.mp hbs
      refine ⟨by simp [hl], ?_⟩
      intro i h h'
      cases i with
      | zero => exact hb
      | succ i => exact hp i (by simpa using h) (by simpa using h')
    · rintro ⟨hl, hp⟩
      cases ys with
      | nil => simp at hl
      | cons b bs =>
        refine ⟨b, bs, hp 0 (by simp) (by simp), ?_, rfl⟩
        apply ih.mpr
        refine ⟨by simpa using hl, ?_⟩
        intro i h h'
        exact hp (i + 1) (by simpa using h) (by simpa using h')

theorem mapM_length {f : α → Outcome ε β} {xs : List α} {ys : List β} (h : xs.mapM f = .ok ys) :
    ys.length = xs.length := (mapM_ok_iff.mp h).1.symm

/-- singleton form of pointwise success -/
theorem mapM_singleton (f : α → Outcome ε β) (a : α) : [a].mapM f = (f a >>= fun b => .ok [b]) := by
  rw [mapM_cons, mapM_nil]; cases f a <;> rfl

/-- if every element succeeds, `mapM` succeeds -/
theorem mapM_isOk_of_all {f : α → Outcome ε β} {xs : List α} (h : ∀ x ∈ xs, (f x).isOk = true) :
    (xs.mapM f).isOk = true := by
  induction xs with
  | nil => rw [mapM_nil]; rfl
  | cons a as ih =>
    rw [mapM_cons]
    obtain ⟨b, hb⟩ := isOk_iff.mp (h a (by simp))
    obtain ⟨bs, hbs⟩ := isOk_iff.mp (ih (fun x hx => h x (by simp [hx])))
    simp [hb, hbs, isOk]

theorem mapM_all_of_isOk {f : α → Outcome ε β} {xs : List α} (h : (xs.mapM f).isOk = true) :
    ∀ x ∈ xs, (f x).isOk = true := by
  obtain ⟨ys, hys⟩ := isOk_iff.mp h
  obtain ⟨hl, hp⟩ := mapM_ok_iff.mp hys
  intro x hx
  obtain ⟨i, hi, rfl⟩ := List.getElem_of_mem hx
  rw [hp i hi (hl ▸ hi)]; rfl

/-- **first failure**: the result of a failing `mapM` is the result of the first failing element. -/
theorem mapM_first_fail {f : α → Outcome ε β} {xs : List α} (h : (xs.mapM f).isOk = false) :
    ∃ i, ∃ hi : i < xs.length, (∀ j (hj : j < i), (f (xs[j]'(Nat.lt_trans hj hi))).isOk = true) ∧
      (f xs[i]).isOk = false ∧
      (∀ e, xs.mapM f = .err e ↔ f xs[i] = .err e) ∧ (∀ s, xs.mapM f = .panic s ↔ f xs[i] = .panic s)
      ∧ (∀ s, xs.mapM f = .outOfFuel s ↔ f xs[i] = .outOfFuel s) := by
  induction xs with
  | nil => rw [mapM_nil] at h; cases h
  | cons a as ih =>
    rw [mapM_cons] at h ⊢
    cases hf : f a with
    | ok b =>
      rw [hf] at h
      have h' : (as.mapM f).isOk = false := by
        cases hm : as.mapM f <;> simp_all [isOk]
      obtain ⟨i, hi, hj, hfail, he, hp, ho⟩ := ih h'
      refine ⟨i + 1, by simpa using hi, ?_, by simpa using hfail, ?_, ?_, ?_⟩
      · intro j hj'
        cases j with
        | zero => simp [hf, isOk]
        | succ j => simpa using hj j (by omega)
      · intro e; simp only [bind_ok, List.getElem_cons_succ]; rw [← he e]
        cases as.mapM f <;> simp
      · intro s; simp only [bind_ok, List.getElem_cons_succ]; rw [← hp s]
        cases as.mapM f <;> simp
      · intro s; simp only [bind_ok, List.getElem_cons_succ]; rw [← ho s]
        cases as.mapM f <;> simp
    | err e => exact ⟨0, by simp, by intro j hj; omega, by simp [hf, isOk], by simp [hf], by simp [hf], by simp [hf]⟩
    | panic s => exact ⟨0, by simp, by intro j hj; omega, by simp [hf, isOk], by simp [hf], by simp [hf], by simp [hf]⟩
    | outOfFuel s => exact ⟨0, by simp, by intro j hj; omega, by simp [hf, isOk], by simp [hf], by simp [hf], by simp [hf]⟩

theorem mapM_congr {f g : α → Outcome ε β} {xs : List α} (h : ∀ x ∈ xs, f x = g x) : xs.mapM f = xs.mapM g := by
  induction xs with
  | nil => simp [mapM_nil]
  | cons a as ih =>
    rw [mapM_cons, mapM_cons, h a (by simp), ih (fun x hx => h x (by simp [hx]))]

/-- map/fold interchange on the success path: running `f` over the whole list and then `g` over the results
    is the same as running `f` then `g` element by element, provided the `f`-pass succeeds. -/
theorem mapM_comp_of_ok {f : α → Outcome ε β} {g : β → Outcome ε γ} {xs : List α} {ys : List β}
    (h : xs.mapM f = .ok ys) : xs.mapM (fun x => f x >>= g) = ys.mapM g := by
  induction xs generalizing ys with
  | nil => rw [mapM_nil] at h; cases h; simp [mapM_nil]
  | cons a as ih =>
    obtain ⟨b, bs, hb, hbs, rfl⟩ := mapM_cons_ok.mp h
    rw [mapM_cons, mapM_cons, hb, ih hbs]; rfl

/-- if the element-by-element composite succeeds, so does the `f`-pass alone. -/
theorem mapM_ok_of_comp_ok {f : α → Outcome ε β} {g : β → Outcome ε γ} {xs : List α}
    (h : (xs.mapM (fun x => f x >>= g)).isOk = true) : (xs.mapM f).isOk = true := by
  apply mapM_isOk_of_all
  intro x hx
  have := mapM_all_of_isOk h x hx
  cases hf : f x <;> simp_all [isOk]

end Outcome

namespace Run
variable {ε R W TI TF : Type} (env : Env ε R W TI TF)

theorem applyGroup_append (g₁ g₂ : List R) (w : W) :
    applyGroup env (g₁ ++ g₂) w = applyGroup env g₁ w >>= applyGroup env g₂ := by
  simp only [applyGroup, List.foldlM_append]; rfl

theorem applyWord_nil (w : W) : applyWord env [] w = .ok w := rfl

theorem applyWord_cons (g : List R) (G : List (List R)) (w : W) :
    applyWord env (g :: G) w = applyGroup env g w >>= applyWord env G := by
  simp only [applyWord, List.foldlM_cons]; rfl

theorem applyWord_append' (G₁ G₂ : List (List R)) (w : W) :
    applyWord env (G₁ ++ G₂) w = applyWord env G₁ w >>= applyWord env G₂ := by
  simp only [applyWord, List.foldlM_append]; rfl

theorem applyWord_flatten' (G : List (List R)) (w : W) :
    applyWord env G w = applyGroup env G.flatten w := by
  induction G generalizing w with
  | nil => rfl
  | cons g G ih =>
    rw [applyWord_cons, List.flatten_cons, applyGroup_append]
    congr 1; funext w'; exact ih w'

theorem applyWord_snoc (G : List (List R)) (g : List R) (w : W) :
    applyWord env (G ++ [g]) w = applyWord env G w >>= applyGroup env g := by
  rw [applyWord_append']
  congr 1; funext w'
  rw [applyWord_cons]; cases applyGroup env g w' <;> rfl

end Run
end Asca
