import AscaVerif.Model.AliasLexer
import AscaVerif.Lemmas.Lex
/-! Step specifications of the alias lexer model, in the style of `Lemmas/Lex.lean`: every recogniser, on a non-empty
    source, declines, or consumes at least one character and returns a token that begins at the cursor and ends at or
    before the new cursor, or reports an error whose span lies inside the line - never a panic, never out of fuel. -/
namespace Asca
namespace ALex
open Lex (LS LErr LRes)

def ALS.total (s : ALS) : Nat := s.ls.total

/-- what the alias parser relies on, token by token: a diacritic token indexes the table; a feature token is
    `tone: digits` below 2^16, or a row of the alias feature table other than the tone with `+` or `-` -/
def ATokX (t : AToken) : Prop :=
  (∀ i, t.kind = .diacritic i → i < Gen.diacritics.length) ∧
  (∀ k v, t.kind = .feature k v →
     (k = "Supr" ∧ v = "Tone" ∧ t.value ≠ [] ∧ t.value.all Lex.isDigit = true ∧ ParseWord.digitsToNat t.value < 2 ^ 16) ∨
     ((∃ names, (k, v, names) ∈ Gen.aliasFeatNames) ∧ ¬ (k = "Supr" ∧ v = "Tone") ∧ (t.value = [43] ∨ t.value = [45])))

/-- a kind that is neither a diacritic nor a feature -/
def APlain (k : ATK) : Prop := (∀ i, k ≠ .diacritic i) ∧ (∀ a b, k ≠ .feature a b)

theorem atokX_plain (k : ATK) (v : Text) (a b : Nat) (hp : APlain k) : ATokX ⟨k, v, a, b⟩ :=
  ⟨fun i h => absurd h (hp.1 i), fun x y h => absurd h (hp.2 x y)⟩

structure Good (s : ALS) (t : AToken) (s' : ALS) : Prop where
  start_eq : t.start = s.pos
  nonempty : t.start < t.stop
  stop_le : t.stop ≤ s'.pos
  total_eq : s'.total = s.total
  progress : s'.ls.src.length < s.ls.src.length
  not_eol : t.kind ≠ .eol
  tok_ok : ATokX t

def ErrIn (s : ALS) (e : LErr) : Prop := s.pos ≤ e.start ∧ e.start ≤ e.stop ∧ e.stop ≤ s.total + 1

def StepSpec (s : ALS) : AStep → Prop
  | .ok none => True
  | .ok (some (t, s')) => Good s t s'
  | .err e => ErrIn s e
  | .panic _ => False
  | .outOfFuel _ => False

macro "aerr" : tactic => `(tactic| (simp only [StepSpec, ErrIn, ALS.total, ALS.pos, Lex.LS.total]; omega))

/-- `chop(n)` of `n ≥ 1` available characters, from a state that differs from `s` in flags only -/
theorem chopTokA_spec (k : ATK) (n : Nat) (s s1 : ALS) (hn : 0 < n) (hle : n ≤ s.ls.src.length) (hk : k ≠ .eol)
    (hsrc : s1.ls.src = s.ls.src) (hpos : s1.ls.pos = s.ls.pos) (hp : APlain k := by constructor <;> intros <;> simp) :
    StepSpec s (chopTokA k n s1) := by
  have hle1 : n ≤ s1.ls.src.length := by rw [hsrc]; exact hle
  simp only [chopTokA, Lex.LS.chop, hle1, if_true, bind, Outcome.bind, pure, StepSpec]
  refine ⟨by simp [ALS.pos, hpos], by simp only [ALS.pos]; omega, by simp [ALS.pos], ?_, ?_, hk, atokX_plain _ _ _ _ hp⟩
  · simp only [ALS.total, Lex.LS.total, List.length_drop]; rw [hsrc, hpos]; omega
  · simp only [List.length_drop]; rw [hsrc]; omega

theorem src_ne (s : ALS) (h : s.cur ≠ 0) : s.ls.src ≠ [] := Lex.src_ne_of_cur s.ls h

theorem getBracket_spec (s : ALS) (h : s.ls.src ≠ []) : StepSpec s (getBracket s) := by
  have h1 := Lex.len_pos_of_ne _ h
  unfold getBracket
  split
  · exact chopTokA_spec _ 1 s _ (by omega) h1 (by simp) rfl rfl
  split
  · split
    · aerr
    · exact chopTokA_spec _ 1 s _ (by omega) h1 (by simp) rfl rfl
  · trivial

theorem getReplPlus_spec (s : ALS) (h : s.ls.src ≠ []) : StepSpec s (getReplPlus s) := by
  unfold getReplPlus
  split
  · exact chopTokA_spec _ 1 s s (by omega) (Lex.len_pos_of_ne _ h) (by simp) rfl rfl
  · trivial

theorem getPrimative_spec (s : ALS) (h : s.ls.src ≠ []) : StepSpec s (getPrimative s) := by
  unfold getPrimative
  split
  · trivial
  · exact chopTokA_spec _ 1 s s (by omega) (Lex.len_pos_of_ne _ h) (by simp) rfl rfl

theorem getSpecialChar_spec (s : ALS) (h : s.ls.src ≠ []) : StepSpec s (getSpecialChar s) := by
  have h1 := Lex.len_pos_of_ne _ h
  have one : ∀ (k : ATK) (s1 : ALS), k ≠ .eol → s1.ls.src = s.ls.src → s1.ls.pos = s.ls.pos → APlain k → StepSpec s (chopTokA k 1 s1) :=
    fun k s1 hk hs hp hpl => chopTokA_spec k 1 s s1 (by omega) h1 hk hs hp hpl
  unfold getSpecialChar
  by_cases c1 : s.cur = 44; · rw [if_pos c1]; exact one _ s (by simp) rfl rfl ⟨by simp, by simp⟩
  rw [if_neg c1]
  by_cases c2 : s.cur = 58; · rw [if_pos c2]; exact one _ s (by simp) rfl rfl ⟨by simp, by simp⟩
  rw [if_neg c2]
  by_cases c3 : s.cur = 35; · rw [if_pos c3]; exact one _ s (by simp) rfl rfl ⟨by simp, by simp⟩
  rw [if_neg c3]
  by_cases c4 : s.cur = 36; · rw [if_pos c4]; exact one _ s (by simp) rfl rfl ⟨by simp, by simp⟩
  rw [if_neg c4]
  by_cases c5 : s.cur = 37; · rw [if_pos c5]; exact one _ s (by simp) rfl rfl ⟨by simp, by simp⟩
  rw [if_neg c5]
  by_cases c6 : s.cur = 42; · rw [if_pos c6]; exact one _ s (by simp) rfl rfl ⟨by simp, by simp⟩
  rw [if_neg c6]
  by_cases c7 : s.cur = 0x2205; · rw [if_pos c7]; exact one _ s (by simp) rfl rfl ⟨by simp, by simp⟩
  rw [if_neg c7]
  by_cases c8 : s.cur = 95; · rw [if_pos c8]; exact one _ s (by simp) rfl rfl ⟨by simp, by simp⟩
  rw [if_neg c8]
  by_cases c9 : s.cur = 60; · rw [if_pos c9]; exact one _ _ (by simp) rfl rfl ⟨by simp, by simp⟩
  rw [if_neg c9]
  by_cases c10 : s.cur = 62; · rw [if_pos c10]; exact one _ _ (by simp) rfl rfl ⟨by simp, by simp⟩
  rw [if_neg c10]
  by_cases c11 : s.cur = 61
  · rw [if_pos c11]
    by_cases hn : s.next = 62
    · rw [if_pos hn]; exact chopTokA_spec _ 2 s _ (by omega) (Lex.len_two_of_next s.ls _ (by decide) hn) (by simp) rfl rfl
    · rw [if_neg hn]; exact one _ s (by simp) rfl rfl ⟨by simp, by simp⟩
  rw [if_neg c11]
  by_cases c12 : s.cur = 45
  · rw [if_pos c12]
    by_cases hn : s.next = 62
    · rw [if_pos hn]; exact chopTokA_spec _ 2 s _ (by omega) (Lex.len_two_of_next s.ls _ (by decide) hn) (by simp) rfl rfl
    · rw [if_neg hn]; aerr
  rw [if_neg c12]
  trivial

/-- lift a fact about a scanning state reached from `s.ls` to the alias state built on it -/
theorem good_of_ls (s : ALS) (t : AToken) (l : LS) (f : ALS) (hf : f.ls = l) (hstart : t.start = s.pos) (hstop : t.stop = l.pos)
    (htot : l.total = s.ls.total) (hlen : l.src.length < s.ls.src.length) (hk : t.kind ≠ .eol) (hx : ATokX t) : Good s t f := by
  have : s.ls.pos < l.pos := by simp only [Lex.LS.total] at htot; omega
  refine ⟨hstart, by rw [hstart, hstop]; exact this, by rw [hstop]; simp [ALS.pos, hf], by simp [ALS.total, hf, htot], by rw [hf]; exact hlen, hk, hx⟩

theorem featureMatch_mem (buf : Text) (k v : String) (h : featureMatch buf = some (k, v)) : ∃ names, (k, v, names) ∈ Gen.aliasFeatNames := by
  unfold featureMatch at h
  cases hf : Gen.aliasFeatNames.find? (fun e => e.2.2.contains (Lex.toStr (buf.map Lex.lower))) with
  | none => rw [hf] at h; cases h
  | some e =>
    rw [hf] at h
    simp only [Option.map_some, Option.some.injEq, Prod.mk.injEq] at h
    obtain ⟨a, b, c⟩ := e
    exact ⟨c, by rw [← h.1, ← h.2]; exact List.mem_of_find?_eq_some hf⟩

theorem featFinish_spec (s : ALS) (l4 : LS) (m buf : Text) (htot : l4.total = s.ls.total) (hlen : l4.src.length < s.ls.src.length)
    (hpos : s.ls.pos ≤ l4.pos) (hm : m = [43] ∨ m = [45]) : StepSpec s (featFinish s.pos m buf { s with ls := l4 }) := by
  have hle : l4.pos ≤ s.ls.total := by rw [← htot]; simp only [Lex.LS.total]; omega
  unfold featFinish
  split
  · simp only [StepSpec, ErrIn, ALS.pos, ALS.total]; omega
  · split
    · simp only [StepSpec, ErrIn, ALS.pos, ALS.total]; omega
    · rename_i kind variant hfm
      split
      · simp only [StepSpec, ErrIn, ALS.pos, ALS.total, Lex.LS.total]; omega
      · rename_i hnt
        refine good_of_ls s _ l4 _ rfl rfl rfl htot hlen (by simp) ⟨fun i h => ATK.noConfusion h, fun k v h => ?_⟩
        have hk : kind = k := by injection h
        have hv : variant = v := by injection h
        subst hk; subst hv
        refine Or.inr ⟨featureMatch_mem buf _ _ hfm, fun hh => hnt ?_, hm⟩
        obtain ⟨h1, h2⟩ := hh
        rcases hm with rfl | rfl <;> simp [h1, h2]

theorem getFeature_spec (s : ALS) (h : s.ls.src ≠ []) : StepSpec s (getFeature s) := by
  unfold getFeature
  split
  · trivial
  · rename_i hc
    have hm : [s.cur] = [43] ∨ [s.cur] = [45] := by
      simp only [Bool.or_eq_true, Bool.not_eq_true', Bool.and_eq_true, bne_iff_ne, ne_eq, not_or, not_and, Decidable.not_not] at hc
      by_cases h43 : s.cur = 43
      · left; rw [h43]
      · right; rw [hc.2 h43]
    obtain ⟨l1, he, hpos, _, htot, hlen⟩ := Lex.advance_ok s.ls h
    have ht := Lex.trimWs_spec l1
    obtain ⟨buf, l4, hf, g1, g2, g3⟩ := Lex.featLoop_spec (l1.trimWs.src.length + 1) l1.trimWs [] (by omega)
    simp only [he, hf, bind, Outcome.bind]
    exact featFinish_spec s l4 [s.cur] buf (by omega) (by omega) (by omega) hm

theorem getDiacritic_spec (s : ALS) (h : s.ls.src ≠ []) : StepSpec s (getDiacritic s) := by
  unfold getDiacritic
  split
  · trivial
  · split
    · rename_i i hi
      have hlt : i < Gen.diacritics.length := by
        unfold Lex.diaIndex at hi
        simp only at hi
        split at hi
        · cases hi; assumption
        · cases hi
      obtain ⟨l1, he, hpos, _, htot, hlen⟩ := Lex.advance_ok s.ls h
      simp only [ALS.adv, he, bind, Outcome.bind, pure, StepSpec]
      exact good_of_ls s _ l1 _ rfl rfl rfl htot (by omega) (by simp)
        ⟨fun j hj => by have : i = j := by injection hj
                        subst this; exact hlt, fun k v hk => ATK.noConfusion hk⟩
    · trivial

theorem getIpa_spec (s : ALS) (h : s.ls.src ≠ []) : StepSpec s (getIpa s) := by
  unfold getIpa
  split
  · trivial
  split
  · obtain ⟨l1, he, hpos, _, htot, hlen⟩ := Lex.advance_ok s.ls h
    obtain ⟨b', l2, hr, h1, h2, h3⟩ := Lex.ipaLoop_spec (l1.src.length + 1) l1 (Lex.ipaFirst s.cur) (Nat.lt_succ_self _)
    simp only [he, bind, Outcome.bind, hr, pure, StepSpec]
    exact good_of_ls s _ l2 _ rfl rfl rfl (by omega) (by omega) (by simp) (atokX_plain _ _ _ _ ⟨by simp, by simp⟩)
  · trivial

theorem getEnby_spec (s : ALS) (h : s.ls.src ≠ []) : StepSpec s (getEnby s) := by
  unfold getEnby
  split
  · trivial
  rename_i ha
  have ha : Lex.isAlpha s.cur = true := by simpa using ha
  split
  · aerr
  have hw := Lex.chopWhile_spec s.ls Lex.isAlpha
  have hp := Lex.chopWhile_progress s.ls Lex.isAlpha h ha
  split
  · -- UnknownEnbyFeature: the buffer was chopped from the line
    have h4 := hw.2.2.2
    have : (s.ls.chopWhile Lex.isAlpha).2.pos ≤ (s.ls.chopWhile Lex.isAlpha).2.total := by simp only [Lex.LS.total]; omega
    simp only [StepSpec, ErrIn, ALS.pos, ALS.total]; omega
  have ht := Lex.trimWs_spec (s.ls.chopWhile Lex.isAlpha).2
  simp only
  split
  · rename_i hc
    obtain ⟨l3, he, hpos, _, htot, hlen⟩ := Lex.advance_ok (s.ls.chopWhile Lex.isAlpha).2.trimWs (Lex.src_ne_of_cur _ (by omega))
    have ht4 := Lex.trimWs_spec l3
    simp only [he, bind, Outcome.bind]
    by_cases hd : Lex.isDigit l3.trimWs.cur = true
    · have hne := Lex.src_ne_of_cur l3.trimWs (Lex.isDigit_ne_zero _ hd)
      have hsp := Lex.chopWhile_spec l3.trimWs Lex.isDigit
      have hpr := Lex.chopWhile_progress l3.trimWs Lex.isDigit hne hd
      simp only [getNumeric, ALS.cur, ALS.pos, hd, Bool.not_true, Bool.false_eq_true, if_false]
      split
      · rename_i hlt
        have hval : (l3.trimWs.chopWhile Lex.isDigit).1 ≠ [] := by
          intro h0
          have h4 := hsp.2.2.2
          rw [h0] at h4
          have : (l3.trimWs.chopWhile Lex.isDigit).2.total = l3.trimWs.total := hsp.1
          simp only [Lex.LS.total, List.length_nil, Nat.add_zero] at h4 this
          omega
        refine good_of_ls s _ (l3.trimWs.chopWhile Lex.isDigit).2 _ rfl rfl rfl (by omega) (by omega) (by simp)
          ⟨fun j hj => ATK.noConfusion hj, fun k v hk => ?_⟩
        have hk1 : "Supr" = k := by injection hk
        have hk2 : "Tone" = v := by injection hk
        subst hk1; subst hk2
        exact Or.inl ⟨rfl, rfl, hval, List.all_takeWhile, hlt⟩
      · -- ToneTooBig underlines the digits
        have : (l3.trimWs.chopWhile Lex.isDigit).2.pos ≤ (l3.trimWs.chopWhile Lex.isDigit).2.total := by simp only [Lex.LS.total]; omega
        have := hsp.1; have := hsp.2.2.1; have := ht4.1; have := ht4.2.2; have := ht.1; have := ht.2.2; have := hw.1; have := hw.2.2.1
        simp only [StepSpec, ErrIn, ALS.pos, ALS.total]; omega
    · -- ExpectedNumber
      have hd' : Lex.isDigit l3.trimWs.cur = false := by simpa using hd
      simp only [getNumeric, ALS.cur, ALS.pos, hd', Bool.not_false, if_true]
      have : l3.trimWs.pos ≤ l3.trimWs.total := by simp only [Lex.LS.total]; omega
      have := ht4.1; have := ht4.2.2; have := ht.1; have := ht.2.2; have := hw.1; have := hw.2.2.1
      simp only [StepSpec, ErrIn, ALS.pos, ALS.total]; omega
  · have : (s.ls.chopWhile Lex.isAlpha).2.trimWs.pos ≤ (s.ls.chopWhile Lex.isAlpha).2.trimWs.total := by simp only [Lex.LS.total]; omega
    simp only [StepSpec, ErrIn, ALS.pos, ALS.total]; omega

/-! ### escapes and the replacement string -/

/-- an escape was read: same line, not moved backwards, at least as far as ... -/
def EscSpec (l : LS) : LRes (Nat × LS) → Prop
  | .ok (_, l') => l'.total = l.total ∧ l'.src.length ≤ l.src.length
  | .err e => Lex.ErrIn l e
  | .panic _ => False
  | .outOfFuel _ => False

theorem pos_le_total (l : LS) : l.pos ≤ l.total := by simp only [Lex.LS.total]; omega

theorem parseUnicodeEscape_spec (l : LS) : EscSpec l (parseUnicodeEscape l) := by
  unfold parseUnicodeEscape
  split
  · have := pos_le_total l; simp only [EscSpec, Lex.ErrIn]; omega
  · rename_i hc
    have hc : l.cur = 123 := by simpa using hc
    obtain ⟨l1, he, hpos, _, htot, hlen⟩ := Lex.advance_ok l (Lex.src_ne_of_cur l (by omega))
    have ht2 := Lex.trimWs_spec l1
    have hw := Lex.chopWhile_spec l1.trimWs isHexDigit
    have ht4 := Lex.trimWs_spec (l1.trimWs.chopWhile isHexDigit).2
    simp only [he, bind, Outcome.bind]
    split
    · have := pos_le_total (l1.trimWs.chopWhile isHexDigit).2.trimWs
      simp only [EscSpec, Lex.ErrIn]; omega
    · rename_i hc2
      have hc2 : (l1.trimWs.chopWhile isHexDigit).2.trimWs.cur = 125 := by simpa using hc2
      obtain ⟨l5, he5, hpos5, _, htot5, hlen5⟩ := Lex.advance_ok _ (Lex.src_ne_of_cur (l1.trimWs.chopWhile isHexDigit).2.trimWs (by omega))
      simp only [he5]
      split
      · have := pos_le_total l1.trimWs
        simp only [EscSpec, Lex.ErrIn]; omega
      · simp only [pure, EscSpec]; omega

theorem getUnicodeEscape_spec (l : LS) (h : l.src ≠ []) : EscSpec l (getUnicodeEscape l) := by
  unfold getUnicodeEscape
  simp only
  split
  · obtain ⟨l1, he, hpos, _, htot, hlen⟩ := Lex.advance_ok l h
    simp only [he, bind, Outcome.bind, pure, EscSpec]; omega
  · split
    · obtain ⟨l1, he, hpos, _, htot, hlen⟩ := Lex.advance_ok l h
      simp only [he, bind, Outcome.bind]
      have := parseUnicodeEscape_spec l1
      cases hx : parseUnicodeEscape l1 with
      | ok v => obtain ⟨c, l'⟩ := v; rw [hx] at this; simp only [EscSpec] at this ⊢; omega
      | err e => rw [hx] at this; simp only [EscSpec, Lex.ErrIn] at this ⊢; omega
      | panic q => rw [hx] at this; exact this
      | outOfFuel q => rw [hx] at this; exact this
    · have := pos_le_total l; simp only [EscSpec, Lex.ErrIn]; omega

theorem isAlpha_ne_zero (c : Nat) (h : Lex.isAlpha c = true) : c ≠ 0 := by
  intro h'; subst h'; simp [Lex.isAlpha, Lex.isUpper, Lex.isLower] at h

theorem nameLoop_spec : ∀ (fuel : Nat) (l : LS) (buf : Text), l.src.length < fuel →
    ∃ buf' l', nameLoop fuel l buf = .ok (buf', l') ∧ l'.total = l.total ∧ l'.src.length ≤ l.src.length ∧ l.pos ≤ l'.pos := by
  intro fuel
  induction fuel with
  | zero => intro l buf h; omega
  | succ n ih =>
    intro l buf h
    unfold nameLoop
    by_cases hc : Lex.isAlpha l.cur = true
    · rw [if_pos hc]
      obtain ⟨l1, he, hpos, _, htot, hlen⟩ := Lex.advance_ok l (Lex.src_ne_of_cur l (isAlpha_ne_zero _ hc))
      have ht := Lex.trimWs_spec l1
      obtain ⟨b', l', hr, h1, h2, h3⟩ := ih l1.trimWs (buf ++ [l.cur]) (by omega)
      exact ⟨b', l', by simp only [he, bind, Outcome.bind, hr], by omega, by omega, by omega⟩
    · rw [if_neg hc]
      exact ⟨buf, l, rfl, rfl, Nat.le_refl _, Nat.le_refl _⟩

theorem getNamedEscape_spec (l : LS) : EscSpec l (getNamedEscape l) := by
  unfold getNamedEscape
  split
  · have := pos_le_total l; simp only [EscSpec, Lex.ErrIn]; omega
  · rename_i hc
    have hc : l.cur = 123 := by simpa using hc
    obtain ⟨l1, he, hpos, _, htot, hlen⟩ := Lex.advance_ok l (Lex.src_ne_of_cur l (by omega))
    have ht2 := Lex.trimWs_spec l1
    obtain ⟨buf, l3, hn, g1, g2, g3⟩ := nameLoop_spec (l1.trimWs.src.length + 1) l1.trimWs [] (Nat.lt_succ_self _)
    simp only [he, hn, bind, Outcome.bind]
    split
    · have := pos_le_total l3; simp only [EscSpec, Lex.ErrIn]; omega
    · rename_i hc2
      have hc2 : l3.cur = 125 := by simpa using hc2
      obtain ⟨l4, he4, hpos4, _, htot4, hlen4⟩ := Lex.advance_ok l3 (Lex.src_ne_of_cur l3 (by omega))
      simp only [he4]
      split
      · simp only [pure, EscSpec]; omega
      · have := pos_le_total l1.trimWs; simp only [EscSpec, Lex.ErrIn]; omega

/-- `get_escape`: nothing, or an escape that consumed its introducer -/
def EscOptSpec (l : LS) : LRes (Option (Nat × LS)) → Prop
  | .ok (some (_, l')) => l'.total = l.total ∧ l'.src.length < l.src.length
  | .ok none => True
  | .err e => Lex.ErrIn l e
  | .panic _ => False
  | .outOfFuel _ => False

theorem getEscape_spec (l : LS) (h : l.src ≠ []) : EscOptSpec l (getEscape l) := by
  unfold getEscape
  obtain ⟨l1, he, hpos, _, htot, hlen⟩ := Lex.advance_ok l h
  split
  · simp only [he, bind, Outcome.bind]
    have := getNamedEscape_spec l1
    cases hx : getNamedEscape l1 with
    | ok v => obtain ⟨c, l'⟩ := v; rw [hx] at this; simp only [EscSpec] at this; simp only [pure, EscOptSpec]; omega
    | err e => rw [hx] at this; simp only [EscSpec, Lex.ErrIn] at this; simp only [EscOptSpec, Lex.ErrIn]; omega
    | panic q => rw [hx] at this; exact this
    | outOfFuel q => rw [hx] at this; exact this
  · split
    · simp only [he, bind, Outcome.bind]
      rename_i hc _
      have hne1 : l1.src ≠ [] ∨ l1.src = [] := by cases l1.src <;> simp
      rcases hne1 with hne1 | hne1
      · have := getUnicodeEscape_spec l1 hne1
        cases hx : getUnicodeEscape l1 with
        | ok v => obtain ⟨c, l'⟩ := v; rw [hx] at this; simp only [EscSpec] at this; simp only [pure, EscOptSpec]; omega
        | err e => rw [hx] at this; simp only [EscSpec, Lex.ErrIn] at this; simp only [EscOptSpec, Lex.ErrIn]; omega
        | panic q => rw [hx] at this; exact this
        | outOfFuel q => rw [hx] at this; exact this
      · -- a backslash at the very end: `curr_char` is NUL, an unknown escape character
        have hcur : l1.cur = 0 := Lex.cur_nil l1 hne1
        have := pos_le_total l1
        simp [getUnicodeEscape, hcur, EscOptSpec, Lex.ErrIn]
        omega
    · trivial

/-- the loop of `get_unicode_string`: it stays where it is, or it moved on and the reported end lies behind the start -/
def StrSpec (l : LS) (stop : Nat) : LRes (Text × Nat × LS) → Prop
  | .ok (_, stop', l') => l'.total = l.total ∧ l'.src.length ≤ l.src.length ∧
      ((l' = l ∧ stop' = stop) ∨ (l.pos < stop' ∧ stop' ≤ l'.pos ∧ l'.src.length < l.src.length))
  | .err e => Lex.ErrIn l e
  | .panic _ => False
  | .outOfFuel _ => False

theorem stringLoop_spec : ∀ (fuel : Nat) (l : LS) (buf : Text) (stop : Nat), l.src.length < fuel →
    StrSpec l stop (stringLoop fuel l buf stop) := by
  intro fuel
  induction fuel with
  | zero => intro l _ _ h; omega
  | succ n ih =>
    intro l buf stop h
    -- one more round from a state `l1` reached by consuming something
    have step : ∀ (l1 : LS) (b : Text), l1.total = l.total → l1.src.length < l.src.length → l.pos < l1.pos →
        StrSpec l stop (stringLoop n l1.trimWs b l1.pos) := by
      intro l1 b htot hlen hpos
      have ht := Lex.trimWs_spec l1
      have hr := ih l1.trimWs b l1.pos (by omega)
      cases hx : stringLoop n l1.trimWs b l1.pos with
      | ok v =>
        obtain ⟨b', stop', l'⟩ := v
        rw [hx] at hr
        obtain ⟨h1, h2, h3⟩ := hr
        refine ⟨by omega, by omega, Or.inr ?_⟩
        rcases h3 with ⟨rfl, rfl⟩ | ⟨g1, g2, g3⟩
        · exact ⟨hpos, ht.2.2, by omega⟩
        · exact ⟨by omega, g2, by omega⟩
      | err e => rw [hx] at hr; simp only [StrSpec, Lex.ErrIn] at hr ⊢; omega
      | panic q => rw [hx] at hr; exact hr
      | outOfFuel q => rw [hx] at hr; exact hr
    unfold stringLoop
    split
    · exact ⟨rfl, Nat.le_refl _, Or.inl ⟨rfl, rfl⟩⟩
    · rename_i hne
      have hne : l.src ≠ [] := by simpa using hne
      split
      · obtain ⟨l1, he, hpos, _, htot, hlen⟩ := Lex.advance_ok l hne
        simp only [he, bind, Outcome.bind]
        exact step l1 _ htot (by omega) (by omega)
      · have hesc := getEscape_spec l hne
        split
        · rename_i c l1 hx
          rw [hx] at hesc
          obtain ⟨g1, g2⟩ : l1.total = l.total ∧ l1.src.length < l.src.length := hesc
          exact step l1 _ g1 g2 (by simp only [Lex.LS.total] at g1; omega)
        · exact ⟨rfl, Nat.le_refl _, Or.inl ⟨rfl, rfl⟩⟩
        · rename_i e hx; rw [hx] at hesc; exact hesc
        · rename_i q hx; rw [hx] at hesc; exact hesc
        · rename_i q hx; rw [hx] at hesc; exact hesc

theorem getUnicodeString_spec (s : ALS) (h : s.ls.src ≠ []) : StepSpec s (getUnicodeString s) := by
  unfold getUnicodeString
  split
  · trivial
  · rename_i hc
    have hl := stringLoop_spec (s.ls.src.length + 1) s.ls [] (s.pos + 1) (Nat.lt_succ_self _)
    cases hx : stringLoop (s.ls.src.length + 1) s.ls [] (s.pos + 1) with
    | ok v =>
      obtain ⟨buf, stop, l⟩ := v
      rw [hx] at hl
      obtain ⟨h1, h2, h3⟩ := hl
      simp only [bind, Outcome.bind, pure, StepSpec]
      rcases h3 with ⟨rfl, rfl⟩ | ⟨g1, g2, g3⟩
      · -- the loop did not move: impossible, its first round consumes a character or an escape (or fails)
        exfalso
        have hne : (s.ls.src.isEmpty) = false := by cases hs : s.ls.src with | nil => exact absurd hs h | cons _ _ => rfl
        unfold stringLoop at hx
        simp only [hne, Bool.false_eq_true, if_false] at hx
        by_cases hv : isValidChar s.ls.cur = true
        · obtain ⟨l1, he, hpos, _, htot, hlen⟩ := Lex.advance_ok s.ls h
          simp only [hv, if_true, he, bind, Outcome.bind] at hx
          have hr := stringLoop_spec s.ls.src.length l1.trimWs ([] ++ [s.ls.cur]) l1.pos (by have := (Lex.trimWs_spec l1).2.1; omega)
          rw [hx] at hr
          obtain ⟨r1, r2, _⟩ := hr
          have := (Lex.trimWs_spec l1).2.1
          omega
        · simp only [hv, Bool.false_eq_true, if_false] at hx
          have hesc := getEscape_spec s.ls h
          cases hg : getEscape s.ls with
          | ok o =>
            cases o with
            | some r =>
              obtain ⟨c, l1⟩ := r
              rw [hg] at hesc hx
              obtain ⟨e1, e2⟩ : l1.total = s.ls.total ∧ l1.src.length < s.ls.src.length := hesc
              simp only at hx
              have hr := stringLoop_spec s.ls.src.length l1.trimWs ([] ++ [c]) l1.pos (by have := (Lex.trimWs_spec l1).2.1; omega)
              rw [hx] at hr
              obtain ⟨r1, r2, _⟩ := hr
              have := (Lex.trimWs_spec l1).2.1
              omega
            | none =>
              -- neither a valid character nor an escape: the entry test would have declined
              unfold getEscape at hg
              have hv' : isValidChar s.ls.cur = false := by simpa using hv
              simp only [Bool.and_eq_true, bne_iff_ne, ne_eq, not_and, Decidable.not_not, ALS.cur] at hc
              split at hg
              · rename_i h64
                obtain ⟨l1, he, _⟩ := Lex.advance_ok s.ls h
                simp only [he, bind, Outcome.bind] at hg
                cases hq : getNamedEscape l1 <;> simp [hq, pure] at hg
              · split at hg
                · obtain ⟨l1, he, _⟩ := Lex.advance_ok s.ls h
                  simp only [he, bind, Outcome.bind] at hg
                  cases hq : getUnicodeEscape l1 <;> simp [hq, pure] at hg
                · rename_i h64 h92
                  exact h92 (hc ⟨by simp [hv'], h64⟩)
          | err e => rw [hg] at hx; cases hx
          | panic q => rw [hg] at hx; cases hx
          | outOfFuel q => rw [hg] at hx; cases hx
      · refine ⟨rfl, by simp only [ALS.pos] at g1 ⊢; omega, g2, h1, g3, by simp, atokX_plain _ _ _ _ ⟨by simp, by simp⟩⟩
    | err e => rw [hx] at hl; exact hl
    | panic q => rw [hx] at hl; exact hl
    | outOfFuel q => rw [hx] at hl; exact hl

theorem orElse_spec (s : ALS) (x : AStep) (y : Unit → AStep) (hx : StepSpec s x) (hy : StepSpec s (y ())) :
    StepSpec s (orElse x y) := by
  unfold orElse
  split
  · exact hy
  · exact hx

theorem segmentSide_spec (s : ALS) (h : s.ls.src ≠ []) : StepSpec s (segmentSide s) := by
  unfold segmentSide
  refine orElse_spec _ _ _ (getBracket_spec s h) ?_
  refine orElse_spec _ _ _ (getPrimative_spec s h) ?_
  refine orElse_spec _ _ _ (getFeature_spec s h) ?_
  refine orElse_spec _ _ _ (getIpa_spec s h) ?_
  refine orElse_spec _ _ _ (getDiacritic_spec s h) ?_
  exact getEnby_spec s h

theorem replSide_spec (s : ALS) (h : s.ls.src ≠ []) : StepSpec s (replSide s) := by
  unfold replSide
  exact orElse_spec _ _ _ (getReplPlus_spec s h) (getUnicodeString_spec s h)

/-- what `get_next_token` guarantees -/
def TokSpec (s0 : ALS) : LRes (AToken × ALS) → Prop
  | .ok (t, s') =>
    s0.pos ≤ t.start ∧ t.start < t.stop ∧ s'.total = s0.total ∧
    (t.kind = .eol → t.start = s0.total ∧ t.stop = s0.total + 1) ∧
    (t.kind ≠ .eol → t.stop ≤ s'.pos ∧ s'.ls.src.length < s0.ls.src.length) ∧ ATokX t
  | .err e => s0.pos ≤ e.start ∧ e.start ≤ e.stop ∧ e.stop ≤ s0.total + 1
  | .panic _ => False
  | .outOfFuel _ => False

theorem getNextToken_spec (derom : Bool) (s0 : ALS) : TokSpec s0 (getNextToken derom s0) := by
  have ht := Lex.trimWs_spec s0.ls
  unfold getNextToken
  simp only
  by_cases he : s0.trim.ls.src.isEmpty = true
  · rw [if_pos he]
    have hl : s0.ls.trimWs.src.length = 0 := by simpa [ALS.trim] using he
    have : s0.ls.trimWs.pos = s0.ls.total := by have := ht.1; simp only [Lex.LS.total] at this ⊢; omega
    simp only [TokSpec, ALS.trim, ALS.pos, ALS.total]
    refine ⟨by omega, by omega, ht.1, fun _ => ⟨this, by omega⟩, fun hk => absurd rfl hk, atokX_plain _ _ _ _ ⟨by simp, by simp⟩⟩
  · rw [if_neg he]
    have hne : s0.trim.ls.src ≠ [] := by simpa using he
    have hspec : StepSpec s0.trim
        (orElse (if derom = s0.trim.pastArrow then segmentSide s0.trim else replSide s0.trim) fun _ => getSpecialChar s0.trim) := by
      refine orElse_spec _ _ _ ?_ (getSpecialChar_spec _ hne)
      split
      · exact segmentSide_spec _ hne
      · exact replSide_spec _ hne
    revert hspec
    generalize (orElse (if derom = s0.trim.pastArrow then segmentSide s0.trim else replSide s0.trim) fun _ => getSpecialChar s0.trim) = r
    intro hspec
    have hpt : s0.ls.trimWs.pos ≤ s0.ls.trimWs.total := pos_le_total _
    match r, hspec with
    | .ok (some (t, s')), hg =>
      have hg : Good s0.trim t s' := hg
      have h1 := hg.start_eq; have h2 := hg.nonempty; have h3 := hg.stop_le; have h4 := hg.total_eq; have h5 := hg.progress
      simp only [ALS.trim, ALS.pos, ALS.total] at h1 h3 h4 h5
      simp only [TokSpec, ALS.pos, ALS.total]
      refine ⟨by omega, h2, by omega, fun hk => absurd hk hg.not_eol, fun _ => ⟨h3, by omega⟩, hg.tok_ok⟩
    | .ok none, _ =>
      simp only [TokSpec, ALS.trim, ALS.pos, ALS.total]; omega
    | .err e, hg =>
      have hg : ErrIn s0.trim e := hg
      simp only [ErrIn, ALS.trim, ALS.pos, ALS.total] at hg
      simp only [TokSpec, ALS.pos, ALS.total]; omega

def LineSpec (s : ALS) (acc : List AToken) : LRes (List AToken) → Prop
  | .ok res => ∃ new, res = acc ++ new ∧ (∀ t ∈ new, s.pos ≤ t.start ∧ t.start < t.stop ∧ t.stop ≤ s.total + 1 ∧ ATokX t) ∧
      (∃ t, new.getLast? = some t ∧ t.kind = .eol) ∧ new.Pairwise (fun a b => a.stop ≤ b.start)
  | .err e => s.pos ≤ e.start ∧ e.start ≤ e.stop ∧ e.stop ≤ s.total + 1
  | .panic _ => False
  | .outOfFuel _ => False

theorem lineLoop_spec (derom : Bool) : ∀ (fuel : Nat) (s : ALS) (acc : List AToken), s.ls.src.length < fuel →
    LineSpec s acc (lineLoop derom fuel s acc) := by
  intro fuel
  induction fuel with
  | zero => intro s acc h; omega
  | succ n ih =>
    intro s acc h
    have hs := getNextToken_spec derom s
    unfold lineLoop
    match hg : getNextToken derom s, hs with
    | .ok (t, s'), hs =>
      obtain ⟨h1, h2, h3, h4, h5, h6⟩ := hs
      simp only
      by_cases hk : t.kind = .eol
      · rw [if_pos hk]
        obtain ⟨e1, e2⟩ := h4 hk
        refine ⟨[t], rfl, fun t' ht' => ?_, ⟨t, rfl, hk⟩, List.pairwise_singleton _ _⟩
        simp only [List.mem_singleton] at ht'; subst ht'; exact ⟨by omega, by omega, by omega, h6⟩
      · rw [if_neg hk]
        obtain ⟨e1, e2⟩ := h5 hk
        have hrec := ih s' (acc ++ [t]) (by omega)
        have hle : s'.pos ≤ s'.total := pos_le_total _
        match hr : lineLoop derom n s' (acc ++ [t]), hrec with
        | .ok res, hrec =>
          obtain ⟨new, hres, hw, ⟨tl, hl1, hl2⟩, hpw⟩ := hrec
          refine ⟨t :: new, by rw [hres]; simp, fun t' ht' => ?_, ⟨tl, ?_, hl2⟩, ?_⟩
          · rcases List.mem_cons.mp ht' with rfl | hm
            · exact ⟨h1, h2, by omega, h6⟩
            · have := hw t' hm; exact ⟨by omega, by omega, by omega, this.2.2.2⟩
          · cases new with
            | nil => simp at hl1
            | cons a b => simpa using hl1
          · refine List.pairwise_cons.mpr ⟨fun b hb => ?_, hpw⟩
            have := hw b hb; omega
        | .err e, hrec =>
          simp only [LineSpec] at hrec ⊢
          omega
    | .err e, hs => exact hs

end ALex
end Asca
