import AscaVerif.Lemmas.Run
/-! # C11 — words are processed independently and returned in order

Over the abstract runner (`Model/Run.lean`): any rule list, any word list, any interpreter. -/
namespace Asca.C11
open Asca Asca.Run Asca.Outcome

variable {ε R W TI TF : Type} (env : Env ε R W TI TF)

/-- one entry per input phrase, in order, each depending only on its own phrase. -/
theorem applyRuleGroups_pointwise (G : List (List R)) (P out : List (List W)) :
    applyRuleGroups env G P = .ok out ↔
      P.length = out.length ∧ ∀ i (h : i < P.length) (h' : i < out.length), applyRuleGroups env G [P[i]] = .ok [out[i]] := by
  unfold applyRuleGroups
  rw [mapM_ok_iff]
  constructor
  · rintro ⟨hl, hp⟩
    refine ⟨hl, fun i h h' => ?_⟩
    rw [mapM_singleton, hp i h h']; rfl
  · rintro ⟨hl, hp⟩
    refine ⟨hl, fun i h h' => ?_⟩
    have := hp i h h'
    rw [mapM_singleton] at this
    cases hm : P[i].mapM (applyWord env G) <;> simp_all

theorem applyRuleGroups_length (G : List (List R)) (P out : List (List W))
    (h : applyRuleGroups env G P = .ok out) : out.length = P.length :=
  ((applyRuleGroups_pointwise env G P out).mp h).1.symm

/-- inside a phrase, every word is transformed individually, in order. -/
theorem phrase_pointwise (G : List (List R)) (ph out : List W) :
    ph.mapM (applyWord env G) = .ok out ↔
      ph.length = out.length ∧ ∀ i (h : i < ph.length) (h' : i < out.length), applyWord env G ph[i] = .ok out[i] :=
  mapM_ok_iff

/-! ## the whole `run` -/

private theorem run_unfold (groups : List (List Str)) (phrases : List Str) (into frm : List Str) :
    run env groups phrases into frm =
      (env.parseAliases into frm >>= fun a =>
        parsePhrases env a.1 phrases >>= fun ps =>
        parseRuleGroups env groups >>= fun rs =>
        applyRuleGroups env rs ps >>= fun res => .ok (res.map (phraseToString env a.2))) := by
  unfold run
  cases env.parseAliases into frm <;> rfl

/-- **`run` is pointwise**: it succeeds with `out` iff the aliases and rules parse and every line, run alone,
    succeeds with its own entry of `out` — so the result list has one entry per input line, in the same order,
    each depending only on that line, the rules and the aliases. -/
theorem run_pointwise (groups : List (List Str)) (phrases : List Str) (into frm : List Str) (out : List Str)
    (hne : phrases ≠ []) :
    run env groups phrases into frm = .ok out ↔
      phrases.length = out.length ∧
      ∀ i (h : i < phrases.length) (h' : i < out.length), run env groups [phrases[i]] into frm = .ok [out[i]] := by
  rw [run_unfold]
  cases ha : env.parseAliases into frm with
  | ok a =>
    simp only [bind_ok]
    cases hr : parseRuleGroups env groups with
    | ok rs =>
      constructor
      · intro h
        cases hp : parsePhrases env a.1 phrases with
        | ok ps =>
          rw [hp] at h; simp only [bind_ok] at h
          cases hg : applyRuleGroups env rs ps with
          | ok res =>
            rw [hg] at h; simp only [bind_ok] at h
            cases h
            unfold parsePhrases at hp
            obtain ⟨hl1, hp1⟩ := mapM_ok_iff.mp hp
            obtain ⟨hl2, hp2⟩ := (applyRuleGroups_pointwise env rs ps res).mp hg
            refine ⟨by simp [hl1, hl2], fun i h h' => ?_⟩
            rw [run_unfold, ha]; simp only [bind_ok]
            have hi1 : i < ps.length := hl1 ▸ h
            have hi2 : i < res.length := hl2 ▸ hi1
            unfold parsePhrases
            rw [mapM_singleton, hp1 i h hi1]; simp only [bind_ok]
            rw [hr]; simp only [bind_ok]
            rw [hp2 i hi1 hi2]; simp
          | err e => rw [hg] at h; cases h
          | panic s => rw [hg] at h; cases h
          | outOfFuel s => rw [hg] at h; cases h
        | err e => rw [hp] at h; cases h
        | panic s => rw [hp] at h; cases h
        | outOfFuel s => rw [hp] at h; cases h
      · rintro ⟨hl, hp⟩
        -- collect the per-line parses and results
        have hline : ∀ i (h : i < phrases.length), ∃ ph res,
            (splitSp phrases[i]).mapM (env.parseWord a.1) = .ok ph ∧
            ph.mapM (applyWord env rs) = .ok res ∧ out[i]'(hl ▸ h) = phraseToString env a.2 res := by
          intro i h
          have := hp i h (hl ▸ h)
          rw [run_unfold, ha] at this; simp only [bind_ok] at this
          unfold parsePhrases at this
          rw [mapM_singleton] at this
          cases hs : (splitSp phrases[i]).mapM (env.parseWord a.1) with
          | ok ph =>
            rw [hs, hr] at this; simp only [bind_ok] at this
            unfold applyRuleGroups at this
            rw [mapM_singleton] at this
            cases hm : ph.mapM (applyWord env rs) with
            | ok res =>
              rw [hm] at this; simp at this
              exact ⟨ph, res, rfl, hm, this.symm⟩
            | err e => rw [hm] at this; cases this
            | panic s => rw [hm] at this; cases this
            | outOfFuel s => rw [hm] at this; cases this
          | err e => rw [hs] at this; cases this
          | panic s => rw [hs] at this; cases this
          | outOfFuel s => rw [hs] at this; cases this
        have hpok : (parsePhrases env a.1 phrases).isOk = true := by
          unfold parsePhrases
          apply mapM_isOk_of_all
          intro x hx
          obtain ⟨i, hi, rfl⟩ := List.getElem_of_mem hx
          obtain ⟨ph, _, h1, _⟩ := hline i hi
          rw [h1]; rfl
        obtain ⟨ps, hps⟩ := isOk_iff.mp hpok
        rw [hps]; simp only [bind_ok]
        unfold parsePhrases at hps
        obtain ⟨hl1, hp1⟩ := mapM_ok_iff.mp hps
        have hgok : (applyRuleGroups env rs ps).isOk = true := by
          unfold applyRuleGroups
          apply mapM_isOk_of_all
          intro x hx
          obtain ⟨i, hi, rfl⟩ := List.getElem_of_mem hx
          have hi0 : i < phrases.length := hl1 ▸ hi
          obtain ⟨ph, res, h1, h2, _⟩ := hline i hi0
          have := hp1 i hi0 hi
          rw [h1] at this; cases this
          rw [h2]; rfl
        obtain ⟨res, hres⟩ := isOk_iff.mp hgok
        rw [hres]; simp only [bind_ok]
        congr 1
        unfold applyRuleGroups at hres
        obtain ⟨hl2, hp2⟩ := mapM_ok_iff.mp hres
        apply List.ext_getElem
        · simp [← hl2, ← hl1, hl]
        · intro i h1 h2
          have hi0 : i < phrases.length := by simp [← hl2, ← hl1] at h1; exact h1
          obtain ⟨ph, r, e1, e2, e3⟩ := hline i hi0
          have hips : i < ps.length := hl1 ▸ hi0
          have := hp1 i hi0 hips
          rw [e1] at this; cases this
          have := hp2 i hips (hl2 ▸ hips)
          rw [e2] at this; cases this
          simp [e3]
    | err e =>
      constructor
      · intro h; cases hp : parsePhrases env a.1 phrases <;> rw [hp] at h <;> cases h
      · rintro ⟨hl, hp⟩
        cases phrases with
        | nil => exact absurd rfl hne
        | cons p ps =>
          have := hp 0 (by simp) (by rw [← hl]; simp)
          rw [run_unfold, ha] at this; simp only [bind_ok] at this
          cases hq : parsePhrases env a.1 [(p :: ps)[0]] <;> rw [hq, hr] at this <;> cases this
    | panic e =>
      constructor
      · intro h; cases hp : parsePhrases env a.1 phrases <;> rw [hp] at h <;> cases h
      · rintro ⟨hl, hp⟩
        cases phrases with
        | nil => exact absurd rfl hne
        | cons p ps =>
          have := hp 0 (by simp) (by rw [← hl]; simp)
          rw [run_unfold, ha] at this; simp only [bind_ok] at this
          cases hq : parsePhrases env a.1 [(p :: ps)[0]] <;> rw [hq, hr] at this <;> cases this
    | outOfFuel e =>
      constructor
      · intro h; cases hp : parsePhrases env a.1 phrases <;> rw [hp] at h <;> cases h
      · rintro ⟨hl, hp⟩
        cases phrases with
        | nil => exact absurd rfl hne
        | cons p ps =>
          have := hp 0 (by simp) (by rw [← hl]; simp)
          rw [run_unfold, ha] at this; simp only [bind_ok] at this
          cases hq : parsePhrases env a.1 [(p :: ps)[0]] <;> rw [hq, hr] at this <;> cases this
  | err e =>
    constructor
    · intro h; cases h
    · rintro ⟨hl, hp⟩
      cases phrases with
      | nil => exact absurd rfl hne
      | cons p ps =>
        have := hp 0 (by simp) (by rw [← hl]; simp)
        rw [run_unfold, ha] at this; cases this
  | panic e =>
    constructor
    · intro h; cases h
    · rintro ⟨hl, hp⟩
      cases phrases with
      | nil => exact absurd rfl hne
      | cons p ps =>
        have := hp 0 (by simp) (by rw [← hl]; simp)
        rw [run_unfold, ha] at this; cases this
  | outOfFuel e =>
    constructor
    · intro h; cases h
    · rintro ⟨hl, hp⟩
      cases phrases with
      | nil => exact absurd rfl hne
      | cons p ps =>
        have := hp 0 (by simp) (by rw [← hl]; simp)
        rw [run_unfold, ha] at this; cases this

theorem run_length (groups : List (List Str)) (phrases : List Str) (into frm : List Str) (out : List Str)
    (h : run env groups phrases into frm = .ok out) : out.length = phrases.length := by
  rw [run_unfold] at h
  cases ha : env.parseAliases into frm with
  | ok a =>
    rw [ha] at h; simp only [bind_ok] at h
    cases hp : parsePhrases env a.1 phrases with
    | ok ps =>
      rw [hp] at h; simp only [bind_ok] at h
      cases hr : parseRuleGroups env groups with
      | ok rs =>
        rw [hr] at h; simp only [bind_ok] at h
        cases hg : applyRuleGroups env rs ps with
        | ok res =>
          rw [hg] at h; simp only [bind_ok] at h
          have hl1 := mapM_length (by unfold parsePhrases at hp; exact hp)
          have hl2 := applyRuleGroups_length env _ _ _ hg
          cases h; simp [hl1, hl2]
        | err e => rw [hg] at h; cases h
        | panic e => rw [hg] at h; cases h
        | outOfFuel e => rw [hg] at h; cases h
      | err e => rw [hr] at h; cases h
      | panic e => rw [hr] at h; cases h
      | outOfFuel e => rw [hr] at h; cases h
    | err e => rw [hp] at h; cases h
    | panic e => rw [hp] at h; cases h
    | outOfFuel e => rw [hp] at h; cases h
  | err e => rw [ha] at h; cases h
  | panic e => rw [ha] at h; cases h
  | outOfFuel e => rw [ha] at h; cases h

/-- **first failing word**: when the application stage fails, the outcome is that of the first phrase (in
    input order) whose application fails, and within it of the first failing word. -/
theorem apply_first_error (G : List (List R)) (P : List (List W)) (h : (applyRuleGroups env G P).isOk = false) :
    ∃ i, ∃ hi : i < P.length, (∀ j (hj : j < i), ((P[j]'(Nat.lt_trans hj hi)).mapM (applyWord env G)).isOk = true) ∧
      (P[i].mapM (applyWord env G)).isOk = false ∧
      (∀ e, applyRuleGroups env G P = .err e ↔ P[i].mapM (applyWord env G) = .err e) := by
  obtain ⟨i, hi, hj, hf, he, _, _⟩ := mapM_first_fail (f := fun ph : List W => ph.mapM (applyWord env G)) h
  exact ⟨i, hi, hj, hf, he⟩

/-! ## a line holding several space-separated words -/

theorem splitSp_ne_nil (s : Str) : splitSp s ≠ [] := by
  induction s with
  | nil => simp [splitSp]
  | cons c cs ih =>
    unfold splitSp; split
    · simp
    · split <;> simp

theorem splitSp_nospace (u : Str) (h : ' ' ∉ u) : splitSp u = [u] := by
  induction u with
  | nil => rfl
  | cons c cs ih =>
    have hc : c ≠ ' ' := fun e => h (by simp [e])
    have := ih (fun e => h (by simp [e]))
    simp [splitSp, hc, this]

theorem splitSp_two (u v : Str) (hu : ' ' ∉ u) (hv : ' ' ∉ v) : splitSp (u ++ ' ' :: v) = [u, v] := by
  induction u with
  | nil => simp [splitSp, splitSp_nospace v hv]
  | cons c cs ih =>
    have hc : c ≠ ' ' := fun e => hu (by simp [e])
    have := ih (fun e => hu (by simp [e]))
    simp [splitSp, hc, this]

theorem trimEnd_append_ws (isWs : Char → Bool) (s : Str) (c : Char) (hc : isWs c = true) :
    trimEnd isWs (s ++ [c]) = trimEnd isWs s := by
  simp [trimEnd, List.dropWhile_cons, hc]

theorem trimEnd_clean (isWs : Char → Bool) (s : Str) (h : ∀ c, s.getLast? = some c → isWs c = false) :
    trimEnd isWs s = s := by
  unfold trimEnd
  cases hr : s.reverse with
  | nil => simp [List.reverse_eq_nil_iff.mp hr]
  | cons c cs =>
    have hl : s.getLast? = some c := by
      rw [List.getLast?_eq_head?_reverse, hr]; rfl
    simp [List.dropWhile_cons, h c hl]
    rw [← List.reverse_cons, ← hr, List.reverse_reverse]

/-- a line `u v` is rendered as the two renderings joined by one space (the side conditions are exactly what
    `trim_end` needs: `' '` is white space, renderings do not end in white space, the second is not empty). -/
theorem phrase_two (tf : TF) (a b : W) (hsp : env.isWs ' ' = true)
    (ha : ∀ c, (env.render tf a).getLast? = some c → env.isWs c = false)
    (hb : ∀ c, (env.render tf b).getLast? = some c → env.isWs c = false)
    (hbne : env.render tf b ≠ []) :
    phraseToString env tf [a, b] = phraseToString env tf [a] ++ ' ' :: phraseToString env tf [b] := by
  simp only [phraseToString, List.foldl_cons, List.foldl_nil, List.nil_append]
  rw [trimEnd_append_ws _ _ _ hsp, trimEnd_append_ws _ _ _ hsp, trimEnd_append_ws _ _ _ hsp]
  rw [trimEnd_clean _ _ ha, trimEnd_clean _ _ hb]
  have : env.render tf a ++ [' '] ++ env.render tf b = env.render tf a ++ ' ' :: env.render tf b := by simp
  rw [this]
  apply trimEnd_clean
  intro c hc
  apply hb c
  rw [List.getLast?_append, List.getLast?_cons] at hc
  cases hl : (env.render tf b).getLast? with
  | none => exact absurd (List.getLast?_eq_none_iff.mp hl) hbne
  | some d => simp [hl] at hc; simp [hc]

/-! Non-vacuity -/
private def toyEnv : Env String Nat Nat Unit Unit where
  parseAliases _ _ := .ok ((), ())
  parseWord _ s := if s.length = 7 then .err "bad word" else .ok s.length
  parseRule _ _ s := .ok (some s.length)
  apply r w := if w + r > 100 then .err "too big" else .ok (w + r)
  render _ w := List.replicate w 'a'
  weq a b := a == b
  isWs c := c == ' '

example : run toyEnv [["x".toList, "yy".toList]] ["aa b".toList, "ccc".toList] [] []
    = .ok ["aaaaa aaaa".toList, "aaaaaa".toList] := by decide
example : run toyEnv [["x".toList]] ["aa".toList, "ccccccc".toList, "b".toList] [] [] = .err "bad word" := by decide

end Asca.C11
