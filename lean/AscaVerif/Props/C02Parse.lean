import AscaVerif.Lemmas.Parse
import AscaVerif.Props.C02Lex
/-! C02 for the rule parser: no loop of `Parser::parse` runs for ever - on ANY token list, and hence on any line.

    The model (Model/Parser.lean) is `parser.rs` function by function; each of its eleven loops takes fuel and returns
    `outOfFuel` when it is used up.  The theorems below say `outOfFuel` is never returned when the fuel is (as in the
    model) the number of tokens plus two: every function that returns an item has consumed at least one real token
    (`Adv`), `Eol` is never consumed by an element, past the end the current token is the synthetic `Eol` (`Inv`), and the
    one place where the parser moves BACK (`get_spec_env` resetting `self.pos`) is executed at most once per
    environment and lands at or after its starting point.  So a line is either parsed, rejected with a
    `RuleSyntaxError`, or hits one of the model's `panic` sites - the `unwrap`s on numbers above `usize::MAX` (known
    finding D2) and the `unreachable!()` after an empty term (D30) are reachable, the index panics are not known to be. -/
namespace Asca.Parse
open Lex (Token TK)

/-- `expect(Eol) || expect(Comment)` does not move backwards -/
theorem expectEnd_le (s : PS) (hi : Inv s) : Le s (expectEnd s).2 := by
  unfold expectEnd
  by_cases h : s.cur.kind = .eol
  · have : s.expect .eol = (true, s.advance) := by simp [PS.expect, h]
    simp only [this, if_true]
    exact ⟨rfl, by simp [advance_pos], advance_inv s⟩
  · have : s.expect .eol = (false, s) := by simp [PS.expect, h]
    simp only [this]
    exact expect_le s .comment hi (by decide)

theorem expectArrow_le (s : PS) (hi : Inv s) : Le s (expectArrow s).2 := by
  unfold expectArrow
  rcases expect_cases s .arrow hi (by decide) with ⟨he, h1⟩ | he
  · simp only [he, if_true]; exact h1.toLe
  · simp only [he, Bool.false_eq_true, if_false]; exact expect_le s .greaterThan hi (by decide)

/-- a state-free computation after a parser step -/
theorem Spec.bindN {α β} {R : PS → PS → Prop} {s : PS} {x : PRes (α × PS)} {f : α × PS → PRes β}
    (hx : Spec R s x) (hf : ∀ a s', R s s' → NoFuel (f (a, s'))) : NoFuel (x >>= f) := by
  cases x with
  | ok v => obtain ⟨a, s'⟩ := v; exact hf a s' hx
  | err e => trivial
  | panic p => trivial
  | outOfFuel p => exact hx

theorem ruleEnv_nofuel (input output : List (List PItem)) (s : PS) (hi : Inv s) : NoFuel (ruleEnv input output s) := by
  unfold ruleEnv
  refine Spec.bindN (getContext_spec s hi) (fun context s1 h1 => ?_)
  refine Spec.bindN (getExceptBlock_spec s1 h1.inv) (fun except s2 h2 => ?_)
  rcases he : expectEnd s2 with ⟨e, s3⟩
  simp only [he]
  cases e <;> trivial

theorem ruleTail_nofuel (input : List (List PItem)) (s : PS) (hi : Inv s) : NoFuel (ruleTail input s) := by
  unfold ruleTail
  refine Spec.bindN (getOutput_spec s hi) (fun output s1 h1 => ?_)
  have h2 := expectEnd_le s1 h1.inv
  rcases he : expectEnd s1 with ⟨e, s2⟩
  rw [he] at h2
  simp only [he]
  cases e with
  | true => trivial
  | false =>
    simp only [Bool.false_eq_true, if_false]
    split
    · trivial
    · exact ruleEnv_nofuel _ _ s2 h2.inv

theorem rule_nofuel (s : PS) (hi : Inv s) : NoFuel (rule s) := by
  unfold rule
  refine Spec.bindN (getInput_spec s hi) (fun input s1 h1 => ?_)
  have h2 := expectArrow_le s1 h1.inv
  rcases he : expectArrow s1 with ⟨g, s2⟩
  rw [he] at h2
  simp only [he]
  cases g with
  | true => exact ruleTail_nofuel _ s2 h2.inv
  | false => trivial

/-- **the rule parser terminates** on every token list: `Parser::parse` returns a rule, "no rule" (blank or comment
    line), a `RuleSyntaxError`, or a panic at one of the modelled sites - it never exhausts its fuel -/
theorem parse_terminates (toks : List Token) : NoFuel (parse toks) := by
  unfold parse
  split
  · trivial
  · rename_i t rest
    split
    · trivial
    · have hi : Inv ({ toks := t :: rest, pos := 0, cur := t } : PS) := by
        intro h; simp at h
      have := rule_nofuel _ hi
      split
      · trivial
      · trivial
      · trivial
      · rename_i hx; rw [hx] at this; exact this

/-- **lexer and parser together return on every line** or panic at a modelled site: never an endless loop -/
theorem parseLine_terminates (src : Text) : NoFuel (parseLine src) := by
  unfold parseLine
  rcases Lex.lexLine_returns src with ⟨toks, h⟩ | ⟨e, h⟩
  · rw [h]; exact parse_terminates toks
  · rw [h]; trivial

end Asca.Parse
