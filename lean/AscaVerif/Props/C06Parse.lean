import AscaVerif.Model.Parser
/-! C06, the front-end half of "a rule that cannot match leaves the word untouched": **blank and comment-only rule
    strings parse to no rule**, for EVERY such string.  The library takes any string as a rule, so "comment-only" means
    what the lexer makes of it: optional white space, `;;`, and then anything at all - line breaks and rule text
    included - up to the end of the string (`get_comment` chops `while true`).  Over the port of `Lexer::get_line` and
    `Parser::parse` (compared with the code on every run, lex-ops / parse-ops, with a stream of strings that hold line
    breaks):

    * a string of white space only lexes to `[Eol]` and parses to `None`;
    * `ws* ;; anything` lexes to `[Comment, Eol]` and parses to `None`.

    `parse_rule_groups` skips a `None` (Model/Run.lean, `parseGroupGo`), so such a line contributes no rule and the
    words pass through it unchanged. -/
namespace Asca.C06Parse
open Asca Lex Parse

theorem takeWhile_all {p : Nat → Bool} (l r : List Nat) (h : l.all p = true) (hr : r.head?.map p ≠ some true) :
    (l ++ r).takeWhile p = l ∧ (l ++ r).dropWhile p = r := by
  induction l with
  | nil =>
    cases r with
    | nil => simp
    | cons x xs =>
      have : p x = false := by
        cases hp : p x with
        | false => rfl
        | true => simp [hp] at hr
      simp [List.takeWhile_cons, List.dropWhile_cons, this]
  | cons a t ih =>
    simp only [List.all_cons, Bool.and_eq_true] at h
    have := ih h.2
    simp [List.takeWhile_cons, List.dropWhile_cons, h.1, this.1, this.2]

/-- white space, then the rest: `trim_whitespace` stops exactly at the rest -/
theorem trimWs_prefix (pre rest : Text) (p : Nat) (hpre : pre.all Cli.isWs = true) (hr : rest.head?.map Cli.isWs ≠ some true) :
    ({ src := pre ++ rest, pos := p } : LS).trimWs = { src := rest, pos := p + pre.length } := by
  obtain ⟨h1, h2⟩ := takeWhile_all (p := Cli.isWs) pre rest hpre hr
  simp only [LS.trimWs, LS.chopWhile, h1, h2]

/-- **a blank string is no rule**: white space of any kind, line breaks included, lexes to `[Eol]` -/
theorem lexLine_blank (src : Text) (h : src.all Cli.isWs = true) :
    lexLine src = .ok [⟨.eol, [], src.length, src.length + 1⟩] := by
  have ht := trimWs_prefix src [] 0 h (by simp)
  simp only [List.append_nil, Nat.zero_add] at ht
  unfold lexLine lineLoop getNextToken
  simp only [ht, List.isEmpty_nil, if_true, List.nil_append]

theorem parseLine_blank (src : Text) (h : src.all Cli.isWs = true) : parseLine src = .ok none := by
  unfold parseLine
  rw [lexLine_blank src h]
  simp [parse]

theorem takeWhile_true (l : List Nat) : (l.takeWhile fun _ => true) = l := by
  induction l with
  | nil => rfl
  | cons a t ih => simp [List.takeWhile_cons, ih]

theorem dropWhile_true (l : List Nat) : (l.dropWhile fun _ => true) = [] := by
  induction l with
  | nil => rfl
  | cons a t ih => simp [List.dropWhile_cons, ih]

theorem isWs_59 : Cli.isWs 59 = false := by decide

/-- **a comment runs to the end of the string**: `ws* ;; rest` lexes to `[Comment rest, Eol]` whatever `rest` holds -/
theorem lexLine_comment (pre rest : Text) (h : pre.all Cli.isWs = true) :
    lexLine (pre ++ 59 :: 59 :: rest) =
      .ok [⟨.comment, rest, pre.length, pre.length + 2 + rest.length⟩,
           ⟨.eol, [], pre.length + 2 + rest.length, pre.length + 2 + rest.length + 1⟩] := by
  have ht := trimWs_prefix pre (59 :: 59 :: rest) 0 h (by simp [isWs_59])
  simp only [Nat.zero_add] at ht
  have hlen : (pre ++ 59 :: 59 :: rest).length + 1 = (pre.length + rest.length + 1) + 1 + 1 := by simp; omega
  unfold lexLine
  rw [hlen]
  -- first token: the comment
  have hfirst : getNextToken { src := pre ++ 59 :: 59 :: rest, pos := 0 } =
      .ok (⟨.comment, rest, pre.length, pre.length + 2 + rest.length⟩, { src := [], pos := pre.length + 2 + rest.length }) := by
    unfold getNextToken
    simp only [ht]
    have htk : (rest.takeWhile fun _ => true) = rest := takeWhile_true rest
    have hdk : (rest.dropWhile fun _ => true) = [] := dropWhile_true rest
    simp [getComment, orElse, LS.cur, LS.advance, LS.chopWhile, bind, Outcome.bind, pure, htk, hdk, Nat.add_assoc]
  -- second token: the end of the line
  have hsecond : getNextToken { src := [], pos := pre.length + 2 + rest.length } =
      .ok (⟨.eol, [], pre.length + 2 + rest.length, pre.length + 2 + rest.length + 1⟩, { src := [], pos := pre.length + 2 + rest.length }) := by
    unfold getNextToken
    simp [LS.trimWs, LS.chopWhile]
  rw [lineLoop, hfirst]
  simp only [show (TK.comment = TK.eol) = False from by simp, if_false, List.nil_append]
  rw [lineLoop, hsecond]
  simp

/-- **a comment-only string is no rule**, whatever follows the `;;` (a line break and the text of a rule included) -/
theorem parseLine_comment (pre rest : Text) (h : pre.all Cli.isWs = true) : parseLine (pre ++ 59 :: 59 :: rest) = .ok none := by
  unfold parseLine
  rw [lexLine_comment pre rest h]
  simp [parse]

/-! Non-vacuity: the strings of the seeded change `C06-comment-ends-at-line-break` -/
example : parseLine (";; note\na > e".toList.map Char.toNat) = .ok none :=
  parseLine_comment [] (" note\na > e".toList.map Char.toNat) rfl
example : parseLine ("  \t;; off\r\n[] > * / _#".toList.map Char.toNat) = .ok none :=
  parseLine_comment ("  \t".toList.map Char.toNat) (" off\r\n[] > * / _#".toList.map Char.toNat) (by decide)
example : parseLine (" \n\t".toList.map Char.toNat) = .ok none := parseLine_blank _ (by decide)
/-- a rule before the comment is still a rule -/
example : (match parseLine ("a > e ;; note".toList.map Char.toNat) with | .ok (some _) => true | _ => false) = true := by decide +kernel

end Asca.C06Parse
