import AscaVerif.Model.Parser
/-! C02, the seam between parser and interpreter: **a parsed rule has no empty term, and no empty side**.
    `Rule::split_into_subrules` indexes the first item of every input and output term (`input[0]`, `output[0]`,
    rule.rs:103) and the first term of each side.  Over the parser port (after the repair of D24, where an empty term
    between commas is skipped): every term `get_input` / `get_output` hand back is non-empty and so are the two lists,
    for EVERY token list - so those index expressions cannot fail on a rule that came out of `Parser::parse`.  (Before
    the repair the statement was false: `a > j, , / _` parsed to the output `[[j], []]` and the run panicked.) -/
namespace Asca.C02Terms
open Asca Asca.Parse

def AllNonempty (l : List (List PItem)) : Prop := ∀ t ∈ l, t ≠ []

theorem allNonempty_snoc (l : List (List PItem)) (t : List PItem) (h : AllNonempty l) (ht : t ≠ []) : AllNonempty (l ++ [t]) := by
  intro x hx
  rcases List.mem_append.mp hx with h1 | h1
  · exact h x h1
  · simp only [List.mem_singleton] at h1; subst h1; exact ht

/-- only a non-empty term is pushed -/
theorem termStep_push_nonempty (term : List PItem) (s1 s3 : PS) (m : Bool) (h : termStep term s1 = .ok (.push s3 m)) : term ≠ [] := by
  unfold termStep at h
  by_cases ht : term.isEmpty = true
  · simp only [ht, if_true] at h
    rcases hx : s1.expect .comma with ⟨c, s2⟩
    rw [hx] at h
    cases c <;> simp at h
  · intro hnil; apply ht; simp [hnil]

theorem inputLoop_nonempty : ∀ (fuel : Nat) (s : PS) (inputs res : List (List PItem)) (s' : PS),
    AllNonempty inputs → inputLoop fuel s inputs = .ok (res, s') → AllNonempty res := by
  intro fuel
  induction fuel with
  | zero => intro s inputs res s' _ h; simp [inputLoop] at h
  | succ n ih =>
    intro s inputs res s' hall h
    unfold inputLoop at h
    split at h
    · rename_i e s1 hx
      rcases hc : s1.expect .comma with ⟨cm, s2⟩
      rw [hc] at h
      simp only at h
      split at h
      · simp at h
      · exact ih _ _ _ _ (allNonempty_snoc _ _ hall (by simp)) h
    · split at h
      · rename_i term s1 hx
        split at h
        · split at h <;> simp at h
        · split at h
          · simp only [Outcome.ok.injEq, Prod.mk.injEq] at h; rw [← h.1]; exact hall
          · exact ih _ _ _ _ hall h
          · rename_i s3 hy
            exact ih _ _ _ _ (allNonempty_snoc _ _ hall (termStep_push_nonempty term s1 s3 true hy)) h
          · rename_i s3 hy
            simp only [Outcome.ok.injEq, Prod.mk.injEq] at h; rw [← h.1]
            exact allNonempty_snoc _ _ hall (termStep_push_nonempty term s1 s3 false hy)
          · simp at h
          · simp at h
          · simp at h
      · simp at h
      · simp at h
      · simp at h

theorem outputLoop_nonempty : ∀ (fuel : Nat) (s : PS) (outputs res : List (List PItem)) (s' : PS),
    AllNonempty outputs → outputLoop fuel s outputs = .ok (res, s') → AllNonempty res := by
  intro fuel
  induction fuel with
  | zero => intro s outputs res s' _ h; simp [outputLoop] at h
  | succ n ih =>
    intro s outputs res s' hall h
    unfold outputLoop at h
    split at h
    · rename_i el s1 hx
      rcases hc : s1.expect .comma with ⟨cm, s2⟩
      rw [hc] at h
      simp only at h
      split at h
      · simp at h
      · exact ih _ _ _ _ (allNonempty_snoc _ _ hall (by simp)) h
    · split at h
      · rename_i e s1 hx
        rcases hc : s1.expect .comma with ⟨cm, s2⟩
        rw [hc] at h
        simp only at h
        split at h
        · simp at h
        · exact ih _ _ _ _ (allNonempty_snoc _ _ hall (by simp)) h
      · split at h
        · rename_i term s1 hx
          split at h
          · split at h <;> simp at h
          · split at h
            · simp only [Outcome.ok.injEq, Prod.mk.injEq] at h; rw [← h.1]; exact hall
            · exact ih _ _ _ _ hall h
            · rename_i s3 hy
              exact ih _ _ _ _ (allNonempty_snoc _ _ hall (termStep_push_nonempty term s1 s3 true hy)) h
            · rename_i s3 hy
              simp only [Outcome.ok.injEq, Prod.mk.injEq] at h; rw [← h.1]
              exact allNonempty_snoc _ _ hall (termStep_push_nonempty term s1 s3 false hy)
            · simp at h
            · simp at h
            · simp at h
        · simp at h
        · simp at h
        · simp at h

theorem getInput_nonempty (s : PS) (res : List (List PItem)) (s' : PS) (h : getInput s = .ok (res, s')) : res ≠ [] ∧ AllNonempty res := by
  unfold getInput at h
  cases hl : inputLoop (s.toks.length + 2) s [] with
  | ok v =>
    obtain ⟨inputs, s1⟩ := v
    simp only [hl, bind, Outcome.bind] at h
    have hall := inputLoop_nonempty _ s [] inputs s1 (fun _ h => by simp at h) hl
    split at h
    · cases hh : s1.here <;> simp [hh] at h
    · rename_i hne
      simp only [pure, Outcome.ok.injEq, Prod.mk.injEq] at h
      rw [← h.1]
      exact ⟨by intro h0; apply hne; simp [h0], hall⟩
  | err e => simp [hl, bind, Outcome.bind] at h
  | panic q => simp [hl, bind, Outcome.bind] at h
  | outOfFuel q => simp [hl, bind, Outcome.bind] at h

theorem getOutput_nonempty (s : PS) (res : List (List PItem)) (s' : PS) (h : getOutput s = .ok (res, s')) : res ≠ [] ∧ AllNonempty res := by
  unfold getOutput at h
  cases hl : outputLoop (s.toks.length + 2) s [] with
  | ok v =>
    obtain ⟨outputs, s1⟩ := v
    simp only [hl, bind, Outcome.bind] at h
    have hall := outputLoop_nonempty _ s [] outputs s1 (fun _ h => by simp at h) hl
    split at h
    · cases hh : s1.here <;> simp [hh] at h
    · rename_i hne
      simp only [pure, Outcome.ok.injEq, Prod.mk.injEq] at h
      rw [← h.1]
      exact ⟨by intro h0; apply hne; simp [h0], hall⟩
  | err e => simp [hl, bind, Outcome.bind] at h
  | panic q => simp [hl, bind, Outcome.bind] at h
  | outOfFuel q => simp [hl, bind, Outcome.bind] at h

def RuleOK (r : PRule) : Prop := r.input ≠ [] ∧ AllNonempty r.input ∧ r.output ≠ [] ∧ AllNonempty r.output

theorem ruleEnv_keeps (input output : List (List PItem)) (s : PS) (r : PRule) (h : ruleEnv input output s = .ok r) :
    r.input = input ∧ r.output = output := by
  unfold ruleEnv at h
  cases h1 : getContext s with
  | ok v1 =>
    obtain ⟨c, s1⟩ := v1
    simp only [h1, bind, Outcome.bind] at h
    cases h2 : getExceptBlock s1 with
    | ok v2 =>
      obtain ⟨e, s2⟩ := v2
      simp only [h2] at h
      rcases hx : expectEnd s2 with ⟨b, s3⟩
      rw [hx] at h
      cases b with
      | true => simp only [if_true, pure, Outcome.ok.injEq] at h; rw [← h]; exact ⟨rfl, rfl⟩
      | false => simp at h
    | err e => simp [h2] at h
    | panic q => simp [h2] at h
    | outOfFuel q => simp [h2] at h
  | err e => simp [h1, bind, Outcome.bind] at h
  | panic q => simp [h1, bind, Outcome.bind] at h
  | outOfFuel q => simp [h1, bind, Outcome.bind] at h

theorem ruleTail_ok (input : List (List PItem)) (s : PS) (r : PRule) (hi : input ≠ [] ∧ AllNonempty input) (h : ruleTail input s = .ok r) : RuleOK r := by
  unfold ruleTail at h
  cases h1 : getOutput s with
  | ok v1 =>
    obtain ⟨output, s1⟩ := v1
    have ho := getOutput_nonempty s output s1 h1
    simp only [h1, bind, Outcome.bind] at h
    rcases hx : expectEnd s1 with ⟨b, s2⟩
    rw [hx] at h
    cases b with
    | true => simp only [if_true, pure, Outcome.ok.injEq] at h; rw [← h]; exact ⟨hi.1, hi.2, ho.1, ho.2⟩
    | false =>
      simp only [Bool.false_eq_true, if_false] at h
      split at h
      · simp at h
      · obtain ⟨e1, e2⟩ := ruleEnv_keeps input output s2 r h
        exact ⟨by rw [e1]; exact hi.1, by rw [e1]; exact hi.2, by rw [e2]; exact ho.1, by rw [e2]; exact ho.2⟩
  | err e => simp [h1, bind, Outcome.bind] at h
  | panic q => simp [h1, bind, Outcome.bind] at h
  | outOfFuel q => simp [h1, bind, Outcome.bind] at h

theorem rule_ok (s : PS) (r : PRule) (h : rule s = .ok r) : RuleOK r := by
  unfold rule at h
  cases h1 : getInput s with
  | ok v1 =>
    obtain ⟨input, s1⟩ := v1
    have hi := getInput_nonempty s input s1 h1
    simp only [h1, bind, Outcome.bind] at h
    rcases hx : expectArrow s1 with ⟨g, s2⟩
    rw [hx] at h
    cases g with
    | true => simp only [if_true] at h; exact ruleTail_ok input s2 r hi h
    | false => simp at h
  | err e => simp [h1, bind, Outcome.bind] at h
  | panic q => simp [h1, bind, Outcome.bind] at h
  | outOfFuel q => simp [h1, bind, Outcome.bind] at h

/-- **every rule the parser returns has non-empty sides made of non-empty terms**, on every line -/
theorem parseLine_rule_ok (src : Text) (r : PRule) (h : parseLine src = .ok (some r)) : RuleOK r := by
  unfold parseLine at h
  cases hl : Lex.lexLine src with
  | ok toks =>
    rw [hl] at h
    simp only at h
    unfold parse at h
    split at h
    · simp at h
    · split at h
      · simp at h
      · split at h
        · rename_i r' hr
          simp only [Outcome.ok.injEq, Option.some.injEq] at h
          rw [← h]; exact rule_ok _ r' hr
        · simp at h
        · simp at h
        · simp at h
  | err e => rw [hl] at h; simp at h
  | panic q => rw [hl] at h; simp at h
  | outOfFuel q => rw [hl] at h; simp at h

/-! Non-vacuity: the rule that used to panic now parses to one output term -/
example : (match parseLine ("a > j, , / _".toList.map Char.toNat) with | .ok (some r) => some (r.input.length, r.output.length) | _ => none) = some (1, 1) := by
  decide +kernel
example : (match parseLine ("a, , t > e, , d".toList.map Char.toNat) with | .ok (some r) => some (r.input.length, r.output.length) | _ => none) = some (2, 2) := by
  decide +kernel

end Asca.C02Terms
