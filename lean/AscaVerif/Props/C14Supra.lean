import AscaVerif.Props.C05Scan
import AscaVerif.Props.C14Scan
/-! # C14, the converse direction — a prosodic rule never touches the segmental tier

`Props/C14Scan.lean` carries "a segmental matrix leaves stress, tone and boundaries alone" through the whole scan.  This
file proves the other half of the property end to end: a rule `X > [±stress, ±secstress, tone: n] / any environment`
whose output matrix names **no** node, **no** feature and **no** length leaves every segment of every syllable exactly
as it was - same feature bundles, same order, same syllable boundaries - for every word, every number of matches and
every environment.  Only `stress` and `tone` fields of syllables may differ.

The scan induction is done once, generically (`matrix_rule_gen`), over any word relation that is reflexive, transitive
and closed under replacing a syllable by what `Syllable::apply_seg_mods` made of it. -/
namespace Asca.C14Supra
open Asca Asca.Interp Asca.C03

/-! ## the single edit -/

/-- a matrix that names no node, no feature and no length (it may name stress and tone) -/
def ProsodicOnly (m : Modifiers) : Prop :=
  (∀ x ∈ m.nodes, x = none) ∧ (∀ x ∈ m.feats, x = none) ∧ m.suprs.long = none ∧ m.suprs.overlong = none

theorem applyNodeModsGo_none (im : Bool) : ∀ (ms : List (Option ModKind)) (i : Nat) (s : Seg) (al : Alphas) (r : Seg × Alphas),
    (∀ x ∈ ms, x = none) → Seg.applyNodeModsGo im i ms s al = .ok r → r = (s, al) := by
  intro ms
  induction ms with
  | nil => intro i s al r _ h; simp [Seg.applyNodeModsGo] at h; exact h.symm
  | cons m ms ih =>
    intro i s al r hall h
    have hm : m = none := hall m (by simp)
    subst hm
    unfold Seg.applyNodeModsGo at h
    cases hk : NodeKind.ofNat? i with
    | none => simp [hk] at h
    | some nk =>
      simp only [hk] at h
      exact ih (i + 1) s al r (fun x hx => hall x (by simp [hx])) h

theorem applyFeatModsGo_none (im : Bool) : ∀ (ms : List (Option ModKind)) (i : Nat) (s : Seg) (al : Alphas) (r : Seg × Alphas),
    (∀ x ∈ ms, x = none) → Seg.applyFeatModsGo im i ms s al = .ok r → r = (s, al) := by
  intro ms
  induction ms with
  | nil => intro i s al r _ h; simp [Seg.applyFeatModsGo] at h; exact h.symm
  | cons m ms ih =>
    intro i s al r hall h
    have hm : m = none := hall m (by simp)
    subst hm
    unfold Seg.applyFeatModsGo at h
    exact ih (i + 1) s al r (fun x hx => hall x (by simp [hx])) h

/-- `Segment::apply_seg_mods` with nothing to apply returns the segment and the bindings it was given -/
theorem seg_applySegMods_none (s : Seg) (al : Alphas) (nodes feats : List (Option ModKind)) (im : Bool) (r : Seg × Alphas)
    (hn : ∀ x ∈ nodes, x = none) (hf : ∀ x ∈ feats, x = none) (h : s.applySegMods al nodes feats im = .ok r) : r = (s, al) := by
  unfold Seg.applySegMods at h
  cases h1 : Seg.applyNodeModsGo im 0 nodes s al with
  | ok r1 =>
    rw [h1] at h
    simp only at h
    have e := applyNodeModsGo_none im nodes 0 s al r1 hn h1
    subst e
    exact applyFeatModsGo_none im feats 0 s al r hf h
  | err e => rw [h1] at h; simp at h
  | panic e => rw [h1] at h; simp at h
  | outOfFuel e => rw [h1] at h; simp at h

/-- the segment loop of `Syllable::apply_seg_mods` with nothing to apply: no segment and no binding changes -/
theorem applyModsRun_none (nodes feats : List (Option ModKind)) (hn : ∀ x ∈ nodes, x = none) (hf : ∀ x ∈ feats, x = none) :
    ∀ (n pos : Nat) (segs : List Seg) (al : Alphas) (r : List Seg × Alphas),
      Syll.applyModsRun nodes feats n pos segs al = .ok r → r = (segs, al) := by
  intro n
  induction n with
  | zero => intro pos segs al r h; simp [Syll.applyModsRun] at h; exact h.symm
  | succ n ih =>
    intro pos segs al r h
    unfold Syll.applyModsRun at h
    cases hs : segs[pos]? with
    | none => simp [hs] at h
    | some s =>
      simp only [hs] at h
      cases ha : s.applySegMods al nodes feats false with
      | ok r1 =>
        have e := seg_applySegMods_none s al nodes feats false r1 hn hf ha
        subst e
        simp only [ha] at h
        have hset : segs.set pos s = segs := by
          apply List.ext_getElem?
          intro j
          rw [List.getElem?_set]
          by_cases hj : pos = j
          · subst hj
            obtain ⟨hlt, hget⟩ := List.getElem?_eq_some_iff.mp hs
            simp [hlt, hget]
          · simp [hj]
        rw [hset] at h
        exact ih (pos + 1) segs al r h
      | err e => simp [ha] at h
      | panic e => simp [ha] at h
      | outOfFuel e => simp [ha] at h

/-- **prosodic matrix ⇒ segments untouched**: `Syllable::apply_seg_mods` with a matrix that names no node, feature or
    length returns the syllable with exactly the segments it had, reports no length change and binds nothing;
    stress and tone are what `apply_syll_mods` computes -/
theorem applySegMods_prosodicOnly (σ σ' : Syll) (al al' : Alphas) (mods : Modifiers) (pos : Nat) (lc : Int)
    (hp : ProsodicOnly mods) (h : σ.applySegMods al mods pos = .ok (σ', al', lc)) :
    σ'.segs = σ.segs ∧ lc = 0 ∧ al' = al ∧ σ.applySyllMods al mods.suprs = .ok σ' := by
  obtain ⟨hn, hf, hl, ho⟩ := hp
  unfold Syll.applySegMods at h
  cases hr : Syll.applyModsRun mods.nodes mods.feats (σ.segLengthAt pos) pos σ.segs al with
  | ok r =>
    have e := applyModsRun_none mods.nodes mods.feats hn hf _ _ _ _ r hr
    subst e
    simp only [hr, Outcome.bind_ok] at h
    simp only [Syll.applySupras, Syll.applyLength, hl, ho] at h
    cases hg : σ.segs[pos]? with
    | none => simp [hg] at h
    | some x =>
      simp only [hg, Outcome.bind_ok] at h
      cases hy : σ.applySyllMods al mods.suprs with
      | ok σ2 =>
        simp only [hy, Outcome.bind_ok, Outcome.pure_eq] at h
        have h' := Outcome.ok.inj h
        simp only [Prod.mk.injEq] at h'
        obtain ⟨e1, e2, e3⟩ := h'
        subst e1; subst e2; subst e3
        exact ⟨C14.applySyllMods_keeps_segments σ σ2 al mods.suprs hy, rfl, rfl, rfl⟩
      | err e => simp [hy] at h
      | panic e => simp [hy] at h
      | outOfFuel e => simp [hy] at h
  | err e => simp [hr] at h
  | panic e => simp [hr] at h
  | outOfFuel e => simp [hr] at h

/-! ## one step and the whole scan, generically -/

/-- **one step of `X > [matrix]`, any matrix**: if the step returns, the word is the old word with the syllable of the
    match replaced by what `Syllable::apply_seg_mods` made of it (provided that is not empty) -/
theorem substitution_matrix_step_gen (r : SubRule) (w : Word) (sp : SegPos) (mods : Modifiers) (inItem : Item) (σ : Syll) (b : Binds)
    (next : Option SegPos)
    (hin : r.input = [inItem]) (hout : r.output = [.matrix mods none])
    (hσ : w.sylls[sp.si]? = some σ) (hwf : NoEmptySyll w)
    (hk : ∀ σ' al lc, σ.applySegMods b.alphas mods sp.gi = .ok (σ', al, lc) → σ'.segs ≠ [])
    (res : Word × Option SegPos × Binds) (h : substitution r w [.segment sp none] next b = .ok res) :
    ∃ σ' al lc, res.1 = setSyll w sp.si σ' ∧ σ.applySegMods b.alphas mods sp.gi = .ok (σ', al, lc) := by
  have hlen : sp.si < w.sylls.length := (List.getElem?_eq_some_iff.mp hσ).1
  have hrep : (List.replicate w.sylls.length (0 : Int))[sp.si]? = some 0 := by
    rw [List.getElem?_replicate]; simp [hlen]
  have hseglen : w.segLen sp = .ok (σ.segLengthAt sp.gi) := by simp [Word.segLen, Word.segLengthAt, hσ]
  unfold substitution at h
  simp only [hin, hout, List.length_singleton] at h
  cases hm : σ.applySegMods b.alphas mods sp.gi with
  | ok r3 =>
    obtain ⟨σ', al, lc⟩ := r3
    have h3 := hk σ' al lc hm
    have hpairs : substPairs r 1 1 0 [inItem] [.matrix mods none] [.segment sp none]
        { w := w, tlc := List.replicate w.sylls.length 0, last := { si := 0, gi := 0 }, b := b } =
        .ok { w := setSyll w sp.si σ', tlc := (List.replicate w.sylls.length (0 : Int)).set sp.si (0 + lc),
              last := bumpRun sp (σ.segLengthAt sp.gi) lc 1 1 0, b := { b with alphas := al } } := by
      simp [substPairs, substStep, adjust, tlcGet, hrep, hseglen, applySegModsVar, getSyll, hσ, hm, tlcAdd]
    rw [hpairs] at h
    simp only [Outcome.bind_ok, Nat.lt_irrefl, if_false, Outcome.pure_eq] at h
    have hne' := C05Scan.noEmptySyll_setSyll w sp.si σ' hwf h3
    have hnn : (setSyll w sp.si σ').sylls ≠ [] := by
      intro hnil
      have h0 : (setSyll w sp.si σ').sylls.length = 0 := by rw [hnil]; rfl
      simp only [setSyll, List.length_set] at h0
      omega
    have hl2 : ((setSyll w sp.si σ').sylls.getLast hnn).segs.isEmpty = false := by
      have := hne' _ (List.getLast_mem hnn)
      cases hs2 : ((setSyll w sp.si σ').sylls.getLast hnn).segs with
      | nil => exact absurd hs2 this
      | cons a as => rfl
    rw [List.getLast?_eq_some_getLast hnn] at h
    simp only [hl2, Bool.false_eq_true, if_false] at h
    cases h
    exact ⟨σ', al, lc, rfl, rfl⟩
  | err e =>
    have : substPairs r 1 1 0 [inItem] [.matrix mods none] [.segment sp none]
        { w := w, tlc := List.replicate w.sylls.length 0, last := { si := 0, gi := 0 }, b := b } = .err e := by
      simp [substPairs, substStep, adjust, tlcGet, hrep, hseglen, applySegModsVar, getSyll, hσ, hm]
    rw [this] at h; simp at h
  | panic e =>
    have : substPairs r 1 1 0 [inItem] [.matrix mods none] [.segment sp none]
        { w := w, tlc := List.replicate w.sylls.length 0, last := { si := 0, gi := 0 }, b := b } = .panic e := by
      simp [substPairs, substStep, adjust, tlcGet, hrep, hseglen, applySegModsVar, getSyll, hσ, hm]
    rw [this] at h; simp at h
  | outOfFuel e =>
    have : substPairs r 1 1 0 [inItem] [.matrix mods none] [.segment sp none]
        { w := w, tlc := List.replicate w.sylls.length 0, last := { si := 0, gi := 0 }, b := b } = .outOfFuel e := by
      simp [substPairs, substStep, adjust, tlcGet, hrep, hseglen, applySegModsVar, getSyll, hσ, hm]
    rw [this] at h; simp at h

/-- **the scan of `X > [matrix] / any environment`, once and for all**: every word relation that is reflexive-transitive
    and holds between a word and the word with one syllable replaced by what `apply_seg_mods` made of it (in bounds) holds
    between the input and whatever the sub-rule returns, for every number of matches -/
theorem matrix_rule_gen (Rel : Word → Word → Prop) (htrans : ∀ a b c, Rel a b → Rel b c → Rel a c)
    (r : SubRule) (it : Item) (hit : SegItem it) (mods : Modifiers)
    (hin : r.input = [it]) (hout : r.output = [.matrix mods none]) (hty : r.ruleType = .substitution)
    (hk : ∀ (σ σ' : Syll) (al al' : Alphas) (lc : Int) (gi : Nat), gi < σ.segs.length → σ.applySegMods al mods gi = .ok (σ', al', lc) →
      σ'.segs ≠ [] ∧ ∀ (w : Word) (i : Nat), w.sylls[i]? = some σ → Rel w (setSyll w i σ')) :
    ∀ (fuel : Nat) (w0 w : Word) (cur : SegPos), NoEmptySyll w → Rel w0 w →
      ∀ w', applyLoop r fuel w cur = .ok w' → Rel w0 w' ∧ NoEmptySyll w' := by
  intro fuel
  induction fuel with
  | zero => intro w0 w cur _ _ w' h; simp [applyLoop] at h
  | succ fuel ih =>
    intro w0 w cur hne hsh w' hres
    rw [applyLoop] at hres
    cases hi : inputMatchAt fuel r.input w cur {} with
    | ok out =>
      obtain ⟨caps, next, b1⟩ := out
      rw [hi] at hres
      simp only [Outcome.bind_ok] at hres
      rw [hin] at hi
      rcases inputMatchAt_single w it hit fuel cur _ hi with h1 | ⟨p, nx, h1, h2, hinb⟩
      · simp only at h1; subst h1
        simp at hres; subst hres; exact ⟨hsh, hne⟩
      · simp only at h1 h2; subst h1; subst h2
        obtain ⟨L, hL⟩ := C06.segLen_of_inB w p hinb
        have hσ : ∃ σ, w.sylls[p.si]? = some σ ∧ p.gi < σ.segs.length := by
          unfold Word.inB Word.inBounds at hinb
          cases hs2 : w.sylls[p.si]? with
          | none => simp [hs2] at hinb
          | some σ => simp [hs2] at hinb; exact ⟨σ, rfl, hinb⟩
        obtain ⟨σ, hσ1, hσ2⟩ := hσ
        simp only [List.isEmpty_cons, Bool.false_eq_true, if_false, matchSpan, List.head?_cons, List.getLast?_singleton, hL,
          Outcome.bind_ok, Outcome.pure_eq] at hres
        cases hm : matchContextsAndExceptions fuel r w p (incN w (L - 1) p) true b1 with
        | ok res =>
          obtain ⟨okb, b2⟩ := res
          rw [hm] at hres
          simp only [Outcome.bind_ok] at hres
          cases okb with
          | false =>
            simp only [Bool.not_false, if_true] at hres
            exact ih w0 w nx hne hsh w' hres
          | true =>
            simp only [Bool.not_true, Bool.false_eq_true, if_false, transform, hty] at hres
            cases hsub : substitution r w [.segment p none] (some nx) b2 with
            | ok sres =>
              rw [hsub] at hres
              simp only [Outcome.bind_ok] at hres
              obtain ⟨σ', al, lc, e1, e2⟩ := substitution_matrix_step_gen r w p mods it σ b2 (some nx) hin hout hσ1 hne
                (fun σ' al lc hh => (hk σ σ' b2.alphas al lc p.gi hσ2 hh).1) sres hsub
              obtain ⟨e4, hrel⟩ := hk σ σ' b2.alphas al lc p.gi hσ2 e2
              have hstep := hrel w p.si hσ1
              rw [← e1] at hstep
              have hsh' := htrans _ _ _ hsh hstep
              have hne' : NoEmptySyll sres.1 := by rw [e1]; exact C05Scan.noEmptySyll_setSyll w p.si σ' hne e4
              cases hnx : sres.2.1 with
              | none => rw [hnx] at hres; simp at hres; subst hres; exact ⟨hsh', hne'⟩
              | some ci => rw [hnx] at hres; exact ih w0 sres.1 ci hne' hsh' w' hres
            | err e => rw [hsub] at hres; simp at hres
            | panic e => rw [hsub] at hres; simp at hres
            | outOfFuel e => rw [hsub] at hres; simp at hres
        | err e => rw [hm] at hres; simp at hres
        | panic s => rw [hm] at hres; simp at hres
        | outOfFuel s => rw [hm] at hres; simp at hres
    | err e => rw [hi] at hres; simp at hres
    | panic e => rw [hi] at hres; simp at hres
    | outOfFuel e => rw [hi] at hres; simp at hres

/-! ## the prosodic rule -/

/-- the segmental tier of a word: the segments of every syllable, syllable by syllable -/
def segTier (w : Word) : List (List Seg) := w.sylls.map (fun σ : Syll => σ.segs)

/-- same segments in the same syllables (stress and tone may differ) -/
def SameSegments (w w' : Word) : Prop := segTier w' = segTier w

theorem sameSegments_setSyll (w : Word) (i : Nat) (σ σ' : Syll) (hσ : w.sylls[i]? = some σ) (h : σ'.segs = σ.segs) :
    SameSegments w (setSyll w i σ') := by
  unfold SameSegments segTier
  apply List.ext_getElem?
  intro j
  have hlen : i < w.sylls.length := (List.getElem?_eq_some_iff.mp hσ).1
  by_cases hj : j = i
  · subst hj
    simp only [setSyll, List.map_set, List.getElem?_map, hσ, Option.map_some]
    rw [List.getElem?_set_self (by simpa using hlen), h]
  · simp [setSyll, List.getElem?_set_ne (Ne.symm hj)]

/-- **a prosodic rule leaves the segmental tier alone**: `X > [±stress, ±secstress, tone: n] / any environment` (X one
    segment element; the output matrix names no node, no feature and no length).  If the sub-rule returns a word, every
    syllable of it holds exactly the segments it held, in the same order; no syllable appears, disappears or moves its
    boundaries. -/
theorem prosodic_rule_keeps_segments (r : SubRule) (it : Item) (hit : SegItem it) (mods : Modifiers)
    (hin : r.input = [it]) (hout : r.output = [.matrix mods none]) (hp : ProsodicOnly mods) (hty : r.ruleType = .substitution)
    (fuel : Nat) (w w' : Word) (hne : NoEmptySyll w) (h : applySubRule fuel r w = .ok w') : SameSegments w w' := by
  have hni : r.ruleType ≠ .insertion := by rw [hty]; decide
  simp only [applySubRule, hni, if_false] at h
  refine (matrix_rule_gen SameSegments (fun a b c h1 h2 => by unfold SameSegments at *; rw [h2, h1]) r it hit mods hin hout hty ?_
    fuel w w { si := 0, gi := 0 } hne rfl w' h).1
  intro σ σ' al al' lc gi hgi hh
  obtain ⟨e1, _, _, _⟩ := applySegMods_prosodicOnly σ σ' al al' mods gi lc hp hh
  refine ⟨?_, fun w i hσ => sameSegments_setSyll w i σ σ' hσ e1⟩
  rw [e1]; intro hnil; rw [hnil] at hgi; exact Nat.not_lt_zero _ hgi

/-- a sub-rule of the prosodic form: one segment element in, one matrix of stress/tone only out -/
def Prosodic (s : SubRule) : Prop :=
  ∃ it mods, SegItem it ∧ s.input = [it] ∧ s.output = [.matrix mods none] ∧ ProsodicOnly mods ∧ s.ruleType = .substitution

theorem noEmptySyll_of_sameSegments (w w' : Word) (h : SameSegments w w') (hne : NoEmptySyll w) : NoEmptySyll w' := by
  intro τ hτ
  have : τ.segs ∈ segTier w' := List.mem_map.mpr ⟨τ, hτ, rfl⟩
  rw [h] at this
  obtain ⟨υ, hυ, e⟩ := List.mem_map.mp this
  rw [← e]; exact hne υ hυ

/-- **whole rules**: a rule all of whose sub-rules are prosodic (a plain rule, or a condensed rule
    `V, C > [+stress], [tone: 5] / …` with whatever environments) keeps the segmental tier of every word it returns -/
theorem prosodic_rule_keeps_tier (fuel : Nat) (r : Rule) (subs : List SubRule) (hsplit : splitIntoSubrules r = .ok subs)
    (hall : ∀ s ∈ subs, Prosodic s) (w w' : Word) (hne : NoEmptySyll w) (h : applyRule fuel r w = .ok w') : SameSegments w w' := by
  rw [C12.applyRule_is_fold fuel r w subs hsplit] at h
  clear hsplit
  induction subs generalizing w with
  | nil => simp [List.foldlM] at h; subst h; rfl
  | cons s rest ih =>
    simp only [List.foldlM_cons] at h
    cases hs : applySubRule fuel s w with
    | ok w1 =>
      rw [hs] at h
      simp only [Outcome.bind_ok] at h
      obtain ⟨it, mods, h1, h2, h3, h4, h5⟩ := hall s (by simp)
      have hsh := prosodic_rule_keeps_segments s it h1 mods h2 h3 h4 h5 fuel w w1 hne hs
      have hne1 := noEmptySyll_of_sameSegments w w1 hsh hne
      have h2' := ih (fun x hx => hall x (by simp [hx])) w1 hne1 h
      unfold SameSegments at *; rw [h2', hsh]
    | err e => rw [hs] at h; simp at h
    | panic e => rw [hs] at h; simp at h
    | outOfFuel e => rw [hs] at h; simp at h

/-- `[+stress, tone: 51]` -/
def demoMods : Modifiers :=
  { nodes := List.replicate 8 none, feats := List.replicate 26 none, suprs := { stress := some (.bin .pos), tone := some 51 } }

/-- the hypothesis is met by `[+stress, tone: 51]` -/
example : ProsodicOnly demoMods := by
  refine ⟨?_, ?_, rfl, rfl⟩ <;> intro x hx <;> simp [demoMods] at hx <;> exact hx

/-- `t > [+stress, tone: 51]` -/
def demoRule : SubRule :=
  { input := [Item.ipa (⟨4#8, 0#8, 0#8, some 16896#16⟩ : Seg) none], output := [Item.matrix demoMods none],
    context := none, except := none, ruleType := .substitution }

/-- it is a prosodic sub-rule -/
example : Prosodic demoRule :=
  ⟨Item.ipa (⟨4#8, 0#8, 0#8, some 16896#16⟩ : Seg) none, demoMods, trivial, rfl, rfl,
    by refine ⟨?_, ?_, rfl, rfl⟩ <;> intro x hx <;> simp [demoMods] at hx <;> exact hx, rfl⟩

/-- and the theorem is not vacuous in the other direction: a matrix naming a feature is not prosodic-only -/
example : ¬ ProsodicOnly { nodes := List.replicate 8 none, feats := [some (.bin .pos)] } := by
  intro h; have := h.2.1 (some (.bin .pos)) (by simp); cases this

end Asca.C14Supra
