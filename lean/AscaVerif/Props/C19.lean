import AscaVerif.Lemmas.Text
/-! # C19 — the command line converts files losslessly

The three readers and three writers of `src/cli` are modelled in `Model/CliFiles.lean`; the correspondence suite
`cli-files` runs the real `asca` binary (`conv asca`, `conv json`) on generated files and compares it with these
functions byte for byte.  Proved here, for every project (no bound on the number of groups, rules, lines, words):
json → rsca → json, json → wsca → json and json → alias → json are the identity on well-formed content.  The
well-formedness conditions are exactly what the proofs need; each excluded point is run on the real binary and
reported in DESIGN.md (an entirely empty group, a description that begins with an empty line, a word list ending in
an empty word). -/
namespace Asca.C19
open Asca Asca.Cli

/-! ## rule files -/

/-- what `to_rsca_format` can write so that `parse_rsca` reads the same group back -/
structure GroupWF (g : Group) : Prop where
  name_trimmed : NoEdgeWs g.name
  name_one_line : 10 ∉ g.name
  rules_ok : ∀ r ∈ g.rules, NoEdgeWs r ∧ r ≠ [] ∧ 10 ∉ r ∧ r.head? ≠ some at' ∧ r.head? ≠ some hash
  desc_trimmed : ∀ p ∈ splitOn 10 g.desc, NoEdgeWs p
  /-- a description does not begin with an empty line -/
  desc_first : g.desc = [] ∨ (splitOn 10 g.desc).head? ≠ some []

theorem trim_tag_line (tag : Nat) (htag : isWs tag = false) (t : Text) (ht : NoEdgeWs t) :
    (trim ([tag, 32] ++ t)).head? = some tag ∧ trim (trim ([tag, 32] ++ t)).tail = t := by
  cases t with
  | nil =>
    have : trim [tag, 32] = [tag] := by
      have := trim_pad [] [tag] [32] (by simp) (by simp [isWs]) ⟨by simp [htag], by simp [htag]⟩
      simpa using this
    simp only [List.append_nil, this]
    exact ⟨rfl, by simp [trim, trimStart, trimEnd]⟩
  | cons c t' =>
    have hne : NoEdgeWs ([tag, 32] ++ c :: t') := by
      refine ⟨by simp [htag], ?_⟩
      intro d hd
      apply ht.2 d
      simpa [List.getLast?_append] using hd
    rw [trim_self _ hne]
    refine ⟨rfl, ?_⟩
    have := trim_pad [32] (c :: t') [] (by simp [isWs]) (by simp) ht
    simpa using this

theorem step_name (acc : List Group) (r : Group) (name : Text) (h : NoEdgeWs name) :
    rscaStep (acc, r) ([at', 32] ++ name) = (if r.isEmpty then acc else acc ++ [r], { name := name }) := by
  obtain ⟨h1, h2⟩ := trim_tag_line at' (by decide) name h
  unfold rscaStep
  simp only [h1, if_true, h2]

theorem step_rule (acc : List Group) (cur : Group) (r : Text) (hcur : cur.desc = [])
    (h : NoEdgeWs r ∧ r ≠ [] ∧ 10 ∉ r ∧ r.head? ≠ some at' ∧ r.head? ≠ some hash) :
    rscaStep (acc, cur) ([32, 32, 32, 32] ++ r) = (acc, { cur with rules := cur.rules ++ [r] }) := by
  have ht : trim ([32, 32, 32, 32] ++ r) = r := by
    have := trim_pad [32, 32, 32, 32] r [] (by simp [isWs]) (by simp) h.1
    simpa using this
  unfold rscaStep
  simp only [ht, h.2.2.2.1, h.2.2.2.2, if_false]
  have : r.isEmpty = false := by cases r <;> simp_all
  simp [this, hcur]

theorem step_desc (acc : List Group) (cur : Group) (d : Text) (h : NoEdgeWs d) :
    rscaStep (acc, cur) ([hash, 32] ++ d) = (acc, { cur with desc := (if cur.desc.isEmpty then [] else cur.desc ++ [10]) ++ d }) := by
  obtain ⟨h1, h2⟩ := trim_tag_line hash (by decide) d h
  unfold rscaStep
  have hne : (some hash : Option Nat) ≠ some at' := by decide
  simp only [h1, hne, if_false, if_true, h2]

theorem fold_rules (acc : List Group) (cur : Group) (rs : List Text) (hcur : cur.desc = [])
    (h : ∀ r ∈ rs, NoEdgeWs r ∧ r ≠ [] ∧ 10 ∉ r ∧ r.head? ≠ some at' ∧ r.head? ≠ some hash) :
    (rs.map ([32, 32, 32, 32] ++ ·)).foldl rscaStep (acc, cur) = (acc, { cur with rules := cur.rules ++ rs }) := by
  induction rs generalizing cur with
  | nil => simp
  | cons r rs ih =>
    simp only [List.map_cons, List.foldl_cons]
    rw [step_rule acc cur r hcur (h r (by simp))]
    rw [ih _ (by simpa using hcur) (fun x hx => h x (by simp [hx]))]
    simp [List.append_assoc]

/-- the description lines after the first, once the description is not empty -/
theorem fold_desc_rest (acc : List Group) (cur : Group) (ps : List Text) (hcur : cur.desc ≠ [])
    (h : ∀ p ∈ ps, NoEdgeWs p) :
    (ps.map ([hash, 32] ++ ·)).foldl rscaStep (acc, cur) = (acc, { cur with desc := cur.desc ++ ps.flatMap (10 :: ·) }) := by
  induction ps generalizing cur with
  | nil => simp
  | cons p ps ih =>
    simp only [List.map_cons, List.foldl_cons]
    rw [step_desc acc cur p (h p (by simp))]
    have hne : cur.desc.isEmpty = false := by cases hd : cur.desc <;> simp_all
    simp only [hne, Bool.false_eq_true, if_false]
    rw [ih _ (by simp) (fun x hx => h x (by simp [hx]))]
    simp [List.append_assoc]

theorem fold_desc (acc : List Group) (cur : Group) (desc : Text) (hcur : cur.desc = [])
    (h : ∀ p ∈ splitOn 10 desc, NoEdgeWs p) (hfirst : desc = [] ∨ (splitOn 10 desc).head? ≠ some []) :
    ((splitOn 10 desc).map ([hash, 32] ++ ·)).foldl rscaStep (acc, cur) = (acc, { cur with desc := desc }) := by
  obtain ⟨p0, ps, hsp, hj⟩ := splitOn_join 10 desc
  rw [hsp] at h hfirst ⊢
  simp only [List.map_cons, List.foldl_cons]
  rw [step_desc acc cur p0 (h p0 (by simp))]
  simp only [hcur, List.isEmpty_nil, if_true, List.nil_append]
  by_cases hp0 : p0 = []
  · -- the description is empty: one line `# ` that adds nothing
    rcases hfirst with hd | hd
    · subst hd
      have : ps = [] := by
        cases ps with
        | nil => rfl
        | cons q qs => simp [hp0] at hj
      subst this; subst hp0; simp [hcur]
    · simp [hp0] at hd
  · rw [fold_desc_rest acc _ ps (by simpa using hp0) (fun x hx => h x (by simp [hx]))]
    simp [hj]

/-- **one group**: reading the lines written for a well-formed group, from any state, finishes the previous group
    (unless it is empty) and leaves exactly this group as the current one -/
theorem fold_group (acc : List Group) (r g : Group) (hg : GroupWF g) :
    (emitGroup g).foldl rscaStep (acc, r) = (if r.isEmpty then acc else acc ++ [r], g) := by
  unfold emitGroup
  rw [List.foldl_append, List.foldl_append]
  simp only [List.foldl_cons, List.foldl_nil]
  rw [step_name acc r g.name hg.name_trimmed]
  rw [fold_rules _ _ g.rules rfl hg.rules_ok]
  rw [fold_desc _ _ g.desc rfl hg.desc_trimmed hg.desc_first]
  simp

/-- all groups but the last are not entirely empty (an empty group is dropped by the reader when another follows) -/
def InitNonEmpty : List Group → Prop
  | [] => True
  | [_] => True
  | g :: g' :: gs => g.isEmpty = false ∧ InitNonEmpty (g' :: gs)

theorem fold_groups (acc : List Group) (r : Group) (gs : List Group) (hne : gs ≠ []) (hwf : ∀ g ∈ gs, GroupWF g)
    (hinit : InitNonEmpty gs) :
    (gs.flatMap emitGroup).foldl rscaStep (acc, r) =
      ((if r.isEmpty then acc else acc ++ [r]) ++ gs.dropLast, gs.getLast hne) := by
  induction gs generalizing acc r with
  | nil => exact absurd rfl hne
  | cons g gs ih =>
    simp only [List.flatMap_cons, List.foldl_append]
    rw [fold_group acc r g (hwf g (by simp))]
    cases gs with
    | nil => simp
    | cons g' gs' =>
      rw [ih _ g (by simp) (fun x hx => hwf x (by simp [hx])) hinit.2]
      simp [hinit.1, List.dropLast, List.append_assoc]

theorem emitted_lines_ok (g : Group) (hg : GroupWF g) : ∀ l ∈ emitGroup g, 10 ∉ l ∧ l.getLast? ≠ some 13 := by
  have last_ok : ∀ (pre t : Text), pre ≠ [] → pre.getLast? ≠ some 13 → NoEdgeWs t → (pre ++ t).getLast? ≠ some 13 := by
    intro pre t hpre hlast ht
    cases t with
    | nil => simpa using hlast
    | cons c t' =>
      intro h
      have : (c :: t').getLast? = some 13 := by simpa [List.getLast?_append] using h
      have := ht.2 13 this
      simp [isWs] at this
  intro l hl
  unfold emitGroup at hl
  simp only [List.mem_append, List.mem_singleton, List.mem_map] at hl
  rcases hl with (rfl | ⟨r, hr, rfl⟩) | ⟨p, hp, rfl⟩
  · refine ⟨?_, last_ok _ _ (by simp) (by decide) hg.name_trimmed⟩
    have := hg.name_one_line
    simp [Cli.at']; exact this
  · obtain ⟨h1, _, h3, _, _⟩ := hg.rules_ok r hr
    refine ⟨by simp; exact h3, last_ok _ _ (by simp) (by decide) h1⟩
  · refine ⟨?_, last_ok _ _ (by simp) (by decide) (hg.desc_trimmed p hp)⟩
    have := splitOn_no_sep 10 g.desc p hp
    simp [Cli.hash]; exact this

theorem initNonEmpty_of_all (gs : List Group) (h : ∀ g ∈ gs, g.isEmpty = false) : InitNonEmpty gs := by
  induction gs with
  | nil => trivial
  | cons g gs ih =>
    cases gs with
    | nil => trivial
    | cons g' gs' => exact ⟨h g (by simp), ih (fun x hx => h x (by simp [hx]))⟩

/-- **json → rsca → json is the identity** on every list of well-formed groups none of which is entirely empty
    (the empty list included) -/
theorem parseRsca_toRsca (gs : List Group) (hwf : ∀ g ∈ gs, GroupWF g) (hne : ∀ g ∈ gs, g.isEmpty = false) :
    parseRsca (toRsca gs) = gs := by
  unfold parseRsca toRsca
  rw [lines_unlines]
  · unfold parseRscaLines
    by_cases hnil : gs = []
    · subst hnil; rfl
    · rw [fold_groups [] {} gs hnil hwf (initNonEmpty_of_all gs hne)]
      have hl : (gs.getLast hnil).isEmpty = false := hne _ (List.getLast_mem hnil)
      have he : ({} : Group).isEmpty = true := rfl
      simp only [he, if_true, List.nil_append, hl, Bool.false_eq_true, if_false]
      exact List.dropLast_concat_getLast hnil
  · intro l hl
    obtain ⟨g, hg, hlg⟩ := List.mem_flatMap.mp hl
    exact emitted_lines_ok g (hwf g hg) l hlg

/-! ## word files -/

theorem linesGo_no_newline (cur l : Text) (h : 10 ∉ l) : linesGo cur l = if (cur ++ l).isEmpty then [] else [cur ++ l] := by
  induction l generalizing cur with
  | nil => simp [linesGo]
  | cons c l' ih =>
    have hc : c ≠ 10 := by intro hc; apply h; simp [hc]
    simp only [linesGo, hc, if_false]
    rw [ih (cur ++ [c]) (by intro h'; apply h; simp [h'])]
    simp [List.append_assoc]

theorem lines_joinLines (ws : List Text) (h : ∀ w ∈ ws, 10 ∉ w ∧ w.getLast? ≠ some 13) (hlast : ws.getLast? ≠ some []) :
    lines (joinLines ws) = ws := by
  induction ws with
  | nil => simp [joinLines, lines, linesGo]
  | cons w ws ih =>
    cases ws with
    | nil =>
      have hw : w ≠ [] := by intro hw; apply hlast; simp [hw]
      simp only [joinLines, lines]
      rw [linesGo_no_newline [] w (h w (by simp)).1]
      cases w <;> simp_all
    | cons w' ws' =>
      have : joinLines (w :: w' :: ws') = w ++ 10 :: joinLines (w' :: ws') := by simp [joinLines]
      unfold lines at ih ⊢
      rw [this, linesGo_line [] w _ (h w (by simp)).1]
      rw [ih (fun x hx => h x (by simp [hx])) (by simpa [List.getLast?_cons_cons] using hlast)]
      simp [stripCr, (h w (by simp)).2]

theorem splitOn_absent (sep : Nat) (t : Text) (h : sep ∉ t) : splitOn sep t = [t] := by
  induction t with
  | nil => rfl
  | cons c cs ih =>
    have hc : c ≠ sep := by intro hc; apply h; simp [hc]
    unfold splitOn
    rw [if_neg hc, ih (by intro h'; apply h; simp [h'])]

theorem noEdgeWs_last (t : Text) (h : NoEdgeWs t) : t.getLast? ≠ some 13 := by
  intro h13
  have := h.2 13 h13
  simp [isWs] at this

/-- a word as `conv json` may write it: trimmed, on one line, without the comment sign -/
def WordOK (w : Text) : Prop := NoEdgeWs w ∧ 10 ∉ w ∧ hash ∉ w

/-- **json → wsca → json is the identity** on word lists that do not end in an empty word -/
theorem parseWsca_toWsca (ws : List Text) (h : ∀ w ∈ ws, WordOK w) (hlast : ws.getLast? ≠ some []) :
    parseWsca (toWsca ws) = (ws, ws.map fun _ => []) := by
  unfold parseWsca toWsca
  rw [lines_joinLines ws (fun w hw => ⟨(h w hw).2.1, noEdgeWs_last w (h w hw).1⟩) hlast]
  have hline : ∀ w ∈ ws, wscaLine w = (w, []) := by
    intro w hw
    obtain ⟨h1, _, h3⟩ := h w hw
    unfold wscaLine
    rw [trim_self w h1, splitOn_absent hash w h3]
    have hnil : trim ([] : Text) = [] := rfl
    simp only [List.flatten_nil, hnil, trim_self w h1]
  have hmap : ws.map wscaLine = ws.map (fun w => (w, ([] : Text))) := List.map_congr_left hline
  rw [hmap]
  clear hlast hline hmap h
  induction ws with
  | nil => rfl
  | cons w ws ih => simp [List.unzip_cons, ih]

/-! ## alias files -/

/-- an alias line as `conv json` may write it -/
def AliasLineOK (x : Text) : Prop :=
  NoEdgeWs x ∧ 10 ∉ x ∧ x.head? ≠ some hash ∧ intoTag.isPrefixOf x = false ∧ fromTag.isPrefixOf x = false

theorem aliasStep_line (mode : Bool) (into frm : List Text) (x : Text) (h : AliasLineOK x) :
    aliasStep (some mode, into, frm) ([32, 32, 32, 32] ++ x) =
      if mode then (some mode, into ++ [x], frm) else (some mode, into, frm ++ [x]) := by
  have ht : trim ([32, 32, 32, 32] ++ x) = x := by
    have := trim_pad [32, 32, 32, 32] x [] (by simp [isWs]) (by simp) h.1
    simpa using this
  unfold aliasStep
  simp only [ht, h.2.2.2.1, h.2.2.2.2, h.2.2.1, Bool.false_eq_true, if_false]
  cases mode <;> simp

theorem fold_alias_lines (mode : Bool) (into frm : List Text) (xs : List Text) (h : ∀ x ∈ xs, AliasLineOK x) :
    (xs.map ([32, 32, 32, 32] ++ ·)).foldl aliasStep (some mode, into, frm) =
      if mode then (some mode, into ++ xs, frm) else (some mode, into, frm ++ xs) := by
  induction xs generalizing into frm with
  | nil => cases mode <;> simp
  | cons x xs ih =>
    simp only [List.map_cons, List.foldl_cons]
    rw [aliasStep_line mode into frm x (h x (by simp))]
    cases mode
    · simp only [Bool.false_eq_true, if_false]
      rw [ih into (frm ++ [x]) (fun y hy => h y (by simp [hy]))]; simp
    · simp only [if_true]
      rw [ih (into ++ [x]) frm (fun y hy => h y (by simp [hy]))]; simp

theorem aliasStep_into (st : Option Bool × List Text × List Text) : aliasStep st intoTag = (some true, st.2.1, st.2.2) := by
  obtain ⟨m, i, f⟩ := st
  have : trim intoTag = intoTag := trim_self intoTag ⟨by decide, by decide⟩
  unfold aliasStep; rw [this]; simp [intoTag]

theorem aliasStep_from (st : Option Bool × List Text × List Text) : aliasStep st fromTag = (some false, st.2.1, st.2.2) := by
  obtain ⟨m, i, f⟩ := st
  have : trim fromTag = fromTag := trim_self fromTag ⟨by decide, by decide⟩
  unfold aliasStep; rw [this]
  have h1 : intoTag.isPrefixOf fromTag = false := by decide
  have h2 : fromTag.isPrefixOf fromTag = true := by decide
  simp only [h1, h2, Bool.false_eq_true, if_false, if_true]

theorem alias_lines_ok (into frm : List Text) (hi : ∀ x ∈ into, AliasLineOK x) (hf : ∀ x ∈ frm, AliasLineOK x) :
    ∀ l ∈ emitAlias into frm, 10 ∉ l ∧ l.getLast? ≠ some 13 := by
  have pad : ∀ x, AliasLineOK x → 10 ∉ ([32, 32, 32, 32] ++ x) ∧ ([32, 32, 32, 32] ++ x).getLast? ≠ some 13 := by
    intro x hx
    refine ⟨by simp; exact hx.2.1, ?_⟩
    cases x with
    | nil => decide
    | cons c t =>
      intro h
      have : (c :: t).getLast? = some 13 := by simpa [List.getLast?_append] using h
      exact noEdgeWs_last _ hx.1 this
  intro l hl
  unfold emitAlias at hl
  simp only [List.mem_append, List.mem_singleton, List.mem_map] at hl
  rcases hl with ((rfl | ⟨x, hx, rfl⟩) | rfl) | ⟨x, hx, rfl⟩
  · decide
  · exact pad x (hi x hx)
  · decide
  · exact pad x (hf x hx)

/-- **json → alias → json is the identity** -/
theorem parseAlias_toAlias (into frm : List Text) (hi : ∀ x ∈ into, AliasLineOK x) (hf : ∀ x ∈ frm, AliasLineOK x) :
    parseAlias (toAlias into frm) = (into, frm) := by
  unfold parseAlias toAlias
  rw [lines_unlines _ (alias_lines_ok into frm hi hf)]
  unfold parseAliasLines emitAlias
  simp only [List.foldl_append, List.foldl_cons, List.foldl_nil]
  rw [aliasStep_into]
  rw [fold_alias_lines true [] [] into hi]
  simp only [if_true, List.nil_append]
  rw [aliasStep_from]
  rw [fold_alias_lines false into [] frm hf]
  simp

/-! ## the hypotheses are satisfiable -/

/-- `@ One / a > e / # first / # second` and a second group without rules -/
example :
    let g1 : Group := { name := [79, 110, 101], rules := [[97, 32, 62, 32, 101]], desc := [102, 10, 115] }
    let g2 : Group := { name := [84] }
    parseRsca (toRsca [g1, g2]) = [g1, g2] := by decide

/-- the excluded point is real: an entirely empty group is lost -/
example : parseRsca (toRsca [{}, { name := [84] }]) = [{ name := [84] }] := by decide
example : parseRsca (toRsca []) = [] := by decide
/-- a word list ending in an empty word loses it -/
example : (parseWsca (toWsca [[97], []])).1 = [[97]] := by decide
/-- a description beginning with an empty line loses that line -/
example : parseRsca (toRsca [{ name := [84], desc := [10, 100] }]) = [{ name := [84], desc := [100] }] := by decide

end Asca.C19
