import AscaVerif.Props.C03
/-! # C14, end to end — a segmental rule never touches the prosodic tier

`Props/C14.lean` proves the tier separation for the single edits (`apply_seg_mods` without suprasegmentals keeps stress,
tone and segment count; `apply_syll_mods` keeps the segments).  This file carries the first half through the whole scan
of a rule: the statement is `C03.feature_rule_keeps_shape`, proved over the interpreter port by induction on the scan,
for every word, every number of matches and every environment. -/
namespace Asca.C14Scan
open Asca Asca.Interp Asca.C03

/-- **a segmental rule leaves the prosody alone**: `X > [features] / any environment` (X one segment element; the output
    matrix names no length, stress or tone).  If the sub-rule returns a word, every syllable of it has the stress, the
    tone and the number of segments it had; no syllable appears or disappears. -/
theorem segmental_rule_keeps_prosody (r : SubRule) (it : Item) (hit : SegItem it) (mods : Modifiers)
    (hin : r.input = [it]) (hout : r.output = [.matrix mods none]) (hs : mods.suprs = {}) (hty : r.ruleType = .substitution)
    (fuel : Nat) (w w' : Word) (hne : NoEmptySyll w) (h : applySubRule fuel r w = .ok w') :
    w'.sylls.length = w.sylls.length ∧
    ∀ i : Nat, (w'.sylls[i]?).map (fun σ : Syll => (σ.segs.length, σ.stress, σ.tone)) = (w.sylls[i]?).map (fun σ : Syll => (σ.segs.length, σ.stress, σ.tone)) :=
  feature_subrule_keeps_shape r it hit mods hin hout hs hty fuel w w' hne h

/-- and a literal replacement `a > t / any environment` keeps the syllables, their stress and their tone (segment
    counts may shrink: a long `a` becomes one `t`) -/
theorem literal_rule_keeps_prosody (r : SubRule) (a t : Seg) (hin : r.input = [.ipa a none]) (hout : r.output = [.ipa t none])
    (hty : r.ruleType = .substitution) (fuel : Nat) (w w' : Word) (hne : NoEmptySyll w) (h : applySubRule fuel r w = .ok w') :
    w'.sylls.length = w.sylls.length ∧
    ∀ i : Nat, (w'.sylls[i]?).map (fun σ : Syll => (σ.stress, σ.tone)) = (w.sylls[i]?).map (fun σ : Syll => (σ.stress, σ.tone)) :=
  rewrites_prosody a t w w' (basic_rule_sound_env r a t hin hout hty fuel w w' hne h).1

end Asca.C14Scan
