import AscaVerif.Props.C03
import AscaVerif.Props.C12
/-! # C14, end to end — a segmental rule never touches the prosodic tier

`Props/C14.lean` proves the tier separation for the single edits (`apply_seg_mods` without suprasegmentals keeps stress,
tone and segment count; `apply_syll_mods` keeps the segments).  This file carries the first half through the whole scan
of a rule: the statement is `C03.feature_rule_keeps_shape`, proved over the interpreter port by induction on the scan,
for every word, every number of matches and every environment. -/
namespace Asca.C14Scan
open Asca Asca.Interp Asca.C03

/-- **a segmental rule leaves the prosody alone**: `X > [features] / any environment` (X one segment element; the output
    matrix names no length, stress or tone).  If the sub-rule returns a word, every syllable of it has the stress, the
    tone and the number of segments it had; no syllable appears or disappears. -/
theorem segmental_rule_keeps_prosody (r : SubRule) (it : Item) (hit : SegItem it) (mods : Modifiers)
    (hin : r.input = [it]) (hout : r.output = [.matrix mods none]) (hs : mods.suprs = {}) (hty : r.ruleType = .substitution)
    (fuel : Nat) (w w' : Word) (hne : NoEmptySyll w) (h : applySubRule fuel r w = .ok w') :
    w'.sylls.length = w.sylls.length ∧
    ∀ i : Nat, (w'.sylls[i]?).map (fun σ : Syll => (σ.segs.length, σ.stress, σ.tone)) = (w.sylls[i]?).map (fun σ : Syll => (σ.segs.length, σ.stress, σ.tone)) :=
  feature_subrule_keeps_shape r it hit mods hin hout hs hty fuel w w' hne h

/-- and a literal replacement `a > t / any environment` keeps the syllables, their stress and their tone (segment
    counts may shrink: a long `a` becomes one `t`) -/
theorem literal_rule_keeps_prosody (r : SubRule) (a t : Seg) (hin : r.input = [.ipa a none]) (hout : r.output = [.ipa t none])
    (hty : r.ruleType = .substitution) (fuel : Nat) (w w' : Word) (hne : NoEmptySyll w) (h : applySubRule fuel r w = .ok w') :
    w'.sylls.length = w.sylls.length ∧
    ∀ i : Nat, (w'.sylls[i]?).map (fun σ : Syll => (σ.stress, σ.tone)) = (w.sylls[i]?).map (fun σ : Syll => (σ.stress, σ.tone)) :=
  rewrites_prosody a t w w' (basic_rule_sound_env r a t hin hout hty fuel w w' hne h).1


/-- a sub-rule of the segmental form: one segment element in, one matrix without length/stress/tone out -/
def Segmental (s : SubRule) : Prop :=
  ∃ it mods, SegItem it ∧ s.input = [it] ∧ s.output = [.matrix mods none] ∧ mods.suprs = {} ∧ s.ruleType = .substitution

/-- **whole rules**: a rule all of whose sub-rules are segmental (a plain rule, or a condensed rule
    `p, t, k > [+voice], [+cont], [-voice] / …` with whatever environments) keeps the shape of every word it returns -/
theorem segmental_rule_keeps_shape (fuel : Nat) (r : Rule) (subs : List SubRule) (hsplit : splitIntoSubrules r = .ok subs)
    (hall : ∀ s ∈ subs, Segmental s) (w w' : Word) (hne : NoEmptySyll w) (h : applyRule fuel r w = .ok w') : SameShape w w' := by
  rw [C12.applyRule_is_fold fuel r w subs hsplit] at h
  clear hsplit
  induction subs generalizing w with
  | nil => simp [List.foldlM] at h; subst h; exact sameShape_refl w
  | cons s rest ih =>
    simp only [List.foldlM_cons] at h
    cases hs : applySubRule fuel s w with
    | ok w1 =>
      rw [hs] at h
      simp only [Outcome.bind_ok] at h
      obtain ⟨it, mods, h1, h2, h3, h4, h5⟩ := hall s (by simp)
      have hsh := feature_subrule_keeps_shape s it h1 mods h2 h3 h4 h5 fuel w w1 hne hs
      have hne1 := noEmptySyll_of_sameShape w w1 hsh hne
      exact sameShape_trans hsh (ih (fun x hx => hall x (by simp [hx])) w1 hne1 h)
    | err e => rw [hs] at h; simp at h
    | panic e => rw [hs] at h; simp at h
    | outOfFuel e => rw [hs] at h; simp at h

/-- `t > [matrix]` -/
def demoRule : SubRule :=
  { input := [Item.ipa (⟨4#8, 0#8, 0#8, some 16896#16⟩ : Seg) none], output := [Item.matrix Modifiers.empty none],
    context := none, except := none, ruleType := .substitution }

/-- the hypotheses are met -/
example : Segmental demoRule :=
  ⟨Item.ipa (⟨4#8, 0#8, 0#8, some 16896#16⟩ : Seg) none, Modifiers.empty, trivial, rfl, rfl, rfl, rfl⟩

end Asca.C14Scan
