import AscaVerif.Props.C03
import AscaVerif.Props.C05Scan
/-! # C03, completeness of the simplest rule — after `a > t` no `a` is left

`Props/C03.lean` proves that `a > t` changes nothing but runs of `a` (soundness).  This file proves the other half for
the rule without environment: when the scan returns, EVERY occurrence of `a` has been rewritten — the returned word
contains no `a` (for `a ≠ t`).  The proof follows the cursor: everything before it is free of `a`; a miss moves it past
one run that is not `a`; a hit rewrites the run into `t` and moves it past `t`; the scan ends only when the cursor has
left the word.  Positions are `usize` in the code and wrap in the model, so the statement is for words whose syllable
count and syllable lengths are below 2^64 - 1 (`Small`), as every word that fits in memory is. -/
namespace Asca.C03Complete
open Asca Asca.Interp Asca.C03 Asca.C06

/-- the segments in front of a position -/
def before (w : Word) (p : SegPos) : List Seg :=
  (w.sylls.take p.si).flatMap (·.segs) ++ (match w.sylls[p.si]? with | some σ => σ.segs.take p.gi | none => [])

/-- no counter wraps -/
def Small (w : Word) : Prop := w.sylls.length + 1 < U ∧ ∀ σ ∈ w.sylls, σ.segs.length + 1 < U

/-- a cursor the scan can hold: inside the word, or just behind it -/
def Valid (w : Word) (p : SegPos) : Prop := w.inB p = true ∨ (p.si = w.sylls.length ∧ p.gi = 0)

theorem before_end (w : Word) (p : SegPos) (h : p.si = w.sylls.length ∧ p.gi = 0) : before w p = Word.segments w := by
  unfold before Word.segments
  rw [h.1, List.take_length]
  have : w.sylls[w.sylls.length]? = none := List.getElem?_eq_none (Nat.le_refl _)
  simp [this]

theorem inB_iff (w : Word) (p : SegPos) : w.inB p = true ↔ ∃ σ, w.sylls[p.si]? = some σ ∧ p.gi < σ.segs.length := by
  unfold Word.inB Word.inBounds
  cases hs : w.sylls[p.si]? with
  | none => simp
  | some σ => simp

/-- one `increment` from an in-bounds position: the cursor stays valid and passes exactly the segment it stood on -/
theorem increment_step (w : Word) (p : SegPos) (hne : NoEmptySyll w) (hsm : Small w) (σ : Syll) (hσ : w.sylls[p.si]? = some σ)
    (hgi : p.gi < σ.segs.length) :
    Valid w (p.increment w) ∧ before w (p.increment w) = before w p ++ [σ.segs[p.gi]] := by
  have hlen : p.si < w.sylls.length := (List.getElem?_eq_some_iff.mp hσ).1
  have hmem : σ ∈ w.sylls := List.mem_of_getElem? hσ
  have hs1 := hsm.2 σ hmem
  have hgi1 : wadd p.gi 1 = p.gi + 1 := by unfold wadd; exact Nat.mod_eq_of_lt (by omega)
  have hsi1 : wadd p.si 1 = p.si + 1 := by unfold wadd; exact Nat.mod_eq_of_lt (by have := hsm.1; omega)
  unfold SegPos.increment
  simp only [Word.syllLen, hσ, Option.map_some, hgi1]
  by_cases hend : p.gi + 1 ≥ σ.segs.length
  · -- last segment of the syllable: on to the next syllable (or out of the word)
    simp only [hend, if_true, hsi1]
    have hlast : p.gi + 1 = σ.segs.length := by omega
    constructor
    · by_cases hnext : p.si + 1 < w.sylls.length
      · left
        rw [inB_iff]
        refine ⟨w.sylls[p.si + 1], List.getElem?_eq_getElem hnext, ?_⟩
        have := hne _ (List.getElem_mem hnext)
        exact List.length_pos_iff.mpr this
      · right; exact ⟨by simp; omega, rfl⟩
    · unfold before
      simp only [hσ]
      have htake : w.sylls.take (p.si + 1) = w.sylls.take p.si ++ [σ] := by
        rw [List.take_succ_eq_append_getElem hlen]
        congr 2
        have := List.getElem?_eq_getElem hlen
        rw [this] at hσ; exact Option.some.inj hσ
      rw [htake, List.flatMap_append]
      simp only [List.flatMap_cons, List.flatMap_nil, List.append_nil, List.take_zero]
      have hsplit : σ.segs = σ.segs.take p.gi ++ [σ.segs[p.gi]] := by
        conv => lhs; rw [← List.take_append_drop (p.gi + 1) σ.segs]
        rw [List.take_succ_eq_append_getElem hgi, List.drop_eq_nil_of_le (by omega)]
        simp
      cases hn : w.sylls[p.si + 1]? <;> simp [List.append_assoc] <;> rw [hlast, List.take_length]
  · -- inside the syllable
    simp only [hend, if_false]
    have hlt : p.gi + 1 < σ.segs.length := by omega
    constructor
    · left; rw [inB_iff]; exact ⟨σ, hσ, hlt⟩
    · unfold before
      simp only [hσ, List.take_succ_eq_append_getElem hgi, List.append_assoc]


theorem increment_inside (w : Word) (p : SegPos) (hsm : Small w) (σ : Syll) (hσ : w.sylls[p.si]? = some σ)
    (h : p.gi + 1 < σ.segs.length) : p.increment w = { si := p.si, gi := p.gi + 1 } := by
  have hmem : σ ∈ w.sylls := List.mem_of_getElem? hσ
  have hs1 := hsm.2 σ hmem
  have hgi1 : wadd p.gi 1 = p.gi + 1 := by unfold wadd; exact Nat.mod_eq_of_lt (by omega)
  unfold SegPos.increment
  simp only [Word.syllLen, hσ, Option.map_some, hgi1]
  have : ¬ (p.gi + 1 ≥ σ.segs.length) := by omega
  simp [this]

/-- `n` increments inside one syllable -/
theorem incN_in_syll (w : Word) (hne : NoEmptySyll w) (hsm : Small w) (σ : Syll) : ∀ (n : Nat) (p : SegPos), w.sylls[p.si]? = some σ →
    p.gi + n < σ.segs.length →
    incN w n p = { si := p.si, gi := p.gi + n } ∧ before w (incN w n p) = before w p ++ (σ.segs.drop p.gi).take n := by
  intro n
  induction n with
  | zero => intro p _ _; simp [incN]
  | succ n ih =>
    intro p hσ hlt
    have hinc := increment_inside w p hsm σ hσ (by omega)
    have hstep := (increment_step w p hne hsm σ hσ (by omega)).2
    unfold incN
    rw [hinc] at hstep ⊢
    obtain ⟨h1, h2⟩ := ih { si := p.si, gi := p.gi + 1 } hσ (by simp only; omega)
    refine ⟨by rw [h1]; simp only [SegPos.mk.injEq, true_and]; omega, ?_⟩
    rw [h2, hstep]
    simp only [List.append_assoc]
    congr 1
    have hgi : p.gi < σ.segs.length := by omega
    simp only [List.singleton_append]
    rw [List.drop_eq_getElem_cons hgi, List.take_succ_cons]

/-- the members of a run are the segment it starts with -/
theorem runLen_all (x : Seg) : ∀ l : List Seg, ∀ y ∈ l.take (Syll.runLen x l), y = x := by
  intro l
  induction l with
  | nil => intro y hy; simp [Syll.runLen] at hy
  | cons z zs ih =>
    intro y hy
    unfold Syll.runLen at hy
    split at hy
    · rename_i hz
      rw [Nat.add_comm, List.take_succ_cons] at hy
      rcases List.mem_cons.mp hy with h | h
      · rw [h, hz]
      · exact ih y h
    · simp at hy

/-- **past a whole run**: from the first copy of a run of length `L`, `skipRun` then one `increment` leave a valid cursor
    that has passed exactly the `L` copies -/
theorem after_run (w : Word) (p : SegPos) (hne : NoEmptySyll w) (hsm : Small w) (σ : Syll) (hσ : w.sylls[p.si]? = some σ)
    (hgi : p.gi < σ.segs.length) :
    Valid w ((incN w (σ.segLengthAt p.gi - 1) p).increment w) ∧
    before w ((incN w (σ.segLengthAt p.gi - 1) p).increment w) = before w p ++ (σ.segs.drop p.gi).take (σ.segLengthAt p.gi) ∧
    ∀ y ∈ (σ.segs.drop p.gi).take (σ.segLengthAt p.gi), y = σ.segs[p.gi] := by
  have hL := C03.segLengthAt_pos σ p.gi
  have hle := C05Scan.segLengthAt_le σ p.gi hgi
  obtain ⟨h1, h2⟩ := incN_in_syll w hne hsm σ (σ.segLengthAt p.gi - 1) p hσ (by omega)
  have hq : (incN w (σ.segLengthAt p.gi - 1) p).si = p.si ∧ (incN w (σ.segLengthAt p.gi - 1) p).gi = p.gi + (σ.segLengthAt p.gi - 1) := by
    rw [h1]; exact ⟨rfl, rfl⟩
  have hσq : w.sylls[(incN w (σ.segLengthAt p.gi - 1) p).si]? = some σ := by rw [hq.1]; exact hσ
  have hgq : (incN w (σ.segLengthAt p.gi - 1) p).gi < σ.segs.length := by rw [hq.2]; omega
  obtain ⟨hv, hb⟩ := increment_step w _ hne hsm σ hσq hgq
  refine ⟨hv, ?_, ?_⟩
  · rw [hb, h2, List.append_assoc]
    congr 1
    have e : σ.segLengthAt p.gi = (σ.segLengthAt p.gi - 1) + 1 := by omega
    conv => rhs; rw [e]
    rw [List.take_succ_eq_append_getElem (by simp; omega)]
    congr 2
    simp [hq.2]
  · intro y hy
    unfold Syll.segLengthAt at hy
    simp only [List.getElem?_eq_getElem hgi] at hy
    rw [List.drop_eq_getElem_cons hgi, Nat.add_comm, List.take_succ_cons] at hy
    rcases List.mem_cons.mp hy with h | h
    · exact h
    · exact runLen_all _ _ y h



/-- the scan for the literal `a`, with the cursor invariant: it ends behind the word (then no `a` is left at all), runs
    out of fuel, or captures the first `a` at or after the cursor — and nothing in front of that capture is `a` -/
theorem scan_literal_complete (w : Word) (a : Seg) (hne : NoEmptySyll w) (hsm : Small w) :
    ∀ (fuel : Nat) (cur : SegPos) (b : Binds), Valid w cur → a ∉ before w cur →
      (∃ b', inMatchAtLoop [.ipa a none] fuel w cur none 0 [] b = .ok ([], none, none, false, b') ∧ a ∉ Word.segments w) ∨
      (∃ site, inMatchAtLoop [.ipa a none] fuel w cur none 0 [] b = .outOfFuel site) ∨
      (∃ p nx b' σ, inMatchAtLoop [.ipa a none] fuel w cur none 0 [] b = .ok ([.segment p none], some nx, none, true, b') ∧
          w.sylls[p.si]? = some σ ∧ p.gi < σ.segs.length ∧ σ.segs[p.gi]? = some a ∧ a ∉ before w p) := by
  intro fuel
  induction fuel with
  | zero => intro cur b _ _; right; left; exact ⟨_, rfl⟩
  | succ fuel ih =>
    intro cur b hv hbef
    cases hb : w.inB cur with
    | false =>
      left
      have hend : cur.si = w.sylls.length ∧ cur.gi = 0 := by
        rcases hv with h | h
        · rw [hb] at h; cases h
        · exact h
      refine ⟨b, by simp [inMatchAtLoop, hb], ?_⟩
      rw [← before_end w cur hend]; exact hbef
    | true =>
      cases fuel with
      | zero => right; left; exact ⟨"input_match_item", by simp [inMatchAtLoop, hb, inMatchItem]⟩
      | succ fuel =>
        obtain ⟨σ, hσ, hgi⟩ := (inB_iff w cur).mp hb
        have hseg : w.segAt cur = some σ.segs[cur.gi] := by
          simp [Word.segAt, Word.getSegAt, hσ, List.getElem?_eq_getElem hgi]
        have hL : w.segLen cur = .ok (σ.segLengthAt cur.gi) := by simp [Word.segLen, Word.segLengthAt, hσ]
        by_cases heq : a = σ.segs[cur.gi]
        · right; right
          refine ⟨cur, (incN w (σ.segLengthAt cur.gi - 1) cur).increment w, b, σ, ?_, hσ, hgi, by rw [List.getElem?_eq_getElem hgi, heq], hbef⟩
          rw [inMatchAtLoop]
          simp [hb, inMatchItem, inMatchIpa, hseg, skipRun, hL, heq]
        · have step : inMatchAtLoop [.ipa a none] (fuel + 1 + 1) w cur none 0 [] b
              = inMatchAtLoop [.ipa a none] (fuel + 1) w ((incN w (σ.segLengthAt cur.gi - 1) cur).increment w) none 0 [] {} := by
            rw [inMatchAtLoop]
            simp [hb, inMatchItem, inMatchIpa, hseg, skipRun, hL, heq]
          rw [step]
          obtain ⟨hv', hb', hrun⟩ := after_run w cur hne hsm σ hσ hgi
          apply ih _ {} hv'
          rw [hb']
          intro hmem
          rcases List.mem_append.mp hmem with h | h
          · exact hbef h
          · exact heq (hrun a h)

theorem take_set_self {α} (l : List α) (i : Nat) (x : α) : (l.set i x).take i = l.take i := by
  rw [List.take_set]
  exact List.set_eq_of_length_le (by simp only [List.length_take]; omega)

/-- what one rewriting step does to the invariants -/
theorem step_invariants (w : Word) (p : SegPos) (σ : Syll) (a t : Seg) (hat : a ≠ t) (hσ : w.sylls[p.si]? = some σ) (hgi : p.gi < σ.segs.length)
    (hne : NoEmptySyll w) (hsm : Small w) (hbef : a ∉ before w p) :
    let w' := setSyll w p.si (rewriteRun σ p.gi t)
    Valid w' (({ si := p.si, gi := p.gi } : SegPos).increment w') ∧ a ∉ before w' (({ si := p.si, gi := p.gi } : SegPos).increment w') ∧
      Small w' ∧ NoEmptySyll w' := by
  intro w'
  have hlen : p.si < w.sylls.length := (List.getElem?_eq_some_iff.mp hσ).1
  obtain ⟨_, _, hfr⟩ := rewriteRun_frame σ p.gi t hgi
  have hσ' : w'.sylls[p.si]? = some (rewriteRun σ p.gi t) := by simp [w', setSyll, List.getElem?_set_self hlen]
  have hgi' : p.gi < (rewriteRun σ p.gi t).segs.length := by rw [hfr]; simp; omega
  have hne' : NoEmptySyll w' := noEmptySyll_step w p σ t hne hgi
  have hL := C03.segLengthAt_pos σ p.gi
  have hle := C05Scan.segLengthAt_le σ p.gi hgi
  have hsm' : Small w' := by
    refine ⟨by simp [w', setSyll]; exact hsm.1, ?_⟩
    intro τ hτ
    simp only [w', setSyll] at hτ
    rcases List.mem_or_eq_of_mem_set hτ with h | h
    · exact hsm.2 τ h
    · rw [h, hfr]
      have := hsm.2 σ (List.mem_of_getElem? hσ)
      simp; omega
  obtain ⟨hv, hb⟩ := increment_step w' { si := p.si, gi := p.gi } hne' hsm' (rewriteRun σ p.gi t) hσ' hgi'
  refine ⟨hv, ?_, hsm', hne'⟩
  rw [hb]
  have hget : (rewriteRun σ p.gi t).segs[p.gi] = t := by
    have h1 : (rewriteRun σ p.gi t).segs[p.gi]? = some t := by
      rw [hfr, List.getElem?_append_right (by simp; omega)]
      simp [Nat.min_eq_left (Nat.le_of_lt hgi)]
    rw [List.getElem?_eq_getElem hgi'] at h1
    exact Option.some.inj h1
  have hbefeq : before w' { si := p.si, gi := p.gi } = before w p := by
    unfold before
    simp only [hσ', hσ]
    have h1 : w'.sylls.take p.si = w.sylls.take p.si := by simp only [w', setSyll]; exact take_set_self _ _ _
    rw [h1, hfr]
    congr 1
    rw [List.take_append_of_le_length (by simp; omega), List.take_take, Nat.min_self]
  rw [hbefeq, hget]
  intro hmem
  rcases List.mem_append.mp hmem with h | h
  · exact hbef h
  · simp at h; exact hat h

/-- **completeness**: `a > t` without environment, `a ≠ t`: when the scan returns, the word holds no `a` -/
theorem basic_scan_complete (r : SubRule) (a t : Seg) (hat : a ≠ t) (hin : r.input = [.ipa a none]) (hout : r.output = [.ipa t none])
    (hctx : r.context = none) (hexc : r.except = none) (hty : r.ruleType = .substitution) :
    ∀ (fuel : Nat) (w : Word) (cur : SegPos), NoEmptySyll w → Small w → Valid w cur → a ∉ before w cur →
      ∀ w', applyLoop r fuel w cur = .ok w' → a ∉ Word.segments w' := by
  intro fuel
  induction fuel with
  | zero => intro w cur _ _ _ _ w' h; simp [applyLoop] at h
  | succ fuel ih =>
    intro w cur hne hsm hv hbef w' hres
    rcases scan_literal_complete w a hne hsm fuel cur {} hv hbef with ⟨b', h, hdone⟩ | ⟨site, h⟩ | ⟨p, nx, b', σ, h, hσ1, hσ2, hσ3, hbp⟩
    · have : applyLoop r (fuel + 1) w cur = .ok w := by simp [applyLoop, inputMatchAt, hin, h]
      rw [this] at hres; cases hres; exact hdone
    · have : applyLoop r (fuel + 1) w cur = .outOfFuel site := by simp [applyLoop, inputMatchAt, hin, h]
      rw [this] at hres; cases hres
    · have hL : w.segLen p = .ok (σ.segLengthAt p.gi) := by simp [Word.segLen, Word.segLengthAt, hσ1]
      have hstep := substitution_basic_step r w p t (.ipa a none) σ b' (some nx) hin hout hσ1 hσ2 hne
      simp only at hstep
      have hloop : applyLoop r (fuel + 1) w cur
          = applyLoop r fuel (setSyll w p.si (rewriteRun σ p.gi t)) (({ si := p.si, gi := p.gi } : SegPos).increment (setSyll w p.si (rewriteRun σ p.gi t))) := by
        rw [applyLoop]
        simp [inputMatchAt, hin, h, matchSpan, hL, matchContextsAndExceptions, hctx, hexc, envsOf, transform, hty, hstep]
      rw [hloop] at hres
      obtain ⟨hv', hbef', hsm', hne'⟩ := step_invariants w p σ a t hat hσ1 hσ2 hne hsm hbp
      exact ih _ _ hne' hsm' hv' hbef' w' hres

/-- **`a > t` does exactly what it says** (no environment, `a ≠ t`): whenever `SubRule::apply` returns a word, that word
    is a rewriting of runs of `a` into `t` (nothing else changed: `basic_rule_sound`) AND contains no `a` any more. -/
theorem basic_rule_exact (r : SubRule) (a t : Seg) (hat : a ≠ t) (hin : r.input = [.ipa a none]) (hout : r.output = [.ipa t none])
    (hctx : r.context = none) (hexc : r.except = none) (hty : r.ruleType = .substitution)
    (fuel : Nat) (w w' : Word) (hne : NoEmptySyll w) (hsm : Small w) (hnonempty : w.sylls ≠ []) (h : applySubRule fuel r w = .ok w') :
    Rewrites a t w w' ∧ a ∉ Word.segments w' := by
  have hni : r.ruleType ≠ .insertion := by rw [hty]; decide
  refine ⟨(basic_rule_sound_env r a t hin hout hty fuel w w' hne h).1, ?_⟩
  simp only [applySubRule, hni, if_false] at h
  have hv : Valid w { si := 0, gi := 0 } := by
    left
    rw [inB_iff]
    cases hs : w.sylls with
    | nil => exact absurd hs hnonempty
    | cons σ rest =>
      refine ⟨σ, by simp, ?_⟩
      have := hne σ (by rw [hs]; simp)
      exact List.length_pos_iff.mpr this
  have hb : a ∉ before w { si := 0, gi := 0 } := by
    unfold before
    cases hs : w.sylls[0]? <;> simp
  exact basic_scan_complete r a t hat hin hout hctx hexc hty fuel w _ hne hsm hv hb w' h

/-- the hypotheses are met by the word `pa` -/
example : Small { sylls := [{ segs := [⟨4#8, 0#8, 0#8, some 32768#16⟩, ⟨3#8, 192#8, 4#8, some 40976#16⟩] }] } := by
  refine ⟨by decide, ?_⟩
  intro σ hσ
  simp only [List.mem_singleton] at hσ
  subst hσ
  decide


end Asca.C03Complete
