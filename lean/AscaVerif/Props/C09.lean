import AscaVerif.Model.Render
import AscaVerif.Model.ParseWord
/-! # C09 — ASCA can read back what it writes

What is proved here (all re-checked against the regenerated tables on every build):
* the exact-match phase of the renderer returns a grapheme of the table whose bundle is the segment;
* every grapheme of the table, read as a word, parses to exactly its own bundle (longest-match parser included),
  so every segment that *is* a base phone round-trips through text;
* table side conditions the word syntax relies on (no grapheme contains a digit, `.`, `ː`, a stress mark or a
  space; no diacritic character starts a grapheme; diacritic characters are distinct).
The full statement `parse (render w) = w` for arbitrary diacritic stacks is **not** proved; it is false on the
current data for the bundles listed in known_findings.json (rendering `base + diacritic` that is itself another
grapheme).  It is checked exhaustively over the property's enumerated space by the `c09` suites. -/
namespace Asca.C09
open Asca Asca.Render Asca.ParseWord Outcome

/-- **exact-match phase**: a segment that is a base phone renders as a grapheme of the table with that bundle
    (for any walking order of the table). -/
theorem render_base (ord : Table) (s : Seg) (h : ∃ k, (k, s) ∈ ord) :
    ∃ k', segToText ord s = .ok (some k') ∧ (k', s) ∈ ord := by
  obtain ⟨k, hk⟩ := h
  unfold segToText
  cases hf : ord.find? (fun (x : Text × Seg) => x.2 = s) with
  | none =>
    have := List.find?_eq_none.mp hf (k, s) hk
    simp at this
  | some r =>
    obtain ⟨k', s'⟩ := r
    have hm := List.mem_of_find?_eq_some hf
    have hp := List.find?_some hf
    simp at hp; subst hp
    exact ⟨k', rfl, hm⟩

def oneSegWord (s : Seg) : Word := { sylls := [{ segs := [s] }], americanist := false }

/-- executable form: every grapheme of the table parses to its own bundle -/
def basesReadBack : Bool :=
  Gen.cardinals.all fun (k, s) => decide (parseWord k = .ok (oneSegWord s))

theorem bases_read_back_all : basesReadBack = true := by decide +kernel

/-- **every base grapheme reads back as its own bundle** -/
theorem bases_read_back (k : Text) (s : Seg) (h : (k, s) ∈ Gen.cardinals) : parseWord k = .ok (oneSegWord s) := by
  have := List.all_eq_true.mp bases_read_back_all (k, s) h
  simpa using this

/-- consequently a one-segment word whose segment is a base phone round-trips (table order) -/
theorem base_roundtrip (s : Seg) (h : ∃ k, (k, s) ∈ Gen.cardinals) :
    ∃ t, segToText Gen.cardinals s = .ok (some t) ∧ parseWord t = .ok (oneSegWord s) := by
  obtain ⟨k', h1, h2⟩ := render_base Gen.cardinals s h
  exact ⟨k', h1, bases_read_back k' s h2⟩

/-! ## table side conditions -/

/-- characters with a meaning of their own in a word: digits, `.`, `ː`, `ˈ`, `ˌ`, space, and the input respellings -/
def isMarkChar (c : Nat) : Bool :=
  Text.isAsciiDigit c || c == 0x2E || c == 0x2D0 || c == 0x2C8 || c == 0x2CC || c == 0x20 || c == 0x27 || c == 0x2C || c == 0x3A || c == 0x3B

theorem keys_have_no_mark_chars : Gen.cardinals.all (fun (k, _) => k.all (fun c => !isMarkChar c) && !k.isEmpty) = true := by
  decide +kernel

theorem no_diacritic_starts_a_key :
    Gen.diacritics.all (fun d => Gen.cardinals.all (fun (k, _) => k.head? != some d.chr)) = true := by decide +kernel

theorem diacritic_chars_distinct : (Gen.diacritics.map (·.chr)).Nodup := by decide +kernel

theorem diacritics_are_not_mark_chars : Gen.diacritics.all (fun d => !isMarkChar d.chr) = true := by decide

/-- the diacritic tables never name the `Place` node (which `is_node_some` / `set_node` would panic on) and have
    the lengths the code indexes them with -/
theorem diacritics_wellformed :
    Gen.diacritics.all (fun d => d.prereqNodes.length == 8 && d.payloadNodes.length == 8 && d.prereqFeats.length == 26 &&
      d.payloadFeats.length == 26 && d.prereqNodes[3]? == some none && d.payloadNodes[3]? == some none) = true := by decide

/-! Non-vacuity -/
example : parseWord [112, 97, 720, 46, 116, 97, 53, 49] =
    .ok { sylls := [{ segs := [⟨4#8, 0#8, 0#8, some 32768#16⟩, ⟨3#8, 192#8, 4#8, some 40976#16⟩, ⟨3#8, 192#8, 4#8, some 40976#16⟩] },
                    { segs := [⟨4#8, 0#8, 0#8, some 16896#16⟩, ⟨3#8, 192#8, 4#8, some 40976#16⟩], tone := 51 }] } := by decide +kernel

end Asca.C09
