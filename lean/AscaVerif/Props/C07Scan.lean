import AscaVerif.Props.C03
import AscaVerif.Props.C07
/-! # C07, end to end — `[matrix]=k > k` gives back what it captured

`Props/C07.lean` proves the laws of the binding table and of the single matchers.  This file carries the simplest
variable rule through the whole scan of the interpreter port: a rule that binds the matched segment to a variable and
writes that variable back (`C=1 > 1`, `[+voice]=2 > 2`, no environment) returns EVERY word unchanged — whatever the
word, however many matches, long segments included.  (With an environment the statement would be false in general: a
context may bind the same number again; that case stays with the search.) -/
namespace Asca.C07Scan
open Asca Asca.Interp Asca.C03

/-- the scan for `[matrix]=k`: a capture comes with the captured segment bound to `k` -/
theorem scan_matrix_var (w : Word) (m : Modifiers) (k : Nat) :
    ∀ (fuel : Nat) (cur : SegPos) (b : Binds) (res : List MatchEl × Option SegPos × Option SegPos × Bool × Binds),
      inMatchAtLoop [.matrix m (some k)] fuel w cur none 0 [] b = .ok res →
      (res.1 = [] ∧ res.2.2.2.1 = false) ∨
      (∃ p nx seg, res.1 = [.segment p none] ∧ res.2.1 = some nx ∧ res.2.2.2.1 = true ∧ w.segAt p = some seg ∧
        res.2.2.2.2.getVar k = some (.seg seg)) := by
  intro fuel
  induction fuel with
  | zero => intro cur b res h; simp [inMatchAtLoop] at h
  | succ fuel ih =>
    intro cur b res h
    cases hb : w.inB cur with
    | false =>
      simp [inMatchAtLoop, hb] at h
      subst h; left; exact ⟨rfl, rfl⟩
    | true =>
      cases fuel with
      | zero => simp [inMatchAtLoop, hb, inMatchItem] at h
      | succ fuel =>
        obtain ⟨seg, hseg⟩ := C06.segAt_of_inB w cur hb
        obtain ⟨q, hq⟩ := skipRun_ok w cur hb
        rw [inMatchAtLoop] at h
        simp only [hb, Bool.not_true, Bool.false_eq_true, if_false, inMatchItem, List.getElem?_cons_zero, inMatchMatrix] at h
        cases hm : matchModifiers w m cur b with
        | ok r =>
          obtain ⟨hit, b1⟩ := r
          simp only [hm, Outcome.bind_ok, hq] at h
          cases hit with
          | false =>
            simp at h
            exact ih _ _ res h
          | true =>
            simp [hseg] at h
            subst h
            right
            exact ⟨cur, _, seg, rfl, rfl, rfl, hseg, C07.getVar_setVar_same b1 k (.seg seg)⟩
        | err e => simp [hm] at h
        | panic e => simp [hm] at h
        | outOfFuel e => simp [hm] at h

/-- one step of `[matrix]=k > k`: writing the captured segment back where it was captured leaves the word as it is -/
theorem substitution_var_step (r : SubRule) (w : Word) (sp : SegPos) (m : Modifiers) (k : Nat) (seg : Seg) (σ : Syll) (b : Binds)
    (next : Option SegPos)
    (hin : r.input = [.matrix m (some k)]) (hout : r.output = [.variable k none]) (hk : k < U)
    (hσ : w.sylls[sp.si]? = some σ) (hseg : w.segAt sp = some seg) (hvar : b.getVar k = some (.seg seg)) (hwf : NoEmptySyll w) :
    ∃ nx, substitution r w [.segment sp none] next b = .ok (w, nx, b) := by
  have hlen : sp.si < w.sylls.length := (List.getElem?_eq_some_iff.mp hσ).1
  have hrep : (List.replicate w.sylls.length (0 : Int))[sp.si]? = some 0 := by
    rw [List.getElem?_replicate]; simp [hlen]
  have hset := C07.setSegAt_same w sp seg "substitution: syllables[sp.syll_index].segments[sp.seg_index] = seg" hseg
  unfold substitution
  simp only [hin, hout, List.length_singleton]
  have hpairs : substPairs r 1 1 0 [.matrix m (some k)] [.variable k none] [.segment sp none]
      { w := w, tlc := List.replicate w.sylls.length 0, last := { si := 0, gi := 0 }, b := b } =
      .ok { w := w, tlc := List.replicate w.sylls.length 0, last := bump sp 0 1 1 0, b := b } := by
    simp [substPairs, substStep, varIndex, hk, hvar, adjust, tlcGet, hrep, writeSeg, hset]
  rw [hpairs]
  simp only [Outcome.bind_ok, Nat.lt_irrefl, if_false, Outcome.pure_eq]
  have hnn : w.sylls ≠ [] := by intro h; rw [h] at hlen; simp at hlen
  have hl2 : (w.sylls.getLast hnn).segs.isEmpty = false := by
    have := hwf _ (List.getLast_mem hnn)
    cases hs : (w.sylls.getLast hnn).segs with
    | nil => exact absurd hs this
    | cons a as => rfl
  rw [List.getLast?_eq_some_getLast hnn]
  simp only [hl2, Bool.false_eq_true, if_false]
  exact ⟨_, rfl⟩

/-- **`[matrix]=k > k` is the identity on every word** (no environment): whenever the sub-rule returns, it returns the
    word it was given -/
theorem variable_identity_scan (r : SubRule) (m : Modifiers) (k : Nat) (hk : k < U)
    (hin : r.input = [.matrix m (some k)]) (hout : r.output = [.variable k none])
    (hctx : r.context = none) (hexc : r.except = none) (hty : r.ruleType = .substitution) :
    ∀ (fuel : Nat) (w : Word) (cur : SegPos), NoEmptySyll w → ∀ w', applyLoop r fuel w cur = .ok w' → w' = w := by
  intro fuel
  induction fuel with
  | zero => intro w cur _ w' h; simp [applyLoop] at h
  | succ fuel ih =>
    intro w cur hne w' hres
    rw [applyLoop] at hres
    unfold inputMatchAt at hres
    rw [hin] at hres
    cases hl : inMatchAtLoop [.matrix m (some k)] fuel w cur none 0 [] {} with
    | ok res =>
      obtain ⟨caps, next, mb, full, b1⟩ := res
      rw [hl] at hres
      rcases scan_matrix_var w m k fuel cur {} _ hl with ⟨h1, h2⟩ | ⟨p, nx, seg, h1, h2, h3, hseg, hvar⟩
      · simp only at h1 h2; subst h1; subst h2
        cases mb <;> simp at hres <;> exact hres.symm
      · simp only at h1 h2 h3 hvar; subst h1; subst h2; subst h3
        have hinb : w.inB p = true := by
          unfold Word.segAt Word.getSegAt at hseg
          unfold Word.inB Word.inBounds
          cases hs : w.sylls[p.si]? with
          | none => simp [hs] at hseg
          | some σ =>
            simp only [hs] at hseg ⊢
            have : p.gi < σ.segs.length := by
              apply Classical.byContradiction; intro hc
              have : σ.segs[p.gi]? = none := List.getElem?_eq_none (by omega)
              simp [this] at hseg
            simp [this]
        obtain ⟨L, hL⟩ := C06.segLen_of_inB w p hinb
        have hσ : ∃ σ, w.sylls[p.si]? = some σ := by
          unfold Word.inB Word.inBounds at hinb
          cases hs : w.sylls[p.si]? with
          | none => simp [hs] at hinb
          | some σ => exact ⟨σ, rfl⟩
        obtain ⟨σ, hσ1⟩ := hσ
        obtain ⟨nx', hstep⟩ := substitution_var_step r w p m k seg σ b1 (some nx) hin hout hk hσ1 hseg hvar hne
        simp [matchSpan, hL, matchContextsAndExceptions, hctx, hexc, envsOf, transform, hty, hstep] at hres
        cases nx' with
        | none => simp at hres; exact hres.symm
        | some ci => simp at hres; exact ih w ci hne w' hres
    | err e => rw [hl] at hres; simp at hres
    | panic e => rw [hl] at hres; simp at hres
    | outOfFuel e => rw [hl] at hres; simp at hres

theorem variable_identity_rule (r : SubRule) (m : Modifiers) (k : Nat) (hk : k < U)
    (hin : r.input = [.matrix m (some k)]) (hout : r.output = [.variable k none])
    (hctx : r.context = none) (hexc : r.except = none) (hty : r.ruleType = .substitution)
    (fuel : Nat) (w w' : Word) (hne : NoEmptySyll w) (h : applySubRule fuel r w = .ok w') : w' = w := by
  have hni : r.ruleType ≠ .insertion := by rw [hty]; decide
  simp only [applySubRule, hni, if_false] at h
  exact variable_identity_scan r m k hk hin hout hctx hexc hty fuel w _ hne w' h

end Asca.C07Scan
