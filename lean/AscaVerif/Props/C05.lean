import AscaVerif.Model.Syll
import AscaVerif.Model.Interp.Subst
/-! # C05 — stress, length and tone modifiers follow the manual's three-way tables

`lenOK` / `stressOK` / `setLen` / `setStress` are the two tables of `doc.md` §Suprasegmental Features written
out; the theorems say the ported matchers and setters of `syll.rs` / `subrule.rs` compute exactly these tables,
for runs of any length and syllables of any shape. -/
namespace Asca.C05
open Asca Asca.Syll Asca.Match Outcome

/-! ## the manual's tables -/

/-- a `+`/`-` modifier as the model's `Option ModKind` -/
def bin : Option Bool → Option ModKind
  | none => none
  | some true => some (.bin .pos)
  | some false => some (.bin .neg)

/-- Length table: `[-long]` short, `[+long]` at least long, `[+overlong]` overlong, `[-overlong]` at most long. -/
def lenOK (long overlong : Option Bool) (L : Nat) : Bool :=
  (match long with | none => true | some true => decide (L ≥ 2) | some false => decide (L ≤ 1)) &&
  (match overlong with | none => true | some true => decide (L ≥ 3) | some false => decide (L ≤ 2))

/-- Stress table: `[+stress]` primary or secondary, `[-stress]` unstressed, `[+sec]` secondary only, `[-sec]` not secondary. -/
def stressOK (stress sec : Option Bool) (st : Stress) : Bool :=
  (match stress with | none => true | some true => st != .unstressed | some false => st == .unstressed) &&
  (match sec with | none => true | some true => st == .secondary | some false => st != .secondary)

/-- the length a run has after setting the modifier (`none` = contradictory combination, reported as an error) -/
def setLen (long overlong : Option Bool) (L : Nat) : Option Nat :=
  match long, overlong with
  | none, none => some L
  | none, some true => some (if L < 3 then 3 else L)
  | none, some false => some (if L > 2 then 2 else L)
  | some true, none => some (if L < 2 then 2 else L)
  | some false, none => some (if L > 1 then 1 else L)
  | some true, some true => some (if L < 3 then 3 else L)
  | some true, some false => some 2
  | some false, some false => some (if L > 1 then 1 else L)
  | some false, some true => none

def setStress (stress sec : Option Bool) (st : Stress) : Option Stress :=
  match stress, sec with
  | none, none => some st
  | none, some true => some .secondary
  | none, some false => some (if st = .secondary then .unstressed else st)
  | some true, none => some .primary
  | some false, none => some .unstressed
  | some true, some true => some .secondary
  | some true, some false => some .primary
  | some false, some false => some .unstressed
  | some false, some true => none

/-! ## matching = table -/

theorem matchSegLength_eq (al : Alphas) (long overlong : Option Bool) (L : Nat) :
    matchSegLength al (bin long) (bin overlong) L = (lenOK long overlong L, al) := by
  rcases long with _ | _ | _ <;> rcases overlong with _ | _ | _ <;>
    simp [matchSegLength, matchLengthEntry, bin, lenOK] <;>
    (try (by_cases h2 : 2 ≤ L <;> by_cases h3 : 3 ≤ L <;> simp [h2, h3] <;> omega)) <;>
    (try (by_cases h1 : L < 2 <;> by_cases h3 : 3 ≤ L <;> simp [h1, h3] <;> omega))

theorem matchStress_eq (al : Alphas) (stress sec : Option Bool) (σ : Syll) :
    matchStress al (bin stress) (bin sec) σ = (stressOK stress sec σ.stress, al) := by
  rcases stress with _ | _ | _ <;> rcases sec with _ | _ | _ <;>
    cases hs : σ.stress <;> simp [matchStress, matchStressEntry, bin, stressOK, hs] <;> decide

/-- tone: `[tone:n]` matches the whole tone; `0` is "no tone" -/
theorem matchTone_eq (t : Nat) (σ : Syll) : (t == σ.tone) = decide (t = σ.tone) := rfl

/-! ## setting = table -/

private theorem asBool_bin (b : Bool) (al : Alphas) : ∀ k, bin (some b) = some k → k.asBool al = .ok b := by
  intro k hk; cases b <;> simp [bin] at hk <;> subst hk <;> rfl

/-- `apply_syll_mods`: stress by the table, tone replaced when named, segments untouched;
    the contradictory `[-stress, +sec.stress]` is an error. -/
theorem applySyllMods_eq (σ : Syll) (al : Alphas) (stress sec : Option Bool) (tone : Option Nat)
    (long overlong : Option ModKind) :
    σ.applySyllMods al { stress := bin stress, secStress := bin sec, long := long, overlong := overlong, tone := tone } =
      (match setStress stress sec σ.stress with
       | some st => .ok { σ with stress := st, tone := tone.getD σ.tone }
       | none => .err "SecStrPosStrNeg") := by
  rcases stress with _ | _ | _ <;> rcases sec with _ | _ | _ <;> cases tone <;>
    simp [applySyllMods, newStress, bin, setStress, ModKind.asBool] <;>
    (try (cases σ.stress <;> simp)) <;> rfl

theorem runLen_replicate (x : Seg) (k : Nat) (post : List Seg) (h : post.head? ≠ some x) :
    runLen x (List.replicate k x ++ post) = k := by
  induction k with
  | zero =>
    cases post with
    | nil => rfl
    | cons y ys =>
      have : y ≠ x := fun e => h (by simp [e])
      simp [runLen, this]
  | succ k ih => simp [List.replicate_succ, runLen, ih]; omega

/-- the length of a maximal run, read at its first position -/
theorem segLengthAt_run (pre post : List Seg) (x : Seg) (L : Nat) (hL : 1 ≤ L) (h : post.head? ≠ some x)
    (st : Stress) (t : Nat) :
    ({ segs := pre ++ List.replicate L x ++ post, stress := st, tone := t } : Syll).segLengthAt pre.length = L := by
  obtain ⟨k, rfl⟩ : ∃ k, L = k + 1 := ⟨L - 1, by omega⟩
  unfold segLengthAt
  have h1 : (pre ++ List.replicate (k + 1) x ++ post)[pre.length]? = some x := by
    simp [List.getElem?_append_right, List.replicate_succ]
  have h2 : (pre ++ List.replicate (k + 1) x ++ post).drop (pre.length + 1) = List.replicate k x ++ post := by
    rw [List.append_assoc, List.drop_append]
    simp [List.replicate_succ]
  simp only [h1, h2, runLen_replicate x k post h]; omega

private theorem grow_run (pre post : List Seg) (x : Seg) (L t : Nat) :
    growTo (pre ++ List.replicate L x ++ post) pre.length x L t =
      (pre ++ List.replicate (if L < t then t else L) x ++ post, ((if L < t then t else L : Nat) : Int) - (L : Int)) := by
  unfold growTo
  by_cases c : L < t
  · simp only [c, if_true]
    have : insertCopies (pre ++ List.replicate L x ++ post) pre.length x (t - L) = pre ++ List.replicate t x ++ post := by
      simp only [insertCopies, List.append_assoc, List.take_append, List.drop_append]
      simp
      rw [← List.append_assoc, List.replicate_append_replicate]
      congr 2; omega
    rw [this]; congr 1; omega
  · simp only [c, if_false]; congr 1; omega

private theorem shrink_run (pre post : List Seg) (x : Seg) (L t : Nat) :
    shrinkTo (pre ++ List.replicate L x ++ post) pre.length L t =
      (pre ++ List.replicate (if L > t then t else L) x ++ post, ((if L > t then t else L : Nat) : Int) - (L : Int)) := by
  unfold shrinkTo
  by_cases c : L > t
  · simp only [c, if_true]
    have : removeN (pre ++ List.replicate L x ++ post) pre.length (L - t) = pre ++ List.replicate t x ++ post := by
      simp only [removeN, List.append_assoc]
      rw [List.take_append, List.drop_append]
      simp [List.drop_append, List.drop_replicate]
      have h1 : List.drop (pre.length + (L - t)) pre = [] := List.drop_eq_nil_iff.mpr (by omega)
      have h2 : L - t - L = 0 := by omega
      have h3 : L - (L - t) = t := by omega
      simp [h1, h2, h3]
    rw [this]; congr 1; omega
  · simp only [c, if_false]; congr 1; omega

/-- **setting length**: on a maximal run of length `L ≥ 1` starting at `pos`, the length part of `apply_supras`
    replaces the run by one of length `setLen … L`, leaves every other segment untouched, reports the difference
    as the length change, and is an error exactly for `[-long, +overlong]`. -/
theorem applyLength_run (pre post : List Seg) (x : Seg) (L : Nat) (hL : 1 ≤ L) (h : post.head? ≠ some x)
    (st : Stress) (t : Nat) (al : Alphas) (long overlong : Option Bool) (stress sec : Option ModKind) (tone : Option Nat) :
    ({ segs := pre ++ List.replicate L x ++ post, stress := st, tone := t } : Syll).applyLength al
        { stress := stress, secStress := sec, long := bin long, overlong := bin overlong, tone := tone } pre.length =
      (match setLen long overlong L with
       | some L' => .ok (pre ++ List.replicate L' x ++ post, (L' : Int) - (L : Int))
       | none => .err "OverlongPosLongNeg") := by
  have hlen := segLengthAt_run pre post x L hL h st t
  have hget : (pre ++ List.replicate L x ++ post)[pre.length]? = some x := by
    obtain ⟨k, rfl⟩ : ∃ k, L = k + 1 := ⟨L - 1, by omega⟩
    simp [List.getElem?_append_right, List.replicate_succ]
  have e1 : (BinMod.neg == BinMod.pos) = false := by decide
  have e2 : (BinMod.pos == BinMod.pos) = true := by decide
  unfold applyLength
  simp only [hget, hlen]
  rcases long with _ | _ | _ <;> rcases overlong with _ | _ | _ <;>
    simp only [bin, setLen, ModKind.asBool, bind_ok, pure_eq, e1, e2, if_true, Bool.false_eq_true, if_false,
      grow_run, shrink_run]
  · simp
  · -- [+long, -overlong]: exactly long
    by_cases c : L > 2
    · simp [c]
    · have c' : L < 2 ∨ L = 2 := by omega
      rcases c' with c' | c'
      · simp [c, c']
      · subst c'; simp

/-- **`apply_supras` on a maximal run**: the run gets the table's length, the syllable the table's stress, the
    tone is replaced when named; every other segment is untouched; contradictory combinations are errors. -/
theorem applySupras_run (pre post : List Seg) (x : Seg) (L : Nat) (hL : 1 ≤ L) (h : post.head? ≠ some x)
    (st : Stress) (t : Nat) (al : Alphas) (long overlong stress sec : Option Bool) (tone : Option Nat) :
    ({ segs := pre ++ List.replicate L x ++ post, stress := st, tone := t } : Syll).applySupras al
        { stress := bin stress, secStress := bin sec, long := bin long, overlong := bin overlong, tone := tone } pre.length =
      (match setLen long overlong L with
       | none => .err "OverlongPosLongNeg"
       | some L' =>
         match setStress stress sec st with
         | none => .err "SecStrPosStrNeg"
         | some st' => .ok ({ segs := pre ++ List.replicate L' x ++ post, stress := st', tone := tone.getD t }, (L' : Int) - (L : Int))) := by
  unfold applySupras
  rw [applyLength_run pre post x L hL h st t al long overlong]
  cases hl : setLen long overlong L with
  | none => rfl
  | some L' =>
    simp only [bind_ok]
    have := applySyllMods_eq { segs := pre ++ List.replicate L' x ++ post, stress := st, tone := t } al stress sec tone
      (bin long) (bin overlong)
    simp only at this
    cases hs : setStress stress sec st with
    | none => rw [hs] at this; simp only [this]; rfl
    | some st' => rw [hs] at this; simp only [this]; rfl

/-- **setting a modifier leaves a state which that same modifier matches** -/
theorem set_then_matches_len (long overlong : Option Bool) (L L' : Nat) (hL : 1 ≤ L)
    (h : setLen long overlong L = some L') : lenOK long overlong L' = true ∧ 1 ≤ L' := by
  rcases long with _ | _ | _ <;> rcases overlong with _ | _ | _ <;> simp [setLen] at h <;> subst h <;>
    simp [lenOK] <;> (try split) <;> omega

theorem set_then_matches_stress (stress sec : Option Bool) (st st' : Stress)
    (h : setStress stress sec st = some st') : stressOK stress sec st' = true := by
  rcases stress with _ | _ | _ <;> rcases sec with _ | _ | _ <;> cases st <;> simp [setStress] at h <;> subst h <;> decide

/-- **frame**: a modifier that does not mention length leaves it; likewise stress; `[+long]` alone makes a short
    segment long and keeps a long or overlong one; `[+stress]` alone gives primary stress. -/
theorem set_frame (L : Nat) (st : Stress) :
    setLen none none L = some L ∧ setStress none none st = some st ∧
    setLen (some true) none 1 = some 2 ∧ setLen (some true) none 3 = some 3 ∧
    setStress (some true) none st = some .primary := by
  refine ⟨rfl, rfl, rfl, rfl, rfl⟩

/-- exactly the two contradictory combinations are rejected -/
theorem contradictory_iff (a b : Option Bool) (L : Nat) (st : Stress) :
    (setLen a b L = none ↔ a = some false ∧ b = some true) ∧ (setStress a b st = none ↔ a = some false ∧ b = some true) := by
  rcases a with _ | _ | _ <;> rcases b with _ | _ | _ <;> simp [setLen, setStress]

/-- **the search resumes after the whole resized run** (the repaired defect D5): after a one-for-one rule has applied an
    output matrix to a run of `L` copies at position `gi`, changing its length by `lc` (`applyLength_run`: `lc = L' - L`),
    the cursor stands on the LAST copy of the new run, so the next match attempt starts behind it — never inside it. -/
theorem cursor_after_resized_run (sp : SegPos) (L L' : Nat) (hL' : 1 ≤ L') (hfit : sp.gi + L' < 2 ^ 64) :
    (Interp.bumpRun sp L ((L' : Int) - (L : Int)) 1 1 0).gi = sp.gi + (L' - 1) ∧
    (Interp.bumpRun sp L ((L' : Int) - (L : Int)) 1 1 0).si = sp.si := by
  unfold Interp.bumpRun
  have h1 : (max ((L : Int) + ((L' : Int) - (L : Int)) - 1) 0).toNat = L' - 1 := by omega
  simp only [h1, beq_self_eq_true, if_true, Nat.lt_irrefl, if_false, Nat.sub_self]
  refine ⟨?_, trivial⟩
  unfold wadd U
  exact Nat.mod_eq_of_lt (by omega)

/-! Non-vacuity: `t a a k` with the run `aa` at position 1, `[+overlong, +stress]` -/
example :
    ({ segs := [⟨4#8, 0#8, 0#8, some 0x4000#16⟩] ++ List.replicate 2 ⟨3#8, 192#8, 4#8, some 0x2010#16⟩ ++ [⟨4#8, 0#8, 0#8, some 0x2000#16⟩] } : Syll).applySupras []
        { stress := bin (some true), secStress := none, long := none, overlong := bin (some true), tone := some 51 } 1
      = .ok ({ segs := [⟨4#8, 0#8, 0#8, some 0x4000#16⟩] ++ List.replicate 3 ⟨3#8, 192#8, 4#8, some 0x2010#16⟩ ++ [⟨4#8, 0#8, 0#8, some 0x2000#16⟩],
               stress := .primary, tone := 51 }, 1) := by decide

end Asca.C05
