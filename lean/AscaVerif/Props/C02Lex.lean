import AscaVerif.Lemmas.Lex
/-! C02 for the rule lexer: `Lexer::get_line` returns on every line.

    The model (Model/Lexer.lean) makes the two ways the Rust lexer could fail to return into VALUES: slicing an
    exhausted source (`&self.source[1..]`, `&self.source[0..n]`) is `panic`, a loop that does not end is `outOfFuel`.
    The theorem below says neither value is ever produced: for EVERY list of code points the lexer returns a token
    list or a `RuleSyntaxError`.  The proof follows the code: each recogniser, on a non-empty source, declines,
    reports an error, or consumes at least one character (Lemmas/Lex: `*_spec`), so `get_line` terminates within
    `length + 1` rounds; the inner loops of `get_feature` and `get_ipa` are bounded the same way; `advance` is never
    reached on an empty source because every call is guarded by a test that the NUL returned by `curr_char` fails -
    for `get_ipa` this uses a fact about the regenerated grapheme table (`no_zero_key`, checked by the kernel). -/
namespace Asca.Lex

/-- **the rule lexer returns**: a token list or a syntax error, never a panic, never an endless loop -/
theorem lexLine_returns (src : Text) : (∃ toks, lexLine src = .ok toks) ∨ (∃ e, lexLine src = .err e) := by
  have h := lineLoop_spec (src.length + 1) { src := src, pos := 0 } [] (Nat.lt_succ_self _)
  unfold lexLine
  match hr : lineLoop (src.length + 1) { src := src, pos := 0 } [], h with
  | .ok res, _ => exact Or.inl ⟨res, rfl⟩
  | .err e, _ => exact Or.inr ⟨e, rfl⟩

/-- the same for any lexer state and any fuel above the number of characters left (the fuel is not a hidden bound) -/
theorem lineLoop_returns (fuel : Nat) (s : LS) (acc : List Token) (h : s.src.length < fuel) :
    (∃ toks, lineLoop fuel s acc = .ok toks) ∨ (∃ e, lineLoop fuel s acc = .err e) := by
  have h := lineLoop_spec fuel s acc h
  match hr : lineLoop fuel s acc, h with
  | .ok res, _ => exact Or.inl ⟨res, rfl⟩
  | .err e, _ => exact Or.inr ⟨e, rfl⟩

/-- more fuel never changes the answer -/
theorem lineLoop_fuel_irrelevant (f1 f2 : Nat) (s : LS) (acc : List Token) (h1 : s.src.length < f1) (h2 : s.src.length < f2) :
    lineLoop f1 s acc = lineLoop f2 s acc := by
  induction f1 generalizing f2 s acc with
  | zero => omega
  | succ n ih =>
    cases f2 with
    | zero => omega
    | succ m =>
      have hs := getNextToken_spec s
      unfold lineLoop
      match hg : getNextToken s, hs with
      | .ok (t, s'), hs =>
        simp only
        by_cases hk : t.kind = .eol
        · rw [if_pos hk, if_pos hk]
        · rw [if_neg hk, if_neg hk]
          have := (hs.2.2.2.2.1 hk).2
          exact ih m s' (acc ++ [t]) (by omega) (by omega)
      | .err e, _ => rfl

/-! Non-vacuity: the model lexes, rejects, and the inner loops do run -/
example : (match lexLine ("a > e / _#".toList.map Char.toNat) with | .ok toks => toks.length | _ => 0) = 7 := by decide +kernel
example : (match lexLine ("[+nas, -αvoice, tone: 51] => ⟨..C⟩ t^s¢ ;; x".toList.map Char.toNat) with | .ok toks => toks.length | _ => 0) = 15 := by
  decide +kernel

end Asca.Lex
