import AscaVerif.Lemmas.Run
/-! # C10 — rule lists compose: running in stages equals running all at once

The runner is modelled over an abstract interpreter (`Env.apply`), so these theorems hold for rule lists of any
length and for whatever `Rule::apply` does.  The model is tied to `lib.rs` by the `runner` correspondence suite
(real `run` = the model's composition scheme instantiated with the real components, through the `verif` hooks). -/
namespace Asca.C10
open Asca Asca.Run Asca.Outcome

variable {ε R W TI TF : Type} (env : Env ε R W TI TF)

/-- **composition**: applying `G₁ ++ G₂` is applying `G₁`, then `G₂` to its result (errors included). -/
theorem applyWord_append (G₁ G₂ : List (List R)) (w : W) :
    applyWord env (G₁ ++ G₂) w = applyWord env G₁ w >>= applyWord env G₂ :=
  applyWord_append' env G₁ G₂ w

/-- a word's result depends only on the *flattened* rule sequence. -/
theorem applyWord_flatten (G : List (List R)) (w : W) : applyWord env G w = applyGroup env G.flatten w :=
  applyWord_flatten' env G w

/-- **regrouping is invisible**: how rules are distributed over groups, and empty groups, make no difference
    (to results *and* to which error is returned). -/
theorem applyWord_regroup (G G' : List (List R)) (h : G.flatten = G'.flatten) (w : W) :
    applyWord env G w = applyWord env G' w := by
  rw [applyWord_flatten, applyWord_flatten, h]

theorem applyWord_empty_groups (G : List (List R)) (w : W) :
    applyWord env (G.filter (fun g => !g.isEmpty)) w = applyWord env G w := by
  apply applyWord_regroup
  induction G with
  | nil => rfl
  | cons g G ih =>
    cases g with
    | nil => simpa using ih
    | cons r rs => simp [List.filter_cons, ih]

theorem applyRuleGroups_regroup (G G' : List (List R)) (h : G.flatten = G'.flatten) (P : List (List W)) :
    applyRuleGroups env G P = applyRuleGroups env G' P := by
  unfold applyRuleGroups
  have : applyWord env G = applyWord env G' := funext (applyWord_regroup env G G' h)
  rw [this]

/-- on the success path the whole word list composes too (the error *order* of the two forms differs — a
    failure of `G₂` on word 1 precedes a failure of `G₁` on word 2 in the all-at-once run — so the statement is
    about successful first stages). -/
theorem applyRuleGroups_append (G₁ G₂ : List (List R)) (P mid : List (List W))
    (h : applyRuleGroups env G₁ P = .ok mid) :
    applyRuleGroups env (G₁ ++ G₂) P = applyRuleGroups env G₂ mid := by
  unfold applyRuleGroups at *
  have hw : applyWord env (G₁ ++ G₂) = fun w => applyWord env G₁ w >>= applyWord env G₂ :=
    funext (applyWord_append env G₁ G₂)
  rw [hw]
  have hpt : ∀ ph ∈ P, ph.mapM (fun w => applyWord env G₁ w >>= applyWord env G₂)
      = (ph.mapM (applyWord env G₁) >>= fun ph' => ph'.mapM (applyWord env G₂)) := by
    intro ph hph
    have hok : (ph.mapM (applyWord env G₁)).isOk = true := mapM_all_of_isOk (by rw [h]; rfl) ph hph
    obtain ⟨ph', hph'⟩ := isOk_iff.mp hok
    rw [mapM_comp_of_ok hph', hph']; rfl
  rw [mapM_congr hpt]
  exact mapM_comp_of_ok h

/-- **staging through text**: if the intermediate word survives the text round trip (C09's conclusion), running
    `G₂` on the re-parsed rendering of stage one equals the one-shot run. -/
theorem staged_word (G₁ G₂ : List (List R)) (ti : TI) (tf : TF) (w mid : W)
    (h₁ : applyWord env G₁ w = .ok mid)
    (hrt : env.parseWord ti (env.render tf mid) = .ok mid) :
    (env.parseWord ti (env.render tf mid) >>= applyWord env G₂) = applyWord env (G₁ ++ G₂) w := by
  rw [hrt, applyWord_append, h₁]

/-! Non-vacuity: a concrete interpreter (rules add a number, fail above 100) on which the hypotheses hold. -/
private def toyEnv : Env String Nat Nat Unit Unit where
  parseAliases _ _ := .ok ((), ())
  parseWord _ s := .ok s.length
  parseRule _ _ s := .ok (some s.length)
  apply r w := if w + r > 100 then .err "too big" else .ok (w + r)
  render _ w := List.replicate w 'a'
  weq a b := a == b
  isWs c := c == ' '

example : applyRuleGroups toyEnv [[1, 2], [3]] [[10, 20], [30]] = .ok [[16, 26], [36]] := by decide
example : applyRuleGroups toyEnv ([[1, 2]] ++ [[3]]) [[10, 20], [30]]
    = applyRuleGroups toyEnv [[3]] [[13, 23], [33]] := by decide
example : toyEnv.parseWord () (toyEnv.render () 13) = .ok 13 := by decide

end Asca.C10
