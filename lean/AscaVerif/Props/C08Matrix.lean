import AscaVerif.Props.C14Supra
/-! # C08, end to end for every matrix rule — no syllable is emptied, none appears or disappears

`X > [any matrix] / any environment` (X one segment element; the matrix may name nodes, features, length, stress and tone
all at once): whatever word the sub-rule returns has as many syllables as the input and none of them is empty.  The
single edit: `Syllable::apply_seg_mods` at a position inside the syllable never returns an empty syllable, because the
only part that removes segments (shortening a run) stops at one copy.  The scan is `C14Supra.matrix_rule_gen`. -/
namespace Asca.C08Matrix
open Asca Asca.Interp Asca.C03

/-- the length part of `apply_supras` looks at `long` / `overlong` only -/
theorem applyLength_lengthPart (σ : Syll) (al : Alphas) (su : SupraSegs) (pos : Nat) :
    σ.applyLength al su pos = σ.applyLength al { long := su.long, overlong := su.overlong } pos := by
  unfold Syll.applyLength; rfl

/-- `apply_supras` with any suprasegmentals never empties the syllable (position inside it) -/
theorem applySupras_nonempty (σ σ' : Syll) (al : Alphas) (su : SupraSegs) (pos : Nat) (lc : Int)
    (hpos : pos < σ.segs.length) (h : σ.applySupras al su pos = .ok (σ', lc)) : σ'.segs ≠ [] := by
  unfold Syll.applySupras at h
  cases hl : σ.applyLength al su pos with
  | ok r =>
    obtain ⟨segs, lc1⟩ := r
    simp only [hl, Outcome.bind_ok] at h
    cases hy : ({ σ with segs := segs } : Syll).applySyllMods al su with
    | ok σ2 =>
      simp only [hy, Outcome.bind_ok, Outcome.pure_eq] at h
      have h' := Outcome.ok.inj h
      simp only [Prod.mk.injEq] at h'
      obtain ⟨e1, _⟩ := h'
      subst e1
      rw [C14.applySyllMods_keeps_segments _ σ2 al su hy]
      -- the same resizing, done by a matrix that names length only
      have h0 : σ.applySupras al { long := su.long, overlong := su.overlong } pos = .ok ({ σ with segs := segs }, lc1) := by
        unfold Syll.applySupras
        rw [← applyLength_lengthPart, hl]
        simp [Syll.applySyllMods, Syll.newStress]
      exact (C05Scan.applySupras_lengthOnly σ _ al _ pos lc1 rfl rfl rfl hpos h0).2.2
    | err e => simp [hy] at h
    | panic e => simp [hy] at h
    | outOfFuel e => simp [hy] at h
  | err e => simp [hl] at h
  | panic e => simp [hl] at h
  | outOfFuel e => simp [hl] at h

/-- **`Syllable::apply_seg_mods` never empties the syllable**, whatever the matrix -/
theorem applySegMods_nonempty (σ σ' : Syll) (al al' : Alphas) (mods : Modifiers) (pos : Nat) (lc : Int)
    (hpos : pos < σ.segs.length) (h : σ.applySegMods al mods pos = .ok (σ', al', lc)) : σ'.segs ≠ [] := by
  unfold Syll.applySegMods at h
  cases hr : Syll.applyModsRun mods.nodes mods.feats (σ.segLengthAt pos) pos σ.segs al with
  | ok r =>
    obtain ⟨segs1, al1⟩ := r
    simp only [hr, Outcome.bind_ok] at h
    have hlen := C14.applyModsRun_length _ _ _ _ _ _ _ _ hr
    cases hs : ({ σ with segs := segs1 } : Syll).applySupras al1 mods.suprs pos with
    | ok r2 =>
      obtain ⟨σ2, lc2⟩ := r2
      simp only [hs, Outcome.bind_ok, Outcome.pure_eq] at h
      have e : σ2 = σ' := by have := congrArg Prod.fst (Outcome.ok.inj h); simpa using this
      subst e
      exact applySupras_nonempty { σ with segs := segs1 } σ2 al1 mods.suprs pos lc2 (by simpa [hlen] using hpos) hs
    | err e => simp [hs] at h
    | panic e => simp [hs] at h
    | outOfFuel e => simp [hs] at h
  | err e => simp [hr] at h
  | panic e => simp [hr] at h
  | outOfFuel e => simp [hr] at h

/-- same number of syllables -/
def SameSyllCount (w w' : Word) : Prop := w'.sylls.length = w.sylls.length

/-- **every matrix rule keeps the syllables and empties none**: `X > [any matrix] / any environment`.  If the sub-rule
    returns a word, it has exactly as many syllables as the input and no syllable is empty. -/
theorem matrix_rule_keeps_syllables (r : SubRule) (it : Item) (hit : SegItem it) (mods : Modifiers)
    (hin : r.input = [it]) (hout : r.output = [.matrix mods none]) (hty : r.ruleType = .substitution)
    (fuel : Nat) (w w' : Word) (hne : NoEmptySyll w) (h : applySubRule fuel r w = .ok w') :
    w'.sylls.length = w.sylls.length ∧ NoEmptySyll w' := by
  have hni : r.ruleType ≠ .insertion := by rw [hty]; decide
  simp only [applySubRule, hni, if_false] at h
  refine C14Supra.matrix_rule_gen SameSyllCount (fun a b c h1 h2 => by unfold SameSyllCount at *; rw [h2, h1]) r it hit mods hin hout hty ?_
    fuel w w { si := 0, gi := 0 } hne rfl w' h
  intro σ σ' al al' lc gi hgi hh
  exact ⟨applySegMods_nonempty σ σ' al al' mods gi lc hgi hh, fun w i _ => by simp [SameSyllCount, setSyll]⟩

/-- a non-empty word stays non-empty: at least one syllable, every syllable with a segment (the shape half of `Word.WF`) -/
theorem matrix_rule_keeps_word_nonempty (r : SubRule) (it : Item) (hit : SegItem it) (mods : Modifiers)
    (hin : r.input = [it]) (hout : r.output = [.matrix mods none]) (hty : r.ruleType = .substitution)
    (fuel : Nat) (w w' : Word) (hs : w.sylls ≠ []) (hne : NoEmptySyll w) (h : applySubRule fuel r w = .ok w') :
    w'.sylls ≠ [] ∧ NoEmptySyll w' := by
  obtain ⟨h1, h2⟩ := matrix_rule_keeps_syllables r it hit mods hin hout hty fuel w w' hne h
  refine ⟨?_, h2⟩
  intro hnil
  rw [hnil] at h1
  exact hs (List.eq_nil_of_length_eq_zero h1.symm)

/-- `[-long, +stress, +voice, tone: 5]`-like matrices meet the (absent) hypothesis: the theorem asks nothing of `mods` -/
example : ∃ mods : Modifiers, mods.suprs.long = some (.bin .neg) ∧ mods.suprs.stress = some (.bin .pos) :=
  ⟨{ nodes := List.replicate 8 none, feats := List.replicate 26 none, suprs := { long := some (.bin .neg), stress := some (.bin .pos) } }, rfl, rfl⟩

end Asca.C08Matrix
