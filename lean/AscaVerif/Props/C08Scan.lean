import AscaVerif.Props.C03
import AscaVerif.Props.C08
/-! # C08, end to end — a binary feature rule keeps every segment well formed

`Props/C08.lean` proves that each single edit of a bundle (a feature set, a node added or removed) preserves `SegWF`.
This file composes them: through the node and feature loops of `Segment::apply_seg_mods`, through the copies of a long
segment, through one substitution step, and through the WHOLE SCAN of a rule `X > [±features, ±nodes] / any environment`
(binary modifiers only: an alpha may carry a node VALUE from elsewhere and is left to the search).  If the word given has
well-formed bundles, so has every word such a rule returns. -/
namespace Asca.C08Scan
open Asca Asca.Interp Asca.C03 Asca.C08

/-- only `+`/`-` entries (no alphas) -/
def BinOnly (l : List (Option ModKind)) : Prop := ∀ m ∈ l, m = none ∨ ∃ p, m = some (.bin p)

theorem binOnly_tail {m : Option ModKind} {ms : List (Option ModKind)} (h : BinOnly (m :: ms)) : BinOnly ms :=
  fun x hx => h x (List.mem_cons_of_mem _ hx)

theorem applyNodeModsGo_wf (ipa : Bool) : ∀ (ms : List (Option ModKind)) (i : Nat) (s : Seg) (al : Alphas) (s' : Seg) (al' : Alphas),
    BinOnly ms → SegWF s → Seg.applyNodeModsGo ipa i ms s al = .ok (s', al') → SegWF s' := by
  intro ms
  induction ms with
  | nil => intro i s al s' al' _ hwf h; simp [Seg.applyNodeModsGo] at h; rw [← h.1]; exact hwf
  | cons m ms ih =>
    intro i s al s' al' hb hwf h
    unfold Seg.applyNodeModsGo at h
    cases hk : NodeKind.ofNat? i with
    | none => simp [hk] at h
    | some nk =>
      simp only [hk] at h
      rcases hb m (by simp) with rfl | ⟨p, rfl⟩
      · exact ih _ _ _ _ _ (binOnly_tail hb) hwf h
      · simp only at h
        cases hm : s.applyNodeMod al nk (.bin p) ipa with
        | ok r =>
          obtain ⟨s1, al1⟩ := r
          rw [hm] at h
          exact ih _ _ _ _ _ (binOnly_tail hb) (applyNodeMod_bin_wf s s1 al al1 nk p ipa hwf hm) h
        | err e => rw [hm] at h; simp at h
        | panic e => rw [hm] at h; simp at h
        | outOfFuel e => rw [hm] at h; simp at h

theorem applyFeatModsGo_wf (ipa : Bool) : ∀ (ms : List (Option ModKind)) (i : Nat) (s : Seg) (al : Alphas) (s' : Seg) (al' : Alphas),
    BinOnly ms → SegWF s → Seg.applyFeatModsGo ipa i ms s al = .ok (s', al') → SegWF s' := by
  intro ms
  induction ms with
  | nil => intro i s al s' al' _ hwf h; simp [Seg.applyFeatModsGo] at h; rw [← h.1]; exact hwf
  | cons m ms ih =>
    intro i s al s' al' hb hwf h
    unfold Seg.applyFeatModsGo at h
    rcases hb m (by simp) with rfl | ⟨p, rfl⟩
    · exact ih _ _ _ _ _ (binOnly_tail hb) hwf h
    · simp only at h
      cases hm : s.applyFeatMod al i (.bin p) ipa with
      | ok r =>
        obtain ⟨s1, al1⟩ := r
        rw [hm] at h
        exact ih _ _ _ _ _ (binOnly_tail hb) (applyFeatMod_bin_wf s s1 al al1 i p ipa hwf hm) h
      | err e => rw [hm] at h; simp at h
      | panic e => rw [hm] at h; simp at h
      | outOfFuel e => rw [hm] at h; simp at h

/-- `Segment::apply_seg_mods` with binary modifiers keeps a well-formed bundle well formed -/
theorem segApplySegMods_wf (s s' : Seg) (al al' : Alphas) (nodes feats : List (Option ModKind)) (ipa : Bool)
    (hn : BinOnly nodes) (hf : BinOnly feats) (hwf : SegWF s) (h : s.applySegMods al nodes feats ipa = .ok (s', al')) : SegWF s' := by
  unfold Seg.applySegMods at h
  cases h1 : Seg.applyNodeModsGo ipa 0 nodes s al with
  | ok r =>
    obtain ⟨s1, al1⟩ := r
    rw [h1] at h
    exact applyFeatModsGo_wf ipa feats 0 s1 al1 s' al' hf (applyNodeModsGo_wf ipa nodes 0 s al s1 al1 hn hwf h1) h
  | err e => rw [h1] at h; simp at h
  | panic e => rw [h1] at h; simp at h
  | outOfFuel e => rw [h1] at h; simp at h

/-- every copy of a long segment -/
theorem applyModsRun_wf (nodes feats : List (Option ModKind)) (hn : BinOnly nodes) (hf : BinOnly feats) :
    ∀ (n pos : Nat) (segs : List Seg) (al : Alphas) (segs' : List Seg) (al' : Alphas),
      (∀ x ∈ segs, SegWF x) → Syll.applyModsRun nodes feats n pos segs al = .ok (segs', al') → ∀ x ∈ segs', SegWF x := by
  intro n
  induction n with
  | zero => intro pos segs al segs' al' hwf h; simp [Syll.applyModsRun] at h; rw [← h.1]; exact hwf
  | succ n ih =>
    intro pos segs al segs' al' hwf h
    unfold Syll.applyModsRun at h
    cases hg : segs[pos]? with
    | none => simp [hg] at h
    | some s =>
      simp only [hg] at h
      cases hm : s.applySegMods al nodes feats false with
      | ok r =>
        obtain ⟨s1, al1⟩ := r
        rw [hm] at h
        have hs : SegWF s := hwf s (List.mem_of_getElem? hg)
        have hs1 := segApplySegMods_wf s s1 al al1 nodes feats false hn hf hs hm
        apply ih (pos + 1) (segs.set pos s1) al1 segs' al' _ h
        intro x hx
        rcases List.mem_or_eq_of_mem_set hx with h1 | h1
        · exact hwf x h1
        · rw [h1]; exact hs1
      | err e => rw [hm] at h; simp at h
      | panic e => rw [hm] at h; simp at h
      | outOfFuel e => rw [hm] at h; simp at h

/-- `Syllable::apply_seg_mods` with a matrix naming no suprasegmentals -/
theorem syllApplySegMods_wf (σ σ' : Syll) (al al' : Alphas) (mods : Modifiers) (pos : Nat) (lc : Int)
    (hs : mods.suprs = {}) (hn : BinOnly mods.nodes) (hf : BinOnly mods.feats) (hwf : ∀ x ∈ σ.segs, SegWF x)
    (h : σ.applySegMods al mods pos = .ok (σ', al', lc)) : ∀ x ∈ σ'.segs, SegWF x := by
  unfold Syll.applySegMods at h
  cases hr : Syll.applyModsRun mods.nodes mods.feats (σ.segLengthAt pos) pos σ.segs al with
  | ok r =>
    obtain ⟨segs1, al1⟩ := r
    simp only [hr, Outcome.bind_ok] at h
    have hwf1 := applyModsRun_wf mods.nodes mods.feats hn hf _ _ _ _ _ _ hwf hr
    simp only [hs, Syll.applySupras, Syll.applyLength, Syll.applySyllMods, Syll.newStress] at h
    cases hg : segs1[pos]? with
    | none => simp [hg] at h
    | some x =>
      simp [hg] at h
      obtain ⟨h1, _, _⟩ := h
      subst h1
      exact hwf1
  | err e => simp [hr] at h
  | panic e => simp [hr] at h
  | outOfFuel e => simp [hr] at h

/-- every bundle of the word is well formed -/
def WordSegWF (w : Word) : Prop := ∀ σ ∈ w.sylls, ∀ x ∈ σ.segs, SegWF x

theorem wordSegWF_setSyll (w : Word) (i : Nat) (σ' : Syll) (hw : WordSegWF w) (hσ' : ∀ x ∈ σ'.segs, SegWF x) : WordSegWF (setSyll w i σ') := by
  intro τ hτ
  simp only [setSyll] at hτ
  rcases List.mem_or_eq_of_mem_set hτ with h | h
  · exact hw τ h
  · rw [h]; exact hσ'

/-- **the whole scan**: `X > [±features, ±nodes] / any environment` keeps every bundle well formed -/
theorem binary_feature_rule_keeps_wf (r : SubRule) (it : Item) (hit : SegItem it) (mods : Modifiers)
    (hin : r.input = [it]) (hout : r.output = [.matrix mods none]) (hs : mods.suprs = {})
    (hn : BinOnly mods.nodes) (hf : BinOnly mods.feats) (hty : r.ruleType = .substitution) :
    ∀ (fuel : Nat) (w : Word) (cur : SegPos), NoEmptySyll w → WordSegWF w →
      ∀ w', applyLoop r fuel w cur = .ok w' → WordSegWF w' := by
  intro fuel
  induction fuel with
  | zero => intro w cur _ _ w' h; simp [applyLoop] at h
  | succ fuel ih =>
    intro w cur hne hwf w' hres
    rw [applyLoop] at hres
    cases hi : inputMatchAt fuel r.input w cur {} with
    | ok out =>
      obtain ⟨caps, next, b1⟩ := out
      rw [hi] at hres
      simp only [Outcome.bind_ok] at hres
      rw [hin] at hi
      rcases inputMatchAt_single w it hit fuel cur _ hi with h1 | ⟨p, nx, h1, h2, hinb⟩
      · simp only at h1; subst h1
        simp at hres; subst hres; exact hwf
      · simp only at h1 h2; subst h1; subst h2
        obtain ⟨L, hL⟩ := C06.segLen_of_inB w p hinb
        have hσ : ∃ σ, w.sylls[p.si]? = some σ ∧ p.gi < σ.segs.length := by
          unfold Word.inB Word.inBounds at hinb
          cases hs2 : w.sylls[p.si]? with
          | none => simp [hs2] at hinb
          | some σ => simp [hs2] at hinb; exact ⟨σ, rfl, hinb⟩
        obtain ⟨σ, hσ1, hσ2⟩ := hσ
        simp only [List.isEmpty_cons, Bool.false_eq_true, if_false, matchSpan, List.head?_cons, List.getLast?_singleton, hL,
          Outcome.bind_ok, Outcome.pure_eq] at hres
        cases hm : matchContextsAndExceptions fuel r w p (incN w (L - 1) p) true b1 with
        | ok res =>
          obtain ⟨okb, b2⟩ := res
          rw [hm] at hres
          simp only [Outcome.bind_ok] at hres
          cases okb with
          | false =>
            simp only [Bool.not_false, if_true] at hres
            exact ih w nx hne hwf w' hres
          | true =>
            simp only [Bool.not_true, Bool.false_eq_true, if_false, transform, hty] at hres
            cases hsub : substitution r w [.segment p none] (some nx) b2 with
            | ok sres =>
              rw [hsub] at hres
              simp only [Outcome.bind_ok] at hres
              obtain ⟨σ', e1, e2, e3, e4, al, lc, e5⟩ := substitution_matrix_step r w p mods it σ b2 (some nx) hin hout hs hσ1 hσ2 hne sres hsub
              have hσwf : ∀ x ∈ σ.segs, SegWF x := hwf σ (List.mem_of_getElem? hσ1)
              have hσ'wf := syllApplySegMods_wf σ σ' b2.alphas al mods p.gi lc hs hn hf hσwf e5
              have hstep := sameShape_setSyll w p.si σ σ' hσ1 e2 e3 e4
              rw [← e1] at hstep
              have hne' := noEmptySyll_of_sameShape w sres.1 hstep hne
              have hwf' : WordSegWF sres.1 := by rw [e1]; exact wordSegWF_setSyll w p.si σ' hwf hσ'wf
              cases hnx : sres.2.1 with
              | none => rw [hnx] at hres; simp at hres; subst hres; exact hwf'
              | some ci => rw [hnx] at hres; exact ih sres.1 ci hne' hwf' w' hres
            | err e => rw [hsub] at hres; simp at hres
            | panic e => rw [hsub] at hres; simp at hres
            | outOfFuel e => rw [hsub] at hres; simp at hres
        | err e => rw [hm] at hres; simp at hres
        | panic s => rw [hm] at hres; simp at hres
        | outOfFuel s => rw [hm] at hres; simp at hres
    | err e => rw [hi] at hres; simp at hres
    | panic e => rw [hi] at hres; simp at hres
    | outOfFuel e => rw [hi] at hres; simp at hres

/-- for `SubRule::apply`: well-formed bundles in, well-formed bundles out, and the same shape -/
theorem binary_feature_subrule_wf (r : SubRule) (it : Item) (hit : SegItem it) (mods : Modifiers)
    (hin : r.input = [it]) (hout : r.output = [.matrix mods none]) (hs : mods.suprs = {})
    (hn : BinOnly mods.nodes) (hf : BinOnly mods.feats) (hty : r.ruleType = .substitution)
    (fuel : Nat) (w w' : Word) (hne : NoEmptySyll w) (hwf : WordSegWF w) (h : applySubRule fuel r w = .ok w') :
    WordSegWF w' ∧ SameShape w w' := by
  have hni : r.ruleType ≠ .insertion := by rw [hty]; decide
  refine ⟨?_, feature_subrule_keeps_shape r it hit mods hin hout hs hty fuel w w' hne h⟩
  simp only [applySubRule, hni, if_false] at h
  exact binary_feature_rule_keeps_wf r it hit mods hin hout hs hn hf hty fuel w _ hne hwf w' h

/-- the hypothesis is met, e.g. by the word `pa` (and by every word read from table graphemes: `C08.cardinals_wf`) -/
example : WordSegWF { sylls := [{ segs := [⟨4#8, 0#8, 0#8, some 32768#16⟩, ⟨3#8, 192#8, 4#8, some 40976#16⟩] }] } := by
  intro σ hσ x hx
  simp only [List.mem_singleton] at hσ
  subst hσ
  simp only [List.mem_cons, List.not_mem_nil, or_false] at hx
  rcases hx with rfl | rfl <;> decide

end Asca.C08Scan
