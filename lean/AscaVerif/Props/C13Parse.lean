import AscaVerif.Model.Parser
/-! C13 at the level of the rule parser: the places where `parser.rs` treats two tokens alike, stated for every
    parser state.  (That the REST of the parse is the same needs a simulation over the whole parser, which is not
    proved; the c13-spec search compares whole rules on the implementation.) -/
namespace Asca.Parse
open Lex (Token TK)

/-- **`|` and `//`** both introduce the exception block: `get_except_block` consumes either and calls `get_env` -/
theorem except_pipe (s : PS) (h : s.cur.kind = .pipe) : getExceptBlock s = getEnv s.advance := by
  simp [getExceptBlock, PS.expect, h]

theorem except_dubSlash (s : PS) (h : s.cur.kind = .dubSlash) : getExceptBlock s = getEnv s.advance := by
  simp [getExceptBlock, PS.expect, h]

/-- **`*` and `∅`** are the same element: `get_empty` turns either into `EmptySet` at the token's position -/
theorem empty_star (s : PS) (h : s.cur.kind = .star) : getEmpty s = some (.mk .emptySet (tokPos s.cur), s.advance) := by
  simp [getEmpty, PS.peek, h]

theorem empty_emptySet (s : PS) (h : s.cur.kind = .emptySet) : getEmpty s = some (.mk .emptySet (tokPos s.cur), s.advance) := by
  simp [getEmpty, PS.peek, h]

/-- **`->`/`=>` and `>`** both separate input from output -/
theorem arrow_arrow (s : PS) (h : s.cur.kind = .arrow) : expectArrow s = (true, s.advance) := by
  simp [expectArrow, PS.expect, h]

theorem arrow_greaterThan (s : PS) (h : s.cur.kind = .greaterThan) : expectArrow s = (true, s.advance) := by
  simp [expectArrow, PS.expect, h]

/-- after `*`/`∅` in the input, `->` and `>` are accepted alike (`InsertErr` only when neither follows) -/
theorem insertion_arrow_check (s : PS) (h : s.cur.kind = .arrow ∨ s.cur.kind = .greaterThan) :
    (!s.peek .arrow && !s.peek .greaterThan) = false := by
  rcases h with h | h <;> simp [PS.peek, h]

end Asca.Parse
