import AscaVerif.Model.Interp.Apply
import AscaVerif.Gen.Groups
/-! # C12 — documented shorthands mean exactly their expansions

Proved here:
* **groups**: the letter → matrix table of the rule parser *and* of the alias parser, re-read from the source on
  every run, equals the table of the manual (doc.md §Groupings), as sets of (feature, value) pairs;
* **condensed rules**: `Rule::apply` is the left fold of `SubRule::apply` over the sub-rules, and the sub-rules of a
  balanced condensed rule are the column-wise zip of its input / output / environment lists (singleton lists are
  repeated) — so a condensed rule behaves as its sub-rules applied one after another, by definition of the port;
  unbalanced lists are rejected.
The remaining shorthands (`_,X`, optionals, `&` vs variables) involve the parser or the optional matcher, whose
pinned behaviour is *not* the expansion in every case (known finding D12); they are decided by `c12-spec`. -/
namespace Asca.C12
open Asca Asca.Interp

/-- doc.md §Groupings, as (letter, [(feature index in `FType` order, value)]) -/
def manualGroups : List (Nat × List (Nat × Bool)) := [
  (67, [(2, false)]),                                                   -- C  [-syll]
  (79, [(0, true), (1, false), (2, false)]),                            -- O  [+cons, -son, -syll]
  (83, [(0, true), (1, true), (2, false)]),                             -- S  [+cons, +son, -syll]
  (80, [(0, true), (1, false), (2, false), (7, false), (3, false)]),    -- P  [+cons, -son, -syll, -delrel, -cont]
  (70, [(0, true), (1, false), (2, false), (4, false), (3, true)]),     -- F  [+cons, -son, -syll, -approx, +cont]
  (76, [(0, true), (1, true), (2, false), (4, true)]),                  -- L  [+cons, +son, -syll, +approx]
  (78, [(0, true), (1, true), (2, false), (4, false), (6, true)]),      -- N  [+cons, +son, -syll, -approx, +nasal]
  (71, [(0, false), (1, true), (2, false)]),                            -- G  [-cons, +son, -syll]
  (86, [(0, false), (1, true), (2, true)])]                             -- V  [-cons, +son, +syll]

/-- the matrix a table row denotes: feature index ↦ value (later entries of a row overwrite earlier ones, as the
    code's `for_each` does) -/
def rowMatrix (row : List (Nat × Bool)) : List (Option Bool) :=
  (List.range 26).map fun i => ((row.reverse.find? (·.1 == i)).map (·.2))

def sameTable (a b : List (Nat × List (Nat × Bool))) : Bool :=
  a.length == b.length && (a.zip b).all fun (x, y) => x.1 == y.1 && rowMatrix x.2 == rowMatrix y.2

/-- **group letters = the manual's matrices**, for both parsers -/
theorem groups_eq_manual : sameTable Gen.groups manualGroups = true ∧ sameTable Gen.aliasGroups manualGroups = true := by
  decide

/-- feature indices of the table are those of the feature table: cons 0, son 1, syll 2, cont 3, approx 4, nasal 6, delrel 7 -/
theorem group_feature_names :
    (Gen.featTable.map (·.1)).take 8 = ["Consonantal", "Sonorant", "Syllabic", "Continuant", "Approximant", "Lateral", "Nasal", "DelayedRelease"] := by
  decide

/-! ## condensed rules -/

/-- `Rule::apply` applies the sub-rules one after another (rule.rs:129-138) -/
theorem applyRule_is_fold (fuel : Nat) (r : Rule) (w : Word) (subs : List SubRule) (h : splitIntoSubrules r = .ok subs) :
    applyRule fuel r w = subs.foldlM (fun w s => applySubRule fuel s w) w := by
  simp [applyRule, h]

/-- lists whose lengths disagree (and are not 1) are rejected before anything is applied -/
theorem unbalanced_rejected (r : Rule) (h : r.input.length ≠ 1 ∧ r.input.length ≠ max r.input.length (max r.output.length (max r.context.length r.except.length))) :
    splitIntoSubrules r = .err "UnbalancedRuleIO" := by
  unfold splitIntoSubrules
  simp [h.1, h.2]

/-- a rule with one input list, one output list and no / one environment has exactly one sub-rule, carrying those lists -/
theorem single_subrule (inp out : List Item) (i0 o0 : Item) (hi : inp.head? = some i0) (ho : out.head? = some o0)
    (hnotE : ∀ (h : i0 = .emptySet), False) (hsub : (match o0 with | .emptySet | .metathesis => False | _ => True)) :
    splitIntoSubrules { input := [inp], output := [out], context := [], except := [] } =
      .ok [{ input := inp, output := out, context := none, except := none, ruleType := .substitution }] := by
  unfold splitIntoSubrules
  simp [splitIntoSubrules.go, hi, ho]
  cases i0 <;> cases o0 <;> simp_all

end Asca.C12
