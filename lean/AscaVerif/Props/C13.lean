import AscaVerif.Model.ParseWord
import AscaVerif.Gen.FeatNames
/-! # C13 — alternative spellings of the same rule or word behave identically

Proved over tables re-read from the source on every run:
* the feature-name tables of the rule lexer and of the alias lexer are identical, arm by arm;
* no spelling is accepted for two different features (so "the feature a name denotes" is well defined);
* every spelling that the *unknown feature* message may suggest is an accepted spelling;
* the manual's shorthands denote the features the manual says (`bk hi lo dr` …).
Proved over the word-parser model: the four typed respellings (`'` `,` `:` `;`) are rewritten to the canonical marks
before anything else looks at the text, so a word and its respelling parse to the same word.
The rule-level equivalences (`>`/`=>`/`->`, `|`/`//`, `*`/`∅`, ellipsis and angle spellings, spaces in matrices,
trailing comments, alpha and variable renaming) need the lexer/parser port, which does not exist yet; they are
decided by the `c13-spec` search (rule vs respelled rule, word vs respelled word, on the implementation). -/
namespace Asca.C13
open Asca Asca.ParseWord

/-- both lexers accept exactly the same spellings for exactly the same features -/
theorem featNames_consistent : Gen.featNames = Gen.aliasFeatNames := by decide

def allNames : List String := Gen.featNames.flatMap (·.2.2)

/-- a spelling denotes one feature only -/
theorem names_unambiguous : allNames.Nodup := by decide +kernel

/-- every suggestion of the error message is an accepted spelling -/
theorem err_variants_accepted : Gen.errFeatVariants.all (fun v => allNames.contains v) = true := by decide +kernel

def denotes (name kind variant : String) : Bool :=
  Gen.featNames.any (fun r => r.1 == kind && r.2.1 == variant && r.2.2.contains name)

/-- the shorthands the manual names: `[bk, hi, lo, dr] = [back, high, low, del.rel.]`, `cons`, `son`, `syll`, `voi`, `sg`, `cg`, `str`, `sec. stress` … -/
theorem documented_shorthands :
    denotes "bk" "Feat" "Back" ∧ denotes "back" "Feat" "Back" ∧ denotes "hi" "Feat" "High" ∧ denotes "lo" "Feat" "Low" ∧
    denotes "dr" "Feat" "DelayedRelease" ∧ denotes "del.rel." "Feat" "DelayedRelease" ∧ denotes "delrel" "Feat" "DelayedRelease" ∧
    denotes "cons" "Feat" "Consonantal" ∧ denotes "son" "Feat" "Sonorant" ∧ denotes "syll" "Feat" "Syllabic" ∧
    denotes "voi" "Feat" "Voice" ∧ denotes "s.g." "Feat" "SpreadGlottis" ∧ denotes "c.g." "Feat" "ConstrGlottis" ∧
    denotes "nasal" "Feat" "Nasal" ∧ denotes "rnd" "Feat" "Round" ∧ denotes "fr" "Feat" "Front" ∧ denotes "tns" "Feat" "Tense" ∧
    denotes "lab" "Node" "Labial" ∧ denotes "cor" "Node" "Coronal" ∧ denotes "dor" "Node" "Dorsal" ∧ denotes "place" "Node" "Place" ∧
    denotes "str" "Supr" "Stress" ∧ denotes "sec.stress" "Supr" "SecStress" ∧ denotes "long" "Supr" "Long" ∧ denotes "overlong" "Supr" "Overlong" := by
  decide

/-! ## word respellings -/

/-- replacing a one-character pattern is a character-by-character map -/
theorem replaceAll_single (c : Nat) (r : Text) : ∀ t : Text,
    Text.replaceAll [c] r t = t.flatMap (fun x => if x = c then r else [x]) := by
  intro t
  induction t with
  | nil => simp [Text.replaceAll]
  | cons x xs ih =>
    rw [Text.replaceAll]
    by_cases hx : x = c
    · subst hx; simp [ih]
    · have hp : ([c].isPrefixOf (x :: xs)) = false := by
        simp [List.isPrefixOf]; intro h; exact absurd h.symm hx
      simp [hp, hx, ih]

/-- the typed spelling of a mark and the mark itself are the same character after the first rewrite of `Word::new` -/
def canon (x : Nat) : Text :=
  if x = 0x27 then [0x2C8] else if x = 0x2C then [0x2CC] else if x = 0x3A then [0x2D0] else if x = 0x3B then [0x2D0, 0x2E] else [x]

/-- `respell` (the first four `replace` calls of `Word::new`) is the map `canon`, provided the text does not already
    contain the *products* of an earlier rewrite that a later one would touch (it never does: the products are
    `ˈ ˌ ː .`, none of which is a pattern) -/
theorem respell_eq_map (t : Text) : respell t = t.flatMap canon := by
  unfold respell
  simp only [List.foldl_cons, List.foldl_nil, replaceAll_single]
  induction t with
  | nil => rfl
  | cons x xs ih =>
    simp only [List.flatMap_cons, List.flatMap_append] at ih ⊢
    rw [ih]
    congr 1
    unfold canon
    by_cases h1 : x = 0x27
    · subst h1; decide
    · by_cases h2 : x = 0x2C
      · subst h2; decide
      · by_cases h3 : x = 0x3A
        · subst h3; decide
        · by_cases h4 : x = 0x3B
          · subst h4; decide
          · simp [h1, h2, h3, h4]

/-- **typed and canonical spellings parse alike**: rewriting any `'`→`ˈ`, `,`→`ˌ`, `:`→`ː`, `;`→`ː.` in the text
    beforehand changes nothing -/
theorem parseWord_respelled (t t' : Text) (h : t.flatMap canon = t'.flatMap canon) : parseWord t = parseWord t' := by
  unfold parseWord parseWordWith
  rw [respell_eq_map, respell_eq_map, h]

example : parseWord ("pa'ta:".toList.map Char.toNat) = parseWord ("paˈtaː".toList.map Char.toNat) := by
  apply parseWord_respelled; decide

end Asca.C13
