import AscaVerif.Model.Interp.Apply
/-! # C07 — variables and alphas reproduce exactly what they captured

Component-level theorems over the interpreter port: the binding tables behave as maps; a matrix with `=n` binds
exactly the segment it matched; a variable in a context matches only a segment / syllable identical to the
captured one; writing a captured segment back where it was read leaves the word as it was.
The end-to-end identities (`X1=1 … Xk=k > 1 … k`, `[αF] > [αF]`) are decided by the `c07-spec` search and the
model≙impl correspondence; the stress alpha on secondary stress is a known finding (D7). -/
namespace Asca.C07
open Asca Asca.Interp

/-! ## binding tables are maps -/

theorem getVar_setVar_same (b : Binds) (n : Nat) (v : VarKind) : (b.setVar n v).getVar n = some v := by
  simp [Binds.setVar, Binds.getVar]

theorem getVar_setVar_other (b : Binds) (n m : Nat) (v : VarKind) (h : m ≠ n) : (b.setVar n v).getVar m = b.getVar m := by
  simp only [Binds.setVar, Binds.getVar, List.find?_cons]
  have h1 : (n == m) = false := by simp; omega
  simp only [h1]
  congr 1
  induction b.vars with
  | nil => rfl
  | cons x xs ih =>
    by_cases hx : x.1 = n
    · have hxm : (x.1 == m) = false := by simp; omega
      have hf : (x.1 != n) = false := by simp [hx]
      rw [List.filter_cons, List.find?_cons]
      simp only [hf, hxm]
      exact ih
    · have hf : (x.1 != n) = true := by simp [hx]
      rw [List.filter_cons]
      simp only [hf, if_true, List.find?_cons]
      cases (x.1 == m) <;> simp [ih]

theorem alpha_get_insert_same (a : Alphas) (c : Nat) (v : Alpha) : (a.insert c v).get? c = some v := by
  simp [Alphas.insert, Alphas.get?]

/-! ## capture -/

/-- a matrix with `=v` that matches binds exactly the segment at the matched position -/
theorem ctxMatchMatrix_binds (w : Word) (mods : Modifiers) (v : Nat) (p p' : SegPos) (b b' : Binds)
    (h : ctxMatchMatrix w mods (some v) p b = .ok (true, p', b')) :
    ∃ seg, w.segAt p = some seg ∧ b'.getVar v = some (.seg seg) := by
  unfold ctxMatchMatrix at h
  split at h
  · cases h
  · cases hm : matchModifiers w mods p b with
    | ok r =>
      obtain ⟨hit, b1⟩ := r
      simp only [hm, Outcome.bind_ok] at h
      cases hit with
      | false => simp at h
      | true =>
        simp only [Bool.not_true, Bool.false_eq_true, if_false] at h
        cases hs : w.segAt p with
        | none => simp [hs] at h
        | some seg =>
          simp only [hs] at h
          cases hl : w.segLen p with
          | ok L =>
            simp only [hl] at h
            cases h
            exact ⟨seg, rfl, getVar_setVar_same _ _ _⟩
          | err e => simp [hl] at h
          | panic e => simp [hl] at h
          | outOfFuel e => simp [hl] at h
    | err e => simp [hm] at h
    | panic e => simp [hm] at h
    | outOfFuel e => simp [hm] at h

/-! ## use in a context: only an identical segment / syllable matches -/

/-- a segment variable without modifiers matches at `pos` iff the segment there **equals** the captured bundle
    (all four nodes); the bindings are untouched and the position advances by one. -/
theorem ctxMatchVar_seg_exact (w : Word) (n : Nat) (hn : n < U) (s : Seg) (pos : SegPos) (fwd : Bool) (b : Binds)
    (hv : b.getVar n = some (.seg s)) :
    ctxMatchVar w n none pos fwd b =
      .ok (if w.segAt pos = some s then (true, pos.increment w, b) else (false, pos, b)) := by
  unfold ctxMatchVar
  simp only [varIndex, hn, if_true, Outcome.bind_ok, hv]
  unfold ctxMatchIpa
  by_cases hob : w.outOfBounds pos = true
  · have : w.segAt pos = none := by
      unfold Word.outOfBounds Word.inBounds at hob
      unfold Word.segAt Word.getSegAt
      cases hs : w.sylls[pos.si]? with
      | none => rfl
      | some σ => simp [hs] at hob; simp [hs]; omega
    simp [hob, this]
  · simp only [hob, Bool.false_eq_true, if_false]
    cases hs : w.segAt pos with
    | none =>
      exfalso
      unfold Word.outOfBounds Word.inBounds at hob
      unfold Word.segAt Word.getSegAt at hs
      cases hσ : w.sylls[pos.si]? with
      | none => simp [hσ] at hob
      | some σ => simp [hσ] at hob hs; omega
    | some seg =>
      by_cases he : s = seg
      · subst he; simp
      · have : ¬ (some seg = some s) := fun h => he (by cases h; rfl)
        simp [he, this]

/-- a syllable variable without modifiers matches iff the syllable at `pos` has the captured segments (read in the
    direction of matching), the captured stress and the captured tone -/
theorem ctxMatchSyllVar_exact (w : Word) (σm cur : Syll) (pos : SegPos) (fwd : Bool) (b : Binds)
    (hstart : pos.gi = 0) (hin : w.inB pos = true) (hcur : w.sylls[pos.si]? = some cur) :
    ctxMatchSyllVar w σm none pos fwd b =
      .ok (if cur.segs = (if fwd then σm.segs else σm.segs.reverse) ∧ cur.stress = σm.stress ∧ cur.tone = σm.tone
           then (true, { si := wadd pos.si 1, gi := 0 }, b) else (false, pos, b)) := by
  unfold ctxMatchSyllVar
  simp only [SegPos.atSyllStart, hstart, beq_self_eq_true, Bool.not_true, Bool.false_eq_true, if_false, hin, hcur]
  by_cases h1 : cur.segs = (if fwd then σm.segs else σm.segs.reverse) <;> by_cases h2 : cur.stress = σm.stress <;>
    by_cases h3 : cur.tone = σm.tone <;> simp [h1, h2, h3]

/-! ## write-back -/

/-- writing the segment that is already there changes nothing -/
theorem setSegAt_same (w : Word) (p : SegPos) (s : Seg) (site : String) (h : w.segAt p = some s) : setSegAt w p s site = .ok w := by
  unfold Word.segAt Word.getSegAt at h
  unfold setSegAt getSyll
  cases hσ : w.sylls[p.si]? with
  | none => simp [hσ] at h
  | some σ =>
    simp only [hσ] at h
    have hlt : p.gi < σ.segs.length := by
      apply Classical.byContradiction; intro hc
      have : σ.segs[p.gi]? = none := List.getElem?_eq_none (by omega)
      simp [this] at h
    have hs : σ.segs[p.gi] = s := by
      have := List.getElem?_eq_getElem hlt
      rw [this] at h; cases h; rfl
    simp only [Outcome.bind_ok, hlt, if_true, Outcome.pure_eq]
    have h1 : σ.segs.set p.gi s = σ.segs := by rw [← hs]; exact List.set_getElem_self hlt
    have hsi : p.si < w.sylls.length := by
      apply Classical.byContradiction; intro hc
      have : w.sylls[p.si]? = none := List.getElem?_eq_none (by omega)
      simp [this] at hσ
    have hσ' : w.sylls[p.si] = σ := by
      have := List.getElem?_eq_getElem hsi
      rw [this] at hσ; cases hσ; rfl
    simp only [setSyll, h1]
    cases w with
    | mk sylls am =>
      simp only at hsi hσ' ⊢
      congr 2
      rw [← hσ']; exact List.set_getElem_self hsi

/-! Non-vacuity -/
example : (({} : Binds).setVar 1 (.seg ⟨4#8, 0#8, 0#8, some 32768#16⟩)).getVar 1 = some (.seg ⟨4#8, 0#8, 0#8, some 32768#16⟩) := by decide

end Asca.C07
