import AscaVerif.Lemmas.Run
/-! # C16 — the trace tells the same story as the run

`apply_rules_trace` nests its loops the other way round (groups outer, words inner) than `apply_rule_groups`
(words outer, groups inner).  Over the abstract runner, for any number of groups and any phrase length: -/
namespace Asca.C16
open Asca Asca.Run Asca.Outcome

variable {ε R W TI TF : Type} (env : Env ε R W TI TF)

/-- the phrase as a plain run leaves it after the first `k` groups -/
def stateAfter (G : List (List R)) (ph : List W) (k : Nat) : Outcome ε (List W) :=
  ph.mapM (applyWord env (G.take k))

theorem stateAfter_zero (G : List (List R)) (ph : List W) : stateAfter env G ph 0 = .ok ph := by
  unfold stateAfter
  apply mapM_ok_iff.mpr
  exact ⟨rfl, fun i h _ => rfl⟩

/-- one more group, on the success path -/
theorem stateAfter_succ (G : List (List R)) (ph st : List W) (k : Nat) (hk : k < G.length)
    (h : stateAfter env G ph k = .ok st) :
    stateAfter env G ph (k + 1) = st.mapM (applyGroup env G[k]) := by
  unfold stateAfter at *
  have : G.take (k + 1) = G.take k ++ [G[k]] := by
    rw [List.take_succ]; simp [List.getElem?_eq_getElem hk]
  rw [this]
  have hw : applyWord env (G.take k ++ [G[k]]) = fun w => applyWord env (G.take k) w >>= applyGroup env G[k] :=
    funext (applyWord_snoc env _ _)
  rw [hw]
  exact mapM_comp_of_ok h

private theorem ok_inj {α} {a b : α} (h : (Outcome.ok a : Outcome ε α) = .ok b) : a = b := by cases h; rfl

/-- the loop, started in a state satisfying the invariant at `k`, ends in one satisfying it at `|G|`. -/
theorem traceGo_inv (G : List (List R)) (ph : List W) :
    ∀ (rest : List (List R)) (k : Nat) (cur : List W) (acc : List (Nat × List W)) (res : List (Nat × List W)),
      G.drop k = rest → k ≤ G.length →
      stateAfter env G ph k = .ok cur →
      (∀ i s, (i, s) ∈ acc → i < k ∧ stateAfter env G ph (i + 1) = .ok s ∧
            ∃ before, stateAfter env G ph i = .ok before ∧ phraseEq env s before = false) →
      (∀ i, i < k → ∀ before after, stateAfter env G ph i = .ok before → stateAfter env G ph (i + 1) = .ok after →
            phraseEq env after before = false → (i, after) ∈ acc) →
      (acc.map Prod.fst).Pairwise (· > ·) →
      traceGo env k rest cur acc = .ok res →
      (∃ fin, stateAfter env G ph G.length = .ok fin) ∧
      (∀ i s, (i, s) ∈ res → i < G.length ∧ stateAfter env G ph (i + 1) = .ok s ∧
            ∃ before, stateAfter env G ph i = .ok before ∧ phraseEq env s before = false) ∧
      (∀ i, i < G.length → ∀ before after, stateAfter env G ph i = .ok before → stateAfter env G ph (i + 1) = .ok after →
            phraseEq env after before = false → (i, after) ∈ res) ∧
      (res.map Prod.fst).Pairwise (· < ·) := by
  intro rest
  induction rest with
  | nil =>
    intro k cur acc res hd hk hcur hs hc hso ht
    have hkl : k = G.length := by
      have := List.drop_eq_nil_iff.mp hd; omega
    simp only [traceGo] at ht
    have hres := ok_inj ht
    subst hres; subst hkl
    refine ⟨⟨cur, hcur⟩, ?_, ?_, ?_⟩
    · intro i s hm; exact hs i s (by simpa using hm)
    · intro i hi b a hb ha hne; simpa using hc i hi b a hb ha hne
    · rw [List.map_reverse, List.pairwise_reverse]; exact hso
  | cons g gs ih =>
    intro k cur acc res hd hk hcur hs hc hso ht
    have hklt : k < G.length := by
      apply Classical.byContradiction; intro hcon
      have : G.drop k = [] := List.drop_eq_nil_iff.mpr (by omega)
      rw [this] at hd; cases hd
    have hg : G[k] = g := by
      have := List.getElem_drop (xs := G) (i := k) (j := 0) (h := by simp; omega)
      simp [hd] at this; exact this.symm
    have hdrop : G.drop (k + 1) = gs := by
      rw [← List.drop_drop, hd]; rfl
    simp only [traceGo] at ht
    cases hm : cur.mapM (applyGroup env g) with
    | ok cur' =>
      rw [hm] at ht; simp only at ht
      have hnext : stateAfter env G ph (k + 1) = .ok cur' := by
        rw [stateAfter_succ env G ph cur k hklt hcur, hg]; exact hm
      apply ih (k + 1) cur' _ res hdrop (by omega) hnext ?_ ?_ ?_ ht
      · intro i s hmem
        by_cases hpe : phraseEq env cur' cur = true
        · simp [hpe] at hmem
          obtain ⟨h1, h2⟩ := hs i s hmem
          exact ⟨by omega, h2⟩
        · simp [hpe] at hmem
          rcases hmem with ⟨rfl, rfl⟩ | hmem
          · exact ⟨by omega, hnext, cur, hcur, by simpa using hpe⟩
          · obtain ⟨h1, h2⟩ := hs i s hmem
            exact ⟨by omega, h2⟩
      · intro i hi b a hb ha hne
        by_cases hik : i = k
        · subst hik
          rw [hcur] at hb; rw [hnext] at ha
          have hb' := ok_inj hb; have ha' := ok_inj ha
          subst hb'; subst ha'
          simp [hne]
        · have := hc i (by omega) b a hb ha hne
          by_cases hpe : phraseEq env cur' cur = true <;> simp [hpe, this]
      · by_cases hpe : phraseEq env cur' cur = true
        · simpa [hpe] using hso
        · simp only [hpe, Bool.false_eq_true, if_false, List.map_cons, List.pairwise_cons]
          refine ⟨?_, hso⟩
          intro j hj
          obtain ⟨⟨j', s⟩, hmem, rfl⟩ := List.mem_map.mp hj
          exact (hs j' s hmem).1
    | err e => rw [hm] at ht; cases ht
    | panic e => rw [hm] at ht; cases ht
    | outOfFuel e => rw [hm] at ht; cases ht

/-- **C16, main statement.**  If the trace of `ph` through `G` succeeds with `cs`, then
    1. the reported indices are strictly increasing and in range;
    2. the state reported for group `i` is exactly a plain run of groups `0..i`, and differs from the state
       before group `i`;
    3. every group whose application changed the phrase is reported;
    and the plain run of all of `G` succeeds. -/
theorem trace_sound_complete (G : List (List R)) (ph : List W) (cs : List (Nat × List W))
    (h : applyRulesTrace env G ph = .ok cs) :
    (cs.map Prod.fst).Pairwise (· < ·) ∧
    (∀ i s, (i, s) ∈ cs → i < G.length ∧ stateAfter env G ph (i + 1) = .ok s ∧
        ∃ before, stateAfter env G ph i = .ok before ∧ phraseEq env s before = false) ∧
    (∀ i, i < G.length → ∀ before after, stateAfter env G ph i = .ok before →
        stateAfter env G ph (i + 1) = .ok after → phraseEq env after before = false → (i, after) ∈ cs) ∧
    (∃ fin, ph.mapM (applyWord env G) = .ok fin) := by
  unfold applyRulesTrace at h
  obtain ⟨⟨fin, hfin⟩, h1, h2, h3⟩ := traceGo_inv env G ph G 0 ph [] cs rfl (Nat.zero_le _) (stateAfter_zero env G ph)
    (by intro i s hm; cases hm) (by intro i hi; omega) (by simp) h
  refine ⟨h3, h1, h2, fin, ?_⟩
  unfold stateAfter at hfin; simpa using hfin

/-- **the trace succeeds exactly when the run does** (which *error* is returned may differ: the loops nest in
    opposite orders). -/
theorem trace_ok_of_run_ok (G : List (List R)) (ph : List W) (h : (ph.mapM (applyWord env G)).isOk = true) :
    (applyRulesTrace env G ph).isOk = true := by
  -- every prefix state exists
  have hpre : ∀ k, k ≤ G.length → (stateAfter env G ph k).isOk = true := by
    intro k hk
    unfold stateAfter
    have hsplit : G = G.take k ++ G.drop k := (List.take_append_drop k G).symm
    have hw : applyWord env G = fun w => applyWord env (G.take k) w >>= applyWord env (G.drop k) := by
      funext w; conv => lhs; rw [hsplit]
      exact applyWord_append' env _ _ w
    rw [hw] at h
    exact mapM_ok_of_comp_ok h
  unfold applyRulesTrace
  suffices ∀ (rest : List (List R)) (k : Nat) (cur : List W) (acc : List (Nat × List W)),
      G.drop k = rest → stateAfter env G ph k = .ok cur → (traceGo env k rest cur acc).isOk = true from
    this G 0 ph [] rfl (stateAfter_zero env G ph)
  intro rest
  induction rest with
  | nil => intro k cur acc _ _; rfl
  | cons g gs ih =>
    intro k cur acc hd hcur
    have hklt : k < G.length := by
      apply Classical.byContradiction; intro hcon
      have : G.drop k = [] := List.drop_eq_nil_iff.mpr (by omega)
      rw [this] at hd; cases hd
    have hg : G[k] = g := by
      have := List.getElem_drop (xs := G) (i := k) (j := 0) (h := by simp; omega)
      simp [hd] at this; exact this.symm
    have hdrop : G.drop (k + 1) = gs := by rw [← List.drop_drop, hd]; rfl
    obtain ⟨nxt, hn⟩ := isOk_iff.mp (hpre (k + 1) (by omega))
    have hm : cur.mapM (applyGroup env g) = .ok nxt := by
      rw [← hg, ← stateAfter_succ env G ph cur k hklt hcur]; exact hn
    simp only [traceGo, hm]
    exact ih (k + 1) nxt _ hdrop hn

/-- **the last reported state (or the input, if nothing is reported) is what a plain run returns**, up to the
    word equality the tracer itself uses. -/
theorem trace_last (G : List (List R)) (ph : List W) (cs : List (Nat × List W)) (fin : List W)
    (hrefl : ∀ p : List W, phraseEq env p p = true)
    (htrans : ∀ a b c : List W, phraseEq env a b = true → phraseEq env b c = true → phraseEq env a c = true)
    (h : applyRulesTrace env G ph = .ok cs) (hfin : ph.mapM (applyWord env G) = .ok fin) :
    phraseEq env fin ((cs.getLast?.map Prod.snd).getD ph) = true := by
  obtain ⟨hsorted, hsound, hcomplete, _⟩ := trace_sound_complete env G ph cs h
  have hfin' : stateAfter env G ph G.length = .ok fin := by unfold stateAfter; simpa using hfin
  -- every prefix state exists
  have hpre : ∀ k, k ≤ G.length → ∃ st, stateAfter env G ph k = .ok st := by
    intro k hk
    apply isOk_iff.mp
    unfold stateAfter
    have hsplit : G = G.take k ++ G.drop k := (List.take_append_drop k G).symm
    have hw : applyWord env G = fun w => applyWord env (G.take k) w >>= applyWord env (G.drop k) := by
      funext w; conv => lhs; rw [hsplit]
      exact applyWord_append' env _ _ w
    have : (ph.mapM (applyWord env G)).isOk = true := by rw [hfin]; rfl
    rw [hw] at this
    exact mapM_ok_of_comp_ok this
  -- from index `lo` on, with no recorded change in [lo, hi), states stay equal
  have hstay : ∀ (lo : Nat) (d : Nat) (slo shi : List W), lo + d ≤ G.length →
      stateAfter env G ph lo = .ok slo → stateAfter env G ph (lo + d) = .ok shi →
      (∀ i, lo ≤ i → i < lo + d → ∀ s, (i, s) ∉ cs) → phraseEq env shi slo = true := by
    intro lo d
    induction d with
    | zero => intro slo shi _ h1 h2 _; rw [Nat.add_zero, h1] at h2; cases h2; exact hrefl _
    | succ d ihd =>
      intro slo shi hle h1 h2 hno
      obtain ⟨mid, hmid⟩ := hpre (lo + d) (by omega)
      have e1 := ihd slo mid (by omega) h1 hmid (fun i a b => hno i a (by omega))
      have e2 : phraseEq env shi mid = true := by
        apply Classical.byContradiction; intro hcon
        have := hcomplete (lo + d) (by omega) mid shi hmid h2 (by simpa using hcon)
        exact hno (lo + d) (by omega) (by omega) shi this
      exact htrans _ _ _ e2 e1
  cases hl : cs.getLast? with
  | none =>
    have : cs = [] := List.getLast?_eq_none_iff.mp hl
    subst this
    simp only [Option.map_none, Option.getD_none]
    have := hstay 0 G.length ph fin (by omega) (stateAfter_zero env G ph) (by simpa using hfin') (by intro i _ _ s hm; cases hm)
    exact this
  | some last =>
    obtain ⟨li, ls⟩ := last
    simp only [Option.map_some, Option.getD_some]
    have hmem : (li, ls) ∈ cs := List.mem_of_getLast? hl
    obtain ⟨hli, hst, _⟩ := hsound li ls hmem
    -- nothing recorded after index li
    have hnone : ∀ i, li + 1 ≤ i → i < li + 1 + (G.length - (li + 1)) → ∀ s, (i, s) ∉ cs := by
      intro i hi _ s hm
      -- (i, s) ∈ cs with i > li contradicts sortedness with li last
      have hidx : i ∈ cs.map Prod.fst := List.mem_map.mpr ⟨(i, s), hm, rfl⟩
      have hlast : (cs.map Prod.fst).getLast? = some li := by
        rw [List.getLast?_map, hl]; rfl
      -- in a strictly increasing list, every element is ≤ the last
      have : ∀ (l : List Nat) (m : Nat), l.Pairwise (· < ·) → l.getLast? = some m → ∀ x ∈ l, x ≤ m := by
        intro l
        induction l with
        | nil => intro m _ h; cases h
        | cons a as iha =>
          intro m hp hlm x hx
          rw [List.pairwise_cons] at hp
          cases as with
          | nil => simp at hlm hx; omega
          | cons b bs =>
            rw [List.getLast?_cons_cons] at hlm
            rcases List.mem_cons.mp hx with rfl | hx'
            · have hb := iha m hp.2 hlm b (by simp)
              have := hp.1 b (by simp); omega
            · exact iha m hp.2 hlm x hx'
      have := this _ li hsorted hlast i hidx
      omega
    have := hstay (li + 1) (G.length - (li + 1)) ls fin (by omega) hst (by
      have : li + 1 + (G.length - (li + 1)) = G.length := by omega
      rw [this]; exact hfin') hnone
    exact this

/-! Non-vacuity -/
private def toyEnv : Env String Nat Nat Unit Unit where
  parseAliases _ _ := .ok ((), ())
  parseWord _ s := .ok s.length
  parseRule _ _ s := .ok (some s.length)
  apply r w := if w + r > 100 then .err "too big" else .ok (w + r)
  render _ w := List.replicate w 'a'
  weq a b := a == b
  isWs c := c == ' '

example : applyRulesTrace toyEnv [[1], [0], [], [2, 3]] [10, 20] = .ok [(0, [11, 21]), (3, [16, 26])] := by decide
example : [10, 20].mapM (applyWord toyEnv [[1], [0], [], [2, 3]]) = .ok [16, 26] := by decide

end Asca.C16
