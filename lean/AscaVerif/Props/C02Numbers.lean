import AscaVerif.Props.C17Parse
/-! C02, the repair of D2 (`fix:` commits "a number that does not fit a usize is a syntax error, not a panic"), proved
    for lexer + parser on EVERY line: the lexer hands over only `Number` tokens that hold a digit and are below 2^64
    (`Lex.lexLine_numbers_fit`), the parser only ever parses the digits of the token under its cursor, so none of the
    parser's `parse::<usize>().unwrap()` / `expect()` sites (modelled as the panic sites `numberSites`) can be reached
    with a number that does not fit.  Before the repair `C=99999999999999999999 > 1` was a panic of the model and of the
    code; now it is the lexer's `NumberTooBig`.  (The interpreter's nine sites of the same kind read the digits of
    `Variable` tokens the parser stored, i.e. of the same tokens; that they cannot fail either is not stated as a theorem
    over the interpreter port.) -/
namespace Asca.Parse.Spans
open Asca.Parse
open Lex (Token TK)

variable {L : Nat}

/-- **no failed number parse**: on the lexer's token lists the parser never reaches one of its
    `parse::<usize>().unwrap()` / `expect()` sites with a number that does not fit -/
theorem parse_no_number_panic (toks : List Token) (hT : ToksOK L toks) (p : String) (h : parse toks = .panic p) : PanicOK p := by
  unfold parse at h
  split at h
  · cases h; unfold PanicOK numberSites; decide
  · rename_i t rest
    split at h
    · cases h
    · have hi : Inv L ({ toks := t :: rest, pos := 0, cur := t } : PS) := ⟨hT, by simp, Or.inl rfl⟩
      have := rule_spans _ hi
      split at h
      · cases h
      · cases h
      · rename_i p' hx; cases h; rw [hx] at this; exact this
      · cases h

/-- **the repair of D2, for the parser, on every line**: whatever the line, lexer + parser do not panic on a number -
    a number above `usize::MAX` is the lexer's `NumberTooBig` error, every other number parses -/
theorem parseLine_no_number_panic (src : Text) (p : String) (h : parseLine src = .panic p) : PanicOK p := by
  unfold parseLine at h
  cases hl : Lex.lexLine src with
  | ok toks => rw [hl] at h; exact parse_no_number_panic (L := src.length) toks (toksOK_of_lex src toks hl) p h
  | err le => rw [hl] at h; cases h
  | panic q =>
    exfalso
    rcases Lex.lexLine_returns src with ⟨t, ht⟩ | ⟨e, he⟩
    · rw [ht] at hl; cases hl
    · rw [he] at hl; cases hl
  | outOfFuel q => rw [hl] at h; cases h

end Asca.Parse.Spans
