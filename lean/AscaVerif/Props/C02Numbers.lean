import AscaVerif.Props.C17Parse
import AscaVerif.Props.C02Parse
/-! C02 for the rule front end, complete: **lexer + parser return on every line** - a rule, "no rule", or a
    `RuleSyntaxError`; never a panic, never an endless loop.

    The parser model has 20 `panic` sites (indexing the token list, `unwrap`/`expect` on numbers and matrices,
    `unreachable!()`s, `DIACRITS[d]`).  `Lemmas/ParseSpans.lean` shows every one of them unreachable on the token lists the
    lexer produces (`PanicOK := False` in its specifications):
    * `token_list[pos-1]`, `token_list[pos]`: the cursor stays inside the list until the final `Eol` is consumed, and
      `pos-1` is only read after a token has been consumed;
    * the number parses: the lexer hands over only numbers below 2^64 (`Lex.lexLine_numbers_fit` - the repair of D2);
    * `curr_token_to_modifier`'s `unreachable!()` and the `unreachable!()`s of `get_param_args`: a feature token is
      `tone: digits` or a row of the feature table with a sign, every row names a node, a feature or one of the four
      binary suprasegmentals (`Lex.lexLine_tokens_ok`, `rows_ok`: kernel-checked over the regenerated table);
    * `DIACRITS[d]`: a diacritic token indexes the table;
    * the `expect(matrix)`s: what `group_to_matrix`, `get_params`, `join_group_with_params` and `get_group` return is a matrix;
    * `els.first().expect(..)`: a word boundary was seen only if the list is not empty;
    * `value.chars().next().unwrap()`: the first token of a rule is neither `Eol` nor a comment, so its text is not empty;
    * the `unreachable!()` after an empty term (`t,,ʰ`, former known finding D30) was REPAIRED (`fix:` commit): the stray
      diacritic is now left to the caller, which reports `ExpectedArrow` / `ExpectedEndLine`. -/
namespace Asca.Parse.Spans
open Asca.Parse
open Lex (Token TK)

variable {L : Nat}

/-- **the parser does not panic** on the lexer's token lists -/
theorem parse_no_panic (toks : List Token) (hT : ToksOK L toks) (p : String) : parse toks ≠ .panic p := by
  intro h
  unfold parse at h
  split at h
  · exact hT.nonempty rfl
  · rename_i t rest
    split at h
    · cases h
    · rename_i hguard
      have hi : Inv L ({ toks := t :: rest, pos := 0, cur := t } : PS) := ⟨hT, by simp, Or.inl rfl⟩
      have h0 : t.kind ≠ .eol ∧ t.kind ≠ .comment := by
        simp only [Bool.or_eq_true, decide_eq_true_eq, not_or] at hguard; exact hguard
      have := rule_spans _ hi h0
      split at h
      · cases h
      · cases h
      · rename_i p' hx; rw [hx] at this; exact this
      · cases h

/-- **every rule line is parsed or rejected**: lexer + parser return `Ok(Some(rule))`, `Ok(None)` (blank or comment
    line) or a `RuleSyntaxError`, for every list of code points -/
theorem parseLine_returns (src : Text) : (∃ r, parseLine src = .ok r) ∨ (∃ e, parseLine src = .err e) := by
  cases h : parseLine src with
  | ok r => exact Or.inl ⟨r, rfl⟩
  | err e => exact Or.inr ⟨e, rfl⟩
  | outOfFuel q => have := Parse.parseLine_terminates src; rw [h] at this; exact absurd this (by intro h'; exact h')
  | panic q =>
    exfalso
    unfold parseLine at h
    cases hl : Lex.lexLine src with
    | ok toks => rw [hl] at h; exact parse_no_panic (L := src.length) toks (toksOK_of_lex src toks hl) q h
    | err le => rw [hl] at h; cases h
    | panic q' =>
      rcases Lex.lexLine_returns src with ⟨t, ht⟩ | ⟨e, he⟩
      · rw [ht] at hl; cases hl
      · rw [he] at hl; cases hl
    | outOfFuel q' => rw [hl] at h; cases h

/-! Non-vacuity: the two former panics are errors now -/
example : (match parseLine ("C=99999999999999999999 > 1".toList.map Char.toNat) with | .err e => some e | _ => none) = some ⟨"NumberTooBig", [(2, 22)]⟩ := by
  decide +kernel
example : (match parseLine ("t,,ʰ > x".toList.map Char.toNat) with | .err e => some e | _ => none) = some ⟨"ExpectedArrow", [(3, 4)]⟩ := by
  decide +kernel

end Asca.Parse.Spans
