import AscaVerif.Model.Config
/-! # C20 — a `seq` project is the composition of its stages, as configured

Over the model of `Model/Config.lean` (filters, validation of `%` references, the word pipeline with its cache), with
the library, the rule files and the word files as parameters — so for every project, of any size:
* filters: `!` keeps exactly the groups whose name is not listed, in file order; `~` returns one group per listed
  name, in the order listed, the first of that name in the file; names are compared through `lower` on both sides;
* validation: on a config that passes, following `%` from any tag reaches a root within `|config|` steps
  (`validate_chain`), the loop detector itself never runs out of steps (`detectLoop_total`), and a config in which
  some tag's `%` chain returns to it does not pass (`cycle_rejected`);
* the cache: whatever order the tags are run in, every tag's result is the one computed without a cache
  (`runAll_sound`) — the cache changes cost, never words.
The model is tied to the binary by the `seq-plan` correspondence and by running the binary on generated project
trees (`c20-spec`). -/
namespace Asca.C20
open Asca Asca.Cfg Asca.Cli

/-! ## filters -/

theorem select_none (lower : Text → Text) (names : List Text) : select lower names .none = .ok (List.range names.length) := rfl

/-- `!` : position `i` is kept iff the name at `i` is not one of the listed names (both lowered); order is file order -/
theorem select_without (lower : Text → Text) (names ns : List Text) (keep : List Nat)
    (h : select lower names (.without ns) = .ok keep) :
    keep = (List.range names.length).filter (fun i => !((ns.map lower).contains (lower (names.getD i [])))) ∧
    keep.Pairwise (· < ·) ∧ keep.length < names.length := by
  unfold select at h
  simp only at h
  split at h
  · cases h
  · rename_i hlen
    cases h
    refine ⟨rfl, ?_, ?_⟩
    · exact List.Pairwise.filter _ (List.pairwise_lt_range)
    · have hle := List.length_filter_le (fun i => !((ns.map lower).contains (lower (names.getD i [])))) (List.range names.length)
      simp only [List.length_range] at hle
      omega

theorem select_only_eq (lower : Text → Text) (names ns : List Text) : select lower names (.only ns) = onlyGo lower names ns := rfl

theorem onlyGo_ok (lower : Text → Text) (names : List Text) : ∀ (ns : List Text) (idx : List Nat), onlyGo lower names ns = .ok idx →
    idx.length = ns.length ∧
    ∀ k (hk : k < ns.length) (hk' : k < idx.length), names.findIdx? (fun x => lower x == lower ns[k]) = some idx[k] := by
  intro ns
  induction ns with
  | nil => intro idx h; simp [onlyGo] at h; cases h; simp
  | cons n ns ih =>
    intro idx h
    unfold onlyGo at h
    cases hfind : names.findIdx? (fun x => lower x == lower n) with
    | none => rw [hfind] at h; cases h
    | some i =>
      cases hrest : onlyGo lower names ns with
      | error e => rw [hfind, hrest] at h; cases h
      | ok is =>
        rw [hfind, hrest] at h
        cases h
        obtain ⟨hl, hp⟩ := ih is hrest
        refine ⟨by simp [hl], ?_⟩
        intro k hk hk'
        cases k with
        | zero => simpa using hfind
        | succ k => simpa using hp k (by simpa using hk) (by simpa using hk')

/-- `~` : one position per listed name, in the order listed; each is the first group of that name -/
theorem select_only (lower : Text → Text) (names ns : List Text) (idx : List Nat)
    (h : select lower names (.only ns) = .ok idx) :
    idx.length = ns.length ∧
    ∀ k (hk : k < ns.length) (hk' : k < idx.length), names.findIdx? (fun x => lower x == lower ns[k]) = some idx[k] :=
  onlyGo_ok lower names ns idx (by rw [← select_only_eq]; exact h)

/-- a listed name that no group carries is an error, not a silent omission -/
theorem select_only_missing (lower : Text → Text) (names ns : List Text) (n : Text) (hn : n ∈ ns)
    (hmiss : names.findIdx? (fun x => lower x == lower n) = none) :
    ∃ e, select lower names (.only ns) = .error e := by
  rw [select_only_eq]
  induction ns with
  | nil => cases hn
  | cons m ms ih =>
    unfold onlyGo
    rcases List.mem_cons.mp hn with rfl | hm
    · rw [hmiss]; exact ⟨_, rfl⟩
    · obtain ⟨e, he⟩ := ih hm
      rw [he]
      cases names.findIdx? (fun x => lower x == lower m) <;> exact ⟨_, rfl⟩

/-! ## validation of `%` references -/

theorem findSeq_tag {conf : List Seq} {t : Text} {p : Seq} (h : findSeq conf t = some p) : p.tag = t ∧ p ∈ conf := by
  unfold findSeq at h
  exact ⟨by simpa using List.find?_some h, List.mem_of_find?_eq_some h⟩

/-- every `%` target of a sequence in the config is declared -/
def Closed (conf : List Seq) : Prop := ∀ c ∈ conf, ∀ f, c.frm = some f → (findSeq conf f).isSome = true

/-- the loop detector never runs out of steps: after `|config| + 1` hops it would have seen more distinct tags than exist -/
theorem detectLoopGo_total (conf : List Seq) (hclosed : Closed conf) :
    ∀ (fuel : Nat) (visited : List Text) (head : Seq), head ∈ conf → visited.Nodup → (∀ t ∈ visited, t ∈ conf.map (·.tag)) →
      fuel + visited.length = conf.length + 1 → detectLoopGo conf fuel visited head ≠ none := by
  intro fuel
  induction fuel with
  | zero =>
    intro visited head _ hnd hsub hlen
    have := List.Nodup.length_le_of_subset hnd (fun t ht => hsub t ht)
    simp at this; omega
  | succ fuel ih =>
    intro visited head hmem hnd hsub hlen
    unfold detectLoopGo
    cases hf : head.frm with
    | none => simp
    | some f =>
      simp only
      by_cases hv : visited.contains f = true
      · rw [if_pos hv]; simp
      · rw [if_neg hv]
        have hsome := hclosed head hmem f hf
        cases hfs : findSeq conf f with
        | none => rw [hfs] at hsome; cases hsome
        | some nxt =>
          simp only
          obtain ⟨htag, hin⟩ := findSeq_tag hfs
          apply ih (f :: visited) nxt hin
          · refine List.nodup_cons.mpr ⟨?_, hnd⟩
            intro hm; apply hv; simpa using hm
          · intro t ht
            rcases List.mem_cons.mp ht with rfl | ht
            · rw [← htag]; exact List.mem_map.mpr ⟨nxt, hin, rfl⟩
            · exact hsub t ht
          · simp; omega

theorem detectLoop_total (conf : List Seq) (hclosed : Closed conf) (head : Seq) (h : head ∈ conf) :
    detectLoop conf head ≠ none :=
  detectLoopGo_total conf hclosed _ [] head h List.nodup_nil (by simp) (by simp)

/-- when the detector says "no loop", the chain of `%` references from that tag reaches a root within the same number of hops -/
theorem chain_of_no_loop (conf : List Seq) : ∀ (fuel : Nat) (visited : List Text) (s : Seq),
    detectLoopGo conf fuel visited s = some false → (chainGo conf fuel s).isSome = true := by
  intro fuel
  induction fuel with
  | zero => intro v s h; simp [detectLoopGo] at h
  | succ fuel ih =>
    intro v s h
    unfold detectLoopGo at h
    unfold chainGo
    cases hf : s.frm with
    | none => simp
    | some f =>
      rw [hf] at h
      simp only at h ⊢
      by_cases hv : v.contains f = true
      · rw [if_pos hv] at h; simp at h
      · rw [if_neg hv] at h
        cases hfs : findSeq conf f with
        | none => rw [hfs] at h; cases h
        | some nxt =>
          rw [hfs] at h
          simp only at h ⊢
          have := ih (f :: v) nxt h
          simpa using this

/-- **accepted configs have finite pipelines**: every tag's chain back to its root exists and has at most `|config| + 1` members -/
theorem validate_chain (conf : List Seq) (hv : validate conf = true) (s : Seq) (hs : s ∈ conf) :
    (chainGo conf (conf.length + 1) s).isSome = true := by
  unfold validate at hv
  simp only [Bool.and_eq_true, List.all_eq_true] at hv
  have h3 := hv.2 s hs
  cases hf : s.frm with
  | none => simp [chainGo, hf]
  | some f =>
    rw [hf] at h3
    simp only [beq_iff_eq] at h3
    exact chain_of_no_loop conf _ [] s h3

/-- one `%` hop -/
def hop (conf : List Seq) (s : Seq) : Option Seq := s.frm.bind (findSeq conf)

def hops (conf : List Seq) : Nat → Seq → Option Seq
  | 0, s => some s
  | k + 1, s => (hop conf s).bind (hops conf k)

theorem hops_succ_right (conf : List Seq) (k : Nat) (s : Seq) : hops conf (k + 1) s = (hops conf k s).bind (hop conf) := by
  induction k generalizing s with
  | zero => simp [hops]
  | succ k ih =>
    show (hop conf s).bind (hops conf (k + 1)) = ((hop conf s).bind (hops conf k)).bind (hop conf)
    cases hop conf s with
    | none => rfl
    | some p => simpa using ih p

/-- a tag whose `%` chain comes back to it has no finite chain, whatever the budget -/
theorem cycle_no_chain (conf : List Seq) (k : Nat) : ∀ (fuel : Nat) (s : Seq), hops conf (k + 1) s = some s → chainGo conf fuel s = none := by
  intro fuel
  induction fuel with
  | zero => intro s _; rfl
  | succ fuel ih =>
    intro s hcyc
    unfold chainGo
    cases hf : s.frm with
    | none => simp [hops, hop, hf] at hcyc
    | some f =>
      simp only
      cases hfs : findSeq conf f with
      | none => rfl
      | some p =>
        simp only
        have hhop : hop conf s = some p := by simp [hop, hf, hfs]
        -- `p` lies on the same cycle
        have hp : hops conf (k + 1) p = some p := by
          have h1 : hops conf (k + 1) s = (hops conf k p) := by simp [hops, hhop]
          rw [hops_succ_right]
          rw [h1] at hcyc
          rw [hcyc]; exact hhop
        rw [ih p hp]; rfl

/-- **cyclic configs are rejected**: if some tag's `%` chain returns to it, validation fails -/
theorem cycle_rejected (conf : List Seq) (s : Seq) (hs : s ∈ conf) (k : Nat) (hcyc : hops conf (k + 1) s = some s) :
    validate conf = false := by
  cases hv : validate conf with
  | false => rfl
  | true =>
    have h1 := validate_chain conf hv s hs
    rw [cycle_no_chain conf k _ s hcyc] at h1
    cases h1

/-! ## the cache changes cost, never words -/

variable (W : World) (conf : List Seq)

theorem finalWords_mono : ∀ (fuel : Nat) (s : Seq) (r : List Text), finalWords W conf fuel s = some r → finalWords W conf (fuel + 1) s = some r := by
  intro fuel
  induction fuel with
  | zero => intro s r h; cases h
  | succ fuel ih =>
    intro s r h
    unfold finalWords at h ⊢
    cases hf : s.frm with
    | none => rw [hf] at h; simpa using h
    | some f =>
      rw [hf] at h
      simp only at h ⊢
      cases hfs : findSeq conf f with
      | none => rw [hfs] at h; simp at h
      | some p =>
        rw [hfs] at h
        simp only [Option.bind_some] at h ⊢
        cases hp : finalWords W conf fuel p with
        | none => rw [hp] at h; simp at h
        | some st => rw [hp] at h; rw [ih p st hp]; exact h

theorem finalWords_mono_add (fuel k : Nat) (s : Seq) (r : List Text) (h : finalWords W conf fuel s = some r) :
    finalWords W conf (fuel + k) s = some r := by
  induction k with
  | zero => exact h
  | succ k ih => exact finalWords_mono W conf _ s r ih

/-- the result of a tag does not depend on the budget, once there is enough of it -/
theorem finalWords_det (f1 f2 : Nat) (s : Seq) (a b : List Text) (h1 : finalWords W conf f1 s = some a)
    (h2 : finalWords W conf f2 s = some b) : a = b := by
  have e1 := finalWords_mono_add W conf f1 f2 s a h1
  have e2 := finalWords_mono_add W conf f2 f1 s b h2
  rw [Nat.add_comm] at e2
  rw [e1] at e2; cases e2; rfl

/-- a cache every entry of which is the uncached result of the tag it is filed under -/
def Coherent (cache : Cache) : Prop :=
  ∀ t ws, cacheGet cache t = some ws → ∃ p fuel, findSeq conf t = some p ∧ finalWords W conf fuel p = some ws

theorem coherent_nil : Coherent W conf [] := by intro t ws h; simp [cacheGet] at h

theorem coherent_cons (cache : Cache) (hc : Coherent W conf cache) (p : Seq) (t : Text) (ws : List Text) (fuel : Nat)
    (hp : findSeq conf t = some p) (hw : finalWords W conf fuel p = some ws) : Coherent W conf ((t, ws) :: cache) := by
  intro t' ws' h
  unfold cacheGet at h
  simp only [List.find?_cons] at h
  by_cases ht : t = t'
  · subst ht; simp at h; subst h; exact ⟨p, fuel, hp, hw⟩
  · simp [ht] at h
    exact hc t' ws' (by unfold cacheGet; simpa using h)

/-- **a tag computed with a coherent cache gets its uncached words, and leaves the cache coherent** -/
theorem cached_sound : ∀ (fuel : Nat) (s : Seq) (cache : Cache) (r : List Text) (c' : Cache),
    Coherent W conf cache → finalWordsCached W conf fuel s cache = some (r, c') →
    (∃ fuel', finalWords W conf fuel' s = some r) ∧ Coherent W conf c' := by
  intro fuel
  induction fuel with
  | zero => intro s cache r c' _ h; cases h
  | succ fuel ih =>
    intro s cache r c' hc h
    unfold finalWordsCached at h
    cases hf : s.frm with
    | none =>
      rw [hf] at h
      simp only [Option.bind_some] at h
      cases hr : runEntries W s.alias s.entries (appendWordFiles W [] s.words) with
      | none => rw [hr] at h; simp at h
      | some r' =>
        rw [hr] at h; simp at h
        obtain ⟨rfl, rfl⟩ := h
        exact ⟨⟨1, by simp [finalWords, hf, hr]⟩, hc⟩
    | some f =>
      rw [hf] at h
      simp only at h
      cases hg : cacheGet cache f with
      | some ws =>
        rw [hg] at h
        simp only [Option.bind_some] at h
        obtain ⟨p, fu, hp, hw⟩ := hc f ws hg
        cases hr : runEntries W s.alias s.entries (appendWordFiles W ws s.words) with
        | none => rw [hr] at h; simp at h
        | some r' =>
          rw [hr] at h; simp at h
          obtain ⟨rfl, rfl⟩ := h
          exact ⟨⟨fu + 1, by simp [finalWords, hf, hp, hw, hr]⟩, hc⟩
      | none =>
        rw [hg] at h
        simp only at h
        cases hfs : findSeq conf f with
        | none => rw [hfs] at h; simp at h
        | some p =>
          rw [hfs] at h
          simp only [Option.bind_some] at h
          cases hrec : finalWordsCached W conf fuel p cache with
          | none => rw [hrec] at h; simp at h
          | some pr =>
            obtain ⟨ws, c1⟩ := pr
            rw [hrec] at h
            simp only [Option.map_some, Option.bind_some] at h
            obtain ⟨⟨fu, hw⟩, hc1⟩ := ih p cache ws c1 hc hrec
            cases hr : runEntries W s.alias s.entries (appendWordFiles W ws s.words) with
            | none => rw [hr] at h; simp at h
            | some r' =>
              rw [hr] at h; simp at h
              obtain ⟨rfl, rfl⟩ := h
              have htag := (findSeq_tag hfs).1
              refine ⟨⟨fu + 1, by simp [finalWords, hf, hfs, hw, hr]⟩, ?_⟩
              rw [htag]
              exact coherent_cons W conf c1 hc1 p f ws fu hfs hw

/-- **running all tags, in any listed order, with the cache**: every reported result is the uncached result of its tag
    (tags are assumed unique, as validation checks) -/
theorem runAll_sound (order : List Seq) (horder : ∀ s ∈ order, findSeq conf s.tag = some s) :
    ∀ (cache : Cache) (out : List (Text × List Text)) (c' : Cache), Coherent W conf cache →
      runAll W conf order cache = some (out, c') →
      out.length = order.length ∧
      ∀ i (hi : i < order.length) (ho : i < out.length), out[i].1 = order[i].tag ∧ ∃ fuel, finalWords W conf fuel order[i] = some out[i].2 := by
  induction order with
  | nil => intro cache out c' _ h; simp [runAll] at h; obtain ⟨rfl, _⟩ := h; simp
  | cons s rest ih =>
    intro cache out c' hc h
    unfold runAll at h
    cases h1 : finalWordsCached W conf (conf.length + 1) s cache with
    | none => rw [h1] at h; simp at h
    | some pr =>
      obtain ⟨r, c1⟩ := pr
      rw [h1] at h
      simp only [Option.bind_some] at h
      obtain ⟨⟨fu, hw⟩, hc1⟩ := cached_sound W conf _ s cache r c1 hc h1
      have hc2 : Coherent W conf ((s.tag, r) :: c1) := coherent_cons W conf c1 hc1 s s.tag r fu (horder s (by simp)) hw
      cases h2 : runAll W conf rest ((s.tag, r) :: c1) with
      | none => rw [h2] at h; simp at h
      | some pr2 =>
        obtain ⟨out2, c2⟩ := pr2
        rw [h2] at h
        simp at h
        obtain ⟨rfl, rfl⟩ := h
        obtain ⟨hl, hp⟩ := ih (fun x hx => horder x (by simp [hx])) _ out2 c2 hc2 h2
        refine ⟨by simp [hl], ?_⟩
        intro i hi ho
        cases i with
        | zero => exact ⟨rfl, fu, hw⟩
        | succ i => simpa using hp i (by simpa using hi) (by simpa using ho)


/-! ## a pipeline is the composition of its stages -/

theorem runEntries_append (alias : Bool) (es1 es2 : List Entry) (ws : List Text) :
    runEntries W alias (es1 ++ es2) ws = (runEntries W alias es1 ws).bind (runEntries W alias es2) := by
  unfold runEntries
  rw [List.foldlM_append]
  rfl

theorem appendWordFiles_nil (st : List Text) : appendWordFiles W st [] = st := rfl

/-- no tag of the chain but the root brings word files of its own, and none names an alias file -/
def PlainChain : List Seq → Prop
  | [] => True
  | root :: rest => root.alias = false ∧ ∀ s ∈ rest, s.words = [] ∧ s.alias = false

/-- **stage by stage = entry by entry**: the words a tag ends with are its root's word files pushed through the entries
    of the whole chain, root first, in the listed order -/
theorem finalWords_chain : ∀ (fuel : Nat) (s : Seq) (ch : List Seq), chainGo conf fuel s = some ch → PlainChain ch →
    ∃ root rest, ch = root :: rest ∧
      finalWords W conf fuel s = runEntries W false (ch.flatMap (·.entries)) (appendWordFiles W [] root.words) := by
  intro fuel
  induction fuel with
  | zero => intro s ch h; cases h
  | succ fuel ih =>
    intro s ch h hplain
    unfold chainGo at h
    unfold finalWords
    cases hf : s.frm with
    | none =>
      rw [hf] at h
      simp only [Option.some.injEq] at h
      subst h
      refine ⟨s, [], rfl, ?_⟩
      have ha : s.alias = false := hplain.1
      simp [ha]
    | some f =>
      rw [hf] at h
      simp only at h ⊢
      cases hfs : findSeq conf f with
      | none => rw [hfs] at h; cases h
      | some p =>
        rw [hfs] at h
        simp only [Option.bind_some] at h ⊢
        cases hch : chainGo conf fuel p with
        | none => rw [hch] at h; cases h
        | some chp =>
          rw [hch] at h
          simp only [Option.map_some, Option.some.injEq] at h
          subst h
          -- the parent's chain is plain too
          have hplainp : PlainChain chp := by
            cases chp with
            | nil => trivial
            | cons r rs =>
              refine ⟨hplain.1, ?_⟩
              intro x hx
              exact hplain.2 x (by simp [hx])
          obtain ⟨root, rest, hroot, hfw⟩ := ih p chp hch hplainp
          subst hroot
          refine ⟨root, rest ++ [s], by simp, ?_⟩
          have hs := hplain.2 s (by simp)
          rw [hfw]
          have hflat : List.flatMap (fun x => x.entries) (root :: rest ++ [s]) = List.flatMap (fun x => x.entries) (root :: rest) ++ s.entries := by
            simp [List.flatMap_append]
          rw [hflat, runEntries_append]
          congr 1
          funext st
          rw [hs.1, hs.2]; rfl

/-- and, when the library composes (`C10.applyRuleGroups_append`: running `G₁ ++ G₂` is running `G₁`, then `G₂` on its
    result — which for the real library needs the render/parse round trip of C09), the entries of a chain collapse into
    ONE call on the concatenated history, the thing `conv tag --recurse` exports -/
theorem runEntries_history (hcomp : ∀ (g1 g2 : List Group) (ws : List Text), W.run false (g1 ++ g2) ws = (W.run false g1 ws).bind (W.run false g2))
    (hid : ∀ ws, W.run false [] ws = some ws) :
    ∀ (es : List Entry) (gs : List Group), es.foldlM (fun acc e => (selectGroups W e).map (acc ++ ·)) [] = some gs →
      ∀ ws, runEntries W false es ws = W.run false gs ws := by
  -- generalised over the groups collected so far
  have gen : ∀ (es : List Entry) (acc gs : List Group), es.foldlM (fun acc e => (selectGroups W e).map (acc ++ ·)) acc = some gs →
      ∀ ws, (W.run false acc ws).bind (runEntries W false es) = W.run false gs ws := by
    intro es
    induction es with
    | nil =>
      intro acc gs h ws
      have : acc = gs := by simpa using h
      subst this
      cases W.run false acc ws <;> simp [runEntries]
    | cons e es ih =>
      intro acc gs h ws
      simp only [List.foldlM_cons] at h
      cases hsel : selectGroups W e with
      | none => rw [hsel] at h; simp at h
      | some ge =>
        rw [hsel] at h
        simp only [Option.map_some, Option.bind_some] at h
        have := ih (acc ++ ge) gs h ws
        rw [hcomp acc ge ws] at this
        rw [← this]
        cases W.run false acc ws with
        | none => rfl
        | some mid =>
          simp only [Option.bind_some]
          unfold runEntries
          simp only [List.foldlM_cons, hsel, Option.bind_some]
          rfl
  intro es gs h ws
  have := gen es [] gs h ws
  rw [hid ws] at this
  simpa using this

/-! ## the statements are about something: a three-level chain listed children first -/

def demoConf : List Seq :=
  [{ tag := [99], frm := some [98], entries := [⟨0, .none⟩] }, { tag := [98], frm := some [97], entries := [⟨0, .only [[88]]⟩] },
   { tag := [97], words := [0], entries := [⟨0, .without [[88]]⟩] }]

example : validate demoConf = true := by decide
example : validate ({ tag := [97], frm := some [99], words := [0] } :: demoConf.take 2) = false := by decide
example : select id [[88], [89], [88]] (.only [[89], [88]]) = .ok [1, 0] := rfl
example : select id [[88], [89], [88]] (.without [[88]]) = .ok [1] := rfl

end Asca.C20
