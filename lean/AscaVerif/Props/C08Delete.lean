import AscaVerif.Model.Interp.Apply
/-! C08, mechanism "deleting the only segment / only syllable is refused": **a deletion never empties the word**.  Over the
    port of the deletion code shared by the `Deletion` arm of `transform` and the surplus-input tail of `substitution`
    (Model/Interp/Subst.lean `deleteEl` / `deleteEls`, after the repair of D8d, where the only-segment guard reads the word
    as it is at that moment): whatever elements one match captured - segments, whole syllables, boundaries, in any
    number and order - every word the deletion returns still has a syllable.  (Before the repair the statement was false:
    `x [] > *` on `xo` returned the word without syllables; the seeded change `C08-only-segment-guard-computed-once`
    re-creates that.) -/
namespace Asca.C08Delete
open Asca Asca.Interp

theorem removeSyll_len (w w2 : Word) (i : Nat) (site : String) (h : removeSyll w i site = .ok w2) :
    i < w.sylls.length ∧ w2.sylls.length = w.sylls.length - 1 := by
  unfold removeSyll at h
  by_cases hi : i < w.sylls.length
  · rw [if_pos hi] at h
    simp only [Outcome.ok.injEq] at h
    subst h
    exact ⟨hi, by simp [List.length_eraseIdx, hi]⟩
  · rw [if_neg hi] at h; simp at h

theorem setSyll_len (w : Word) (i : Nat) (σ : Syll) : (setSyll w i σ).sylls.length = w.sylls.length := by simp [setSyll]

/-- the segment branch, with the (adjusted) position fixed -/
def delSeg (w : Word) (i : SegPos) : Res Word :=
  let lastSeg : Bool := match w.syllLen i.si with | some l => decide (l ≤ 1) | none => true
  if w.sylls.length ≤ 1 && lastSeg then .err "DeletionOnlySeg"
  else do
    let σ ← getSyll w i.si "deletion: res_word.syllables[i.syll_index]"
    let σ' := removeSegAt σ i.gi
    let w1 := setSyll w i.si σ'
    if σ'.segs.isEmpty then removeSyll w1 i.si "deletion: syllables.remove" else pure w1

theorem delSeg_keeps (w w2 : Word) (i : SegPos) (hlen : 0 < w.sylls.length) (h : delSeg w i = .ok w2) : 0 < w2.sylls.length := by
  unfold delSeg at h
  simp only at h
  by_cases hg : (decide (w.sylls.length ≤ 1) && (match w.syllLen i.si with | some l => decide (l ≤ 1) | none => true)) = true
  · rw [if_pos hg] at h; simp at h
  · rw [if_neg hg] at h
    cases hσ : getSyll w i.si "deletion: res_word.syllables[i.syll_index]" with
    | ok σ =>
      simp only [hσ, bind, Outcome.bind] at h
      have hget : w.sylls[i.si]? = some σ := by
        unfold getSyll at hσ
        cases hx : w.sylls[i.si]? with
        | some x => rw [hx] at hσ; simp only [Outcome.ok.injEq] at hσ; rw [hσ]
        | none => rw [hx] at hσ; simp at hσ
      by_cases hemp : (removeSegAt σ i.gi).segs.isEmpty = true
      · rw [if_pos hemp] at h
        obtain ⟨_, h2⟩ := removeSyll_len _ _ _ _ h
        rw [h2, setSyll_len]
        -- the emptied syllable had at most one segment, so the guard says there was another syllable
        have hsl : (removeSegAt σ i.gi).segs.length = 0 := by simpa using hemp
        have hone : σ.segs.length ≤ 1 := by
          simp only [removeSegAt, List.length_eraseIdx] at hsl
          split at hsl <;> omega
        have hsyl : w.syllLen i.si = some σ.segs.length := by simp [Word.syllLen, hget]
        have : ¬ w.sylls.length ≤ 1 := by
          intro hle; apply hg; simp [hsyl, hle, hone]
        omega
      · rw [if_neg hemp] at h
        simp only [pure, Outcome.ok.injEq] at h
        rw [← h, setSyll_len]; exact hlen
    | err e => simp [hσ, bind, Outcome.bind] at h
    | panic q => simp [hσ, bind, Outcome.bind] at h
    | outOfFuel q => simp [hσ, bind, Outcome.bind] at h

/-- the tail of the segment branch, whatever position it reports -/
theorem seg_tail (w w' : Word) (i p pos' : SegPos)
    (h : (if (decide (w.sylls.length ≤ 1) && (match w.syllLen i.si with | some l => decide (l ≤ 1) | none => true)) = true then (.err "DeletionOnlySeg" : Res (Word × SegPos))
          else do
            let σ ← getSyll w i.si "deletion: res_word.syllables[i.syll_index]"
            let w2 ← (if (removeSegAt σ i.gi).segs.isEmpty then removeSyll (setSyll w i.si (removeSegAt σ i.gi)) i.si "deletion: syllables.remove"
                      else pure (setSyll w i.si (removeSegAt σ i.gi)))
            pure (w2, pos')) = .ok (w', p)) : delSeg w i = .ok w' := by
  unfold delSeg
  simp only
  by_cases hg : (decide (w.sylls.length ≤ 1) && (match w.syllLen i.si with | some l => decide (l ≤ 1) | none => true)) = true
  · rw [if_pos hg] at h; simp at h
  · rw [if_neg hg] at h ⊢
    cases hσ : getSyll w i.si "deletion: res_word.syllables[i.syll_index]" with
    | ok σ =>
      simp only [hσ, bind, Outcome.bind] at h ⊢
      cases hw2 : (if (removeSegAt σ i.gi).segs.isEmpty = true then removeSyll (setSyll w i.si (removeSegAt σ i.gi)) i.si "deletion: syllables.remove"
          else pure (setSyll w i.si (removeSegAt σ i.gi)) : Res Word) with
      | ok w2 => rw [hw2] at h; simp only [pure, Outcome.ok.injEq, Prod.mk.injEq] at h; rw [h.1]
      | err e => rw [hw2] at h; simp at h
      | panic q => rw [hw2] at h; simp at h
      | outOfFuel q => rw [hw2] at h; simp at h
    | err e => simp [hσ, bind, Outcome.bind] at h
    | panic q => simp [hσ, bind, Outcome.bind] at h
    | outOfFuel q => simp [hσ, bind, Outcome.bind] at h

/-- `deleteEl` on a segment is `delSeg` at the adjusted position -/
theorem deleteEl_segment (orig : Word) (i0 : SegPos) (st : Option Nat) (w w' : Word) (pos p : SegPos) (tlc : Option (List Int))
    (h : deleteEl orig (.segment i0 st) w pos tlc = .ok (w', p)) : ∃ i, delSeg w i = .ok w' := by
  unfold deleteEl at h
  cases tlc with
  | none =>
    simp only [pure, bind, Outcome.bind] at h
    exact ⟨i0, seg_tail w w' i0 p _ h⟩
  | some t =>
    simp only at h
    cases hadj : adjust t i0 with
    | ok i =>
      simp only [hadj, bind, Outcome.bind] at h
      exact ⟨i, seg_tail w w' i p _ h⟩
    | err e => simp [hadj, bind, Outcome.bind] at h
    | panic q => simp [hadj, bind, Outcome.bind] at h
    | outOfFuel q => simp [hadj, bind, Outcome.bind] at h

/-- one deleted element keeps the word inhabited -/
theorem deleteEl_keeps (orig : Word) (z : MatchEl) (w w' : Word) (pos p : SegPos) (tlc : Option (List Int))
    (hlen : 0 < w.sylls.length) (h : deleteEl orig z w pos tlc = .ok (w', p)) : 0 < w'.sylls.length := by
  cases z with
  | segment i0 st =>
    obtain ⟨i, hi⟩ := deleteEl_segment orig i0 st w w' pos p tlc h
    exact delSeg_keeps w w' i hlen hi
  | syllable i st =>
    unfold deleteEl at h
    simp only at h
    by_cases hg : w.sylls.length ≤ 1
    · rw [if_pos hg] at h; simp at h
    · rw [if_neg hg] at h
      cases hd : ({ si := i, gi := 0 } : SegPos).decrement w with
      | ok q =>
        simp only [hd, bind, Outcome.bind] at h
        cases hr : removeSyll w i "deletion: remove_syll" with
        | ok w2 =>
          simp only [hr, pure, Outcome.ok.injEq, Prod.mk.injEq] at h
          rw [← h.1, (removeSyll_len _ _ _ _ hr).2]; omega
        | err e => simp [hr] at h
        | panic q' => simp [hr] at h
        | outOfFuel q' => simp [hr] at h
      | err e => simp [hd, bind, Outcome.bind] at h
      | panic q' => simp [hd, bind, Outcome.bind] at h
      | outOfFuel q' => simp [hd, bind, Outcome.bind] at h
  | syllBound i st =>
    unfold deleteEl at h
    simp only at h
    by_cases hg : w.sylls.length ≤ 1
    · rw [if_pos hg] at h; simp at h
    · rw [if_neg hg] at h
      by_cases hi : (i == 0 || decide (i ≥ w.sylls.length)) = true
      · rw [if_pos hi] at h
        simp only [Outcome.ok.injEq, Prod.mk.injEq] at h
        rw [← h.1]; exact hlen
      · rw [if_neg hi] at h
        cases hd : ({ si := i, gi := 0 } : SegPos).decrement w with
        | ok q =>
          simp only [hd, bind, Outcome.bind] at h
          cases ha : getSyll w (i - 1) "deletion: syllables[i-1]" with
          | ok a =>
            simp only [ha] at h
            cases hc : getSyll w i "deletion: syllables[i]" with
            | ok c =>
              simp only [hc] at h
              cases hr : removeSyll (setSyll w (i - 1) { segs := a.segs ++ c.segs, stress := mergeStress a.stress c.stress, tone := concatTone a.tone c.tone }) i "deletion: syllables.remove(i)" with
              | ok w2 =>
                simp only [hr, pure, Outcome.ok.injEq, Prod.mk.injEq] at h
                rw [← h.1, (removeSyll_len _ _ _ _ hr).2, setSyll_len]; omega
              | err e => simp [hr] at h
              | panic q' => simp [hr] at h
              | outOfFuel q' => simp [hr] at h
            | err e => simp [hc] at h
            | panic q' => simp [hc] at h
            | outOfFuel q' => simp [hc] at h
          | err e => simp [ha] at h
          | panic q' => simp [ha] at h
          | outOfFuel q' => simp [ha] at h
        | err e => simp [hd, bind, Outcome.bind] at h
        | panic q' => simp [hd, bind, Outcome.bind] at h
        | outOfFuel q' => simp [hd, bind, Outcome.bind] at h

/-- **a deletion never empties the word**: all the captured elements of one match, in any number -/
theorem deleteEls_keeps (orig : Word) (tlc : Option (List Int)) : ∀ (zs : List MatchEl) (w w' : Word) (pos p : SegPos),
    0 < w.sylls.length → deleteEls orig tlc zs w pos = .ok (w', p) → 0 < w'.sylls.length
  | [], w, w', pos, p, hlen, h => by
    simp only [deleteEls, Outcome.ok.injEq, Prod.mk.injEq] at h; rw [← h.1]; exact hlen
  | z :: zs, w, w', pos, p, hlen, h => by
    rw [deleteEls] at h
    cases h1 : deleteEl orig z w pos tlc with
    | ok r =>
      obtain ⟨w1, p1⟩ := r
      simp only [h1, bind, Outcome.bind] at h
      exact deleteEls_keeps orig tlc zs w1 w' p1 p (deleteEl_keeps orig z w w1 pos p1 tlc hlen h1) h
    | err e => simp [h1, bind, Outcome.bind] at h
    | panic q => simp [h1, bind, Outcome.bind] at h
    | outOfFuel q => simp [h1, bind, Outcome.bind] at h

/-- the `Deletion` arm of `transform`: the word it returns has a syllable -/
theorem transform_deletion_keeps (fuel : Nat) (r : SubRule) (w w' : Word) (caps : List MatchEl) (next np : Option SegPos) (b b' : Binds)
    (hty : r.ruleType = .deletion) (hlen : 0 < w.sylls.length) (h : transform fuel r w caps next b = .ok (w', np, b')) :
    0 < w'.sylls.length := by
  unfold transform at h
  simp only [hty] at h
  cases hd : deleteEls w none caps.reverse w { si := 0, gi := 0 } with
  | ok v =>
    obtain ⟨w1, p1⟩ := v
    simp only [hd, bind, Outcome.bind, pure, Outcome.ok.injEq, Prod.mk.injEq] at h
    rw [← h.1]; exact deleteEls_keeps w none caps.reverse w w1 _ p1 hlen hd
  | err e => simp [hd, bind, Outcome.bind] at h
  | panic q => simp [hd, bind, Outcome.bind] at h
  | outOfFuel q => simp [hd, bind, Outcome.bind] at h

end Asca.C08Delete
