import AscaVerif.Props.C02
import AscaVerif.Model.ParseWord
/-! # C02, the word parser — `Word::new` returns on every text

`Props/C02.lean` shows that the runner returns whenever its four components do.  This file discharges the `word`
component for the modelled word parser (no custom aliases): for EVERY text, `parseWord` / `parseInput` returns a word
or a `WordSyntaxError` — never a panic, never out of steps.  Termination is by progress (every iteration of `setup`
moves the cursor forward, also through the back-off of the longest-match loop); absence of panics in the diacritic code
uses facts about the regenerated diacritic table, checked by the kernel over the whole table. -/
namespace Asca.C02
open Asca Asca.ParseWord Asca.Outcome

/-! ## the diacritic table cannot make the matcher index out of range -/

def featsOKGo : Nat → List (Option Bool) → Bool
  | _, [] => true
  | i, none :: ms => featsOKGo (i + 1) ms
  | i, some _ :: ms => (featNodeMask? i).isSome && featsOKGo (i + 1) ms

def nodesOKGo : Nat → List (Option Bool) → Bool
  | _, [] => true
  | i, none :: ms => nodesOKGo (i + 1) ms
  | i, some _ :: ms => (match NodeKind.ofNat? i with | some nk => nk.toNode?.isSome | none => false) && nodesOKGo (i + 1) ms

def diaOK (d : Gen.Dia) : Bool :=
  featsOKGo 0 d.prereqFeats && nodesOKGo 0 d.prereqNodes && d.payloadNodes.all (·.isNone) && featsOKGo 0 d.payloadFeats

/-- every diacritic of the regenerated table only names features and nodes that exist -/
theorem diacritics_ok : Gen.diacritics.all diaOK = true := by decide +kernel

theorem diaFeatsGo_ok (s : Seg) : ∀ (fs : List (Option Bool)) (i : Nat), featsOKGo i fs = true → ∃ r, s.diaFeatsGo i fs = .ok r := by
  intro fs
  induction fs with
  | nil => intro i _; exact ⟨none, rfl⟩
  | cons m ms ih =>
    intro i h
    cases m with
    | none => simpa [Seg.diaFeatsGo] using ih (i + 1) (by simpa [featsOKGo] using h)
    | some b =>
      simp only [featsOKGo, Bool.and_eq_true] at h
      unfold Seg.diaFeatsGo
      cases hf : featNodeMask? i with
      | none => rw [hf] at h; simp at h
      | some nm =>
        obtain ⟨n, mask⟩ := nm
        simp only
        by_cases hm : s.featMatch n mask b = true
        · simp only [hm, if_true]; exact ih (i + 1) h.2
        · simp only [hm]; exact ⟨some i, by simp⟩

theorem diaNodesGo_ok (s : Seg) : ∀ (ns : List (Option Bool)) (i : Nat), nodesOKGo i ns = true → ∃ r, s.diaNodesGo i ns = .ok r := by
  intro ns
  induction ns with
  | nil => intro i _; exact ⟨none, rfl⟩
  | cons m ms ih =>
    intro i h
    cases m with
    | none => simpa [Seg.diaNodesGo] using ih (i + 1) (by simpa [nodesOKGo] using h)
    | some b =>
      simp only [nodesOKGo, Bool.and_eq_true] at h
      unfold Seg.diaNodesGo
      cases hk : NodeKind.ofNat? i with
      | none => simp [hk] at h
      | some nk =>
        simp only
        cases hn : nk.toNode? with
        | none => simp [hk, hn] at h
        | some n =>
          simp only
          by_cases hm : (if b then s.isNodeSome n else s.isNodeNone n) = true
          · simp only [hm, if_true]; exact ih (i + 1) h.2
          · simp only [hm]; exact ⟨some i, by simp⟩

theorem matchDiaMods_ok (s : Seg) (nodes feats : List (Option Bool)) (hf : featsOKGo 0 feats = true) (hn : nodesOKGo 0 nodes = true) :
    ∃ r, s.matchDiaMods nodes feats = .ok r := by
  unfold Seg.matchDiaMods
  obtain ⟨r1, h1⟩ := diaFeatsGo_ok s feats 0 hf
  rw [h1]
  cases r1 with
  | some i => exact ⟨_, rfl⟩
  | none =>
    obtain ⟨r2, h2⟩ := diaNodesGo_ok s nodes 0 hn
    simp only [h2]
    cases r2 <;> exact ⟨_, rfl⟩

theorem payloadNodes_none (s : Seg) : ∀ (ns : List (Option Bool)) (i : Nat), ns.all (·.isNone) = true → Seg.diaPayloadNodesGo i ns s = .ok s := by
  intro ns
  induction ns with
  | nil => intro i _; rfl
  | cons m ms ih =>
    intro i h
    simp only [List.all_cons, Bool.and_eq_true] at h
    cases m with
    | none => simpa [Seg.diaPayloadNodesGo] using ih (i + 1) h.2
    | some b => simp at h

theorem payloadFeats_ok : ∀ (fs : List (Option Bool)) (i : Nat) (s : Seg), featsOKGo i fs = true → ∃ s', Seg.diaPayloadFeatsGo i fs s = .ok s' := by
  intro fs
  induction fs with
  | nil => intro i s _; exact ⟨s, rfl⟩
  | cons m ms ih =>
    intro i s h
    cases m with
    | none => simpa [Seg.diaPayloadFeatsGo] using ih (i + 1) s (by simpa [featsOKGo] using h)
    | some b =>
      simp only [featsOKGo, Bool.and_eq_true] at h
      unfold Seg.diaPayloadFeatsGo
      cases hf : featNodeMask? i with
      | none => rw [hf] at h; simp at h
      | some nm => obtain ⟨n, f⟩ := nm; exact ih (i + 1) _ h.2

theorem applyDiaPayload_ok (s : Seg) (d : Gen.Dia) (hd : diaOK d = true) : ∃ s', s.applyDiaPayload d = .ok s' := by
  simp only [diaOK, Bool.and_eq_true] at hd
  unfold Seg.applyDiaPayload
  rw [payloadNodes_none s d.payloadNodes 0 hd.1.2]
  exact payloadFeats_ok d.payloadFeats 0 s hd.2

/-! ## progress of the longest-match loop -/

/-- the loop never moves the cursor back, and the buffer never grows by more than the cursor moved -/
theorem growBuffer_bounds (txt : Text) : ∀ (fuel i : Nat) (buf : Text),
    i ≤ (growBuffer txt fuel i buf).2 ∧ (growBuffer txt fuel i buf).1.length + i ≤ buf.length + (growBuffer txt fuel i buf).2 := by
  intro fuel
  induction fuel with
  | zero => intro i buf; simp [growBuffer]
  | succ fuel ih =>
    intro i buf
    unfold growBuffer
    cases hc : txt[i]? with
    | none => simp
    | some c =>
      have h1 := ih (i + 1) (buf ++ [toIpa c])
      have h2 := ih (i + 1) (buf ++ [0x361])
      have h3 := ih (i + 1) (buf ++ [0x35C])
      have h4 := ih (i + 1) buf
      simp only [List.length_append, List.length_singleton] at h1 h2 h3
      simp only
      repeat' split
      all_goals (first | omega | simp)

/-- **`fill_segments` returns and moves on**: at a position inside the text it yields a syllable and a strictly later
    position, or a syntax error — never a panic -/
theorem fillSegments_progress (txt : Text) (i : Nat) (sy : Syll) (hi : i < txt.length) :
    (∃ sy' j, fillSegments txt i sy = .ok (sy', j) ∧ i < j) ∨ (∃ e, fillSegments txt i sy = .err e) := by
  unfold fillSegments
  have hsome : txt[i]? = some txt[i] := List.getElem?_eq_getElem hi
  rw [hsome]
  simp only
  by_cases hp : isPrefixKey [toIpa txt[i]] = true
  · simp only [hp, if_true]
    have hb := growBuffer_bounds txt txt.length (i + 1) [toIpa txt[i]]
    generalize hg : growBuffer txt txt.length (i + 1) [toIpa txt[i]] = g at hb
    obtain ⟨buf, j⟩ := g
    simp only at hb ⊢
    cases hl : lookup buf with
    | some seg => left; exact ⟨_, j, rfl, by omega⟩
    | none =>
      simp only
      by_cases he : buf.dropLast.isEmpty = true
      · -- the buffer is one character long: the back-off looks the same character up again and fails again
        simp only [he, if_true]
        have hlen : buf.length ≤ 1 := by
          have : buf.dropLast.length = 0 := by rw [List.isEmpty_iff.mp he]; rfl
          simp only [List.length_dropLast] at this; omega
        cases hgl : buf.getLast? with
        | none => right; exact ⟨_, rfl⟩
        | some lc =>
          have hbuf : buf = [lc] := by
            cases buf with
            | nil => simp at hgl
            | cons a as =>
              cases as with
              | nil => simp at hgl; rw [hgl]
              | cons b bs => simp at hlen
          simp only
          rw [← hbuf, hl]
          right; exact ⟨_, rfl⟩
      · simp only [he, Bool.false_eq_true, if_false]
        have hlen : 2 ≤ buf.length := by
          have : buf.dropLast ≠ [] := by intro h; apply he; simp [h]
          have : 0 < buf.dropLast.length := List.length_pos_iff.mpr this
          simp only [List.length_dropLast] at this; omega
        cases lookup buf.dropLast with
        | some seg => left; exact ⟨_, j - 1, rfl, by simp only [List.length_singleton] at hb; omega⟩
        | none => right; exact ⟨_, rfl⟩
  · simp only [hp, Bool.false_eq_true, if_false]
    cases hfd : Gen.diacritics.find? (fun d => d.chr = toIpa txt[i]) with
    | none => right; exact ⟨_, rfl⟩
    | some d =>
      simp only
      have hmem : d ∈ Gen.diacritics := List.mem_of_find?_eq_some hfd
      have hd : diaOK d = true := (List.all_eq_true.mp diacritics_ok) d hmem
      cases hs : sy.segs.getLast? with
      | none => right; exact ⟨_, rfl⟩
      | some s =>
        simp only
        have hd' := hd
        simp only [diaOK, Bool.and_eq_true] at hd'
        obtain ⟨r, hr⟩ := matchDiaMods_ok s d.prereqNodes d.prereqFeats hd'.1.1.1 hd'.1.1.2
        rw [hr]
        cases r with
        | none =>
          obtain ⟨s', hs'⟩ := applyDiaPayload_ok s d hd
          simp only [hs']
          left; exact ⟨_, i + 1, rfl, by omega⟩
        | some ib =>
          obtain ⟨ix, isNode⟩ := ib
          cases isNode <;> (right; exact ⟨_, rfl⟩)

/-! ## the main loop -/

theorem takeDigits_ge (txt : Text) : ∀ (fuel i : Nat) (acc : Text), i ≤ (takeDigits txt fuel i acc).2 := by
  intro fuel
  induction fuel with
  | zero => intro i acc; simp [takeDigits]
  | succ fuel ih =>
    intro i acc
    unfold takeDigits
    cases txt[i]? with
    | none => simp
    | some c =>
      simp only
      split
      · have := ih (i + 1) (acc ++ [c]); omega
      · simp

theorem takeDigits_progress (txt : Text) (fuel i : Nat) (acc : Text) (c : Nat) (hc : txt[i]? = some c) (hd : Text.isAsciiDigit c = true) :
    i < (takeDigits txt (fuel + 1) i acc).2 := by
  unfold takeDigits
  simp only [hc, hd, if_true]
  have := takeDigits_ge txt fuel (i + 1) (acc ++ [c])
  omega

/-- **`setup` returns**: with a step budget exceeding the characters left, the loop ends with the syllables read or with
    a syntax error — it cannot panic and cannot run out of steps -/
theorem setupLoop_returns (txt : Text) : ∀ (fuel i : Nat) (sy : Syll) (acc : List Syll), txt.length < i + fuel →
    Returns (setupLoopWith fillSegments txt fuel i sy acc) := by
  intro fuel
  induction fuel with
  | zero =>
    intro i sy acc h
    left
    have : ¬ i < txt.length := by omega
    exact ⟨(sy, acc), by simp [setupLoopWith, this]⟩
  | succ fuel ih =>
    intro i sy acc h
    unfold setupLoopWith
    cases hc : txt[i]? with
    | none => left; exact ⟨_, rfl⟩
    | some c =>
      have hi : i < txt.length := (List.getElem?_eq_some_iff.mp hc).1
      simp only
      split
      · exact ih (i + 1) _ _ (by omega)
      · split
        · split
          · exact ih (i + 1) _ _ (by omega)
          · split
            · rename_i hdig
              have hlen : txt.length = (txt.length - 1) + 1 := by omega
              have hprog : i < (takeDigits txt txt.length i []).2 := by
                rw [hlen]; exact takeDigits_progress txt _ i [] c hc hdig
              generalize takeDigits txt txt.length i [] = td at hprog
              obtain ⟨digits, j⟩ := td
              simp only at hprog ⊢
              split
              · right; exact ⟨_, rfl⟩
              · exact ih j _ _ (by omega)
            · exact ih (i + 1) _ _ (by omega)
        · split
          · cases sy.segs.getLast? with
            | none => right; exact ⟨_, rfl⟩
            | some s => exact ih (i + 1) _ _ (by omega)
          · rcases fillSegments_progress txt i sy hi with ⟨sy', j, hf, hj⟩ | ⟨e, hf⟩
            · rw [hf]; exact ih j _ _ (by omega)
            · rw [hf]; right; exact ⟨e, rfl⟩

/-- **`Word::new(text, &[])` returns for every text** -/
theorem parseWord_returns (t : Text) : Returns (parseWord t) := by
  unfold parseWord parseWordWith
  simp only
  rcases setupLoop_returns (americanistIn (respell t)) ((americanistIn (respell t)).length + 1) 0 { segs := [] } [] (by omega) with ⟨r, hr⟩ | ⟨e, he⟩
  · rw [hr]
    obtain ⟨sy, acc⟩ := r
    simp only
    repeat' split
    all_goals (first | (left; exact ⟨_, rfl⟩) | (right; exact ⟨_, rfl⟩))
  · rw [he]; right; exact ⟨e, rfl⟩

/-- and so does what `run` does to each word (normalisation first) -/
theorem parseInput_returns (t : Text) : Returns (parseInput t) := parseWord_returns _

/-- the statement is not about an empty set of behaviours: both outcomes occur (`pa` is a word, a lone diacritic is not) -/
example : (parseWord [112, 97]).isOk = true ∧ (parseWord [810]).isOk = false := by decide +kernel

end Asca.C02
