import AscaVerif.Lemmas.ALex
/-! C02 / C17 for the alias lexer: `AliasLexer::get_line` returns on every romaniser and deromaniser line, and the spans
    it reports lie inside the line.

    The model (Model/AliasLexer.lean) is `alias/lexer.rs` function by function over the same scanning state as the rule
    lexer; slicing an exhausted source is a `panic` value, a loop that does not end `outOfFuel`.  For EVERY list of code
    points and either kind of line the lexer returns a token list or an `AliasSyntaxError` (never those two values);
    every token begins at or after the previous one's end, is non-empty and ends inside the line; every error underlines
    columns inside `[0, len + 1]` with `start ≤ end`.  The replacement string (`get_unicode_string`) with its two kinds
    of escapes is covered: each round of its loop consumes a character or an escape, a backslash at the very end of the
    line is `UnknownEscapeChar`, `\u{…}` is `InvalidUnicodeEscape` unless the digits denote a Unicode scalar value. -/
namespace Asca.ALex
open Lex (LS LErr LRes)

/-- **the alias lexer returns**: a token list or a syntax error, never a panic, never an endless loop -/
theorem lexLine_returns (derom : Bool) (src : Text) : (∃ toks, lexLine derom src = .ok toks) ∨ (∃ e, lexLine derom src = .err e) := by
  have h := lineLoop_spec derom (src.length + 1) { ls := { src := src, pos := 0 } } [] (Nat.lt_succ_self _)
  unfold lexLine
  match hr : lineLoop derom (src.length + 1) { ls := { src := src, pos := 0 } } [], h with
  | .ok res, _ => exact Or.inl ⟨res, rfl⟩
  | .err e, _ => exact Or.inr ⟨e, rfl⟩

/-- **token spans**: non-empty, inside the line; the list ends with `Eol` -/
theorem lexLine_token_spans (derom : Bool) (src : Text) (toks : List AToken) (h : lexLine derom src = .ok toks) :
    (∀ t ∈ toks, t.start < t.stop ∧ t.stop ≤ src.length + 1) ∧ ∃ t, toks.getLast? = some t ∧ t.kind = .eol := by
  have hs := lineLoop_spec derom (src.length + 1) { ls := { src := src, pos := 0 } } [] (Nat.lt_succ_self _)
  unfold lexLine at h
  rw [h] at hs
  obtain ⟨new, hres, hw, ⟨t, h1, h2⟩, _⟩ := hs
  simp only [List.nil_append] at hres
  subst hres
  refine ⟨fun t' ht' => ?_, t, h1, h2⟩
  have := hw t' ht'
  simp only [ALS.total, ALS.pos, Lex.LS.total, Nat.zero_add] at this
  omega

/-- **token values**: a diacritic token indexes the diacritic table; a feature token is `tone: n` with `n < 2^16` or a
    row of the alias feature table, other than the tone, with `+` or `-` (no alpha reaches the alias parser) -/
theorem lexLine_tokens_ok (derom : Bool) (src : Text) (toks : List AToken) (h : lexLine derom src = .ok toks) :
    ∀ t ∈ toks, ATokX t := by
  have hs := lineLoop_spec derom (src.length + 1) { ls := { src := src, pos := 0 } } [] (Nat.lt_succ_self _)
  unfold lexLine at h
  rw [h] at hs
  obtain ⟨new, hres, hw, _, _⟩ := hs
  simp only [List.nil_append] at hres
  subst hres
  exact fun t' ht' => (hw t' ht').2.2.2

/-- **token order**: a token begins where the previous one ends, or later -/
theorem lexLine_sorted (derom : Bool) (src : Text) (toks : List AToken) (h : lexLine derom src = .ok toks) :
    toks.Pairwise (fun a b => a.stop ≤ b.start) := by
  have hs := lineLoop_spec derom (src.length + 1) { ls := { src := src, pos := 0 } } [] (Nat.lt_succ_self _)
  unfold lexLine at h
  rw [h] at hs
  obtain ⟨new, hres, _, _, hpw⟩ := hs
  simp only [List.nil_append] at hres
  subst hres
  exact hpw

/-- **alias lexer errors are well placed** -/
theorem lexLine_error_span (derom : Bool) (src : Text) (e : LErr) (h : lexLine derom src = .err e) :
    e.start ≤ e.stop ∧ e.stop ≤ src.length + 1 := by
  have hs := lineLoop_spec derom (src.length + 1) { ls := { src := src, pos := 0 } } [] (Nat.lt_succ_self _)
  unfold lexLine at h
  rw [h] at hs
  simp only [LineSpec, ALS.total, ALS.pos, Lex.LS.total, Nat.zero_add] at hs
  omega

/-! Non-vacuity -/
example : (match lexLine false ("ʃ, a:[+str], $ > sh, á, *".toList.map Char.toNat) with | .ok toks => toks.length | _ => 0) = 16 := by decide +kernel
example : lexLine true ("sh > a:[tone: 70000]".toList.map Char.toNat) = .err ⟨"ToneTooBig", 14, 19⟩ := by decide +kernel
example : lexLine false ("a > x\\".toList.map Char.toNat) = .err ⟨"UnknownEscapeChar", 6, 7⟩ := by decide +kernel
example : lexLine false ("a > \\u{D800}".toList.map Char.toNat) = .err ⟨"InvalidUnicodeEscape", 7, 8⟩ := by decide +kernel

end Asca.ALex
